package c13_seriesfile

import (
	"fmt"
	"os"
	"path/filepath"
	"sort"
	"strconv"
	"sync"
	"testing"

	"github.com/influxdata/influxdb/v2/tsdb"
	"pgregory.net/rapid"

	"verifharness/internal/ev"
)

const nDomain = 12

// ---- fat mode: pre-filled partitions -------------------------------------------------------

var (
	fillOnce sync.Once
	fillKeys []keyDef
)

// fillers returns a deterministic list of ~59 kB filler series that leaves room for only 1..3
// more fat entries in the first (4 MiB) segment of every partition.
func fillers() []keyDef {
	fillOnce.Do(func() {
		sf := tsdb.NewSeriesFile("") // only used for the key -> partition hash
		var used [nPart]int64
		full := 0
		var done [nPart]bool
		for i := 0; full < nPart && i < 5000; i++ {
			k := mkKey("fill/"+strconv.Itoa(i), "fill", "i", strconv.Itoa(i), "pad", padValue)
			k.part = sf.SeriesKeyPartitionID(k.enc)
			p := k.part
			if done[p] {
				continue
			}
			n := int64(entryHeader + len(k.enc))
			room := int64(p%3+1) * (n + 64)
			if segHeader+used[p]+n+room > 4<<20 {
				done[p] = true
				full++
				continue
			}
			used[p] += n
			fillKeys = append(fillKeys, k)
		}
	})
	return fillKeys
}

// fat template: the pre-filled series file is built once per process through the real API (with
// the create oracle applied) and closed cleanly; every fat history starts from a byte copy of it.
var (
	tmplOnce  sync.Once
	tmplRoot  string
	tmplModel *model
	tmplErr   error
)

func fatTemplate() (string, *model, error) {
	tmplOnce.Do(func() {
		var failed string
		m, err := newMachine(true, 0, func(key, detail string) { failed = key + ": " + detail })
		if err != nil {
			tmplErr = err
			return
		}
		fk := fillers()
		base := len(m.keys)
		m.keys = append(m.keys, fk...)
		batch := make([]int, len(fk))
		for i := range fk {
			batch[i] = base + i
		}
		m.create(batch)
		if failed == "" {
			m.check("after prefill", true)
		}
		if err := m.sf.Close(); err != nil && failed == "" {
			failed = "close: " + err.Error()
		}
		m.sf = nil
		if failed != "" {
			tmplErr = fmt.Errorf("prefill of the fat template failed: %s", failed)
			os.RemoveAll(m.root)
			return
		}
		tmplRoot, tmplModel = m.root, m.mod
	})
	return tmplRoot, tmplModel, tmplErr
}

func removeFatTemplate() {
	if tmplRoot != "" {
		os.RemoveAll(tmplRoot)
	}
}

// prefill switches a fresh fat machine over to a copy of the template.
func (m *machine) prefill() error {
	root, mod, err := fatTemplate()
	if err != nil {
		return err
	}
	if err := m.sf.Close(); err != nil {
		return err
	}
	m.sf = nil
	if err := os.RemoveAll(m.dir); err != nil {
		return err
	}
	if err := copyDir(filepath.Join(root, "g0", "_series"), m.dir); err != nil {
		return err
	}
	m.keys = append(m.keys, fillers()...)
	m.mod = mod.clone()
	m.logf("prefill(%d fat series)", len(fillers()))
	return m.open()
}

// ---- generators ----------------------------------------------------------------------------

func drawBatch(t *rapid.T, m *machine, label string, preferAbsent bool) []int {
	n := rapid.IntRange(1, 5).Draw(t, label+"-n")
	out := make([]int, 0, n)
	for i := 0; i < n; i++ {
		k := rapid.IntRange(0, nDomain-1).Draw(t, label+"-k")
		if preferAbsent && m.mod.live[k] != 0 {
			// deterministic nudge towards a key that is not live (construction, not rejection)
			for d := 1; d < nDomain; d++ {
				if m.mod.live[(k+d)%nDomain] == 0 {
					k = (k + d) % nDomain
					break
				}
			}
		}
		out = append(out, k)
	}
	return out
}

func (m *machine) liveDomainIDs() []uint64 {
	var ids []uint64
	for k := 0; k < nDomain; k++ {
		if id := m.mod.live[k]; id != 0 {
			ids = append(ids, id)
		}
	}
	sort.Slice(ids, func(i, j int) bool { return ids[i] < ids[j] })
	return ids
}

func (m *machine) deletedDomainIDs() []uint64 {
	var ids []uint64
	for id := range m.mod.deleted {
		if m.mod.keyOf[id] < nDomain {
			ids = append(ids, id)
		}
	}
	sort.Slice(ids, func(i, j int) bool { return ids[i] < ids[j] })
	return ids
}

// drawDeleteID picks mostly a live id, sometimes an already deleted one (a second shard dropping
// the same series), sometimes a live filler.
func drawDeleteID(t *rapid.T, m *machine, label string) (uint64, bool) {
	live, dead := m.liveDomainIDs(), m.deletedDomainIDs()
	if len(dead) > 0 && (len(live) == 0 || rapid.IntRange(0, 7).Draw(t, label+"-again") == 0) {
		return dead[rapid.IntRange(0, len(dead)-1).Draw(t, label+"-dead")], true
	}
	if len(live) == 0 {
		return 0, false
	}
	return live[rapid.IntRange(0, len(live)-1).Draw(t, label+"-live")], true
}

var opKinds = []string{
	"create", "create", "create", "create", "create",
	"cocreate",
	"delete", "delete", "delete",
	"deletes", "deletes", "deletes",
	"compact", "compact",
	"compact||create",
	"reopen", "reopen",
	"torn", "torn",
}

var fatChoice = []bool{false, false, false, false, false, false, false, true, false, false, false, false, false, false, false, false}

func TestPropSeriesFile(t *testing.T) {
	t.Cleanup(removeFatTemplate)
	rec.Assume("torn append model: the image of a crash during a segment append is the old file content plus a prefix of the appended bytes, the rest of the pre-allocated file still zero; data in other files is as of the moment before the append; OS-level loss or reordering of un-fsynced data is not modelled (the scratch file system is tmpfs)")
	rec.Assume("a torn append on a history that already continues on a torn image is built the same way (everything from the cut to the end of the appended bytes is zero): up to 9 bytes of an earlier torn insert header, which recovery leaves in the file in front of the data end until the next flush overwrites them, are zeroed rather than kept behind the cut, so the byte mix 'prefix of the new entry + rest of the old fragment' (two crashes at the same offset) is not generated")
	rec.Assume("deletes issued with NoFlush count as durable only after FlushSegments / a later flushing operation on the same partition / a clean close, as in the production callers (Engine.deleteSeriesRange, Store.DeleteShard)")
	rec.Assume("SeriesCount and SeriesIDIterator are only bounded (live ids are listed; count between live and ever-issued): both include deleted series by design; they are not checked after a torn image was adopted")
	nEnum := 4
	if ev.Thorough() {
		nEnum = 0
	}
	rec.CheckSteps(t, 200, 2000, 25, func(t *rapid.T) {
		fat := rapid.SampledFrom(fatChoice).Draw(t, "fat")
		threshold := rapid.SampledFrom([]int{0, 0, 1, 2, 3}).Draw(t, "threshold")
		var m *machine
		fail := func(key, detail string) {
			rec.Fail(t, "TestPropSeriesFile", key, detail, map[string]any{"history": m.ops, "fat": fat, "threshold": threshold})
		}
		var err error
		m, err = newMachine(fat, threshold, fail)
		if err != nil {
			t.Fatalf("harness: %v", err)
		}
		defer m.close()
		if fat {
			if err := m.prefill(); err != nil {
				t.Fatalf("harness: %v", err)
			}
		}
		choose := func(label string, lo, hi int64) int64 { return rapid.Int64Range(lo, hi).Draw(t, label) }
		t.Repeat(map[string]func(*rapid.T){
			"op": func(t *rapid.T) {
				kind := rapid.SampledFrom(opKinds).Draw(t, "kind")
				switch kind {
				case "create":
					m.create(drawBatch(t, m, "c", false))
				case "cocreate":
					n := rapid.IntRange(2, 4).Draw(t, "cc-n")
					bs := make([][]int, n)
					for i := range bs {
						bs[i] = drawBatch(t, m, "cc", true)
					}
					m.createConcurrent(bs)
				case "delete":
					if id, ok := drawDeleteID(t, m, "d"); ok {
						m.deleteFlush(id)
					} else {
						m.create(drawBatch(t, m, "c", false))
					}
				case "deletes":
					n := rapid.IntRange(1, 3).Draw(t, "ds-n")
					var ids []uint64
					for i := 0; i < n; i++ {
						if id, ok := drawDeleteID(t, m, "ds"); ok {
							ids = append(ids, id)
						}
					}
					if len(ids) == 0 {
						m.create(drawBatch(t, m, "c", false))
					} else {
						m.deleteBatch(ids, rapid.IntRange(0, 3).Draw(t, "ds-flush") != 0)
					}
				case "compact":
					if rapid.Bool().Draw(t, "compact-all") {
						m.compact([]int{0, 1, 2, 3, 4, 5, 6, 7})
					} else {
						m.compact([]int{rapid.IntRange(0, nPart-1).Draw(t, "compact-p")})
					}
				case "compact||create":
					m.compactWhileCreate(drawBatch(t, m, "xc", true))
				case "reopen":
					m.reopen()
				case "torn":
					batch := drawBatch(t, m, "t", true)
					if rapid.Bool().Draw(t, "torn-after-noflush-delete") {
						// buffered tombstones in front of the interrupted create, one of them for a key
						// the create brings back
						var ids []uint64
						for i := rapid.IntRange(1, 2).Draw(t, "tnd-n"); i > 0; i-- {
							if id, ok := drawDeleteID(t, m, "tnd"); ok && !m.mod.deleted[id] {
								ids = append(ids, id)
							}
						}
						if len(ids) > 0 {
							back := m.mod.keyOf[ids[0]]
							m.deleteBatch(ids, false)
							m.check("after "+m.ops[len(m.ops)-1], false)
							batch = append([]int{back}, batch...)
						}
					}
					m.tornCreate(batch, nEnum, choose, func(i int) bool { return rapid.Bool().Draw(t, "img-compact") })
				}
				m.check("after "+m.ops[len(m.ops)-1], kind == "reopen" || kind == "compact" || kind == "torn")
			},
		})
		m.reopen()
		m.check("after final reopen", true)
		rec.Eval()
		classes(m)
		if m.nonTrivial {
			rec.NonTrivial(m.render())
		}
		if rec.WantSample() && m.nonTrivial {
			rec.Sample(map[string]any{"history": m.ops, "fat": fat, "threshold": threshold})
		}
	})
}
