package c13_seriesfile

import (
	"testing"

	"verifharness/internal/ev"
)

func TestMain(m *testing.M) { ev.Main(m) }
