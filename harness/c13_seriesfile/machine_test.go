// C13 — Series IDs are unique, stable and never reused.
//
// A state machine over a real tsdb.SeriesFile (8 partitions, real directory on a RAM-backed file
// system): create batches (duplicates inside a batch, concurrent creators), delete by id (with
// flush; without flush followed or not followed by FlushSegments, as the production callers do),
// index compaction (explicit, through the built-in CompactThreshold trigger, and concurrently
// with a create), reopen, and torn segment appends (see torn_test.go). The reference model is
// key -> live id, id -> key for every id ever acknowledged, and the set of deleted ids.
package c13_seriesfile

import (
	"bytes"
	"encoding/binary"
	"fmt"
	"io"
	"os"
	"path/filepath"
	"sort"
	"strings"
	"sync"
	"time"

	"github.com/influxdata/influxdb/v2/models"
	"github.com/influxdata/influxdb/v2/tsdb"

	"verifharness/internal/ev"
	"verifharness/internal/scratch"
)

const nPart = tsdb.SeriesFilePartitionN

var rec = ev.For("C13", "fault_enumeration",
	"case = one generated create/delete/compact/reopen/torn-append history over a 12-key domain on a real SeriesFile, or one torn image (a copy of the series file in which only a prefix of the bytes of the last segment append is present, the rest still zero) reopened and compared with the model; non-trivial history = some key is created, deleted and created again with a reopen or an index compaction between the delete and the re-creation; non-trivial torn image = the cut lies strictly inside the appended bytes; distinct by rendered history (plus partition and cut offset for images)")

// keyDef is one series of the domain.
type keyDef struct {
	label string
	name  []byte
	tags  models.Tags
	enc   []byte // series key as stored (tsdb.AppendSeriesKey)
	part  int    // series file partition the key hashes to
}

func mkKey(label, name string, kv ...string) keyDef {
	m := map[string]string{}
	for i := 0; i+1 < len(kv); i += 2 {
		m[kv[i]] = kv[i+1]
	}
	k := keyDef{label: label, name: []byte(name), tags: models.NewTags(m)}
	k.enc = tsdb.AppendSeriesKey(nil, k.name, k.tags)
	return k
}

const fatPad = 59000

var padValue = strings.Repeat("p", fatPad)

// domain builds the 12-key domain; fat keys carry a ~59 kB tag value (still below the 64 KiB
// series key limit enforced by the write path) so that segments fill up and roll over.
func domain(fat bool) []keyDef {
	var out []keyDef
	for _, mm := range []string{"m0", "m1", "m2"} {
		for ti, tg := range [][]string{nil, {"a", "x"}, {"a", "y"}, {"a", "x", "b", "z"}} {
			kv := append([]string{}, tg...)
			if fat {
				kv = append(kv, "pad", padValue)
			}
			out = append(out, mkKey(fmt.Sprintf("%s/t%d", mm, ti), mm, kv...))
		}
	}
	return out
}

// model is the reference: what every acknowledged operation said.
type model struct {
	live    map[int]uint64 // key index -> id of the live series
	keyOf   map[uint64]int // every id ever acknowledged -> key index
	deleted map[uint64]bool
}

func newModel() *model {
	return &model{live: map[int]uint64{}, keyOf: map[uint64]int{}, deleted: map[uint64]bool{}}
}

func (m *model) clone() *model {
	c := newModel()
	for k, v := range m.live {
		c.live[k] = v
	}
	for k, v := range m.keyOf {
		c.keyOf[k] = v
	}
	for k, v := range m.deleted {
		c.deleted[k] = v
	}
	return c
}

func (m *model) insert(id uint64, key int) {
	m.live[key] = id
	m.keyOf[id] = key
}

func (m *model) tombstone(id uint64) {
	m.deleted[id] = true
	if k, ok := m.keyOf[id]; ok && m.live[k] == id {
		delete(m.live, k)
	}
}

// entry is one record appended to a partition's active segment.
type entry struct {
	tomb bool
	id   uint64
	key  int
	n    int64 // bytes on disk
}

func (e entry) String() string {
	if e.tomb {
		return fmt.Sprintf("tomb(%d)", e.id)
	}
	return fmt.Sprintf("ins(%d,k%d)", e.id, e.key)
}

const (
	entryHeader = 9 // flag + id
	segHeader   = 5 // "SSEG" + version
)

type failFn func(key, detail string)

// machine drives one history.
type machine struct {
	root string // scratch root of the history (removed at the end)
	dir  string // current series file directory
	gen  int    // image generation counter (directory names)
	sf   *tsdb.SeriesFile
	keys []keyDef
	fat  bool
	mod  *model
	// pending[p]: tombstones acknowledged with NoFlush and, as far as the harness can tell, not
	// yet handed to write(2) (they sit in the segment's bufio.Writer).
	pending [nPart][]entry
	// walk[p]: a known entry boundary of partition p's active segment at or below the durable size.
	walk      [nPart]int64
	walkSeg   [nPart]string
	threshold int // CompactThreshold applied to every partition after open (0 = trigger off)

	ops         []string
	fail        failFn
	tornAdopted bool // the history continues on a torn image (phantom entries may exist)
	// phantom[p]: partition p's segment holds a torn insert fragment that reads as an insert entry
	// with id 0 (known finding torn-insert-phantom-id0): while that finding is open, the index of
	// p is not compacted any more (exactly the step that turns the fragment into lost series).
	phantom [nPart]bool

	// non-trivial bookkeeping
	delSince   map[int]bool // key was deleted and not yet re-created
	barrier    map[int]bool // a reopen/compaction happened since that delete
	nonTrivial bool
	recreates  int
	rot        int
}

func newMachine(fat bool, threshold int, fail failFn) (*machine, error) {
	root, err := scratch.Dir("c13-")
	if err != nil {
		return nil, err
	}
	m := &machine{root: root, dir: filepath.Join(root, "g0", "_series"), keys: domain(fat), fat: fat,
		mod: newModel(), threshold: threshold, fail: fail, delSince: map[int]bool{}, barrier: map[int]bool{}}
	if err := m.open(); err != nil {
		os.RemoveAll(root)
		return nil, err
	}
	for i := range m.keys {
		m.keys[i].part = m.sf.SeriesKeyPartitionID(m.keys[i].enc)
	}
	return m, nil
}

func (m *machine) open() error {
	sf := tsdb.NewSeriesFile(m.dir)
	if err := sf.Open(); err != nil {
		return err
	}
	m.sf = sf
	for i, p := range sf.Partitions() {
		p.CompactThreshold = m.threshold
		if m.excludePhantom(i) {
			p.CompactThreshold = 0
		}
	}
	for p := 0; p < nPart; p++ {
		m.walk[p], m.walkSeg[p] = segHeader, ""
	}
	return nil
}

func (m *machine) excludePhantom(p int) bool {
	return m.phantom[p] && ev.KnownOpen("C13", knownPhantom)
}

func (m *machine) close() {
	if m.sf != nil {
		// after a panic inside tsdb a partition lock may be held for ever: do not wedge on it
		done := make(chan struct{})
		go func(sf *tsdb.SeriesFile) { sf.Close(); close(done) }(m.sf)
		select {
		case <-done:
		case <-time.After(5 * time.Second):
		}
		m.sf = nil
	}
	os.RemoveAll(m.root)
}

func (m *machine) logf(format string, a ...any) { m.ops = append(m.ops, fmt.Sprintf(format, a...)) }

func (m *machine) render() string { return strings.Join(m.ops, ";") }

func (m *machine) failf(key, format string, a ...any) {
	m.fail(key, fmt.Sprintf(format, a...)+" | history: "+m.render())
}

// ---------------------------------------------------------------------------------------------
// segment geometry (measured on disk, with a parser independent of tsdb)

type segState struct {
	nseg    int
	path    string
	size    int64 // tsdb's notion of the data size (includes bytes still buffered)
	durable int64 // bytes of whole entries present in the file itself
}

// parseEntryLen returns the length of the entry at b[0:], 0 if there is none (zero or invalid
// flag, or the header of an insert entry whose key was never written) and -1 if the buffer ends
// inside the entry.
//
// An insert entry is flag, id, series key, and a series key is a uvarint payload length followed
// by at least the 2-byte measurement length and the tag count (tsdb.AppendSeriesKey): its payload
// length is never zero. "0x01, 8 id bytes, 0x00" is therefore not an entry but what an append torn
// inside an insert header leaves in the zero-filled pre-allocated file. Segment recovery ends the
// log in front of such a fragment (fix f9513305e3) and the next append overwrites it, so the
// fragment can sit BETWEEN the last whole entry in the file and tsdb's data size while tombstones
// acknowledged with NoFlush are still buffered. Counting it as a 10-byte entry (as this parser did
// while recovery did) would put the "whole entries in the file" mark, and the boundary cached in
// machine.walk, into the middle of the entries that are flushed over it later.
func parseEntryLen(b []byte) int64 {
	if len(b) == 0 {
		return -1
	}
	switch b[0] {
	case 0x02:
		if len(b) < entryHeader {
			return -1
		}
		return entryHeader
	case 0x01:
		if len(b) < entryHeader+1 {
			return -1
		}
		l, n := binary.Uvarint(b[entryHeader:])
		if n <= 0 {
			return -1
		}
		if l == 0 {
			return 0
		}
		tot := int64(entryHeader) + int64(n) + int64(l)
		if tot > int64(len(b)) {
			return -1
		}
		return tot
	default:
		return 0
	}
}

// segState measures partition p's active segment.
func (m *machine) segState(p int) (segState, error) {
	part := m.sf.Partitions()[p]
	segs := part.Segments()
	if len(segs) == 0 {
		return segState{}, fmt.Errorf("partition %d has no segments", p)
	}
	act := segs[len(segs)-1]
	st := segState{nseg: len(segs), path: act.Path(), size: act.Size()}
	if m.walkSeg[p] != st.path {
		m.walkSeg[p], m.walk[p] = st.path, segHeader
	}
	from := m.walk[p]
	if from > st.size {
		from = segHeader
	}
	f, err := os.Open(st.path)
	if err != nil {
		return st, err
	}
	defer f.Close()
	buf := make([]byte, st.size-from)
	if _, err := io.ReadFull(io.NewSectionReader(f, from, st.size-from), buf); err != nil {
		return st, fmt.Errorf("reading %s [%d,%d): %w", st.path, from, st.size, err)
	}
	pos := int64(0)
	for pos < int64(len(buf)) {
		n := parseEntryLen(buf[pos:])
		if n <= 0 {
			break
		}
		pos += n
	}
	st.durable = from + pos
	m.walk[p] = st.durable
	return st, nil
}

// mustDurable asserts the flush contract: after an acknowledged create that wrote to partition p,
// a delete with flush, or FlushSegments, every byte of p's active segment has reached the file.
func (m *machine) mustDurable(p int, what string) {
	st, err := m.segState(p)
	if err != nil {
		m.failf("harness-io", "%v", err)
		return
	}
	if st.durable != st.size {
		m.failf("acked-write-not-in-file", "%s: partition %d active segment %s holds %d bytes of whole entries in the file but the data size is %d: an acknowledged operation that promises a flush left bytes outside the file (a crash now loses it)", what, p, st.path, st.durable, st.size)
	}
	m.pending[p] = nil
}

// ---------------------------------------------------------------------------------------------
// operations

func (m *machine) waitCompactions() {
	deadline := time.Now().Add(60 * time.Second)
	for _, p := range m.sf.Partitions() {
		for p.Compacting() {
			if time.Now().After(deadline) {
				rec.Inconclusive("background series partition compaction did not finish within 60 s")
				return
			}
			time.Sleep(50 * time.Microsecond)
		}
	}
}

func (m *machine) namesTags(batch []int) ([][]byte, []models.Tags) {
	names := make([][]byte, len(batch))
	tags := make([]models.Tags, len(batch))
	for i, k := range batch {
		names[i] = m.keys[k].name
		tags[i] = m.keys[k].tags.Clone()
	}
	return names, tags
}

// checkCreateResult applies the create oracle to one returned id slice against the model as it
// was before the call; fresh collects key -> new id (shared between concurrent creators).
func (m *machine) checkCreateResult(what string, batch []int, ids []uint64, fresh map[int]uint64) bool {
	if len(ids) != len(batch) {
		m.failf("create-result-length", "%s: %d ids returned for %d keys", what, len(ids), len(batch))
		return false
	}
	for i, k := range batch {
		id := ids[i]
		if id == 0 {
			m.failf("create-returned-zero-id", "%s: key %s got id 0", what, m.keys[k].label)
			return false
		}
		if want, ok := m.mod.live[k]; ok {
			if id != want {
				m.failf("id-not-stable", "%s: live key %s has id %d but create returned %d", what, m.keys[k].label, want, id)
				return false
			}
			continue
		}
		if prev, ok := fresh[k]; ok {
			if prev != id {
				m.failf("same-key-different-ids", "%s: key %s got ids %d and %d within one create round", what, m.keys[k].label, prev, id)
				return false
			}
			continue
		}
		if ok, okk := m.mod.keyOf[id]; okk {
			m.failf("id-reused", "%s: key %s (not live) was given id %d which was already used for key %s (deleted=%v)", what, m.keys[k].label, id, m.keys[ok].label, m.mod.deleted[id])
			return false
		}
		for k2, id2 := range fresh {
			if id2 == id {
				m.failf("distinct-keys-same-id", "%s: keys %s and %s both got id %d", what, m.keys[k].label, m.keys[k2].label, id)
				return false
			}
		}
		fresh[k] = id
	}
	return true
}

// commitFresh records newly created series in the model; returns the new keys per partition in
// the order of first occurrence in order.
func (m *machine) commitFresh(order []int, fresh map[int]uint64) [nPart][]int {
	var byPart [nPart][]int
	seen := map[int]bool{}
	for _, k := range order {
		id, ok := fresh[k]
		if !ok || seen[k] {
			continue
		}
		seen[k] = true
		m.mod.insert(id, k)
		byPart[m.keys[k].part] = append(byPart[m.keys[k].part], k)
		if m.delSince[k] {
			m.recreates++
			if m.barrier[k] {
				m.nonTrivial = true
			}
			delete(m.delSince, k)
			delete(m.barrier, k)
		}
	}
	return byPart
}

func (m *machine) create(batch []int) (newByPart [nPart][]int, ok bool) {
	m.logf("create%v", batch)
	names, tags := m.namesTags(batch)
	ids, err := m.sf.CreateSeriesListIfNotExists(names, tags)
	if err != nil {
		m.failf("create-error", "CreateSeriesListIfNotExists(%v): %v", batch, err)
		return newByPart, false
	}
	fresh := map[int]uint64{}
	if !m.checkCreateResult("create", batch, ids, fresh) {
		return newByPart, false
	}
	newByPart = m.commitFresh(batch, fresh)
	for p := 0; p < nPart; p++ {
		if len(newByPart[p]) > 0 {
			m.mustDurable(p, fmt.Sprintf("create%v", batch))
		}
	}
	m.waitCompactions()
	return newByPart, true
}

func (m *machine) createConcurrent(batches [][]int) {
	m.logf("cocreate%v", batches)
	res := make([][]uint64, len(batches))
	errs := make([]error, len(batches))
	var wg sync.WaitGroup
	for i := range batches {
		names, tags := m.namesTags(batches[i])
		wg.Add(1)
		go func(i int) {
			defer wg.Done()
			res[i], errs[i] = m.sf.CreateSeriesListIfNotExists(names, tags)
		}(i)
	}
	wg.Wait()
	fresh := map[int]uint64{}
	var order []int
	for i := range batches {
		if errs[i] != nil {
			m.failf("create-error", "concurrent CreateSeriesListIfNotExists(%v): %v", batches[i], errs[i])
			return
		}
		if !m.checkCreateResult(fmt.Sprintf("concurrent create #%d of %v", i, batches), batches[i], res[i], fresh) {
			return
		}
		order = append(order, batches[i]...)
	}
	byPart := m.commitFresh(order, fresh)
	for p := 0; p < nPart; p++ {
		if len(byPart[p]) > 0 {
			m.mustDurable(p, "concurrent create")
		}
	}
	m.waitCompactions()
}

func (m *machine) noteDelete(id uint64) {
	if k, ok := m.mod.keyOf[id]; ok && m.mod.live[k] == id {
		m.delSince[k] = true
		delete(m.barrier, k)
	}
}

func (m *machine) deleteFlush(id uint64) {
	m.logf("delete(%d,flush)", id)
	had := !m.mod.deleted[id]
	p, err := m.sf.DeleteSeriesID(id, tsdb.Flush)
	if err != nil {
		m.failf("delete-error", "DeleteSeriesID(%d, Flush): %v", id, err)
		return
	}
	m.noteDelete(id)
	m.mod.tombstone(id)
	if had {
		m.mustDurable(p.ID(), fmt.Sprintf("DeleteSeriesID(%d, Flush)", id))
	}
}

func (m *machine) deleteBatch(ids []uint64, flush bool) {
	m.logf("deletes(%v,noflush,flushSegments=%v)", ids, flush)
	parts := map[int]struct{}{}
	for _, id := range ids {
		had := !m.mod.deleted[id]
		p, err := m.sf.DeleteSeriesID(id, tsdb.NoFlush)
		if err != nil {
			m.failf("delete-error", "DeleteSeriesID(%d, NoFlush): %v", id, err)
			return
		}
		parts[p.ID()] = struct{}{}
		m.noteDelete(id)
		m.mod.tombstone(id)
		if had {
			m.pending[p.ID()] = append(m.pending[p.ID()], entry{tomb: true, id: id, key: m.mod.keyOf[id], n: entryHeader})
		}
	}
	if flush {
		if err := m.sf.FlushSegments(parts); err != nil {
			m.failf("flush-error", "FlushSegments: %v", err)
			return
		}
		ps := make([]int, 0, len(parts))
		for p := range parts {
			ps = append(ps, p)
		}
		sort.Ints(ps)
		for _, p := range ps {
			m.mustDurable(p, "FlushSegments")
		}
	}
}

func (m *machine) markBarrier() {
	for k := range m.delSince {
		m.barrier[k] = true
	}
}

func (m *machine) compact(parts []int) {
	m.logf("compact%v", parts)
	for _, p := range parts {
		if m.excludePhantom(p) {
			rec.ExcludedKnown(knownPhantom)
			continue
		}
		if err := tsdb.NewSeriesPartitionCompactor().Compact(m.sf.Partitions()[p]); err != nil {
			m.failf("compact-error", "Compact(partition %d): %v", p, err)
			return
		}
	}
	m.markBarrier()
}

func (m *machine) compactWhileCreate(batch []int) {
	m.logf("compact||create%v", batch)
	names, tags := m.namesTags(batch)
	// one compactor per partition at a time (the built-in trigger guarantees that with its
	// `compacting` flag; an explicit Compact does not take part in it)
	m.sf.DisableCompactions()
	defer m.sf.EnableCompactions()
	var cerr error
	var wg sync.WaitGroup
	wg.Add(1)
	go func() {
		defer wg.Done()
		for i, p := range m.sf.Partitions() {
			if m.excludePhantom(i) {
				rec.ExcludedKnown(knownPhantom)
				continue
			}
			if err := tsdb.NewSeriesPartitionCompactor().Compact(p); err != nil {
				cerr = err
				return
			}
		}
	}()
	ids, err := m.sf.CreateSeriesListIfNotExists(names, tags)
	wg.Wait()
	if cerr != nil {
		m.failf("compact-error", "Compact concurrent with create: %v", cerr)
		return
	}
	if err != nil {
		m.failf("create-error", "CreateSeriesListIfNotExists concurrent with Compact: %v", err)
		return
	}
	fresh := map[int]uint64{}
	if !m.checkCreateResult("create concurrent with compaction", batch, ids, fresh) {
		return
	}
	byPart := m.commitFresh(batch, fresh)
	for p := 0; p < nPart; p++ {
		if len(byPart[p]) > 0 {
			m.mustDurable(p, "create concurrent with compaction")
		}
	}
	m.waitCompactions()
}

func (m *machine) reopen() {
	m.logf("reopen")
	if err := m.sf.Close(); err != nil {
		m.failf("close-error", "SeriesFile.Close: %v", err)
		return
	}
	if err := m.open(); err != nil {
		m.sf = nil
		m.failf("open-error", "SeriesFile.Open after clean close: %v", err)
		return
	}
	for p := 0; p < nPart; p++ {
		m.pending[p] = nil
	}
	m.markBarrier()
}

// ---------------------------------------------------------------------------------------------
// observation

// lookup abstracts the whole series file and a partition opened on its own (as `influxd inspect
// build-tsi -compact-series-file` does).
type lookup struct {
	what      string
	idByKey   func(k keyDef) uint64
	keyByID   func(id uint64) []byte
	isDeleted func(id uint64) bool
}

func (m *machine) fileLookup(what string) lookup {
	return lookup{what: what,
		idByKey:   func(k keyDef) uint64 { return m.sf.SeriesID(k.name, k.tags, nil) },
		keyByID:   func(id uint64) []byte { return m.sf.SeriesKey(id) },
		isDeleted: func(id uint64) bool { return m.sf.IsDeleted(id) }}
}

// either describes a key whose state is undetermined after a torn append: the series may be live
// with any of the listed ids, or absent when zero is listed.
type either map[int][]uint64

// checkKeys compares the lookups of the given keys with mod; keys listed in amb may take any of
// their allowed values (the observed value is returned for them).
func (m *machine) checkKeys(l lookup, mod *model, keys []int, amb either) (map[int]uint64, bool) {
	obs := map[int]uint64{}
	for _, k := range keys {
		kd := m.keys[k]
		got := l.idByKey(kd)
		if allowed, isAmb := amb[k]; isAmb {
			ok := false
			for _, a := range allowed {
				if a == got {
					ok = true
				}
			}
			if !ok {
				m.failf("torn-series-unexpected-id", "%s: key %s touched by the interrupted append resolves to id %d, allowed %v", l.what, kd.label, got, allowed)
				return obs, false
			}
			obs[k] = got
		} else {
			want := mod.live[k]
			if got != want {
				key := "lookup-wrong-id"
				switch {
				case want != 0 && got == 0:
					key = "live-series-not-found"
				case want == 0 && got != 0:
					key = "deleted-or-absent-series-found"
				}
				m.failf(key, "%s: SeriesID(%s) = %d, model says %d", l.what, kd.label, got, want)
				return obs, false
			}
		}
		if got != 0 {
			if kb := l.keyByID(got); !bytes.Equal(kb, kd.enc) {
				m.failf("id-maps-to-wrong-key", "%s: SeriesKey(%d) = %q, want the key of %s (%d bytes)", l.what, got, trunc(kb), kd.label, len(kd.enc))
				return obs, false
			}
			if l.isDeleted(got) {
				m.failf("live-id-reported-deleted", "%s: IsDeleted(%d) is true for the live series %s", l.what, got, kd.label)
				return obs, false
			}
		}
	}
	return obs, true
}

func trunc(b []byte) string {
	if len(b) > 80 {
		return string(b[:80]) + "..."
	}
	return string(b)
}

func (m *machine) allKeys() []int {
	ks := make([]int, len(m.keys))
	for i := range ks {
		ks[i] = i
	}
	return ks
}

// someKeys: the 12 domain keys plus a rotating sample of the fat fillers (each lookup of a fat
// key moves ~200 kB).
func (m *machine) someKeys() []int {
	ks := make([]int, 0, nDomain+8)
	for i := 0; i < nDomain && i < len(m.keys); i++ {
		ks = append(ks, i)
	}
	if extra := len(m.keys) - nDomain; extra > 0 {
		for j := 0; j < 8; j++ {
			m.rot++
			ks = append(ks, nDomain+(m.rot*37)%extra)
		}
	}
	return ks
}

func sortedIDs(mm map[uint64]bool) []uint64 {
	out := make([]uint64, 0, len(mm))
	for id := range mm {
		out = append(out, id)
	}
	sort.Slice(out, func(i, j int) bool { return out[i] < out[j] })
	return out
}

// check is the invariant run after every step (full: every key, otherwise the domain plus a
// sample of the fillers).
func (m *machine) check(what string, full bool) bool {
	if m.sf == nil {
		return false
	}
	l := m.fileLookup(what)
	keys := m.someKeys()
	if full {
		keys = m.allKeys()
	}
	if _, ok := m.checkKeys(l, m.mod, keys, nil); !ok {
		return false
	}
	for _, k := range keys {
		kd := m.keys[k]
		if has, want := m.sf.HasSeries(kd.name, kd.tags, nil), m.mod.live[k] != 0; has != want {
			m.failf("hasseries-wrong", "%s: HasSeries(%s) = %v, model says %v", what, kd.label, has, want)
			return false
		}
		if id := m.mod.live[k]; id != 0 {
			name, tags := m.sf.Series(id)
			if !bytes.Equal(name, kd.name) || !tags.Equal(kd.tags) {
				m.failf("id-maps-to-wrong-key", "%s: Series(%d) = %q %v, want %s", what, id, trunc(name), len(tags), kd.label)
				return false
			}
		}
	}
	for _, id := range sortedIDs(m.mod.deleted) {
		if !m.sf.IsDeleted(id) {
			m.failf("deleted-id-not-reported-deleted", "%s: IsDeleted(%d) is false although the series (key %s) was deleted", what, id, m.keys[m.mod.keyOf[id]].label)
			return false
		}
	}
	if !m.tornAdopted {
		// SeriesIDIterator is documented as "an iterator over all the series": every live id must be
		// listed (it also lists deleted ones, which the statement does not speak about).
		seen := map[uint64]bool{}
		itr := m.sf.SeriesIDIterator()
		for {
			e, err := itr.Next()
			if err != nil {
				m.failf("iterator-error", "%s: SeriesIDIterator: %v", what, err)
				return false
			}
			if e.SeriesID == 0 {
				break
			}
			seen[e.SeriesID] = true
		}
		itr.Close()
		for k, id := range m.mod.live {
			if !seen[id] {
				m.failf("iterator-misses-live-id", "%s: SeriesIDIterator does not list live id %d (%s)", what, id, m.keys[k].label)
				return false
			}
		}
		if n := m.sf.SeriesCount(); n < uint64(len(m.mod.live)) || n > uint64(len(m.mod.keyOf)) {
			m.failf("seriescount-out-of-bounds", "%s: SeriesCount() = %d with %d live series and %d ids ever issued", what, n, len(m.mod.live), len(m.mod.keyOf))
			return false
		}
	}
	return true
}

func classes(m *machine) {
	rec.Class("history:all")
	if m.fat {
		rec.Class("history:fat-keys")
	}
	if m.threshold > 0 {
		rec.Class("history:auto-compaction-threshold")
	}
	if m.recreates > 0 {
		rec.Class("history:with-recreate-after-delete")
	}
	if m.nonTrivial {
		rec.Class("history:non-trivial")
	}
	if m.tornAdopted {
		rec.Class("history:continued-on-torn-image")
	}
	maxSeg := 0
	if m.sf != nil {
		for _, p := range m.sf.Partitions() {
			if n := len(p.Segments()); n > maxSeg {
				maxSeg = n
			}
		}
	}
	if maxSeg > 1 {
		rec.Class("history:multi-segment-partition")
	}
}
