package c13_seriesfile

import (
	"fmt"
	"os"
	"path/filepath"
	"testing"

	"github.com/influxdata/influxdb/v2/models"
	"github.com/influxdata/influxdb/v2/tsdb"

	"verifharness/internal/scratch"
)

const (
	knownPhantom       = "torn-insert-phantom-id0"
	knownCollision     = "torn-header-id-collision"    // insert fragments only
	knownTombCollision = "torn-tombstone-id-collision" // tombstone fragments
)

// reproPhantom: n series are created and acknowledged; the next insert append is torn after its
// first byte (the flag 0x01 is in the file, the id and key are not). On reopen the segment scan
// accepts the fragment as an insert entry with id 0 and key "\x00"; the next index compaction
// stores id 0 in the on-disk id->offset hash table, where a zero id means "empty slot" to the
// reader, so probe sequences passing over that slot end early and acknowledged series vanish.
func reproPhantom(n int) (lost []string, err error) {
	defer func() {
		if r := recover(); r != nil {
			err = fmt.Errorf("panic inside tsdb: %v", r)
		}
	}()
	root, err := scratch.Dir("c13-known-")
	if err != nil {
		return nil, err
	}
	defer os.RemoveAll(root)
	dir := filepath.Join(root, "_series")
	sf := tsdb.NewSeriesFile(dir)
	if err := sf.Open(); err != nil {
		return nil, err
	}
	names := make([][]byte, n)
	tags := make([]models.Tags, n)
	for i := range names {
		names[i] = []byte(fmt.Sprintf("s%d", i))
	}
	ids, err := sf.CreateSeriesListIfNotExists(names, tags)
	if err != nil {
		sf.Close()
		return nil, err
	}
	type seg struct {
		path string
		size int64
	}
	var segs []seg
	for _, p := range sf.Partitions() {
		s := p.Segments()[len(p.Segments())-1]
		segs = append(segs, seg{s.Path(), s.Size()})
	}
	if err := sf.Close(); err != nil {
		return nil, err
	}
	// the crash: in every partition one more insert entry was being appended; one byte arrived
	for _, s := range segs {
		f, err := os.OpenFile(s.path, os.O_WRONLY, 0)
		if err != nil {
			return nil, err
		}
		if _, err := f.WriteAt([]byte{0x01}, s.size); err != nil {
			f.Close()
			return nil, err
		}
		f.Close()
	}
	sf = tsdb.NewSeriesFile(dir)
	if err := sf.Open(); err != nil {
		return nil, err
	}
	defer sf.Close()
	for i := range names {
		if got := sf.SeriesID(names[i], nil, nil); got != ids[i] {
			return nil, fmt.Errorf("before compaction: SeriesID(%s) = %d, want %d", names[i], got, ids[i])
		}
	}
	for _, p := range sf.Partitions() {
		if err := tsdb.NewSeriesPartitionCompactor().Compact(p); err != nil {
			return nil, err
		}
	}
	for i := range names {
		if got := sf.SeriesID(names[i], nil, nil); got != ids[i] {
			lost = append(lost, fmt.Sprintf("%s: id %d -> %d", names[i], ids[i], got))
		}
	}
	return lost, nil
}

func TestKnown_torn_insert_phantom_id0(t *testing.T) {
	for n := 4; n <= 64; n += 4 {
		lost, err := reproPhantom(n)
		if err != nil {
			t.Fatalf("harness: %v", err)
		}
		if len(lost) > 0 {
			rec.Known(t, "TestKnown_torn_insert_phantom_id0", knownPhantom, true,
				fmt.Sprintf("%d series s0..s%d created and acknowledged; a crash leaves only the flag byte 0x01 of the next insert entry in each partition's segment; after reopen + index compaction %d acknowledged series are no longer found by SeriesID (a re-creation would give them new ids): %v", n, n-1, len(lost), lost),
				map[string]any{"series": n, "lost": lost})
			return
		}
	}
	rec.Known(t, "TestKnown_torn_insert_phantom_id0", knownPhantom, false, "", nil)
}

// reproCollision: series are created until partition 7 (ids 8, 16, ...) has issued id 264, so its
// next id is 272 = 0x0110. The next append is torn after 8 bytes: flag and the 7 high-order id
// bytes 00 00 00 00 00 00 01 are in the file. On reopen the fragment reads as an entry for id
// 0x0100 = 256, the id of an acknowledged series.
func reproCollision(flag byte) (detail string, reproduced bool, err error) {
	defer func() {
		if r := recover(); r != nil {
			err = fmt.Errorf("panic inside tsdb: %v", r)
		}
	}()
	root, err := scratch.Dir("c13-known-")
	if err != nil {
		return "", false, err
	}
	defer os.RemoveAll(root)
	dir := filepath.Join(root, "_series")
	sf := tsdb.NewSeriesFile(dir)
	if err := sf.Open(); err != nil {
		return "", false, err
	}
	var victim []byte
	var maxP7 uint64
	n := 0
	for ; maxP7 < 264 && n < 5000; n++ {
		name := []byte(fmt.Sprintf("s%d", n))
		ids, err := sf.CreateSeriesListIfNotExists([][]byte{name}, []models.Tags{nil})
		if err != nil {
			sf.Close()
			return "", false, err
		}
		if ids[0]%8 == 0 {
			if ids[0] > maxP7 {
				maxP7 = ids[0]
			}
			if ids[0] == 256 {
				victim = name
			}
		}
	}
	if victim == nil || maxP7 != 264 {
		sf.Close()
		return "", false, fmt.Errorf("could not set up partition 7 (max id %d)", maxP7)
	}
	p7 := sf.Partitions()[7]
	seg := p7.Segments()[len(p7.Segments())-1]
	path, size := seg.Path(), seg.Size()
	if err := sf.Close(); err != nil {
		return "", false, err
	}
	f, err := os.OpenFile(path, os.O_WRONLY, 0)
	if err != nil {
		return "", false, err
	}
	_, err = f.WriteAt([]byte{flag, 0, 0, 0, 0, 0, 0, 0x01}, size)
	f.Close()
	if err != nil {
		return "", false, err
	}
	sf = tsdb.NewSeriesFile(dir)
	if err := sf.Open(); err != nil {
		return "", false, err
	}
	defer sf.Close()
	want := tsdb.AppendSeriesKey(nil, victim, nil)
	gotID := sf.SeriesID(victim, nil, nil)
	gotKey := sf.SeriesKey(256)
	if gotID != 256 || string(gotKey) != string(want) {
		return fmt.Sprintf("%d series created and acknowledged (%s has id 256, partition 7 issued ids up to 264); a crash leaves the first 8 bytes % x of the next entry (id 272) in partition 7's segment; after reopen SeriesID(%s) = %d (want 256) and SeriesKey(256) = %q (want %q)",
			n, victim, []byte{flag, 0, 0, 0, 0, 0, 0, 1}, victim, gotID, gotKey, want), true, nil
	}
	return "", false, nil
}

func TestKnown_torn_header_id_collision(t *testing.T) {
	d, ok, err := reproCollision(tsdb.SeriesEntryInsertFlag)
	if err != nil {
		t.Fatalf("harness: %v", err)
	}
	rec.Known(t, "TestKnown_torn_header_id_collision", knownCollision, ok, d, map[string]any{"detail": d})
}

func TestKnown_torn_tombstone_id_collision(t *testing.T) {
	d, ok, err := reproCollision(tsdb.SeriesEntryTombstoneFlag)
	if err != nil {
		t.Fatalf("harness: %v", err)
	}
	rec.Known(t, "TestKnown_torn_tombstone_id_collision", knownTombCollision, ok, d, map[string]any{"detail": d})
}
