package c13_seriesfile

import (
	"fmt"
	"io"
	"os"
	"path/filepath"
	"sort"

	"github.com/influxdata/influxdb/v2/tsdb"

	"verifharness/internal/ev"
)

// Torn segment appends.
//
// A series segment is a pre-allocated file (4 MiB, 8 MiB, ...) that is memory-mapped for reading
// and appended to through a bufio.Writer + write(2) at the current data size. A crash in the
// middle of such an append therefore leaves the old bytes, a PREFIX of the appended bytes, and
// zeros where the rest would have been. The harness
//   1. measures, for every partition, how many bytes of whole entries are in the file itself
//      before an (eventually acknowledged) create — tombstones written with NoFlush may still be
//      buffered —
//   2. performs the create with index compactions disabled (a crash inside the create precedes any
//      compaction it would trigger),
//   3. measures again: the bytes [before.durable, after.durable) are what this create's flush
//      handed to write(2): buffered tombstones first, then the new insert entries,
//   4. builds images: a copy of the directory in which the bytes from a cut offset to
//      after.durable are zero again, and opens them with fresh objects.
// Expected state of an image: entries that lie wholly before the cut took effect, entries after
// it did not, and the entry containing the cut may or may not have taken effect (nothing else is
// allowed for it: its key resolves to the id it was given, or is absent / keeps its old id).

var copyBuf = make([]byte, 256<<10) // the harness copies from one goroutine only

// copySparse copies src to dst preserving the length but skipping holes / zero blocks.
func copySparse(src, dst string) error {
	in, err := os.Open(src)
	if err != nil {
		return err
	}
	defer in.Close()
	st, err := in.Stat()
	if err != nil {
		return err
	}
	out, err := os.Create(dst)
	if err != nil {
		return err
	}
	defer out.Close()
	size := st.Size()
	const seekData, seekHole = 3, 4
	buf := copyBuf
	off := int64(0)
	for off < size {
		d, err := in.Seek(off, seekData)
		if err != nil {
			break // ENXIO: no more data (or unsupported: then off==0 and the fallback below copies)
		}
		h, err := in.Seek(d, seekHole)
		if err != nil {
			h = size
		}
		for p := d; p < h; {
			n := int64(len(buf))
			if h-p < n {
				n = h - p
			}
			if _, err := in.ReadAt(buf[:n], p); err != nil && err != io.EOF {
				return err
			}
			if _, err := out.WriteAt(buf[:n], p); err != nil {
				return err
			}
			p += n
		}
		off = h
	}
	return out.Truncate(size)
}

func copyDir(src, dst string) error {
	if err := os.MkdirAll(dst, 0o777); err != nil {
		return err
	}
	des, err := os.ReadDir(src)
	if err != nil {
		return err
	}
	for _, de := range des {
		s, d := filepath.Join(src, de.Name()), filepath.Join(dst, de.Name())
		if de.IsDir() {
			if err := copyDir(s, d); err != nil {
				return err
			}
			continue
		}
		if err := copySparse(s, d); err != nil {
			return err
		}
	}
	return nil
}

func zeroRange(path string, from, to int64) error {
	if to <= from {
		return nil
	}
	f, err := os.OpenFile(path, os.O_WRONLY, 0)
	if err != nil {
		return err
	}
	defer f.Close()
	_, err = f.WriteAt(make([]byte, to-from), from)
	return err
}

// window is what one create's flush appended to one partition's active segment.
type window struct {
	part       int
	segName    string
	start, end int64   // file offsets: [start,end) was handed to write(2) by the create
	entries    []entry // in file order
}

// cutEffect splits the window's entries at a cut offset.
func (w window) cutEffect(cut int64) (applied int, torn int) {
	pos := w.start
	torn = -1
	for i, e := range w.entries {
		if pos+e.n <= cut {
			applied = i + 1
			pos += e.n
			continue
		}
		if cut > pos {
			torn = i
		}
		break
	}
	return applied, torn
}

// tornHeader describes a cut that falls inside the 9-byte header (flag + big-endian id) of an
// entry, after the flag byte: the fragment reads as an entry whose id is the real id with the
// unwritten low-order bytes zero.
func (w window) tornHeader(cut int64) (e entry, parsed uint64, ok bool) {
	_, torn := w.cutEffect(cut)
	if torn < 0 {
		return entry{}, 0, false
	}
	pos := w.start
	for i := 0; i < torn; i++ {
		pos += w.entries[i].n
	}
	d := cut - pos // bytes of the entry present
	if d < 1 || d > 8 {
		return entry{}, 0, false
	}
	e = w.entries[torn]
	shift := 8 * uint(9-d)
	if shift >= 64 {
		return e, 0, true
	}
	return e, e.id >> shift << shift, true
}

// phantomInsert: signature of the known finding torn-insert-phantom-id0 (an insert fragment
// whose id field reads zero).
func (w window) phantomInsert(cut int64) bool {
	e, parsed, ok := w.tornHeader(cut)
	return ok && !e.tomb && parsed == 0
}

// collidingHeader: signature of the known findings torn-header-id-collision (insert fragment) and
// torn-tombstone-id-collision (tombstone fragment): a fragment whose truncated id is neither zero
// nor the real id but the id of another series issued by the same partition; only multiples of
// 256 qualify, i.e. partition 7. Returns the key of the finding, "" if the cut is not of that kind.
func (w window) collidingHeader(cut int64, issued map[uint64]int) string {
	e, parsed, ok := w.tornHeader(cut)
	if !ok || parsed == 0 || parsed == e.id || int((parsed-1)%nPart) != w.part {
		return ""
	}
	if _, was := issued[parsed]; !was {
		return ""
	}
	if e.tomb {
		return knownTombCollision
	}
	return knownCollision
}

// imageModel derives the expected state of an image from the model after the create: entries of
// each window from index `applied` on are undone (in reverse order); the torn entry, if any,
// yields an ambiguity for its key. lost lists unflushed tombstones of partitions the create did
// not write to (not in the file at all).
func imageModel(after *model, wins []window, cuts map[int]int64, lost [nPart][]entry) (*model, either, bool) {
	img := after.clone()
	amb := either{}
	inside := false
	undo := func(e entry) {
		if e.tomb {
			delete(img.deleted, e.id)
			if k, ok := img.keyOf[e.id]; ok {
				img.live[k] = e.id
			}
		} else {
			if img.live[e.key] == e.id {
				delete(img.live, e.key)
			}
			delete(img.keyOf, e.id)
		}
	}
	// An acknowledged NoFlush tombstone that is not (wholly) in the segment file may still have
	// become durable through an index compaction that ran while it was in memory (the compacted
	// index simply omits the series): such a series may be live with its id, or gone.
	for p := 0; p < nPart; p++ {
		for i := len(lost[p]) - 1; i >= 0; i-- {
			undo(lost[p][i])
		}
		for _, e := range lost[p] {
			amb[e.key] = []uint64{e.id, 0}
		}
	}
	for _, w := range wins {
		cut, ok := cuts[w.part]
		if !ok {
			cut = w.end
		}
		applied, torn := w.cutEffect(cut)
		for i := len(w.entries) - 1; i >= applied; i-- {
			undo(w.entries[i])
		}
		for i := applied; i < len(w.entries); i++ {
			e := w.entries[i]
			switch {
			case e.tomb:
				amb[e.key] = []uint64{e.id, 0}
			case i == torn:
				// before: absent (a tombstone of the key's previous id precedes in the same append
				// and is applied); after: e.id
				amb[e.key] = []uint64{img.live[e.key], e.id}
			}
		}
		if torn >= 0 || (cut > w.start && cut < w.end) {
			inside = true
		}
	}
	return img, amb, inside
}

// resolve folds the observed state of ambiguous keys into the image model.
func resolve(img *model, amb either, obs map[int]uint64, wins []window) {
	for k, got := range obs {
		if _, isAmb := amb[k]; !isAmb {
			continue
		}
		cur := img.live[k]
		if got == cur {
			continue
		}
		if got == 0 {
			img.tombstone(cur)
		} else {
			img.insert(got, k)
		}
	}
}

// tornCreate performs the whole torn-append action. batch is the create to interrupt; cutSel
// picks cut offsets (deterministically from rapid draws made by the caller).
type cutChooser func(label string, lo, hi int64) int64

func (m *machine) tornCreate(batch []int, nEnum int, choose cutChooser, compactImage func(i int) bool) {
	var before, after [nPart]segState
	var pendBefore [nPart][]entry
	for p := 0; p < nPart; p++ {
		st, err := m.segState(p)
		if err != nil {
			m.failf("harness-io", "%v", err)
			return
		}
		before[p] = st
		pendBefore[p] = append([]entry(nil), m.pending[p]...)
	}
	m.sf.DisableCompactions()
	m.logf("torn:")
	newByPart, ok := m.create(batch)
	m.sf.EnableCompactions()
	if !ok {
		return
	}
	var wins []window
	var lost [nPart][]entry
	for p := 0; p < nPart; p++ {
		st, err := m.segState(p)
		if err != nil {
			m.failf("harness-io", "%v", err)
			return
		}
		after[p] = st
		if after[p].nseg != before[p].nseg || after[p].path != before[p].path {
			rec.Class("torn:segment-rollover-in-create")
			continue // the old segment was closed (flushed); the append went to a fresh file: not torn here
		}
		if after[p].durable == before[p].durable {
			// nothing reached the file: buffered tombstones are not in any image
			if before[p].durable < before[p].size {
				lost[p] = pendBefore[p]
			}
			continue
		}
		w := window{part: p, segName: filepath.Base(after[p].path), start: before[p].durable, end: after[p].durable}
		if before[p].durable < before[p].size {
			w.entries = append(w.entries, pendBefore[p]...)
		}
		for _, k := range newByPart[p] {
			w.entries = append(w.entries, entry{id: m.mod.live[k], key: k, n: entryHeader + int64(len(m.keys[k].enc))})
		}
		tot := int64(0)
		for _, e := range w.entries {
			tot += e.n
		}
		if w.start+tot != w.end {
			m.failf("harness-window-mismatch", "partition %d: file grew from %d to %d bytes of entries but the harness expects %v (%d bytes)", p, w.start, w.end, w.entries, tot)
			return
		}
		wins = append(wins, w)
	}
	if len(wins) == 0 {
		rec.Class("torn:create-wrote-nothing")
		return
	}
	rec.Class("torn:actions")

	// (a) enumerate cuts of one window on a copy of that partition alone
	wi := int(choose("win", 0, int64(len(wins)-1)))
	w := wins[wi]
	cuts := m.enumCuts(w, nEnum, choose)
	for i, cut := range cuts {
		m.partitionImage(w, cut, wins, lost, compactImage(i))
	}

	// (b) continue the history on a whole-file image with an independent cut per window
	sel := map[int]int64{}
	for _, w := range wins {
		sel[w.part] = m.pickCut(w, choose, fmt.Sprintf("adopt%d", w.part))
		if w.phantomInsert(sel[w.part]) && ev.KnownOpen("C13", knownPhantom) && choose(fmt.Sprintf("adopt%d-keep-phantom", w.part), 0, 3) != 0 {
			// a phantom fragment freezes index compaction of the partition for the rest of the
			// history (exclusion of the known finding): adopt most histories with the header
			// complete instead; header cuts stay covered by the partition images
			_, torn := w.cutEffect(sel[w.part])
			pos := w.start
			for i := 0; i < torn; i++ {
				pos += w.entries[i].n
			}
			sel[w.part] = pos + entryHeader
		}
		if k := w.collidingHeader(sel[w.part], m.mod.keyOf); k != "" && ev.KnownOpen("C13", k) {
			rec.ExcludedKnown(k)
			sel[w.part] = w.end // adopt the complete append instead
		}
	}
	m.adoptImage(wins, sel, lost)
}

// interesting offsets inside a window: entry starts +0/+1/+8/+9/+10 and ends -1.
func (w window) marks() []int64 {
	var out []int64
	pos := w.start
	for _, e := range w.entries {
		for _, d := range []int64{0, 1, 8, 9, 10, e.n - 1} {
			if d >= 0 && d <= e.n {
				out = append(out, pos+d)
			}
		}
		pos += e.n
	}
	out = append(out, w.end)
	sort.Slice(out, func(i, j int) bool { return out[i] < out[j] })
	uniq := out[:0]
	for i, v := range out {
		if i == 0 || v != out[i-1] {
			uniq = append(uniq, v)
		}
	}
	return uniq
}

func (m *machine) pickCut(w window, choose cutChooser, label string) int64 {
	mk := w.marks()
	switch choose(label+"-mode", 0, 3) {
	case 0:
		return choose(label+"-any", w.start, w.end)
	default:
		return mk[choose(label+"-mark", 0, int64(len(mk)-1))]
	}
}

func (m *machine) enumCuts(w window, n int, choose cutChooser) []int64 {
	if n <= 0 || int64(n) >= w.end-w.start+1 {
		// every offset
		if w.end-w.start+1 <= 4096 {
			out := make([]int64, 0, w.end-w.start+1)
			for c := w.start; c <= w.end; c++ {
				out = append(out, c)
			}
			return out
		}
		n = 64
	}
	seen := map[int64]bool{}
	var out []int64
	for i := 0; i < n; i++ {
		c := m.pickCut(w, choose, fmt.Sprintf("enum%d", i))
		if !seen[c] {
			seen[c] = true
			out = append(out, c)
		}
	}
	return out
}

func (m *machine) keysOfPart(p int) []int {
	var ks []int
	for i, k := range m.keys {
		if k.part == p {
			ks = append(ks, i)
		}
	}
	return ks
}

func (m *machine) describeCut(w window, cut int64) string {
	applied, torn := w.cutEffect(cut)
	s := fmt.Sprintf("partition %d segment %s append [%d,%d) entries %v cut at %d (%d whole", w.part, w.segName, w.start, w.end, w.entries, cut, applied)
	if torn >= 0 {
		pos := w.start
		for i := 0; i < torn; i++ {
			pos += w.entries[i].n
		}
		s += fmt.Sprintf(", %v torn after %d of %d bytes", w.entries[torn], cut-pos, w.entries[torn].n)
	}
	return s + ")"
}

// partitionImage builds the image of one partition alone, opens it as a stand-alone
// SeriesPartition and checks it; optionally compacts its index and checks again; finally creates
// every absent key of the partition and demands fresh ids.
func (m *machine) partitionImage(w window, cut int64, wins []window, lost [nPart][]entry, compact bool) {
	if k := w.collidingHeader(cut, m.mod.keyOf); k != "" {
		rec.Class("torn:cut-leaves-colliding-truncated-id")
		if ev.KnownOpen("C13", k) {
			rec.ExcludedKnown(k)
			return
		}
	}
	m.gen++
	dst := filepath.Join(m.root, fmt.Sprintf("p%d", m.gen))
	defer os.RemoveAll(dst)
	pdir := filepath.Join(dst, fmt.Sprintf("%02x", w.part))
	if err := copyDir(m.sf.SeriesPartitionPath(w.part), pdir); err != nil {
		m.failf("harness-io", "copy partition: %v", err)
		return
	}
	if err := zeroRange(filepath.Join(pdir, w.segName), cut, w.end); err != nil {
		m.failf("harness-io", "tear: %v", err)
		return
	}
	img, amb, inside := imageModel(m.mod, wins, map[int]int64{w.part: cut}, lost)
	desc := "torn image: " + m.describeCut(w, cut)
	part := tsdb.NewSeriesPartition(w.part, pdir, nil)
	if err := part.Open(); err != nil {
		m.failf("torn-image-does-not-open", "%s: SeriesPartition.Open: %v", desc, err)
		return
	}
	defer part.Close()
	l := lookup{what: desc,
		idByKey:   func(k keyDef) uint64 { return part.FindIDBySeriesKey(k.enc) },
		keyByID:   func(id uint64) []byte { return part.SeriesKey(id) },
		isDeleted: func(id uint64) bool { return part.IsDeleted(id) }}
	keys := m.keysOfPart(w.part)
	rec.Eval()
	rec.Class("torn:partition-images")
	applied, torn := w.cutEffect(cut)
	switch {
	case torn >= 0 && w.entries[torn].tomb:
		rec.Class("torn:cut-inside-tombstone")
	case torn >= 0:
		pos := w.start
		for i := 0; i < torn; i++ {
			pos += w.entries[i].n
		}
		switch d := cut - pos; {
		case d < entryHeader:
			rec.Class("torn:cut-inside-insert-header")
		default:
			rec.Class("torn:cut-inside-insert-key")
		}
	case applied == len(w.entries):
		rec.Class("torn:cut-at-end(complete)")
	case cut == w.start:
		rec.Class("torn:cut-at-start(nothing)")
	default:
		rec.Class("torn:cut-on-entry-boundary")
	}
	if inside {
		rec.NonTrivial(fmt.Sprintf("%s|p%d|%d", m.render(), w.part, cut))
	}
	obs, ok := m.checkKeys(l, img, keys, amb)
	if !ok {
		return
	}
	resolve(img, amb, obs, wins)
	if compact && (w.phantomInsert(cut) || m.phantom[w.part]) && ev.KnownOpen("C13", knownPhantom) {
		rec.ExcludedKnown(knownPhantom)
		compact = false
	}
	if compact {
		rec.Class("torn:partition-images-compacted")
		if err := tsdb.NewSeriesPartitionCompactor().Compact(part); err != nil {
			m.failf("compact-error", "%s: Compact: %v", desc, err)
			return
		}
		l.what = desc + " after index compaction"
		if _, ok := m.checkKeys(l, img, keys, nil); !ok {
			return
		}
	}
	// subsequent creates still yield fresh ids
	var absent []int
	for _, k := range keys {
		if img.live[k] == 0 {
			absent = append(absent, k)
		}
	}
	if len(absent) > 0 {
		encs := make([][]byte, len(absent))
		pids := make([]int, len(absent))
		ids := make([]uint64, len(absent))
		for i, k := range absent {
			encs[i], pids[i] = m.keys[k].enc, w.part
		}
		if err := part.CreateSeriesListIfNotExists(encs, pids, ids); err != nil {
			m.failf("create-error", "%s: create on the image: %v", desc, err)
			return
		}
		save := m.mod
		m.mod = img
		ok := m.checkCreateResult(desc+": create on the image", absent, ids, map[int]uint64{})
		m.mod = save
		if !ok {
			return
		}
		for i, k := range absent {
			img.insert(ids[i], k)
		}
		l.what = desc + " after creating the absent keys"
		if _, ok := m.checkKeys(l, img, keys, nil); !ok {
			return
		}
	}
}

// adoptImage builds a whole-file image, switches the history over to it and resolves the
// ambiguities by observation.
func (m *machine) adoptImage(wins []window, cuts map[int]int64, lost [nPart][]entry) {
	m.gen++
	dst := filepath.Join(m.root, fmt.Sprintf("g%d", m.gen), "_series")
	if err := copyDir(m.dir, dst); err != nil {
		m.failf("harness-io", "copy series file: %v", err)
		return
	}
	var descs []string
	for _, w := range wins {
		if err := zeroRange(filepath.Join(dst, fmt.Sprintf("%02x", w.part), w.segName), cuts[w.part], w.end); err != nil {
			m.failf("harness-io", "tear: %v", err)
			return
		}
		descs = append(descs, m.describeCut(w, cuts[w.part]))
	}
	img, amb, inside := imageModel(m.mod, wins, cuts, lost)
	old := filepath.Dir(m.dir)
	if err := m.sf.Close(); err != nil {
		m.failf("close-error", "SeriesFile.Close: %v", err)
		return
	}
	m.sf = nil
	os.RemoveAll(old)
	m.dir = dst
	m.logf("adopt-image%v", cutList(wins, cuts))
	for _, w := range wins {
		if w.phantomInsert(cuts[w.part]) {
			m.phantom[w.part] = true
			rec.Class("torn:adopted-image-with-phantom-id0-entry")
		}
	}
	if err := m.open(); err != nil {
		m.sf = nil
		m.failf("torn-image-does-not-open", "torn image %v: SeriesFile.Open: %v", descs, err)
		return
	}
	for p := 0; p < nPart; p++ {
		m.pending[p] = nil
	}
	rec.Eval()
	rec.Class("torn:whole-file-images")
	if inside {
		rec.NonTrivial(fmt.Sprintf("%s|adopt", m.render()))
		m.tornAdopted = true
	}
	// an undone delete is no longer "deleted and awaiting re-creation"
	l := m.fileLookup(fmt.Sprintf("whole-file torn image %v", descs))
	obs, ok := m.checkKeys(l, img, m.allKeys(), amb)
	if !ok {
		return
	}
	resolve(img, amb, obs, wins)
	m.mod = img
	for k := range m.delSince {
		if m.mod.live[k] != 0 {
			delete(m.delSince, k)
			delete(m.barrier, k)
		}
	}
	m.markBarrier()
}

func cutList(wins []window, cuts map[int]int64) []string {
	var out []string
	for _, w := range wins {
		out = append(out, fmt.Sprintf("p%d@%d/[%d,%d)", w.part, cuts[w.part], w.start, w.end))
	}
	return out
}
