package c13_seriesfile

import (
	"bytes"
	"encoding/binary"
	"fmt"
	"os"
	"path/filepath"
	"testing"

	"github.com/influxdata/influxdb/v2/models"
	"github.com/influxdata/influxdb/v2/tsdb"

	"verifharness/internal/scratch"
)

// A scripted case, built by hand against the real API (none of the machine's bookkeeping): an
// insert append is torn inside its 9-byte header (d = 1..9 bytes arrived: flag + part of the id,
// the key length byte is still zero). After reopen the log ends in front of the fragment. Two
// deletes acknowledged with NoFlush follow (buffered: the fragment is still what the file holds
// at the data end) and then a create in the same partition, which promises a flush. Demanded:
//   - the bytes [data end before, Size()) of the file are exactly tomb, tomb, insert: the flush
//     wrote the acknowledged entries at the right offset, over the fragment,
//   - a crash image taken right after the create, and the cleanly reopened file, resolve the new
//     series to the acknowledged id and key, report the two deleted ids as deleted and keep the
//     untouched series,
//   - the harness' own entry parser (parseEntryLen, used for "bytes of whole entries in the
//     file") ends at the fragment before the create and at Size() after it.
//
// This is the situation in which the generated search once took the fragment for a 10-byte entry
// and then reported acked-write-not-in-file for a create that was flushed correctly.
func TestPropScriptedTornHeaderOverwritten(t *testing.T) {
	const test = "TestPropScriptedTornHeaderOverwritten"
	for d := 1; d <= entryHeader; d++ {
		d := d
		var hist []string
		fail := func(key, format string, a ...any) {
			rec.Fail(t, test, key, fmt.Sprintf("insert header torn after %d bytes: ", d)+fmt.Sprintf(format, a...), map[string]any{"torn_after": d, "history": hist})
		}
		func() {
			root, err := scratch.Dir("c13-scripted-")
			if err != nil {
				t.Fatalf("harness: %v", err)
			}
			defer os.RemoveAll(root)
			dir := filepath.Join(root, "g0", "_series")
			sf := tsdb.NewSeriesFile(dir)
			if err := sf.Open(); err != nil {
				t.Fatalf("harness: %v", err)
			}
			closed := false
			defer func() {
				if !closed {
					sf.Close()
				}
			}()

			// three series in partition 7 (ids 8, 16, 24), whatever else it takes to get them
			type ser struct {
				name []byte
				id   uint64
			}
			var all, p7 []ser
			for i := 0; len(p7) < 3 && i < 1000; i++ {
				name := []byte(fmt.Sprintf("s%d", i))
				ids, err := sf.CreateSeriesListIfNotExists([][]byte{name}, []models.Tags{nil})
				if err != nil {
					fail("create-error", "%v", err)
					return
				}
				all = append(all, ser{name, ids[0]})
				if sf.SeriesKeyPartitionID(tsdb.AppendSeriesKey(nil, name, nil)) == 7 {
					p7 = append(p7, ser{name, ids[0]})
				}
			}
			var fresh []byte
			for i := 1000; fresh == nil; i++ {
				name := []byte(fmt.Sprintf("s%d", i))
				if sf.SeriesKeyPartitionID(tsdb.AppendSeriesKey(nil, name, nil)) == 7 {
					fresh = name
				}
			}
			freshEnc := tsdb.AppendSeriesKey(nil, fresh, nil)
			hist = append(hist, fmt.Sprintf("create s0..s%d (partition 7: %s=%d %s=%d %s=%d)", len(all)-1, p7[0].name, p7[0].id, p7[1].name, p7[1].id, p7[2].name, p7[2].id))
			act := func() *tsdb.SeriesSegment {
				segs := sf.Partitions()[7].Segments()
				return segs[len(segs)-1]
			}
			path, end := act().Path(), act().Size()
			if err := sf.Close(); err != nil {
				fail("close-error", "%v", err)
				return
			}
			closed = true

			// the crash: the next insert entry of partition 7 (id 32) was being appended; d bytes arrived
			frag := make([]byte, entryHeader)
			frag[0] = tsdb.SeriesEntryInsertFlag
			binary.BigEndian.PutUint64(frag[1:], p7[2].id+nPart)
			f, err := os.OpenFile(path, os.O_WRONLY, 0)
			if err != nil {
				t.Fatalf("harness: %v", err)
			}
			_, err = f.WriteAt(frag[:d], end)
			f.Close()
			if err != nil {
				t.Fatalf("harness: %v", err)
			}
			hist = append(hist, fmt.Sprintf("close; % x written at the data end %d of %s; open", frag[:d], end, path))

			sf = tsdb.NewSeriesFile(dir)
			if err := sf.Open(); err != nil {
				fail("torn-image-does-not-open", "%v", err)
				return
			}
			closed = false
			if got := act().Size(); got != end {
				fail("torn-fragment-accepted", "after reopen the data size of partition 7's segment is %d, want %d (the log ends in front of a header without a key)", got, end)
				return
			}
			scan := func() int64 {
				b, err := os.ReadFile(path)
				if err != nil {
					t.Fatalf("harness: %v", err)
				}
				b = b[:act().Size()]
				pos := int64(segHeader)
				for pos < int64(len(b)) {
					n := parseEntryLen(b[pos:])
					if n <= 0 {
						break
					}
					pos += n
				}
				return pos
			}
			for _, s := range p7[:2] {
				if _, err := sf.DeleteSeriesID(s.id, tsdb.NoFlush); err != nil {
					fail("delete-error", "%v", err)
					return
				}
			}
			hist = append(hist, fmt.Sprintf("delete %d, %d (NoFlush)", p7[0].id, p7[1].id))
			if got := act().Size(); got != end+2*entryHeader {
				fail("harness-window-mismatch", "data size after two tombstones is %d, want %d", got, end+2*entryHeader)
				return
			}
			// the tombstones are acknowledged without a flush: whether they are in the file yet is
			// tsdb's business, but the mark must be an entry boundary, never inside the fragment
			if got := scan(); got != end && got != end+entryHeader && got != end+2*entryHeader {
				fail("harness-parser", "the harness' scan of whole entries in the file ends at %d, which is not an entry boundary (data end before the fragment %d, two buffered tombstones)", got, end)
				return
			}

			ids, err := sf.CreateSeriesListIfNotExists([][]byte{fresh}, []models.Tags{nil})
			if err != nil {
				fail("create-error", "%v", err)
				return
			}
			id := ids[0]
			hist = append(hist, fmt.Sprintf("create %s = %d", fresh, id))
			for _, s := range all {
				if s.id == id {
					fail("id-reused", "new series %s was given id %d of the acknowledged series %s", fresh, id, s.name)
					return
				}
			}
			if id == 0 || (id-1)%nPart != 7 {
				fail("create-returned-zero-id", "new series %s of partition 7 was given id %d", fresh, id)
				return
			}
			var want []byte
			for _, s := range p7[:2] {
				want = tsdb.AppendSeriesEntry(want, tsdb.SeriesEntryTombstoneFlag, s.id, nil)
			}
			want = tsdb.AppendSeriesEntry(want, tsdb.SeriesEntryInsertFlag, id, freshEnc)
			size := act().Size()
			b, err := os.ReadFile(path)
			if err != nil {
				t.Fatalf("harness: %v", err)
			}
			if size != end+int64(len(want)) || !bytes.Equal(b[end:size], want) {
				fail("acked-write-not-in-file", "after the acknowledged create the data size is %d (want %d) and the file holds % x at [%d,%d), want % x", size, end+int64(len(want)), b[end:end+int64(len(want))], end, end+int64(len(want)), want)
				return
			}
			if rest := bytes.TrimRight(b[size:], "\x00"); len(rest) != 0 {
				fail("acked-write-not-in-file", "%d non-zero bytes follow the data end %d", len(rest), size)
				return
			}
			if got := scan(); got != size {
				fail("harness-parser", "the harness' scan of whole entries in the file ends at %d, data size %d", got, size)
				return
			}

			verify := func(what string, x *tsdb.SeriesFile) bool {
				if got := x.SeriesID(fresh, nil, nil); got != id {
					fail("live-series-not-found", "%s: SeriesID(%s) = %d, acknowledged id %d", what, fresh, got, id)
					return false
				}
				if got := x.SeriesKey(id); !bytes.Equal(got, freshEnc) {
					fail("id-maps-to-wrong-key", "%s: SeriesKey(%d) = %q, want %q", what, id, got, freshEnc)
					return false
				}
				if x.IsDeleted(id) {
					fail("live-id-reported-deleted", "%s: IsDeleted(%d)", what, id)
					return false
				}
				for _, s := range all {
					wantID := s.id
					if s.id == p7[0].id || s.id == p7[1].id {
						wantID = 0
						if !x.IsDeleted(s.id) {
							fail("deleted-id-not-reported-deleted", "%s: IsDeleted(%d) is false", what, s.id)
							return false
						}
					}
					if got := x.SeriesID(s.name, nil, nil); got != wantID {
						fail("lookup-wrong-id", "%s: SeriesID(%s) = %d, want %d", what, s.name, got, wantID)
						return false
					}
				}
				again, err := x.CreateSeriesListIfNotExists([][]byte{fresh}, []models.Tags{nil})
				if err != nil || again[0] != id {
					fail("id-not-stable", "%s: creating %s again returns %v %v, want %d", what, fresh, again, err, id)
					return false
				}
				return true
			}
			if !verify("same process", sf) {
				return
			}
			// crash image right after the acknowledged create
			img := filepath.Join(root, "g1", "_series")
			if err := copyDir(dir, img); err != nil {
				t.Fatalf("harness: %v", err)
			}
			isf := tsdb.NewSeriesFile(img)
			if err := isf.Open(); err != nil {
				fail("torn-image-does-not-open", "crash image after the create: %v", err)
				return
			}
			ok := verify("crash image taken after the create", isf)
			isf.Close()
			if !ok {
				return
			}
			if err := sf.Close(); err != nil {
				fail("close-error", "%v", err)
				return
			}
			closed = true
			sf = tsdb.NewSeriesFile(dir)
			if err := sf.Open(); err != nil {
				fail("open-error", "%v", err)
				return
			}
			closed = false
			if !verify("after close and reopen", sf) {
				return
			}
			rec.Eval()
			rec.Class("scripted:torn-insert-header-then-buffered-tombstones-then-create")
		}()
	}
}
