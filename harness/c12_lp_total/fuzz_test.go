// C12 — native fuzz targets (thorough tier; their seed corpus also runs as plain tests in the quick tier).
// The oracle is inside the target: see checkArbitrary / checkPoint in oracle_test.go.
package c12_lp_total

import (
	"bytes"
	"compress/gzip"
	"context"
	"fmt"
	"io"
	"reflect"
	"strings"
	"testing"

	"github.com/influxdata/influxdb/v2/http/points"
	"github.com/influxdata/influxdb/v2/kit/platform"
	"github.com/influxdata/influxdb/v2/models"

	"verifharness/internal/lpgen"
)

// seeds: valid lines taken from models/points_test.go and tsdb/README.md, plus hostile constants.
var fuzzSeeds = []string{
	"cpu,host=serverA,region=us-west value=1.0 1000000000",
	"cpu,host=server01,region=uswest value=1 1434055562000000000\n",
	`cpu\,01,host=serverA,region=us-west value=1i`,
	`cpu,host=server\ A,region=us\ west load=10,alert=true,reason="value above maximum threshold"`,
	`cpu,regions=\\ east value=1.0`,
	`cpu,reg\\=ion=east value=1.0`,
	`cpu value="test\\\"" 1000000000`,
	"cpu value=\"a\nb\" 1\ncpu value=2 2\n",
	"# comment\n\n  \ncpu value=1u 1\n#another\nmem,t=v used=2i,free=3.5e3,ok=T -5",
	`"cpu","host"="serverA" value=1.0 1000000000`,
	"cpu value=9223372036854775807i 9223372036854775806",
	"cpu value=-9223372036854775808i -9223372036854775806",
	"cpu value=18446744073709551615u 9223372036854775807",
	"cpu value=1.7976931348623157e308,v2=-0,v3=4.9e-324",
	"cpu,host=a,host=b value=1",
	"cpu,b=1,a=2,c=3 value=1\ncpu,b=1,a=2,b=3 value=1",
	"cpu,host= value=1\ncpu, value=1\ncpu,=a value=1\n,a=b value=1",
	"cpu value=\ncpu value\ncpu value=1,\ncpu =1\ncpu value=1 2 3",
	"cpu value=tru\ncpu value=TRue\ncpu value=1.1i\ncpu value=1e400\ncpu value=NaN",
	"cpu value=\"unbalanced 1\ncpu value=1 1",
	"cpu value=1 1\\\ncpu value=2 2",
	"cpu,time=1 value=1\ncpu,_field=1 value=1\ncpu,_measurement=1 value=1",
	"cpu \t=1\ncpu \x00=1",
	`cpu a\\="b="`,
	`0 0=""\,"="`,
	`0 0=""\,"=,=0"`,
	`0 0=""="","="`,
	"\\\\\\\\,,,,====    \"\"\"\"\n\n\n####",
	strings.Repeat("\\", 64) + strings.Repeat(",", 8) + strings.Repeat("=", 8) + " " + strings.Repeat("\"", 7),
	"\xff\xff\xff\xff \xff=\xff \xff",
	"m," + strings.Repeat("k", 300) + "=" + strings.Repeat("v", 300) + " f=1",
}

// safeFields reads the fields; a panic (known finding accepted-point-fields-unreadable, judged by
// checkPoint) is turned into an error so that both parsers can still be compared.
func safeFields(p models.Point) (fs models.Fields, err error) {
	defer func() {
		if r := recover(); r != nil {
			fs, err = nil, fmt.Errorf("panic: %v", r)
		}
	}()
	return p.Fields()
}

func precisionOf(b uint8) string { return lpgen.Precisions[int(b)%len(lpgen.Precisions)] }

func FuzzParsePoints(f *testing.F) {
	for i, s := range fuzzSeeds {
		f.Add([]byte(s), uint8(i))
	}
	// exactly at / one over the key-length limit
	pad := lpgen.MaxKeyLength - len("m,pad=") - 4 - len("f")
	f.Add([]byte("m,pad="+strings.Repeat("v", pad)+" f=1 1"), uint8(0))
	f.Add([]byte("m,pad="+strings.Repeat("v", pad+1)+" f=1 1"), uint8(0))
	f.Fuzz(func(t *testing.T, data []byte, pb uint8) {
		prec := precisionOf(pb)
		o := checkArbitrary(data, prec)
		rec.Eval()
		rec.Class("FuzzParsePoints:executions")
		if o.points > 0 || o.named > 0 {
			nonTrivial("FuzzParsePoints|" + prec + "|" + string(data))
		}
		if o.key != "" {
			rec.Fail(t, "FuzzParsePoints", o.key, o.det, map[string]any{"precision": prec, "input": clip(string(data)), "input_hex": clip(fmt.Sprintf("%x", data))})
		}
	})
}

// FuzzPointsParser drives the HTTP write path's parser (http/points.Parser.Parse), plain and through the
// gzip batch reader, and compares it with the direct parser: the request is refused iff the direct
// parser reports an error (then the error text carries the direct parser's list of rejected lines),
// otherwise exactly the same points come back and RawSize is the uncompressed size.
func FuzzPointsParser(f *testing.F) {
	for i, s := range fuzzSeeds {
		f.Add([]byte(s), uint8(i), uint8(i%3))
	}
	f.Fuzz(func(t *testing.T, data []byte, pb uint8, mode uint8) {
		prec := precisionOf(pb)
		c := map[string]any{"precision": prec, "mode": mode % 3, "input": clip(string(data)), "input_hex": clip(fmt.Sprintf("%x", data))}
		fail := func(key, detail string) { rec.Fail(t, "FuzzPointsParser", key, clip(detail), c) }
		defer func() {
			if r := recover(); r != nil {
				fail("parser-panics", fmt.Sprintf("http/points.Parser.Parse (or reading its result) panicked: %v", r))
			}
		}()
		rec.Eval()
		rec.Class(fmt.Sprintf("FuzzPointsParser:mode=%d", mode%3))
		var rc io.ReadCloser
		switch mode % 3 {
		case 0:
			rc = io.NopCloser(bytes.NewReader(data))
		case 1:
			var z bytes.Buffer
			zw := gzip.NewWriter(&z)
			_, _ = zw.Write(data)
			_ = zw.Close()
			var err error
			rc, err = points.BatchReadCloser(io.NopCloser(bytes.NewReader(z.Bytes())), "gzip", 0)
			if err != nil {
				fail("gzip-reader", fmt.Sprintf("BatchReadCloser refused a well-formed gzip stream: %v", err))
			}
		case 2:
			// the raw bytes presented as a gzip body: anything but a panic / a success with garbage is fine
			var err error
			rc, err = points.BatchReadCloser(io.NopCloser(bytes.NewReader(data)), "gzip", 0)
			if err != nil {
				return
			}
			res, perr := points.NewParser(prec).Parse(context.Background(), platform.ID(1), platform.ID(2), rc)
			if perr == nil && res != nil {
				for _, p := range res.Points {
					if k, d := checkPoint(p); k != "" {
						fail("returned-point-invalid:"+k, d)
					}
				}
			}
			return
		}
		res, perr := points.NewParser(prec).Parse(context.Background(), platform.ID(1), platform.ID(2), rc)
		dpts, derr := models.ParsePointsWithPrecision(append([]byte(nil), data...), fixedDefault, prec)
		if len(dpts) > 0 || derr != nil {
			nonTrivial("FuzzPointsParser|" + prec + "|" + string(data))
		}
		if derr != nil {
			if perr == nil {
				fail("parser-accepts-rejected-input", fmt.Sprintf("direct parser: %v; Parser.Parse returned no error and %d points", derr, len(res.Points)))
			}
			if res != nil {
				fail("parser-returns-points-with-error", fmt.Sprintf("Parser.Parse returned an error AND a result: %v", perr))
			}
			if !strings.Contains(perr.Error(), derr.Error()) {
				fail("parser-error-loses-rejected-lines", fmt.Sprintf("Parser.Parse error %q does not carry the list of rejected lines %q", perr.Error(), derr.Error()))
			}
			return
		}
		if perr != nil {
			fail("parser-rejects-accepted-input", fmt.Sprintf("direct parser accepted all lines, Parser.Parse: %v", perr))
		}
		if res == nil {
			fail("parser-nil-result", "Parser.Parse returned neither result nor error")
		}
		if res.RawSize != len(data) {
			fail("parser-rawsize", fmt.Sprintf("RawSize=%d, uncompressed input has %d bytes", res.RawSize, len(data)))
		}
		if len(res.Points) != len(dpts) {
			fail("parser-point-count", fmt.Sprintf("Parser.Parse returned %d points, direct parser %d", len(res.Points), len(dpts)))
		}
		for i, p := range res.Points {
			if k, d := checkPoint(p); k != "" {
				fail("returned-point-invalid:"+k, d)
			}
			if !bytes.Equal(p.Key(), dpts[i].Key()) {
				fail("parser-point-differs", fmt.Sprintf("point %d: key %q vs %q", i, p.Key(), dpts[i].Key()))
			}
			f1, e1 := safeFields(p)
			f2, e2 := safeFields(dpts[i])
			if (e1 == nil) != (e2 == nil) || !reflect.DeepEqual(f1, f2) {
				fail("parser-point-differs", fmt.Sprintf("point %d: fields %v (%v) vs %v (%v)", i, f1, e1, f2, e2))
			}
			// a line without timestamp gets time.Now() from Parser.Parse and fixedDefault from the harness
			def := fixedDefault.Truncate(timeUnit(prec))
			if !dpts[i].Time().Equal(def) && !p.Time().Equal(dpts[i].Time()) {
				fail("parser-point-differs", fmt.Sprintf("point %d: time %v vs %v", i, p.Time(), dpts[i].Time()))
			}
		}
	})
}
