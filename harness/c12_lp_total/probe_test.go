package c12_lp_total

import (
	"fmt"
	"testing"
	"time"

	"github.com/influxdata/influxdb/v2/models"
)

func TestProbe(t *testing.T) {
	for _, in := range []string{
		"# note: x=\"unterminated\ncpu value=1 1\ncpu value=2 2",
		"# note \\\ncpu value=1 1\ncpu value=2 2",
		"cpu value=1 1\\\ncpu value=2 2",
		"cpu value=1 1\\\ncpu value=2 2\n",
		"cpu value=1 1\\",
		"cpu value=1 1\\\n",
		"cpu value=1 1\\\nx",
		" cpu,t=\"a value=1 1\ncpu value=2 2",
		"cpu,t=\"a value=1 1\ncpu value=2 2",
		"cpu value=1 1\r\ncpu value=2 2\r\n",
		"\x00cpu value=1 1",
		"\x00\x00\n\t\ncpu value=1 1",
		"cpu value=\"a\nb\" 1\n",
		"cpu value=\"a\n",
		"cpu value=1,time=2 1",
		"cpu,time=2 value=1 1",
		"cpu value=1 9223372036854775807",
		"cpu value=1 -9223372036854775808",
		"cpu value=1 -",
		"cpu value=1 1 ",
		"cpu value=1 1 \t",
		"cpu value=1\t1",
		"cpu\tvalue=1 1",
	} {
		pts, err := models.ParsePointsWithPrecision([]byte(in), time.Unix(0, 5), "ns")
		fmt.Printf("%-50q -> %d pts", in, len(pts))
		for _, p := range pts {
			fmt.Printf(" [%s]", p.String())
		}
		if err != nil {
			fmt.Printf(" ERR %q", err.Error())
		}
		fmt.Println()
	}
}
