// C12 — rapid properties (quick tier).
//
//	TestPropNearValid      a document of 1..8 logical lines; every line is a valid line (lpgen's independent
//	                       renderer), a line with exactly ONE mutation whose effect on well-formedness is known
//	                       by construction, a comment or a blank line. Oracle: the points returned are exactly
//	                       the valid lines, in order, equal to their models and satisfying the validity
//	                       predicate; the error is nil iff no line was damaged and otherwise names exactly the
//	                       damaged lines, in order, with their exact text.
//	TestPropFragmentSoup   byte soup glued from line-protocol fragments -> checkArbitrary (no panic, predicate on
//	                       every point, line accounting).
package c12_lp_total

import (
	"bytes"
	"fmt"
	"sort"
	"strconv"
	"strings"
	"testing"

	"github.com/influxdata/influxdb/v2/models"
	"pgregory.net/rapid"

	"verifharness/internal/ev"
	"verifharness/internal/lpgen"
)

// ---- comparison of a returned point with its model (same rules as the C11 package) -------------------------

func compare(got models.Point, p lpgen.Point, skipName, tagsAsSet bool) (key, detail string) {
	if !skipName && string(got.Name()) != p.Name {
		return "measurement-differs", fmt.Sprintf("Name()=%q want %q", got.Name(), p.Name)
	}
	if n := models.ParseName(got.Key()); string(n) != p.Name {
		return "measurement-differs", fmt.Sprintf("ParseName(Key())=%q want %q", n, p.Name)
	}
	tags := got.Tags()
	if len(tags) != len(p.Tags) {
		return "tags-differ", fmt.Sprintf("Tags()=%v want %q", tags, p.Tags)
	}
	if tagsAsSet {
		m := map[string]string{}
		for _, tg := range tags {
			m[string(tg.Key)] = string(tg.Value)
		}
		for _, tg := range p.Tags {
			if v, ok := m[tg.K]; !ok || v != tg.V {
				return "tags-differ", fmt.Sprintf("Tags()=%v want (as set) %q", tags, p.Tags)
			}
		}
	} else {
		for i := range tags {
			if string(tags[i].Key) != p.Tags[i].K || string(tags[i].Value) != p.Tags[i].V {
				return "tags-differ", fmt.Sprintf("Tags()=%v want (sorted) %q", tags, p.Tags)
			}
		}
	}
	fs, err := got.Fields()
	if err != nil {
		return "fields-error", err.Error()
	}
	if len(fs) != len(p.Fields) {
		return "fields-differ", fmt.Sprintf("Fields()=%v want %v", fs, p.Fields)
	}
	for _, f := range p.Fields {
		v, ok := fs[f.K]
		if !ok || !lpgen.ValueEqual(v, f.V) {
			return "fields-differ", fmt.Sprintf("field %q = %T(%v) want %T(%v)", f.K, v, v, f.V, f.V)
		}
	}
	if p.HasTime && got.Time().UnixNano() != p.Time {
		return "time-differs", fmt.Sprintf("time %d want %d", got.Time().UnixNano(), p.Time)
	}
	return "", ""
}

// ---- construction of lines -----------------------------------------------------------------------------

// sanitize removes, by construction, the signatures of the open C11 findings that make a VALID line be
// rejected or mis-split (counted as excluded_known). It keeps keys unique.
func sanitize(p *lpgen.Point) {
	fix := func(s string) string { return strings.ReplaceAll(s, "\\", "/") }
	if ev.KnownOpen("C11", c11FieldKey) {
		hit := false
		for i := range p.Fields {
			if lpgen.OddBackslashRunBefore(p.Fields[i].K, ",= ") {
				p.Fields[i].K = fix(p.Fields[i].K)
				hit = true
			}
		}
		if hit {
			rec.ExcludedKnown("C11:" + c11FieldKey)
			seen := map[string]bool{}
			for i := range p.Fields {
				for seen[p.Fields[i].K] {
					p.Fields[i].K += "_"
				}
				seen[p.Fields[i].K] = true
			}
			sort.Slice(p.Fields, func(i, j int) bool { return p.Fields[i].K < p.Fields[j].K })
		}
	}
	if ev.KnownOpen("C11", c11ScanLine) && lpgen.KeySectionOddBackslashSpace(*p) {
		rec.ExcludedKnown("C11:" + c11ScanLine)
		if lpgen.OddBackslashRunBefore(p.Name, " ") {
			p.Name = fix(p.Name)
		}
		for i := range p.Tags {
			if lpgen.OddBackslashRunBefore(p.Tags[i].K, " ") {
				p.Tags[i].K = fix(p.Tags[i].K)
			}
			if lpgen.OddBackslashRunBefore(p.Tags[i].V, " ") {
				p.Tags[i].V = fix(p.Tags[i].V)
			}
		}
		seen := map[string]bool{}
		for i := range p.Tags {
			for seen[p.Tags[i].K] {
				p.Tags[i].K += "_"
			}
			seen[p.Tags[i].K] = true
		}
		sort.Slice(p.Tags, func(i, j int) bool { return p.Tags[i].K < p.Tags[j].K })
	}
}

type docLine struct {
	kind     string // valid | damaged | comment | blank
	text     string // as written into the document
	named    string // for damaged lines: the text the error must name
	model    lpgen.Point
	mutation string
}

func genBase(t *rapid.T, label, prec string, ex lpgen.Excl) (lpgen.Point, lpgen.Style) {
	p := lpgen.GenPoint(t, label, prec, ex)
	sanitize(&p)
	return p, lpgen.GenStyle(t, label+"_st", p)
}

func genValid(t *rapid.T, label, prec string, ex lpgen.Excl) docLine {
	p, st := genBase(t, label, prec, ex)
	p.HasTime = rapid.IntRange(0, 9).Draw(t, label+"_hasTime") != 0
	kind := "valid"
	if rapid.IntRange(0, 99).Draw(t, label+"_limit") == 37 {
		// exactly at the key-length limit: plain field key, padded tag value
		p.Fields = []lpgen.Field{{K: "fld", V: p.Fields[0].V}}
		pad := lpgen.MaxKeyLength - lpgen.KeySize(p) - len(",pad=")
		p.Tags = append(p.Tags, lpgen.Tag{K: "pad", V: strings.Repeat("v", pad)})
		sort.Slice(p.Tags, func(i, j int) bool { return p.Tags[i].K < p.Tags[j].K })
		st = lpgen.PlainStyle(p)
		kind = "valid-at-key-limit"
	}
	return docLine{kind: "valid", text: lpgen.Render(p, st, prec), model: p, mutation: kind}
}

var mutations = []string{
	"no-fields", "no-fields-with-timestamp", "duplicate-tag", "empty-tag-value", "tag-without-equals", "empty-tag-key",
	"tag-value-unescaped-equals", "reserved-tag-key", "empty-measurement", "field-without-value", "field-without-equals",
	"bad-boolean", "bad-number", "unquoted-string", "garbage-after-timestamp", "bad-timestamp", "timestamp-out-of-range",
	"key-too-long", "unbalanced-quote", "fields-without-comma",
}

// renderTags returns the rendered ",k=v" pieces in the style's order.
func renderTags(p lpgen.Point, st lpgen.Style) []string {
	var out []string
	for _, i := range st.TagPerm {
		out = append(out, ","+lpgen.EscTag(p.Tags[i].K)+"="+lpgen.EscTag(p.Tags[i].V))
	}
	return out
}

func insertAt(t *rapid.T, label string, pieces []string, piece string) []string {
	i := rapid.IntRange(0, len(pieces)).Draw(t, label)
	out := append([]string{}, pieces[:i]...)
	out = append(out, piece)
	return append(out, pieces[i:]...)
}

func outOfRangeTimestamp(t *rapid.T, label, prec string) string {
	m := lpgen.Mult(prec)
	c := []string{
		strconv.FormatInt(lpgen.MaxNanoTime/m+1, 10), strconv.FormatInt(lpgen.MinNanoTime/m-1, 10),
		"9223372036854775807", "-9223372036854775808", "9223372036854775808", "-9223372036854775809", "99999999999999999999",
	}
	if m > 1 {
		c = append(c, strconv.FormatInt(lpgen.MaxNanoTime/m+rapid.Int64Range(1, 1e6).Draw(t, label+"_d"), 10))
	}
	return rapid.SampledFrom(c).Draw(t, label)
}

// genDamaged builds a line with exactly one mutation. last: the line is the last of the document.
func genDamaged(t *rapid.T, label, prec string, ex lpgen.Excl, last bool) docLine {
	p, st := genBase(t, label, prec, ex)
	mut := rapid.SampledFrom(mutations).Draw(t, label+"_mut")
	if mut == "unbalanced-quote" && !last {
		mut = "bad-number" // an open quote swallows the following lines: only generated as the last line
	}
	name := lpgen.EscMeasurement(p.Name)
	tags := renderTags(p, st)
	fields := lpgen.RenderFields(p, st)
	ts := strconv.FormatInt(p.Time/lpgen.Mult(prec), 10)
	var txt string
	join := func(tags []string, fields, ts string) string {
		return name + strings.Join(tags, "") + " " + fields + " " + ts
	}
	switch mut {
	case "no-fields":
		txt = name + strings.Join(tags, "")
	case "no-fields-with-timestamp":
		txt = name + strings.Join(tags, "") + " " + ts
	case "duplicate-tag":
		if len(p.Tags) == 0 {
			tags = []string{",dk=v"}
			txt = join(insertAt(t, label+"_at", tags, ",dk=w"), fields, ts)
		} else {
			tg := p.Tags[rapid.IntRange(0, len(p.Tags)-1).Draw(t, label+"_which")]
			txt = join(insertAt(t, label+"_at", tags, ","+lpgen.EscTag(tg.K)+"=dup"), fields, ts)
		}
	case "empty-tag-value":
		txt = join(insertAt(t, label+"_at", tags, ",ek="), fields, ts)
	case "tag-without-equals":
		txt = join(insertAt(t, label+"_at", tags, ",ek"), fields, ts)
	case "empty-tag-key":
		txt = join(insertAt(t, label+"_at", tags, ",=ev"), fields, ts)
	case "tag-value-unescaped-equals":
		txt = join(insertAt(t, label+"_at", tags, ",ek=a=b"), fields, ts)
	case "reserved-tag-key":
		rk := rapid.SampledFrom([]string{"time", "_field", "_measurement"}).Draw(t, label+"_rk")
		txt = join(insertAt(t, label+"_at", tags, ","+rk+"=1"), fields, ts)
	case "empty-measurement":
		if len(tags) == 0 {
			tags = []string{",k=v"}
		}
		txt = strings.Join(tags, "") + " " + fields + " " + ts
	case "field-without-value":
		v := rapid.SampledFrom([]string{fields + ",zz=", "zz=", "zz=," + fields}).Draw(t, label+"_v")
		txt = name + strings.Join(tags, "") + " " + v + " " + ts
	case "field-without-equals":
		// (a key without '=' BEFORE the field set would shift the splitter's '='/',' bookkeeping, so that
		// a quote further right is not seen and the rejected line runs into the next one: not generated)
		vs := []string{fields + ",zz", "zz"}
		v := rapid.SampledFrom(vs).Draw(t, label+"_v")
		txt = name + strings.Join(tags, "") + " " + v + " " + ts
	case "bad-boolean":
		v := rapid.SampledFrom([]string{"tru", "TRue", "tt", "falsey", "fals", "Tru", "FALSe", "tRUE"}).Draw(t, label+"_v")
		txt = join(tags, fields+",zb="+v, ts)
	case "bad-number":
		v := rapid.SampledFrom([]string{"1.1i", "1.2.3", "12a", "--1", "1e", "9223372036854775808i", "-9223372036854775809i",
			"18446744073709551616u", "-1u", "1e400", "-", "1u2", "0x10", "NaN", "+1", "1i1", "1e5i", "-.", "."}).Draw(t, label+"_v")
		if rapid.Bool().Draw(t, label+"_first") {
			txt = join(tags, "zn="+v+","+fields, ts)
		} else {
			txt = join(tags, fields+",zn="+v, ts)
		}
	case "unquoted-string":
		v := rapid.SampledFrom([]string{"abc", "hello", "xyz", "on", "yes"}).Draw(t, label+"_v")
		txt = join(tags, fields+",zs="+v, ts)
	case "garbage-after-timestamp":
		v := rapid.SampledFrom([]string{" x", " 1", " f=1", "  ,"}).Draw(t, label+"_v")
		txt = join(tags, fields, ts) + v
	case "bad-timestamp":
		v := rapid.SampledFrom([]string{"12a3", "1.5", "1-2", "-", "--5", "1e9", "0x10", "1_000", "+5"}).Draw(t, label+"_v")
		txt = join(tags, fields, v)
	case "timestamp-out-of-range":
		txt = join(tags, fields, outOfRangeTimestamp(t, label+"_v", prec))
	case "key-too-long":
		q := lpgen.Point{Name: p.Name, Tags: p.Tags, Fields: []lpgen.Field{{K: "fld", V: p.Fields[0].V}}, Time: p.Time, HasTime: true}
		over := rapid.IntRange(1, 3).Draw(t, label+"_over")
		pad := lpgen.MaxKeyLength + over - lpgen.KeySize(q) - len(",pad=")
		q.Tags = append(append([]lpgen.Tag{}, q.Tags...), lpgen.Tag{K: "pad", V: strings.Repeat("v", pad)})
		sort.Slice(q.Tags, func(i, j int) bool { return q.Tags[i].K < q.Tags[j].K })
		txt = lpgen.Render(q, lpgen.PlainStyle(q), prec)
	case "unbalanced-quote":
		txt = join(tags, fields+",zq=\"abc", ts)
	case "fields-without-comma":
		txt = join(tags, fields+",zq=\"s\"zr="+rapid.SampledFrom([]string{"2", "\"x\"", "t"}).Draw(t, label+"_v"), ts)
	}
	named := txt
	// leading blanks are not part of the named text; only where they cannot disturb the line splitter
	if !strings.ContainsAny(txt, "\"\\") && rapid.IntRange(0, 3).Draw(t, label+"_lead") == 0 {
		txt = strings.Repeat(" ", rapid.IntRange(1, 2).Draw(t, label+"_nlead")) + txt
	}
	return docLine{kind: "damaged", text: txt, named: named, model: p, mutation: mut}
}

func genComment(t *rapid.T, label string) docLine {
	n := rapid.IntRange(0, 10).Draw(t, label+"_n")
	var sb strings.Builder
	sb.WriteString(strings.Repeat(" ", rapid.IntRange(0, 2).Draw(t, label+"_lead")))
	sb.WriteByte('#')
	for i := 0; i < n; i++ {
		sb.WriteString(rapid.SampledFrom([]string{"a", " ", "=", ",", "#", "x=1", "cpu value=1", "\"", "\\", "é", "1"}).Draw(t, fmt.Sprintf("%s_%d", label, i)))
	}
	s := sb.String()
	if strings.Contains(s, "\\") {
		// documented backslash limitation: a backslash escapes what follows it, also the newline
		rec.Class("excluded_documented:comment-with-backslash")
		s = strings.ReplaceAll(s, "\\", "/")
	}
	if strings.Contains(s, "\"") && ev.KnownOpen("C12", kComment) {
		rec.ExcludedKnown(kComment)
		s = strings.ReplaceAll(s, "\"", "'")
	}
	return docLine{kind: "comment", text: s}
}

func genBlank(t *rapid.T, label string) docLine {
	return docLine{kind: "blank", text: rapid.SampledFrom([]string{"", " ", "\t", "  \t ", "   "}).Draw(t, label)}
}

// ---- TestPropNearValid ------------------------------------------------------------------------------------

func propNearValid(t *rapid.T) {
	const test = "TestPropNearValid"
	prec := rapid.SampledFrom(lpgen.Precisions).Draw(t, "precision")
	ex := lpgen.Excl{}
	n := rapid.IntRange(1, 8).Draw(t, "lines")
	single := rapid.IntRange(0, 4).Draw(t, "single") == 0
	if single {
		n = 1
	}
	var doc []docLine
	for i := 0; i < n; i++ {
		label := fmt.Sprintf("l%d", i)
		k := rapid.IntRange(0, 9).Draw(t, label+"_kind")
		switch {
		case single:
			doc = append(doc, genDamaged(t, label, prec, ex, true))
		case k <= 4:
			doc = append(doc, genValid(t, label, prec, ex))
		case k <= 7:
			doc = append(doc, genDamaged(t, label, prec, ex, i == n-1))
		case k == 8:
			doc = append(doc, genComment(t, label))
		default:
			doc = append(doc, genBlank(t, label))
		}
	}
	for k, c := range ex {
		rec.ClassN("excluded_documented:"+k, c)
	}
	var sb strings.Builder
	nValid, nDamaged := 0, 0
	for i, l := range doc {
		if i > 0 {
			sb.WriteByte('\n')
		}
		sb.WriteString(l.text)
		switch l.kind {
		case "valid":
			nValid++
			rec.Class(test + ":line=" + l.mutation)
		case "damaged":
			nDamaged++
			rec.Class(test + ":mutation=" + l.mutation)
		default:
			rec.Class(test + ":line=" + l.kind)
		}
	}
	if rapid.Bool().Draw(t, "trailingNewline") {
		sb.WriteByte('\n')
	}
	input := sb.String()
	rec.Eval()
	switch {
	case single:
		rec.Class(test + ":doc=single-mutation-line")
		nonTrivial(test + "|" + prec + "|" + input)
	case nValid > 0 && nDamaged > 0:
		rec.Class(test + ":doc=accepted-and-rejected")
		nonTrivial(test + "|" + prec + "|" + input)
	case nDamaged == 0:
		rec.Class(test + ":doc=all-accepted")
	default:
		rec.Class(test + ":doc=all-rejected")
	}
	if rec.WantSample() && nValid > 0 && nDamaged > 0 && len(input) < 400 {
		rec.Sample(map[string]any{"test": test, "precision": prec, "input": input})
	}
	cj := func() map[string]any {
		var ls []string
		for _, l := range doc {
			ls = append(ls, fmt.Sprintf("%s/%s: %q", l.kind, l.mutation, clip(l.text)))
		}
		return map[string]any{"precision": prec, "lines": ls}
	}
	fail := func(key, detail string) { rec.Fail(t, test, key, clip(detail), cj()) }

	var pts []models.Point
	var err error
	func() {
		defer func() {
			if r := recover(); r != nil {
				fail("panic", fmt.Sprintf("ParsePointsWithPrecision panicked: %v", r))
			}
		}()
		pts, err = models.ParsePointsWithPrecision([]byte(input), fixedDefault, prec)
	}()

	// (1) the error names exactly the damaged lines, in order, with their exact text
	if nDamaged == 0 {
		if err != nil {
			fail("valid-line-rejected", fmt.Sprintf("no damaged line, but error: %v", err))
		}
	} else {
		if err == nil {
			fail("damaged-line-not-reported", fmt.Sprintf("%d damaged line(s), error is nil, %d points returned", nDamaged, len(pts)))
		}
		rest := err.Error()
		idx := 0
		for _, l := range doc {
			if l.kind != "damaged" {
				continue
			}
			idx++
			want := errPrefix + l.named + errSep
			if !strings.HasPrefix(rest, want) {
				fail("error-does-not-name-rejected-line", fmt.Sprintf("rejected line #%d (%s) %q is not named next in the error; remaining error text: %q", idx, l.mutation, clip(l.named), clip(rest)))
			}
			rest = rest[len(want):]
			if idx < nDamaged {
				nl := strings.Index(rest, "\n"+errPrefix)
				if nl < 0 {
					fail("error-misses-rejected-line", fmt.Sprintf("error names %d line(s), %d were damaged: %q", idx, nDamaged, clip(err.Error())))
				}
				rest = rest[nl+1:]
			} else if strings.Contains(rest, "\n"+errPrefix) {
				fail("error-names-extra-line", fmt.Sprintf("error names more than the %d damaged line(s): %q", nDamaged, clip(err.Error())))
			}
		}
	}
	// (2) the points are exactly the valid lines
	if len(pts) != nValid {
		fail("point-count", fmt.Sprintf("%d valid lines, %d points returned (error: %v)", nValid, len(pts), err))
	}
	i := 0
	for _, l := range doc {
		if l.kind != "valid" {
			continue
		}
		got := pts[i]
		i++
		if k, d := checkPoint(got); k != "" {
			fail("returned-point-invalid:"+k, d)
		}
		skipName := lpgen.BackslashBefore(l.model.Name, "=\"") && ev.KnownOpen("C11", c11Name)
		asSet := lpgen.TagOrderDiffers(l.model.Tags) && ev.KnownOpen("C11", c11Order)
		if skipName {
			rec.ExcludedKnown("C11:" + c11Name)
		}
		if asSet {
			rec.ExcludedKnown("C11:" + c11Order)
		}
		if k, d := compare(got, l.model, skipName, asSet); k != "" {
			fail("returned-point-differs:"+k, fmt.Sprintf("line %q: %s", clip(l.text), d))
		}
	}
}

func TestPropNearValid(t *testing.T) { rec.Check(t, 60000, 1500000, propNearValid) }

// ---- TestPropFragmentSoup -----------------------------------------------------------------------------------

var soupFragments = []string{
	"cpu", "m", ",", "=", " ", "\"", "\\", "\n", "#", "1", "0", "9", "i", "u", "t", "f", "true", "False", "e", "E", "-", "+", ".",
	"a", "k", "v", "\t", "\x00", "\r", "é", "\xff", "1i", "=1", " 1\n", "k=v", ",k=v", " f=1", "=\"", "\" ", "\\\\", "\\\"", "\\ ", "\\,", "\\=",
	"9223372036854775807", "-9223372036854775808", "9223372036854775806", "18446744073709551615u", "1e308", "1e-400", "time", "_field",
	"cpu,host=a value=1 1\n", "cpu value=\"x\" 2\n", "n", "N", "NaN", "\n\n", "  ", "'",
}

func propFragmentSoup(t *rapid.T) {
	const test = "TestPropFragmentSoup"
	prec := rapid.SampledFrom(lpgen.Precisions).Draw(t, "precision")
	n := rapid.IntRange(0, 40).Draw(t, "n")
	var buf bytes.Buffer
	for i := 0; i < n; i++ {
		buf.WriteString(rapid.SampledFrom(soupFragments).Draw(t, fmt.Sprintf("f%d", i)))
	}
	data := buf.Bytes()
	o := checkArbitrary(data, prec)
	rec.Eval()
	switch {
	case o.points > 0 && o.named > 0:
		rec.Class(test + ":accepted-and-rejected")
	case o.points > 0:
		rec.Class(test + ":accepted-only")
	case o.named > 0:
		rec.Class(test + ":rejected-only")
	default:
		rec.Class(test + ":nothing-to-parse")
	}
	if o.points > 0 || o.named > 0 {
		nonTrivial(test + "|" + prec + "|" + string(data))
	}
	if o.key != "" {
		rec.Fail(t, test, o.key, o.det, map[string]any{"precision": prec, "input": string(data), "input_hex": fmt.Sprintf("%x", data)})
	}
}

func TestPropFragmentSoup(t *testing.T) { rec.Check(t, 150000, 3000000, propFragmentSoup) }
