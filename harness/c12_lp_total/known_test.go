package c12_lp_total

import (
	"fmt"
	"strings"
	"testing"

	"github.com/influxdata/influxdb/v2/models"
)

// TestKnown_comment_swallows_following_lines: the line splitter (scanLine) applies its quote tracking
// (meant for newlines inside string FIELD values) to comment lines too. A comment that contains a '"'
// after an '=' (odd number of quotes) therefore extends over the following newline(s): the well-formed
// lines after it are neither returned nor named in the error — they vanish silently.
// (A comment ending in a backslash does the same; that variant is treated as the documented
// trailing-backslash limitation and is only reported here, not required for reproduction.)
func TestKnown_comment_swallows_following_lines(t *testing.T) {
	const in1 = "# note: threshold=\"high\ncpu value=1 1\ncpu value=2 2"
	const in2 = "# trailing backslash \\\ncpu value=1 1\ncpu value=2 2"
	const control = "# note: threshold=high\ncpu value=1 1\ncpu value=2 2"
	p1, e1 := models.ParsePointsString(in1)
	p2, e2 := models.ParsePointsString(in2)
	pc, ec := models.ParsePointsString(control)
	if ec != nil || len(pc) != 2 {
		t.Fatalf("control failed: %d %v", len(pc), ec)
	}
	reproduced := len(p1) != 2 && e1 == nil
	rec.Known(t, "TestKnown_comment_swallows_following_lines", kComment, reproduced,
		fmt.Sprintf("input %q -> %d points, err=%v; input %q -> %d points, err=%v (both contain two well-formed lines after a comment; without the quote/backslash: %d points)", in1, len(p1), e1, in2, len(p2), e2, len(pc)),
		map[string]any{"input1": in1, "input2": in2})
}

// TestKnown_empty_field_key_after_tab_or_nul: scanFields skips ' ', TAB and NUL before the field set but
// its "missing field key" test only looks for a preceding ' ' or ','. `cpu \t=1` is therefore accepted
// and returned as a point whose only field has an EMPTY key: Fields() is empty, the point has no field.
func TestKnown_empty_field_key_after_tab_or_nul(t *testing.T) {
	reproduced := false
	var det []string
	for _, in := range []string{"cpu \t=1", "cpu \x00=1 5"} {
		pts, err := models.ParsePointsString(in)
		n := -1
		if err == nil && len(pts) == 1 {
			fs, _ := pts[0].Fields()
			n = len(fs)
			if n == 0 {
				reproduced = true
			}
		}
		det = append(det, fmt.Sprintf("%q -> %d points, err=%v, len(Fields())=%d", in, len(pts), err, n))
	}
	_, cerr := models.ParsePointsString("cpu  =1")
	det = append(det, fmt.Sprintf("control %q -> err=%v", "cpu  =1", cerr))
	rec.Known(t, "TestKnown_empty_field_key_after_tab_or_nul", kEmptyKey, reproduced && cerr != nil,
		"a line whose field set starts with '=' after a TAB/NUL is accepted as a point without any field: "+fmt.Sprint(det), map[string]any{"inputs": det})
}

// TestKnown_accepted_point_fields_unreadable: `cpu a\\="b="` is accepted (1 point, nil error): scanFields
// skips `\\` as an escape pair and takes the '=' after it as the key/value separator (value "b=").
// The field iterator (scanTo) treats that '=' as escaped because the previous byte is a backslash, so
// it finds the key `a\\="b` and the value `"`; Point.Fields() / FieldIterator.StringValue() then slice
// valueBuf[1:0] and PANIC. With `cpu a\\="b=c"` Fields() returns an error instead (value `c"`).
// `0 0=""\,"="` (found by FuzzParsePoints) panics the same way: scanFields skips `\,`, scanFieldValue ends
// the value at that comma. The write path calls these accessors on every returned point.
func TestKnown_accepted_point_fields_unreadable(t *testing.T) {
	var det []string
	reproduced := false
	for _, in := range []string{`cpu a\\="b="`, `cpu a\\="b=c"`, `0 0=""\,"="`, `0 0=""="","="`} {
		pts, err := models.ParsePointsString(in)
		accepted := err == nil && len(pts) == 1
		outcome := "n/a"
		if accepted {
			func() {
				defer func() {
					if r := recover(); r != nil {
						outcome = fmt.Sprintf("PANIC %v", r)
						reproduced = true
					}
				}()
				if _, ferr := pts[0].Fields(); ferr != nil {
					outcome = "error " + ferr.Error()
					reproduced = true
				} else {
					outcome = "ok"
				}
			}()
		}
		det = append(det, fmt.Sprintf("ParsePoints(%q) -> %d point(s), err=%v; Fields() of the returned point: %s", in, len(pts), err, outcome))
	}
	rec.Known(t, "TestKnown_accepted_point_fields_unreadable", kUnreadable, reproduced, strings.Join(det, " | "), map[string]any{"cases": det})
}
