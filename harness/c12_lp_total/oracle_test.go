// C12 — The line protocol parser is total and accepts exactly well-formed lines.
//
// This file holds the oracles that are shared by the rapid properties (quick tier) and the native
// fuzz targets (thorough tier):
//
//	checkPoint      the validity predicate of the statement for one returned point
//	checkArbitrary  no panic + predicate on every point + accounting of points / rejected lines for
//	                ARBITRARY bytes (sound bounds; exact when the input has no '"' and no '\')
package c12_lp_total

import (
	"bytes"
	"fmt"
	"math"
	"strconv"
	"strings"
	"sync/atomic"
	"time"

	"github.com/influxdata/influxdb/v2/models"

	"verifharness/internal/ev"
	"verifharness/internal/lpgen"
)

var rec = ev.For("C12", "exploration",
	"case = (input bytes, precision); NON-TRIVIAL = a multi-line input with >= 1 accepted and >= 1 rejected line, or an input consisting of one line with exactly one known mutation, or (byte soup / fuzz) an input on which the parser returned at least one point or named at least one rejected line; DISTINCT by input bytes + precision")

const (
	// findings registered under C11 whose signature would make a generated VALID line be rejected
	c11FieldKey = "fieldkey-backslash-before-delimiter"
	c11ScanLine = "scanline-backslash-space-in-key"
	c11Name     = "name-accessor-unescapes-eq-quote"
	c11Order    = "tag-order-escaped-bytes"
	// finding of this property
	kComment  = "comment-swallows-following-lines"
	kEmptyKey = "empty-field-key-after-tab-or-nul"
	kUnreadable = "accepted-point-fields-unreadable"

	errPrefix = "unable to parse '"
	errSep    = "': "
)

// fixedDefault is the caller-supplied default time used by the harness (production passes time.Now()).
var fixedDefault = time.Unix(0, 1600000000123456789).UTC()

func init() {
	rec.Assume("whitespace at the start of a line is ' ', '\\t' and NUL (what the parser's skipWhitespace skips); a line that is empty after that, or starts with '#', is blank / a comment")
	rec.Assume("rejected (damaged) lines never end in a backslash and comment lines contain no backslash: a backslash before the newline joins the next line to the current one (documented trailing-backslash limitation, counted in classes excluded_documented:*); comment lines contain no '\"' while finding comment-swallows-following-lines is open")
	rec.Assume("for arbitrary bytes containing '\"' or '\\' the number of logical lines is not defined by the grammar; there the accounting check is: #points + #named <= #non-blank non-comment physical lines, every named text is a run of whole physical lines of the input, in order, without overlap")
}

// ---- validity predicate ------------------------------------------------------------------------------

var (
	minTime = time.Unix(0, lpgen.MinNanoTime)
	maxTime = time.Unix(0, lpgen.MaxNanoTime)
)

// checkPoint is the statement's predicate: non-empty measurement, >= 1 field (all readable), unique
// tag keys, series key + field key within the maximum key length, representable timestamp.
func checkPoint(p models.Point) (key, detail string) {
	defer func() {
		if r := recover(); r != nil {
			key, detail = "returned-point-panics", fmt.Sprintf("reading the returned point %q panicked: %v", clip(p.String()), r)
		}
		// signature of the known finding: the line was accepted although its field section is NOT of the
		// documented form key=value{,key=value} (judged by the harness' own strict scanner), and the
		// fields of the returned point cannot be read back (error, panic, field without type, no field)
		switch key {
		case "returned-point-panics", "fields-unreadable", "field-unreadable", "field-without-type", "no-field":
			if !strictFieldSection(rawFieldSection(p)) && ev.KnownOpen("C12", kUnreadable) {
				rec.ExcludedKnown(kUnreadable)
				key, detail = "", ""
			}
		}
	}()
	if len(p.Name()) == 0 || len(models.ParseName(p.Key())) == 0 {
		return "empty-measurement", fmt.Sprintf("point %q has an empty measurement", p.String())
	}
	seen := map[string]bool{}
	for _, tg := range p.Tags() {
		if seen[string(tg.Key)] {
			return "duplicate-tag-key", fmt.Sprintf("point %q has tag key %q twice", p.String(), tg.Key)
		}
		seen[string(tg.Key)] = true
	}
	fs, err := p.Fields()
	if err != nil {
		return "fields-unreadable", fmt.Sprintf("point %q: Fields(): %v", p.String(), err)
	}
	if len(fs) == 0 {
		// signature of the known finding: the field section starts with '=' (empty first field key)
		if fi := p.FieldIterator(); fi.Next() && len(fi.FieldKey()) == 0 && ev.KnownOpen("C12", kEmptyKey) {
			rec.ExcludedKnown(kEmptyKey)
			return "", ""
		}
		return "no-field", fmt.Sprintf("point %q has no field", p.String())
	}
	n := 0
	it := p.FieldIterator()
	for it.Next() {
		n++
		if n > 1<<20 {
			return "field-iterator-runaway", "FieldIterator does not terminate"
		}
		fk := it.FieldKey()
		if sz := len(p.Key()) + 4 + len(fk); sz > lpgen.MaxKeyLength {
			return "key-too-long", fmt.Sprintf("series key (%d bytes) + field key %q = %d > %d", len(p.Key()), clip(string(fk)), sz, lpgen.MaxKeyLength)
		}
		var verr error
		switch it.Type() {
		case models.Float:
			var v float64
			v, verr = it.FloatValue()
			if verr == nil && (math.IsNaN(v) || math.IsInf(v, 0)) {
				return "non-finite-float", fmt.Sprintf("point %q: field %q = %v", p.String(), fk, v)
			}
		case models.Integer:
			_, verr = it.IntegerValue()
		case models.Unsigned:
			_, verr = it.UnsignedValue()
		case models.Boolean:
			_, verr = it.BooleanValue()
		case models.String:
			_ = it.StringValue()
		default:
			return "field-without-type", fmt.Sprintf("point %q: field %q has type %v", p.String(), fk, it.Type())
		}
		if verr != nil {
			return "field-unreadable", fmt.Sprintf("point %q: field %q: %v", p.String(), fk, verr)
		}
	}
	if n == 0 {
		return "no-field", fmt.Sprintf("point %q: FieldIterator yields nothing", p.String())
	}
	if t := p.Time(); t.Before(minTime) || t.After(maxTime) {
		return "time-out-of-range", fmt.Sprintf("point with key %q has time %v outside [%d,%d]", p.Key(), t, lpgen.MinNanoTime, lpgen.MaxNanoTime)
	}
	return "", ""
}

// nonTrivial records a distinct non-trivial case; per process only the first 400 000 are hashed (the
// thorough tier and the fuzz workers would otherwise hold tens of millions of hashes), the rest is counted.
var ntCount atomic.Int64

func nonTrivial(canon string) {
	if ntCount.Add(1) <= 400000 {
		rec.NonTrivial(canon)
	} else {
		rec.Class("nontrivial-beyond-hash-budget")
	}
}

func clip(s string) string {
	if len(s) > 700 {
		return s[:700] + "...(clipped)"
	}
	return s
}

// ---- accounting for arbitrary bytes -------------------------------------------------------------------

type physLine struct {
	start, tstart, end int // [start,end) without the newline; tstart = after leading whitespace
	skippable          bool
}

func isWS(b byte) bool { return b == ' ' || b == '\t' || b == 0 }

func physLines(data []byte) []physLine {
	var out []physLine
	for pos := 0; pos <= len(data); {
		e := bytes.IndexByte(data[pos:], '\n')
		if e < 0 {
			e = len(data)
		} else {
			e += pos
		}
		if pos == len(data) {
			break // no empty line after a trailing newline
		}
		ts := pos
		for ts < e && isWS(data[ts]) {
			ts++
		}
		out = append(out, physLine{start: pos, tstart: ts, end: e, skippable: ts == e || data[ts] == '#'})
		pos = e + 1
	}
	return out
}

// matchError checks that errText can be read as entries "unable to parse '<text>': <reason>" joined by
// newlines, where every <text> is data[lines[i].tstart : lines[j].end] for i <= j (a run of whole
// physical lines starting at a non-skippable line), entries in input order and not overlapping.
// It returns the number of entries of one consistent reading, or -1.
func matchError(data []byte, lines []physLine, errText string) int {
	type st struct{ pos, line int }
	memo := map[st]int{}
	inputHasPhrase := bytes.Contains(data, []byte(errPrefix))
	var walk func(pos, line int) int
	walk = func(pos, line int) int {
		if pos == len(errText) {
			return 0
		}
		k := st{pos, line}
		if v, ok := memo[k]; ok {
			return v
		}
		memo[k] = -1
		if !strings.HasPrefix(errText[pos:], errPrefix) {
			return -1
		}
		rest := errText[pos+len(errPrefix):]
		for i := line; i < len(lines); i++ {
			if lines[i].skippable {
				continue
			}
			for j := i; j < len(lines); j++ {
				txt := string(data[lines[i].tstart:lines[j].end])
				if !strings.HasPrefix(rest, txt) {
					break // a longer run has this one as a prefix
				}
				if !strings.HasPrefix(rest[len(txt):], errSep) {
					continue
				}
				// the reason extends to a later "\nunable to parse '" — or, only if the input itself
				// contains that phrase (so that a reason may quote it), to the end
				after := pos + len(errPrefix) + len(txt) + len(errSep)
				for off := after; ; {
					nl := strings.Index(errText[off:], "\n"+errPrefix)
					if nl < 0 {
						if off == after || inputHasPhrase {
							memo[k] = 1
							return 1
						}
						break
					}
					if n := walk(off+nl+1, j+1); n >= 0 {
						memo[k] = n + 1
						return n + 1
					}
					off += nl + 1
				}
			}
		}
		return -1
	}
	return walk(0, 0)
}

type outcome struct {
	points   int
	named    int
	key, det string
}

// checkArbitrary runs the parser on arbitrary bytes and applies every check that is sound for them.
func checkArbitrary(data []byte, prec string) (o outcome) {
	defer func() {
		if r := recover(); r != nil {
			o.key, o.det = "parser-panics", fmt.Sprintf("ParsePointsWithPrecision(%q, %s) panicked: %v", clip(string(data)), prec, r)
		}
	}()
	in := append([]byte(nil), data...)
	pts, err := models.ParsePointsWithPrecision(in, fixedDefault, prec)
	o.points = len(pts)
	for _, p := range pts {
		if p == nil {
			o.key, o.det = "nil-point", "a nil point was returned"
			return
		}
		if k, d := checkPoint(p); k != "" {
			o.key, o.det = k, d+fmt.Sprintf(" (input %q)", clip(string(data)))
			return
		}
	}
	lines := physLines(data)
	countable, commentQuote, commentBackslash := 0, false, false
	for _, l := range lines {
		if !l.skippable {
			countable++
			continue
		}
		if bytes.IndexByte(data[l.start:l.end], '"') >= 0 {
			commentQuote = true
		}
		if bytes.IndexByte(data[l.start:l.end], '\\') >= 0 {
			commentBackslash = true
		}
	}
	if err != nil {
		o.named = matchError(data, lines, err.Error())
		if o.named < 0 {
			o.key, o.det = "error-names-no-input-line", fmt.Sprintf("the error %q cannot be read as a list of rejected lines of the input %q", clip(err.Error()), clip(string(data)))
			return
		}
		if o.named == 0 {
			o.key, o.det = "empty-error", fmt.Sprintf("non-nil error %q names no line", err.Error())
			return
		}
	}
	total := o.points + o.named
	if total > countable {
		o.key, o.det = "more-results-than-lines", fmt.Sprintf("%d points + %d named lines from %d non-blank non-comment lines: %q", o.points, o.named, countable, clip(string(data)))
		return
	}
	if commentBackslash {
		// documented backslash limitation: a backslash in a comment / blank line may escape its newline
		rec.Class("excluded_documented:comment-or-blank-line-with-backslash")
		return
	}
	if commentQuote && ev.KnownOpen("C12", kComment) {
		rec.ExcludedKnown(kComment)
		return
	}
	if countable > 0 && total == 0 {
		o.key, o.det = "lines-vanished", fmt.Sprintf("%d non-blank non-comment lines, but no point and no named line: %q", countable, clip(string(data)))
		return
	}
	if !bytes.ContainsAny(data, "\"\\") && total != countable {
		o.key, o.det = "line-accounting", fmt.Sprintf("%d points + %d named lines != %d non-blank non-comment lines (no quote, no backslash in input): %q err=%v", o.points, o.named, countable, clip(string(data)), err)
		return
	}
	return
}

func timeUnit(prec string) time.Duration { return time.Duration(lpgen.Mult(prec)) }

// rawFieldSection returns the text of the field section of a parsed point: String() is
// key + " " + fields + " " + timestamp (the time of a parsed point is never zero).
func rawFieldSection(p models.Point) string {
	s := p.String()
	s = s[len(p.Key()):]
	s = strings.TrimPrefix(s, " ")
	if i := strings.LastIndexByte(s, ' '); i >= 0 {
		s = s[:i]
	}
	return s
}

var boolLiterals = map[string]bool{"t": true, "T": true, "true": true, "True": true, "TRUE": true, "f": true, "F": true, "false": true, "False": true, "FALSE": true}

// strictFieldSection reports whether s is key=value{,key=value} as documented in tsdb/README.md:
// in a key ',', '=' and ' ' are escaped by a backslash (a backslash before anything else is literal);
// a value is a double-quoted string (with \" and \\ escapes), an integer (digits + i), an unsigned
// (digits + u), a float or one of the boolean literals.
func strictFieldSection(s string) bool {
	i := 0
	for {
		// key
		start := i
		for i < len(s) && s[i] != '=' {
			if s[i] == ',' || s[i] == ' ' {
				return false
			}
			if s[i] == '\\' && i+1 < len(s) && strings.IndexByte(",= \"", s[i+1]) >= 0 {
				i++
			}
			i++
		}
		if i >= len(s) || i == start {
			return false
		}
		i++ // '='
		if i >= len(s) {
			return false
		}
		if s[i] == '"' {
			i++
			for {
				if i >= len(s) {
					return false
				}
				if s[i] == '\\' && i+1 < len(s) && (s[i+1] == '"' || s[i+1] == '\\') {
					i += 2
					continue
				}
				if s[i] == '"' {
					i++
					break
				}
				i++
			}
		} else {
			vs := i
			for i < len(s) && s[i] != ',' {
				i++
			}
			v := s[vs:i]
			if !boolLiterals[v] && !strictNumber(v) {
				return false
			}
		}
		if i == len(s) {
			return true
		}
		if s[i] != ',' {
			return false
		}
		i++
	}
}

func strictNumber(v string) bool {
	if v == "" {
		return false
	}
	digits := func(d string) bool {
		if d == "" {
			return false
		}
		for i := 0; i < len(d); i++ {
			if d[i] < '0' || d[i] > '9' {
				return false
			}
		}
		return true
	}
	switch v[len(v)-1] {
	case 'i':
		return digits(strings.TrimPrefix(v[:len(v)-1], "-"))
	case 'u':
		return digits(v[:len(v)-1])
	}
	for i := 0; i < len(v); i++ {
		if !strings.ContainsRune("0123456789.eE+-", rune(v[i])) {
			return false
		}
	}
	_, err := strconv.ParseFloat(v, 64)
	return err == nil
}
