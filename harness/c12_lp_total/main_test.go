package c12_lp_total

import (
	"testing"

	"verifharness/internal/ev"
)

func TestMain(m *testing.M) { ev.Main(m) }
