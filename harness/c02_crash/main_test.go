package c02_crash

import (
	"testing"

	"verifharness/internal/ev"
)

func TestMain(m *testing.M) { ev.Main(m) }
