// C02 — Acknowledged writes and deletes survive a crash at any point.
//
// Generated write/delete/snapshot/compaction/reopen histories on a real shard; at generated
// moments a crash image is taken — a byte copy of the data and WAL trees made from inside a named
// hook point of the WAL write, snapshot commit, compaction commit, file-store replace or
// tombstone commit (what a kill -9 at that instruction would leave), or a copy whose newest WAL
// segment is cut inside the last record (torn tail) — a fresh store is opened on the image and
// compared with the model of the acknowledged operations; the history then continues on the
// recovered shard.
package c02_crash

import (
	"fmt"
	"os"
	"path/filepath"
	"testing"

	"pgregory.net/rapid"

	"verifharness/internal/eng"
	"verifharness/internal/ev"
	"verifharness/internal/gen"
	"verifharness/internal/model"
)

var rec = ev.For("C02", "fault_enumeration",
	"case = one generated history with >=1 crash image (hook point x hit index, or WAL tail cut at a byte offset of the last record) recovered and compared with the acknowledged-prefix model; non-trivial = the image was taken strictly between commit steps (after-write-files, after-rename-new, after-remove-one, after-replace, after-clear, tombstone after-tmp-write/after-rename, wal after-write) or the WAL was cut inside a record, AND the history had >=1 acknowledged delete and >=1 TSM file before the crash; distinct by rendered history")

var pointsFor = map[string][]string{
	"write":    {"tsm1.wal.after-write", "tsdb.fields.after-append"},
	"snapshot": {"tsm1.snapshot.after-cache-snapshot", "tsm1.snapshot.after-write-files", "tsm1.replace.begin", "tsm1.replace.after-rename-new", "tsm1.replace.after-remove-old", "tsm1.snapshot.after-replace", "tsm1.snapshot.after-clear", "tsm1.snapshot.after-wal-remove"},
	"compact":  {"tsm1.compact.after-write-files", "tsm1.replace.begin", "tsm1.replace.after-rename-new", "tsm1.replace.after-remove-one", "tsm1.replace.after-remove-old", "tsm1.compact.after-replace"},
	"delete":   {"tsm1.wal.after-write", "tsm1.tombstone.after-tmp-write", "tsm1.tombstone.after-rename"},
}

func genDelete(t *rapid.T) ([]string, int64, int64) {
	n := rapid.IntRange(1, len(gen.SeriesKeys)).Draw(t, "dn")
	seen := map[string]bool{}
	var ss []string
	for i := 0; i < n; i++ {
		s := rapid.SampledFrom(gen.SeriesKeys).Draw(t, "ds")
		if !seen[s] {
			seen[s] = true
			ss = append(ss, s)
		}
	}
	lo, hi := gen.Range(t, "dr")
	return ss, lo, hi
}

func TestPropCrashRecovery(t *testing.T) {
	rec.Assume("process-crash model: the image is exactly what reached write(2)/rename(2) when the hook point was hit; loss or reordering of un-fsynced writes to OTHER files by the OS (a missing fsync/SyncDir) is not modelled")
	rec.Assume("for the single interrupted (unacknowledged) operation each point it touches may show its before- or after-state")
	rec.Assume("torn WAL tails are modelled as truncation of the newest segment inside its last record")
	rec.CheckSteps(t, 160, 1500, 30, func(t *rapid.T) {
		mc := eng.New("C02", rec, func(key, detail string, c any) { rec.Fail(t, "TestPropCrashRecovery", key, detail, c) }, t.Fatalf)
		defer mc.Close()
		crashes := 0
		nontrivialCrash := false
		step := func(kind string) eng.Step {
			switch kind {
			case "write":
				pts := gen.Batch(t, "cw", 8, &mc.Seq)
				return eng.Step{Op: eng.Op{Kind: "write", Points: pts},
					Run:   func() error { return mc.F.Write(toModels(t, pts)) },
					After: func(m *model.Store) { applyWrite(m, pts) },
					Note:  func() { mc.NoteWrite(pts) }}
			case "snapshot":
				return eng.Step{Op: eng.Op{Kind: "snapshot"}, Run: func() error { return mc.F.Snapshot() }, After: func(m *model.Store) {}, Note: func() {}}
			case "compact":
				kind := rapid.SampledFrom([]string{"level1", "forcefull", "forcefull", "full"}).Draw(t, "ckind")
				return eng.Step{Op: eng.Op{Kind: "compact", Arg: kind}, Run: func() error { _, err := mc.F.Compact(kind); return err }, After: func(m *model.Store) {}, Note: func() {}}
			default:
				ss, lo, hi := genDelete(t)
				return eng.Step{Op: eng.Op{Kind: "delete", Series: ss, Min: lo, Max: hi},
					Run: func() error { return mc.F.DeleteRange(ss, lo, hi) },
					After: func(m *model.Store) {
						for _, s := range ss {
							m.DeleteRange(s, lo, hi)
						}
					},
					Note: func() { mc.Deletes++ }}
			}
		}
		acts := map[string]func(*rapid.T){
			"write": func(t *rapid.T) {
				if !mc.Tainted {
					mc.Write(gen.Batch(t, "w", 10, &mc.Seq))
				}
			},
			"snapshot": func(t *rapid.T) {
				if !mc.Tainted {
					mc.Snapshot()
				}
			},
			"compact": func(t *rapid.T) {
				if !mc.Tainted {
					mc.Compact(rapid.SampledFrom([]string{"level1", "forcefull", "full", "optimize"}).Draw(t, "kind"))
				}
			},
			"delete": func(t *rapid.T) {
				if !mc.Tainted {
					ss, lo, hi := genDelete(t)
					mc.Delete(ss, lo, hi)
				}
			},
			"reopen": func(t *rapid.T) {
				if !mc.Tainted {
					mc.Reopen()
				}
			},
			"crash": func(t *rapid.T) {
				if mc.Tainted {
					return
				}
				kind := rapid.SampledFrom([]string{"write", "snapshot", "snapshot", "compact", "compact", "delete", "delete"}).Draw(t, "stepKind")
				point := rapid.SampledFrom(pointsFor[kind]).Draw(t, "point")
				hit := rapid.SampledFrom([]int{1, 1, 1, 2, 3}).Draw(t, "hit")
				hadDelete, hadTSM := mc.DeletesHitting > 0, mc.TSMFilesSeen
				before := mc.CrashBetweenSteps
				if mc.CrashDuring(step(kind), point, hit) {
					crashes++
					if mc.CrashBetweenSteps > before && hadDelete && hadTSM {
						nontrivialCrash = true
					}
				}
			},
			"tornwal": func(t *rapid.T) {
				if mc.Tainted {
					return
				}
				// perform one acknowledged write or delete, measuring the extent of its WAL record
				seg0, sz0 := mc.NewestWALSegment()
				before := mc.M.Clone()
				hiddenBefore := mc.HiddenSnapshot()
				ofDelete := rapid.Bool().Draw(t, "tornOfDelete") && mc.M.Count() > 0
				if ofDelete {
					ss, lo, hi := genDelete(t)
					mc.Delete(ss, lo, hi)
				} else {
					mc.Write(gen.Batch(t, "tw", 6, &mc.Seq))
				}
				seg1, sz1 := mc.NewestWALSegment()
				if seg1 == "" {
					return
				}
				if seg1 != seg0 {
					sz0 = 0
				}
				if sz1 <= sz0 {
					rec.Class("tornwal:no-wal-growth")
					return
				}
				// offsets: record boundary, inside the 5-byte header, just after it, middle, last byte
				cands := []int64{sz0, sz0 + 1, sz0 + 4, sz0 + 5, sz0 + (sz1-sz0)/2, sz1 - 1}
				cut := rapid.SampledFrom(cands).Draw(t, "cut")
				if ev.Thorough() && rapid.Bool().Draw(t, "anyOffset") {
					cut = rapid.Int64Range(sz0, sz1-1).Draw(t, "cutAny")
				}
				if cut >= sz1 {
					cut = sz1 - 1
				}
				hadDelete, hadTSM := mc.DeletesHitting > 0, mc.TSMFilesSeen
				mc.TornWAL(before, hiddenBefore, seg1, cut, cut > sz0, ofDelete)
				crashes++
				if cut > sz0 && hadDelete && hadTSM {
					nontrivialCrash = true
				}
			},
			// a write whose record in the field-change log (fields.idxl, appended before the WAL) is
			// torn: the image holds a prefix of that record and nothing of the write's WAL record
			"tornfields": func(t *rapid.T) {
				if mc.Tainted {
					return
				}
				idxl := filepath.Join(mc.F.DataDir(), "fields.idxl")
				fsize := func() int64 {
					st, err := os.Stat(idxl)
					if err != nil {
						return 0
					}
					return st.Size()
				}
				seg0, sz0 := mc.NewestWALSegment()
				f0 := fsize()
				before := mc.M.Clone()
				hiddenBefore := mc.HiddenSnapshot()
				mc.Write(gen.Batch(t, "tf", 6, &mc.Seq))
				seg1, _ := mc.NewestWALSegment()
				f1 := fsize()
				if f1 <= f0 || seg1 == "" {
					rec.Class("tornfields:no-new-field")
					return
				}
				if seg1 != seg0 {
					sz0 = 0
				}
				// inside the 8-byte length prefix, just after it, middle, last byte
				cands := []int64{f0 + 1, f0 + 4, f0 + 7, f0 + 8, f0 + (f1-f0)/2, f1 - 1}
				cut := rapid.SampledFrom(cands).Draw(t, "fcut")
				if cut >= f1 {
					cut = f1 - 1
				}
				mc.TornFiles(before, hiddenBefore, []eng.Cut{{Path: seg1, Size: sz0}, {Path: idxl, Size: cut}},
					fmt.Sprintf("torn field-change log (fields.idxl cut at %d of %d..%d, WAL without the write)", cut, f0, f1), false)
				crashes++
				if f0 > 0 {
					rec.Class("tornfields:after-earlier-records")
				} else {
					rec.Class("tornfields:first-record")
				}
				if cut < f0+8 {
					rec.Class("tornfields:inside-length-prefix")
				}
			},
			"": func(t *rapid.T) {
				if !mc.Tainted {
					mc.RandomReads(t, 2)
				}
			},
		}
		// cheap state-building steps are aliased so that crashes are ~1/4 of the steps
		acts["write2"], acts["snapshot2"], acts["delete2"], acts["crash2"] = acts["write"], acts["snapshot"], acts["delete"], acts["crash"]
		pre := rapid.SampledFrom([]int{0, 1, 2, 4, 8}).Draw(t, "presnaps")
		for i := 0; i < pre; i++ {
			acts["write"](t)
			acts["snapshot"](t)
		}
		t.Repeat(acts)
		if !mc.Tainted {
			mc.FullScan()
		}
		rec.Eval()
		if crashes > 0 {
			rec.Class("history:with-crash")
		}
		if nontrivialCrash {
			rec.NonTrivial(eng.RenderOps(mc.Ops))
			rec.Class("history:non-trivial")
			if rec.WantSample() {
				rec.Sample(map[string]any{"ops": eng.RenderOps(mc.Ops)})
			}
		}
	})
}

func init() { _ = fmt.Sprint }
