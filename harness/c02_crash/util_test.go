package c02_crash

import (
	"github.com/influxdata/influxdb/v2/models"
	"pgregory.net/rapid"

	"verifharness/internal/gen"
	"verifharness/internal/model"
)

func toModels(t *rapid.T, pts []gen.WPoint) []models.Point {
	var mp []models.Point
	for _, p := range pts {
		x, err := p.ToModelsPoint()
		if err != nil {
			t.Fatalf("harness bug: %v", err)
		}
		mp = append(mp, x)
	}
	return mp
}

func applyWrite(m *model.Store, pts []gen.WPoint) {
	for _, p := range pts {
		for fn, v := range p.Fields {
			m.Write(p.Series, fn, p.T, v)
		}
	}
}
