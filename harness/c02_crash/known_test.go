package c02_crash

import (
	"fmt"
	"os"
	"path/filepath"
	"sort"
	"strings"
	"testing"
	"time"

	"github.com/influxdata/influxdb/v2/models"

	"verifharness/internal/eng"
	"verifharness/internal/fix"
	"verifharness/internal/gen"
	"verifharness/internal/model"
	"verifharness/internal/scratch"
)

func mustPoint(t *testing.T, series string, ts int64, v int64) models.Point {
	name, tags := models.ParseKeyBytes([]byte(series))
	p, err := models.NewPoint(string(name), tags, models.Fields{"fi": v}, time.Unix(0, ts))
	if err != nil {
		t.Fatal(err)
	}
	return p
}

// reproduceWALHole: write A and B (acknowledged); crash image whose WAL segment is cut inside
// B's record (torn tail); open the image (recovery truncates the torn tail); write C
// (acknowledged); clean close and open again. C must still be there.
func reproduceWALHole(t *testing.T) (lost bool, detail string) {
	root, err := scratch.Dir("c02-known-")
	if err != nil {
		t.Fatal(err)
	}
	defer os.RemoveAll(root)
	f, err := fix.NewShardFix(filepath.Join(root, "live"))
	if err != nil {
		t.Fatal(err)
	}
	if err := f.Write([]models.Point{mustPoint(t, "m0,host=a", 10, 1)}); err != nil {
		t.Fatal(err)
	}
	segs, _ := filepath.Glob(filepath.Join(f.WALDir(), "_*.wal"))
	sort.Strings(segs)
	st0, _ := os.Stat(segs[len(segs)-1])
	if err := f.Write([]models.Point{mustPoint(t, "m0,host=a", 20, 2)}); err != nil {
		t.Fatal(err)
	}
	st1, _ := os.Stat(segs[len(segs)-1])
	img := filepath.Join(root, "img")
	if err := fix.CopyTree(f.Root, img); err != nil {
		t.Fatal(err)
	}
	f.Close()
	rel, _ := filepath.Rel(f.Root, segs[len(segs)-1])
	cut := st0.Size() + (st1.Size()-st0.Size())/2
	if err := os.Truncate(filepath.Join(img, rel), cut); err != nil {
		t.Fatal(err)
	}
	g := &fix.ShardFix{Root: img}
	if err := g.Open(); err != nil {
		return true, fmt.Sprintf("open of torn image failed: %v", err)
	}
	defer g.Close()
	if err := g.Write([]models.Point{mustPoint(t, "m0,host=a", 30, 3)}); err != nil {
		return true, fmt.Sprintf("write after recovery failed: %v", err)
	}
	if err := g.Reopen(); err != nil {
		return true, fmt.Sprintf("reopen failed: %v", err)
	}
	got, err := g.Read("m0,host=a", "fi", models.MinNanoTime, models.MaxNanoTime, true)
	if err != nil {
		t.Fatal(err)
	}
	has := map[int64]bool{}
	for _, p := range got {
		has[p.T] = true
	}
	if !has[10] {
		return true, fmt.Sprintf("earlier entry @10 lost: %v", got)
	}
	if !has[30] {
		return true, fmt.Sprintf("write @30 acknowledged after recovery from a torn WAL tail (segment cut at %d of %d bytes) is gone after a clean restart; read returns %d points", cut, st1.Size(), len(got))
	}
	return false, ""
}

// TestKnown_wal_hole_after_torn_tail is the deterministic form of the first counterexample the
// generated search found for this property (see known_findings.json).
func TestKnown_wal_hole_after_torn_tail(t *testing.T) {
	lost, detail := reproduceWALHole(t)
	rec.Known(t, "TestKnown_wal_hole_after_torn_tail", "wal-hole-after-torn-tail", lost,
		"after recovery from a torn WAL tail, later acknowledged writes are lost on the next restart: "+detail, nil)
}

func TestKnown_keycursor_cyclic_block_order(t *testing.T) {
	r, what, err := eng.ReproCyclicBlockOrder(true)
	if err != nil {
		t.Fatal(err)
	}
	rec.Known(t, "TestKnown_keycursor_cyclic_block_order", fix.KeyCursorCyclicKey, r, "acknowledged write not reflected in reads after restart: "+what, nil)
}

func TestKnown_full_plan_skips_generation(t *testing.T) {
	r, what, err := eng.ReproFullPlanSkipsGeneration(true)
	if err != nil {
		t.Fatal(err)
	}
	rec.Known(t, "TestKnown_full_plan_skips_generation", fix.FullPlanSkipsKey, r, "acknowledged write not reflected in reads after compaction and restart: "+what, nil)
}

// An aborted measurement clean-up is logged as a deletion: after a crash inside a delete (its WAL
// record torn) the cache still holds points of a series the index has already dropped; the next
// delete that empties the measurement in the index cannot remove its field set (the cache still
// has keys of it) but reports it as deleted, so the deletion goes to fields.idxl while the fields
// stay in memory. A later acknowledged write to such a field is not logged and is unreadable after
// the next crash.
func TestKnown_aborted_measurement_cleanup_logged_as_deletion(t *testing.T) {
	const key = "aborted-measurement-cleanup-logged-as-deletion"
	var firstFail string
	mc := eng.New("C02", rec, func(k, detail string, c any) {
		if firstFail == "" {
			firstFail = k + ": " + strings.SplitN(detail, "\n", 2)[0]
		}
		panic(stopRepro{})
	}, t.Fatalf)
	defer mc.Close()
	func() {
		defer func() {
			if r := recover(); r != nil {
				if _, ok := r.(stopRepro); !ok {
					panic(r)
				}
			}
		}()
		a, b := "m0,host=a", "m0,host=b"
		mc.Write([]gen.WPoint{{Series: "m1,host=a", T: 1, Fields: gen.IntField("fi", 1)}}) // keeps the field set non-empty
		mc.Snapshot()
		mc.Write([]gen.WPoint{{Series: b, T: 100, Fields: gen.IntField("fi", 2)}})
		_, sz0 := mc.NewestWALSegment()
		before, hb := mc.M.Clone(), mc.HiddenSnapshot()
		mc.Delete([]string{b}, models.MinNanoTime, models.MaxNanoTime)
		seg, _ := mc.NewestWALSegment()
		mc.TornWAL(before, hb, seg, sz0+3, true, true) // recovery also writes m0,host=a fi@5 (probe)
		mc.Delete([]string{a}, models.MinNanoTime, models.MaxNanoTime)
		mc.Write([]gen.WPoint{{Series: b, T: 210, Fields: gen.IntField("fi", 3)}})
		mc.FullScan()
		mc.CrashDuring(eng.Step{Op: eng.Op{Kind: "snapshot"}, Run: func() error { return mc.F.Snapshot() }, After: func(m *model.Store) {}, Note: func() {}}, "tsm1.snapshot.after-clear", 1)
		mc.FullScan()
	}()
	rec.Known(t, "TestKnown_aborted_measurement_cleanup_logged_as_deletion", key, firstFail != "",
		"write m0,host=b fi@100; delete of m0,host=b interrupted by a crash (WAL record torn); after recovery delete m0,host=a (empties m0 in the index, the cache still holds m0,host=b); write m0,host=b fi@210 (acknowledged); crash during the next snapshot: "+firstFail, nil)
}

type stopRepro struct{}
