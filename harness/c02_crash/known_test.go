package c02_crash

import (
	"fmt"
	"os"
	"path/filepath"
	"sort"
	"testing"
	"time"

	"github.com/influxdata/influxdb/v2/models"

	"verifharness/internal/eng"
	"verifharness/internal/fix"
	"verifharness/internal/scratch"
)

func mustPoint(t *testing.T, series string, ts int64, v int64) models.Point {
	name, tags := models.ParseKeyBytes([]byte(series))
	p, err := models.NewPoint(string(name), tags, models.Fields{"fi": v}, time.Unix(0, ts))
	if err != nil {
		t.Fatal(err)
	}
	return p
}

// reproduceWALHole: write A and B (acknowledged); crash image whose WAL segment is cut inside
// B's record (torn tail); open the image (recovery truncates the torn tail); write C
// (acknowledged); clean close and open again. C must still be there.
func reproduceWALHole(t *testing.T) (lost bool, detail string) {
	root, err := scratch.Dir("c02-known-")
	if err != nil {
		t.Fatal(err)
	}
	defer os.RemoveAll(root)
	f, err := fix.NewShardFix(filepath.Join(root, "live"))
	if err != nil {
		t.Fatal(err)
	}
	if err := f.Write([]models.Point{mustPoint(t, "m0,host=a", 10, 1)}); err != nil {
		t.Fatal(err)
	}
	segs, _ := filepath.Glob(filepath.Join(f.WALDir(), "_*.wal"))
	sort.Strings(segs)
	st0, _ := os.Stat(segs[len(segs)-1])
	if err := f.Write([]models.Point{mustPoint(t, "m0,host=a", 20, 2)}); err != nil {
		t.Fatal(err)
	}
	st1, _ := os.Stat(segs[len(segs)-1])
	img := filepath.Join(root, "img")
	if err := fix.CopyTree(f.Root, img); err != nil {
		t.Fatal(err)
	}
	f.Close()
	rel, _ := filepath.Rel(f.Root, segs[len(segs)-1])
	cut := st0.Size() + (st1.Size()-st0.Size())/2
	if err := os.Truncate(filepath.Join(img, rel), cut); err != nil {
		t.Fatal(err)
	}
	g := &fix.ShardFix{Root: img}
	if err := g.Open(); err != nil {
		return true, fmt.Sprintf("open of torn image failed: %v", err)
	}
	defer g.Close()
	if err := g.Write([]models.Point{mustPoint(t, "m0,host=a", 30, 3)}); err != nil {
		return true, fmt.Sprintf("write after recovery failed: %v", err)
	}
	if err := g.Reopen(); err != nil {
		return true, fmt.Sprintf("reopen failed: %v", err)
	}
	got, err := g.Read("m0,host=a", "fi", models.MinNanoTime, models.MaxNanoTime, true)
	if err != nil {
		t.Fatal(err)
	}
	has := map[int64]bool{}
	for _, p := range got {
		has[p.T] = true
	}
	if !has[10] {
		return true, fmt.Sprintf("earlier entry @10 lost: %v", got)
	}
	if !has[30] {
		return true, fmt.Sprintf("write @30 acknowledged after recovery from a torn WAL tail (segment cut at %d of %d bytes) is gone after a clean restart; read returns %d points", cut, st1.Size(), len(got))
	}
	return false, ""
}

// TestKnown_wal_hole_after_torn_tail is the deterministic form of the first counterexample the
// generated search found for this property (see known_findings.json).
func TestKnown_wal_hole_after_torn_tail(t *testing.T) {
	lost, detail := reproduceWALHole(t)
	rec.Known(t, "TestKnown_wal_hole_after_torn_tail", "wal-hole-after-torn-tail", lost,
		"after recovery from a torn WAL tail, later acknowledged writes are lost on the next restart: "+detail, nil)
}

func TestKnown_keycursor_cyclic_block_order(t *testing.T) {
	r, what, err := eng.ReproCyclicBlockOrder(true)
	if err != nil {
		t.Fatal(err)
	}
	rec.Known(t, "TestKnown_keycursor_cyclic_block_order", fix.KeyCursorCyclicKey, r, "acknowledged write not reflected in reads after restart: "+what, nil)
}

func TestKnown_full_plan_skips_generation(t *testing.T) {
	r, what, err := eng.ReproFullPlanSkipsGeneration(true)
	if err != nil {
		t.Fatal(err)
	}
	rec.Known(t, "TestKnown_full_plan_skips_generation", fix.FullPlanSkipsKey, r, "acknowledged write not reflected in reads after compaction and restart: "+what, nil)
}
