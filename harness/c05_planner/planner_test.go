package c05_planner

import (
	"fmt"
	"strings"
	"testing"
	"time"

	"github.com/influxdata/influxdb/v2/tsdb"
	"github.com/influxdata/influxdb/v2/tsdb/engine/tsm1"
	"pgregory.net/rapid"

	"verifharness/internal/ev"
)

var rec = ev.For("C05", "exploration",
	"case = (generated TSM file layout: 1-14 generations x 1-4 files, sequence 1-6, 5 size classes around the 2 GB limit, 4 first-block counts, tombstones; cold duration) + a generated sequence of PlanLevel/Plan/PlanOptimize/ForceFull/Release/engine-tick calls interleaved with file-store mutations (finished compaction, snapshot, tombstone, seeded hold); non-trivial = a planning call made while >=1 group was held and >=3 generations existed returned >=1 group; distinct by canonical rendering of layout + executed call log. Concurrent part (TestPropConcurrentPlans): layouts of 1-7 generations x 1-4000 files + 2-4 planning calls started together from different goroutines on one planner (optionally after a held plan / ForceFull), 4 schedules per case; non-trivial = at least two of the calls, run alone, would be handed a common file. Exhaustive part: every state of <=N single-file generations x sequence 1-5 x 3 size classes x tombstone x held flag, each planner entry point once")

func init() {
	rec.Assume("The fake file store implements tsm1's unexported fileStore interface (Stats sorted by generation/sequence as FileStore.files is; LastModified either the zero time or a far-future time); real TSM files are never read by the planner.")
	rec.Assume("Caller protocol as in Engine.planCompactionsInner: the generations passed to PlanLevel/Plan/PlanOptimize come from DefaultPlanner.FindGenerations() and are fresh w.r.t. the file store; every handed-out group is released exactly once.")
	rec.Assume("Held sets are unions of whole generations (what the planner itself hands out); 'seeded holds' put a single arbitrary generation in use through the planner's own single-generation tombstone plans over a temporarily narrowed store.")
	rec.Assume("Calls are sequential in TestPropSequences/TestExhaustiveSmall (the engine plans from one goroutine; Release/ForceFull from others are atomic under the planner mutex), overlapping in TestPropConcurrentPlans; lastWrite is either the zero time (cold) or year 2200 (hot), so the oracle does not depend on the wall clock.")
}

var (
	sizeClasses = []uint32{1 << 10, 1 << 20, 1900 << 20, 2150 << 20, 3 << 30}
	fbcClasses  = []int{10, 999, 1000, 10000}
)

// ---- layout generator ----------------------------------------------------------------------------

func genLayout(t *rapid.T) []tsm1.ExtFileStat {
	n := rapid.IntRange(1, 14).Draw(t, "nGens")
	style := rapid.IntRange(0, 2).Draw(t, "style")
	levels := make([]int, 0, n) // first-file sequence number per generation, 1..6
	switch style {
	case 0: // realistic: old high-level generations first, then runs of descending level
		for lvl := 4; lvl >= 1 && len(levels) < n; lvl-- {
			maxRun := 5
			if lvl == 1 {
				maxRun = 10
			}
			run := rapid.IntRange(0, maxRun).Draw(t, fmt.Sprintf("run%d", lvl))
			for i := 0; i < run && len(levels) < n; i++ {
				s := lvl
				if lvl == 4 {
					s = rapid.IntRange(4, 6).Draw(t, "seqHi")
				}
				levels = append(levels, s)
			}
		}
		for len(levels) < n {
			levels = append(levels, 1)
		}
	case 1: // independent levels
		for i := 0; i < n; i++ {
			levels = append(levels, rapid.IntRange(1, 6).Draw(t, "seq"))
		}
	default: // runs of equal level in arbitrary order
		for len(levels) < n {
			s := rapid.IntRange(1, 5).Draw(t, "runSeq")
			run := rapid.IntRange(1, 9).Draw(t, "runLen")
			for i := 0; i < run && len(levels) < n; i++ {
				levels = append(levels, s)
			}
		}
	}
	var files []tsm1.ExtFileStat
	gen := 0
	for _, s := range levels {
		gen++
		if rapid.IntRange(0, 4).Draw(t, "gap") == 0 {
			gen += rapid.IntRange(1, 2).Draw(t, "gapN")
		}
		nf := 1
		if rapid.IntRange(0, 9).Draw(t, "multi") < 3 {
			nf = rapid.IntRange(2, 4).Draw(t, "nFiles")
		}
		for k := 0; k < nf; k++ {
			size := rapid.SampledFrom(sizeClasses).Draw(t, "size")
			fbc := rapid.SampledFrom(fbcClasses).Draw(t, "fbc")
			tomb := rapid.IntRange(0, 7).Draw(t, "tomb") == 0
			files = append(files, mkStat(gen, s+k, size, fbc, tomb))
		}
	}
	return files
}

// ---- the generated call sequences ------------------------------------------------------------

func TestPropSequences(t *testing.T) {
	rec.Check(t, 60000, 400000, func(t *rapid.T) {
		layout := genLayout(t)
		coldDur := rapid.SampledFrom([]time.Duration{tsdb.DefaultCompactFullWriteColdDuration, tsdb.DefaultCompactFullWriteColdDuration, tsdb.DefaultCompactFullWriteColdDuration, time.Hour, 0}).Draw(t, "coldDur")
		w := newWorld(layout, coldDur)
		start := w.st.render()
		startGens := len(w.st.gens())

		caseJSON := func() map[string]any {
			return map[string]any{"layout": start, "coldDur": coldDur.String(), "calls": w.log,
				"replay": replayCase{Files: layoutRecs(layout), ColdDurNs: int64(coldDur), Ops: w.ops}}
		}
		handle := func(f *finding, sigs []string) {
			for _, k := range sigs {
				if ev.KnownOpen("C05", k) {
					rec.ExcludedKnown(k)
					continue
				}
				rec.Fail(t, "TestPropSequences", k, "non-contiguous group from the full-compaction branch of Plan: "+lastKnownDetail(w), caseJSON())
			}
			if f != nil {
				rec.Fail(t, "TestPropSequences", f.key, f.detail, caseJSON())
			}
		}
		replaced, seeded, ticks := 0, 0, 0

		steps := rapid.IntRange(4, 40).Draw(t, "steps")
		for s := 0; s < steps; s++ {
			op := rapid.IntRange(0, 99).Draw(t, "op")
			switch {
			case op >= 54 && op < 69 && len(w.held) > 0: // release one or several groups in one call
				k := 1
				if len(w.held) > 1 && rapid.IntRange(0, 3).Draw(t, "multiRelease") == 0 {
					k = rapid.IntRange(2, len(w.held)).Draw(t, "nRelease")
				}
				idx := rapid.Permutation(seq(len(w.held))).Draw(t, "releaseOrder")[:k]
				handle(w.release(idx), nil)
			case op >= 69 && op < 81 && len(w.held) > 0: // a compaction finishes: Replace, then (maybe later) Release
				var cands []int
				for i, h := range w.held {
					if w.groupExists(h) {
						cands = append(cands, i)
					}
				}
				if len(cands) == 0 {
					handle(w.planLevel(rapid.IntRange(1, 3).Draw(t, "level"), false))
					break
				}
				i := cands[rapid.IntRange(0, len(cands)-1).Draw(t, "which")]
				nOut := rapid.SampledFrom([]int{1, 1, 1, 1, 2, 3, 0}).Draw(t, "nOut")
				out := make([]uint32, nOut)
				for k := range out {
					out[k] = rapid.SampledFrom(sizeClasses).Draw(t, "outSize")
				}
				w.replace(i, out, rapid.SampledFrom(fbcClasses).Draw(t, "outFbc"))
				replaced++
				if rapid.IntRange(0, 2).Draw(t, "releaseNow") > 0 {
					handle(w.release([]int{i}), nil)
				}
			case op >= 81 && op < 89: // cache snapshot(s)
				nf := 1
				if rapid.IntRange(0, 7).Draw(t, "bigSnap") == 0 {
					nf = 2
				}
				w.snapshot(nf, rapid.SampledFrom(sizeClasses).Draw(t, "snapSize"), rapid.SampledFrom(fbcClasses).Draw(t, "snapFbc"))
			case op >= 89 && op < 95 && len(w.st.files) > 0: // a delete leaves / a rewrite removes a tombstone
				w.toggleTombstone(rapid.IntRange(0, len(w.st.files)-1).Draw(t, "tombFile"))
			case op >= 95 && !w.forcePending: // seeded hold of one free generation
				var free []genInfo
				for _, g := range w.st.gens() {
					if !w.genHeld(g) {
						free = append(free, g)
					}
				}
				if len(free) == 0 {
					break
				}
				ok, f := w.seedHold(free[rapid.IntRange(0, len(free)-1).Draw(t, "seedGen")])
				if ok {
					seeded++
				}
				handle(f, nil)
			case op >= 44 && op < 54: // one engine tick: all five plans on one snapshot, start <=1, release the rest
				ticks++
				w.refresh()
				cold := rapid.Bool().Draw(t, "cold")
				before := len(w.held)
				for lvl := 1; lvl <= 3; lvl++ {
					handle(w.planLevel(lvl, false))
				}
				handle(w.plan(cold, rapid.Bool().Draw(t, "modified"), false))
				handle(w.planOptimize(cold, false))
				got := len(w.held) - before
				if got > 0 {
					keep := rapid.IntRange(-1, got-1).Draw(t, "start") // -1: limiter refused, nothing started
					for j := len(w.held) - 1; j >= before; j-- {
						if j-before == keep {
							continue
						}
						handle(w.release([]int{j}), nil)
					}
				}
			case op >= 38 && op < 44:
				w.forceFull()
			case op >= 30 && op < 38:
				handle(w.planOptimize(rapid.Bool().Draw(t, "cold"), rapid.Bool().Draw(t, "refresh")))
			case op >= 15 && op < 30:
				handle(w.plan(rapid.Bool().Draw(t, "cold"), rapid.Bool().Draw(t, "modified"), rapid.Bool().Draw(t, "refresh")))
			default:
				handle(w.planLevel(rapid.IntRange(1, 3).Draw(t, "level"), rapid.Bool().Draw(t, "refresh")))
			}
			handle(w.recheckHeld(), nil)
		}
		handle(w.releaseAll(), nil)

		// ---- evidence ----
		rec.Eval()
		if w.nontrivialCalls > 0 {
			rec.Class("seq:nontrivial")
			rec.NonTrivial(start + "|" + coldDur.String() + "|" + strings.Join(w.log, ";"))
			if rec.WantSample() {
				rec.Sample(caseJSON())
			}
		} else {
			rec.Class("seq:trivial")
		}
		flag := func(cond bool, name string) {
			if cond {
				rec.Class(name)
			}
		}
		flag(startGens >= 3, "seq:layout>=3-generations")
		flag(w.planCallsWithHeld > 0, "seq:plan-call-while-held")
		flag(w.sandwiched > 0, "seq:plan-call-with-held-generation-between-free-ones")
		flag(w.sandwichedFull > 0, "seq:full-branch-with-held-generation-between-free-ones")
		flag(w.fullBranchCalls > 0, "seq:full-branch-taken")
		flag(replaced > 0, "seq:compaction-finished(replace)")
		flag(seeded > 0, "seq:seeded-hold")
		flag(ticks > 0, "seq:engine-tick")
		for k, n := range w.byCall {
			flag(n > 0, "seq:groups-from:"+k)
		}
		for k := range w.sigs {
			rec.Class("seq:known-signature:" + k)
		}
		rec.ClassN("call:planning-calls", w.planCalls)
		rec.ClassN("call:groups-returned", w.groupsReturned)
	})
}

func seq(n int) []int {
	out := make([]int, n)
	for i := range out {
		out[i] = i
	}
	return out
}

func lastKnownDetail(w *world) string { return w.lastSig }
