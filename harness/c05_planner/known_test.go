package c05_planner

import (
	"fmt"
	"testing"

	"github.com/influxdata/influxdb/v2/tsdb"
	"github.com/influxdata/influxdb/v2/tsdb/engine/tsm1"
)

func hasSig(sigs []string, key string) bool {
	for _, s := range sigs {
		if s == key {
			return true
		}
	}
	return false
}

// TestKnown_full_plan_skips_generation: deterministic reproducer of finding
// `full-plan-skips-generation`, using only calls the engine makes.
//
//	nine level-1 snapshots, the 9th carries a tombstone
//	PlanLevel(1)            -> {1..8} and {9}          (both compactions start)
//	{1..8} finishes         -> Replace by 8-2, Release ({9} still running)
//	two more snapshots      -> generations 10, 11
//	ForceFull(); Plan()     -> {8-2, 10-1, 11-1}: generation 9 is skipped because it is in use
//
// The merged output is written as 11-2 and therefore sorts AFTER generation 9: every value of
// generations 1..8 that generation 9 had overwritten wins again.
func TestKnown_full_plan_skips_generation(t *testing.T) {
	var files []tsm1.ExtFileStat
	for g := 1; g <= 9; g++ {
		files = append(files, mkStat(g, 1, 1<<20, 100, g == 9))
	}
	w := newWorld(files, tsdb.DefaultCompactFullWriteColdDuration)
	f, _ := w.planLevel(1, true)
	if f != nil {
		t.Fatalf("unexpected finding in setup: %s: %s", f.key, f.detail)
	}
	if len(w.held) != 2 || len(w.held[0].files) != 8 || len(w.held[1].files) != 1 {
		// the setup did not produce the expected two level-1 groups: the planner changed; not reproduced
		rec.Known(t, "TestKnown_full_plan_skips_generation", keySkipHeld, false, "", nil)
		t.Logf("setup: PlanLevel(1) returned %d groups, scenario not applicable: %v", len(w.held), w.log)
		return
	}
	w.replace(0, []uint32{8 << 20}, 1000)
	if f := w.release([]int{0}); f != nil {
		t.Fatalf("unexpected finding in setup: %s: %s", f.key, f.detail)
	}
	w.snapshot(1, 1<<20, 100)
	w.snapshot(1, 1<<20, 100)
	w.forceFull()
	f, sigs := w.plan(false, true, true)
	reproduced := hasSig(sigs, keySkipHeld)
	var got any
	if n := len(w.held); n > 0 {
		got = w.held[n-1].files
	}
	detail := fmt.Sprintf("DefaultPlanner.Plan (full-compaction branch, after ForceFull) over generations 8(8-2) 9(9-1, tombstone, held by a running level-1 compaction) 10 11 hands out %v: generation 9 is skipped, the group is not contiguous in generation order (merging 8 into 11-2 moves older data past generation 9)", got)
	if f != nil {
		// some OTHER violation of the predicate in this scenario is never a known finding
		rec.Fail(t, "TestKnown_full_plan_skips_generation", f.key, f.detail, map[string]any{"calls": w.log})
	}
	rec.Known(t, "TestKnown_full_plan_skips_generation", keySkipHeld, reproduced, detail, map[string]any{"calls": w.log})
	t.Logf("reproduced=%v calls=%q", reproduced, w.log)
}

// TestKnown_full_plan_skips_oversize_generation: reproducer of finding
// `full-plan-skips-oversize-generation`; no held group is involved at all.
//
//	generations 1 (1 MB), 2 (2.1 GB, first block full), 3 (1 MB), 4 (1 MB), all level 4, shard cold
//	Plan() -> {1, 3, 4}: generation 2 is left out because it is over the maximum TSM size
//
// The output 4-5 sorts after generation 2 although it contains generation 1's older data.
func TestKnown_full_plan_skips_oversize_generation(t *testing.T) {
	files := []tsm1.ExtFileStat{
		mkStat(1, 4, 1<<20, 1000, false),
		mkStat(2, 4, 2150<<20, 1000, false),
		mkStat(3, 4, 1<<20, 1000, false),
		mkStat(4, 4, 1<<20, 1000, false),
	}
	w := newWorld(files, tsdb.DefaultCompactFullWriteColdDuration)
	f, sigs := w.plan(true, false, true)
	reproduced := hasSig(sigs, keySkipOversize)
	var got any
	if n := len(w.held); n > 0 {
		got = w.held[n-1].files
	}
	detail := fmt.Sprintf("DefaultPlanner.Plan (full-compaction branch, cold shard, nothing held) over level-4 generations 1(1 MB) 2(2.1 GB, full first block) 3(1 MB) 4(1 MB) hands out %v: the over-size generation 2 is skipped and generations 1 and 3,4 on both sides of it are merged into one group", got)
	if f != nil {
		rec.Fail(t, "TestKnown_full_plan_skips_oversize_generation", f.key, f.detail, map[string]any{"calls": w.log})
	}
	rec.Known(t, "TestKnown_full_plan_skips_oversize_generation", keySkipOversize, reproduced, detail, map[string]any{"calls": w.log})
	t.Logf("reproduced=%v calls=%q", reproduced, w.log)
}
