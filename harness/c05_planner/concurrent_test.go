package c05_planner

// The "schedules" dimension of C05: planning calls that OVERLAP IN TIME on one planner.
//
// DefaultPlanner guards filesInUse with a mutex and documents it as "the set of files that have
// been returned as part of a plan ... Two plans should not return the same file at any given
// time"; acquire() is the step that decides, for a finished plan, whether its files are still free
// and books them. That decision has to be atomic with respect to every other planning call, or two
// calls that overlap are both handed the same file. Sequential call orders can never show this
// (each planning call already filters the generations that are in use before it reaches acquire),
// so here 2-4 planning calls drawn from PlanLevel/Plan/PlanOptimize are started on the same
// planner and the same FindGenerations() snapshot from different goroutines, released together by
// a spin barrier (plus small drawn spin delays to vary the arrival order). After all calls have
// returned - nothing has been released yet - the same validity predicate as in the sequential
// checks is applied to everything that was handed out: pairwise disjoint, contiguous whole
// generations, InUseCount() == number of held files; then the groups are released concurrently
// and InUseCount() must be 0.
//
// Generations are "wide" (up to a few thousand files) in a good part of the cases: legal for the
// planner (a generation holds one file per 2 GB of data, and the planner is pure bookkeeping over
// Stats()), and it makes the time a call spends inside its booking step comparable to the
// scheduling jitter between the goroutines, so that overlapping booking steps are actually
// produced and not just possible in principle.

import (
	"fmt"
	"runtime"
	"strings"
	"sync"
	"sync/atomic"
	"testing"
	"time"

	"github.com/influxdata/influxdb/v2/tsdb"
	"github.com/influxdata/influxdb/v2/tsdb/engine/tsm1"
	"pgregory.net/rapid"

	"verifharness/internal/ev"
)

func init() {
	rec.Assume("TestPropConcurrentPlans: overlapping PlanLevel/Plan/PlanOptimize/Release calls on one DefaultPlanner from several goroutines are within its contract (mutex-guarded filesInUse, documented 'two plans should not return the same file at any given time'); the file store does not change while the calls overlap; which call wins a contended file is not prescribed, only that at most one does. The schedule is produced by the Go scheduler (spin barrier + drawn spin delays), so this part samples interleavings, it does not enumerate them; the wall clock is used only to classify whether calls overlapped, never in the oracle.")
}

// concCall is one planning call of the concurrent phase.
type concCall struct {
	Kind  string `json:"kind"` // "level" | "plan" | "optimize"
	Level int    `json:"level,omitempty"`
	Cold  bool   `json:"cold,omitempty"`
	Spin  int    `json:"spin"` // busy iterations between the barrier and the call
}

func (c concCall) String() string {
	switch c.Kind {
	case "level":
		return fmt.Sprintf("PlanLevel(%d)", c.Level)
	case "plan":
		return fmt.Sprintf("Plan(cold=%v)", c.Cold)
	default:
		return fmt.Sprintf("PlanOptimize(cold=%v)", c.Cold)
	}
}

func (c concCall) sameCall(o concCall) bool {
	return c.Kind == o.Kind && c.Level == o.Level && c.Cold == o.Cold
}

func (c concCall) run(p *tsm1.DefaultPlanner, gens tsm1.TsmGenerations) []tsm1.CompactionGroup {
	lastWrite := hotTime
	if c.Cold {
		lastWrite = coldTime
	}
	switch c.Kind {
	case "level":
		g, _ := p.PlanLevel(gens, c.Level)
		return g
	case "plan":
		g, _ := p.Plan(gens, lastWrite)
		return g
	default:
		g, _, _ := p.PlanOptimize(gens, lastWrite)
		return g
	}
}

// genWideLayout: 1-7 generations in runs of equal level; the number of files per generation is
// drawn from {1, 2-4, 20-200, 500-4000}; at most ~9000 files in total.
func genWideLayout(t *rapid.T) []tsm1.ExtFileStat {
	n := rapid.IntRange(1, 7).Draw(t, "nGens")
	var levels []int
	for len(levels) < n {
		s := rapid.SampledFrom([]int{1, 1, 2, 3, 4, 5}).Draw(t, "runSeq")
		run := rapid.IntRange(1, 5).Draw(t, "runLen")
		for i := 0; i < run && len(levels) < n; i++ {
			levels = append(levels, s)
		}
	}
	var files []tsm1.ExtFileStat
	gen, budget := 0, 9000
	for _, s := range levels {
		gen++
		if rapid.IntRange(0, 5).Draw(t, "gap") == 0 {
			gen++
		}
		var nf int
		switch rapid.IntRange(0, 9).Draw(t, "width") {
		case 0, 1:
			nf = 1
		case 2, 3:
			nf = rapid.IntRange(2, 4).Draw(t, "nFilesFew")
		case 4, 5, 6:
			nf = rapid.IntRange(20, 200).Draw(t, "nFilesMany")
		default:
			nf = rapid.IntRange(500, 4000).Draw(t, "nFilesWide")
		}
		if nf > budget {
			nf = budget
		}
		if nf < 1 {
			nf = 1
		}
		budget -= nf
		size := rapid.SampledFrom([]uint32{1 << 10, 1 << 20, 1 << 20, 1900 << 20, 2150 << 20}).Draw(t, "size")
		fbc := rapid.SampledFrom(fbcClasses).Draw(t, "fbc")
		tomb := rapid.Bool().Draw(t, "tomb")
		for k := 0; k < nf; k++ {
			files = append(files, mkStat(gen, s+k, size, fbc, tomb && k == 0))
		}
	}
	return files
}

// genConcCall draws one planning call; PlanLevel mostly for a level that occurs in the layout.
func genConcCall(t *rapid.T, present []int) concCall {
	var c concCall
	switch rapid.IntRange(0, 9).Draw(t, "callKind") {
	case 0, 1, 2, 3:
		if len(present) > 0 && rapid.IntRange(0, 4).Draw(t, "presentLevel") > 0 {
			c = concCall{Kind: "level", Level: rapid.SampledFrom(present).Draw(t, "level")}
		} else {
			c = concCall{Kind: "level", Level: rapid.IntRange(1, 3).Draw(t, "level")}
		}
	case 4, 5, 6, 7:
		c = concCall{Kind: "plan", Cold: rapid.IntRange(0, 2).Draw(t, "cold") > 0}
	default:
		c = concCall{Kind: "optimize", Cold: true}
	}
	return c
}

func genSpin(t *rapid.T) int {
	switch rapid.IntRange(0, 5).Draw(t, "spinClass") {
	case 0, 1, 2, 3:
		return 0
	case 4:
		return rapid.IntRange(1, 300).Draw(t, "spinShort")
	default:
		return rapid.IntRange(300, 30000).Draw(t, "spinLong")
	}
}

var spinSink uint64

func busy(n int) {
	var x uint64
	for i := 0; i < n; i++ {
		x += uint64(i) ^ (x >> 3)
	}
	atomic.AddUint64(&spinSink, x)
}

func fileSet(groups []tsm1.CompactionGroup) map[string]bool {
	m := map[string]bool{}
	for _, g := range groups {
		for _, f := range g {
			m[f] = true
		}
	}
	return m
}

type concResult struct {
	groups     []tsm1.CompactionGroup
	start, end time.Time
}

func TestPropConcurrentPlans(t *testing.T) {
	rec.Check(t, 700, 12000, func(t *rapid.T) {
		layout := genWideLayout(t)
		coldDur := rapid.SampledFrom([]time.Duration{tsdb.DefaultCompactFullWriteColdDuration, tsdb.DefaultCompactFullWriteColdDuration, time.Hour, 0}).Draw(t, "coldDur")
		var present []int // levels 1-3 that occur in the layout
		for lvl := 1; lvl <= 3; lvl++ {
			for i, f := range layout {
				if (i == 0 || layout[i-1].Generation != f.Generation) && f.Sequence == lvl {
					present = append(present, lvl)
					break
				}
			}
		}
		force := rapid.IntRange(0, 9).Draw(t, "forceFull") == 0
		var pre *concCall // a plan that is already held when the overlapping calls start
		if rapid.IntRange(0, 3).Draw(t, "pre") == 0 {
			c := genConcCall(t, present)
			pre = &c
		}
		k := rapid.IntRange(2, 4).Draw(t, "nCalls")
		calls := make([]concCall, 0, k)
		for i := 0; i < k; i++ {
			var c concCall
			// contention by construction: most later calls repeat an earlier one
			if i > 0 && rapid.IntRange(0, 9).Draw(t, "repeat") < 6 {
				c = calls[rapid.IntRange(0, i-1).Draw(t, "repeatOf")]
			} else {
				c = genConcCall(t, present)
			}
			c.Spin = genSpin(t)
			calls = append(calls, c)
		}
		concurrentRelease := rapid.Bool().Draw(t, "concurrentRelease")

		var lastWorld *world
		caseJSON := func() map[string]any {
			m := map[string]any{"coldDur": coldDur.String(), "forceFull": force, "pre": pre, "concurrent_calls": calls,
				"layout(gen:firstSeq:size:fbc[T]xfiles)": layoutDigest(layout)}
			if lastWorld != nil {
				m["calls"] = lastWorld.log
			}
			return m
		}
		fail := func(f *finding, sigs []string) {
			for _, key := range sigs {
				// the two full-plan findings are fixed in /repo; should one be reopened, it is reported by
				// the sequential tests with a replayable case - here it is only counted
				if ev.KnownOpen("C05", key) {
					rec.ExcludedKnown(key)
					continue
				}
				rec.Fail(t, "TestPropConcurrentPlans", key, "non-contiguous group from the full-compaction branch of Plan: "+lastWorld.lastSig, caseJSON())
			}
			if f != nil {
				if f.key == "double-booked" {
					f.key = "double-booked-concurrent"
				}
				detail := f.detail
				if len(detail) > 700 {
					detail = detail[:700] + " ...(truncated)"
				}
				rec.Fail(t, "TestPropConcurrentPlans", f.key, detail, caseJSON())
			}
		}

		// solo plans: what each call is handed when it runs alone in the same starting state. Two calls
		// whose solo plans share a file contend for it when they overlap.
		// The file store does not change during a case: one store and one FindGenerations() snapshot
		// (a function of FileStore.Stats() only) serve every planner of the case.
		st := &fakeStore{files: layout, lastMod: fsModified}
		st.sortFiles()
		gens := tsm1.NewDefaultPlanner(st, coldDur).FindGenerations()
		solo := make([]map[string]bool, k)
		for i, c := range calls {
			if i > 0 && c.sameCall(calls[i-1]) {
				solo[i] = solo[i-1]
				continue
			}
			p := tsm1.NewDefaultPlanner(st, coldDur)
			if pre != nil {
				pre.run(p, gens)
			}
			if force {
				p.ForceFull()
			}
			solo[i] = fileSet(c.run(p, gens))
		}
		contended, widest := false, 0
		for i := 0; i < k; i++ {
			for j := i + 1; j < k; j++ {
				n := 0
				for f := range solo[i] {
					if solo[j][f] {
						n++
					}
				}
				if n > 0 {
					contended = true
					if n > widest {
						widest = n
					}
				}
			}
		}

		overlapped, lostContended := false, false
		rounds := 1 // calls that do not contend: once; contending calls: several schedules
		if contended {
			rounds = 4
		}
		for r := 0; r < rounds; r++ {
			w := newWorldOn(st, coldDur)
			lastWorld = w
			if pre != nil {
				g := pre.run(w.p, gens)
				w.logf("pre: %s -> %s", pre, brief(g))
				f, sigs := w.accept("pre:"+pre.String(), pre.Kind == "plan", g)
				fail(f, sigs)
				fail(w.checkInUse("pre:"+pre.String()), nil)
			}
			if force {
				w.p.ForceFull()
				w.logf("ForceFull()")
			}

			// ---- the overlapping calls ----
			res := make([]concResult, k)
			spinLimit := 1 << 20 // pure spinning: the calls start within nanoseconds of each other
			if runtime.GOMAXPROCS(0) < k {
				spinLimit = 200 // fewer processors than calls: yield, or the barrier never completes
			}
			var ready int32
			var wg sync.WaitGroup
			wg.Add(k)
			for i := range calls {
				go func(i int) {
					defer wg.Done()
					atomic.AddInt32(&ready, 1)
					for spins := 0; atomic.LoadInt32(&ready) < int32(k); spins++ {
						if spins > spinLimit {
							runtime.Gosched()
						}
					}
					busy(calls[i].Spin)
					res[i].start = time.Now()
					res[i].groups = calls[i].run(w.p, gens)
					res[i].end = time.Now()
				}(i)
			}
			wg.Wait()

			// ---- oracle: everything handed out is held now ----
			for i, c := range calls {
				w.logf("concurrent #%d: %s (spin %d) -> %s", i, c, c.Spin, brief(res[i].groups))
			}
			for i, c := range calls {
				f, sigs := w.accept(fmt.Sprintf("concurrent call #%d %s", i, c), c.Kind == "plan", res[i].groups)
				fail(f, sigs)
			}
			fail(w.checkInUse("the overlapping calls"), nil)
			fail(w.recheckHeld(), nil)

			for i := 0; i < k; i++ {
				if len(solo[i]) > 0 && len(res[i].groups) == 0 {
					lostContended = true
				}
				for j := i + 1; j < k; j++ {
					if res[i].start.Before(res[j].end) && res[j].start.Before(res[i].end) {
						overlapped = true
					}
				}
			}

			// ---- release ----
			if concurrentRelease && len(w.held) > 1 {
				var rg sync.WaitGroup
				for _, h := range w.held {
					rg.Add(1)
					go func(files []string) {
						defer rg.Done()
						w.p.Release([]tsm1.CompactionGroup{append(tsm1.CompactionGroup(nil), files...)})
					}(h.files)
				}
				rg.Wait()
				w.held, w.heldFiles = nil, map[string]int{}
				w.logf("Release(all, concurrently)")
				fail(w.checkInUse("concurrent Release of everything"), nil)
			} else {
				fail(w.releaseAll(), nil)
			}
		}

		// ---- evidence ----
		rec.Eval()
		rec.Class("conc:case")
		flag := func(cond bool, name string) {
			if cond {
				rec.Class(name)
			}
		}
		flag(contended, "conc:calls-contend-for-the-same-files")
		flag(contended && overlapped, "conc:contended-and-calls-overlapped-in-time")
		flag(contended && widest >= 500, "conc:contended-over>=500-files")
		flag(contended && lostContended, "conc:contended-and-a-call-was-refused")
		flag(pre != nil, "conc:with-held-plan-before")
		flag(force, "conc:with-ForceFull-pending")
		flag(concurrentRelease, "conc:concurrent-release")
		if contended {
			var cs []string
			for _, c := range calls {
				cs = append(cs, fmt.Sprintf("%s/%d", c, c.Spin))
			}
			rec.NonTrivial("conc|" + layoutDigest(layout) + "|" + coldDur.String() + "|" + fmt.Sprint(force, pre) + "|" + strings.Join(cs, ";"))
			if rec.WantSample() {
				rec.Sample(caseJSON())
			}
		}
	})
}

// layoutDigest renders one entry per generation: id:firstSeq:size:fbc[T] x files.
func layoutDigest(files []tsm1.ExtFileStat) string {
	var sb strings.Builder
	last := -1
	n := 0
	for i, f := range files {
		if f.Generation != last {
			if last >= 0 {
				fmt.Fprintf(&sb, "x%d ", n)
			}
			fmt.Fprintf(&sb, "%d:%d:%d:%d", f.Generation, f.Sequence, f.Size, f.FirstBlockCount)
			if f.HasTombstone {
				sb.WriteString("T")
			}
			last, n = f.Generation, 0
		}
		n++
		if i == len(files)-1 {
			fmt.Fprintf(&sb, "x%d", n)
		}
	}
	return sb.String()
}

// brief renders returned groups without listing thousands of paths.
func brief(groups []tsm1.CompactionGroup) string {
	if len(groups) == 0 {
		return "nothing"
	}
	var parts []string
	for _, g := range groups {
		if len(g) <= 4 {
			parts = append(parts, fmt.Sprint([]string(g)))
		} else {
			parts = append(parts, fmt.Sprintf("[%s ... %s (%d files)]", g[0], g[len(g)-1], len(g)))
		}
	}
	return strings.Join(parts, " ")
}
