package c05_planner

import (
	"fmt"
	"testing"

	"github.com/influxdata/influxdb/v2/tsdb"
	"github.com/influxdata/influxdb/v2/tsdb/engine/tsm1"

	"verifharness/internal/ev"
)

// Exhaustive small sub-space: every file-store state of n single-file generations (ids 1..n) with
//
//	first sequence number 1..5 (levels 1,2,3,4,4) x 3 size classes x tombstone flag x held flag
//
// and, for each state, every planner entry point once (PlanLevel 1/2/3, Plan hot, Plan cold =
// full branch, PlanOptimize cold, ForceFull+Plan), each followed by the release of what it
// returned. Held generations are put in use with seedHold. quick: n <= 3 (219 660 states);
// thorough: n <= 4 (13 179 660 states).
type exhAttr struct {
	seq  int
	size uint32
	fbc  int
}

var exhSizes = []exhAttr{
	{0, 1 << 20, 100},     // small
	{0, 1500 << 20, 1000}, // large but under the limit (more than twice "small": the size-ratio rule of Plan)
	{0, 2150 << 20, 1000}, // over the 2 GB limit with a full first block: "do not re-compact"
}

const exhPerGen = 5 * 3 * 2 * 2

func exhState(n int, code []int) (files []tsm1.ExtFileStat, held []bool) {
	held = make([]bool, n)
	for g := 0; g < n; g++ {
		c := code[g]
		seq := c%5 + 1
		c /= 5
		sz := exhSizes[c%3]
		c /= 3
		tomb := c%2 == 1
		c /= 2
		held[g] = c%2 == 1
		files = append(files, mkStat(g+1, seq, sz.size, sz.fbc, tomb))
	}
	return
}

func TestExhaustiveSmall(t *testing.T) {
	maxN := 3
	if ev.Thorough() {
		maxN = 4
	}
	if ev.N(100, 100) < 100 { // smoke runs (VERIF_SCALE < 1)
		maxN = 2
	}
	var states, calls, nontrivial, withHeld, sandwich int64
	fail := func(w *world, call string, f *finding, sigs []string) {
		for _, k := range sigs {
			if ev.KnownOpen("C05", k) {
				rec.ExcludedKnown(k)
				continue
			}
			rec.Fail(t, "TestExhaustiveSmall", k, "non-contiguous group from the full-compaction branch of Plan: "+w.lastSig, map[string]any{"state": w.st.render(), "held": fmt.Sprint(w.heldFiles), "call": call})
		}
		if f != nil {
			rec.Fail(t, "TestExhaustiveSmall", f.key, f.detail, map[string]any{"state": w.st.render(), "held": fmt.Sprint(w.heldFiles), "call": call})
		}
	}
	for n := 1; n <= maxN; n++ {
		code := make([]int, n)
		for {
			files, heldFlags := exhState(n, code)
			w := newWorld(files, tsdb.DefaultCompactFullWriteColdDuration)
			w.quiet = true
			seeded := 0
			okState := true
			for g, h := range heldFlags {
				if !h {
					continue
				}
				ok, f := w.seedHold(w.st.gens()[g])
				fail(w, "SeedHold", f, nil)
				if !ok {
					okState = false
					break
				}
				seeded++
			}
			if !okState {
				rec.Class("exh:seed-not-obtained")
				_ = w.releaseAll()
			} else {
				states++
				if seeded > 0 {
					withHeld++
				}
				if w.hasSandwich() {
					sandwich++
				}
				returned := 0
				undo := func(call string) {
					for len(w.held) > seeded {
						returned++
						fail(w, call, w.release([]int{len(w.held) - 1}), nil)
					}
				}
				for lvl := 1; lvl <= 3; lvl++ {
					f, s := w.planLevel(lvl, false)
					fail(w, fmt.Sprintf("PlanLevel(%d)", lvl), f, s)
					undo("PlanLevel")
				}
				f, s := w.plan(false, true, false)
				fail(w, "Plan(hot)", f, s)
				undo("Plan(hot)")
				f, s = w.plan(true, true, false)
				fail(w, "Plan(cold)", f, s)
				undo("Plan(cold)")
				f, s = w.planOptimize(true, false)
				fail(w, "PlanOptimize(cold)", f, s)
				undo("PlanOptimize(cold)")
				w.forceFull()
				f, s = w.plan(false, true, false)
				fail(w, "ForceFull+Plan(hot)", f, s)
				undo("ForceFull+Plan(hot)")
				calls += 7
				if n >= 3 && seeded > 0 && returned > 0 {
					nontrivial++
					if nontrivial <= 300000 {
						rec.NonTrivial(fmt.Sprintf("exh|%d|%v", n, code))
					}
				}
				fail(w, "ReleaseAll", w.releaseAll(), nil)
			}
			// next state
			i := 0
			for ; i < n; i++ {
				code[i]++
				if code[i] < exhPerGen {
					break
				}
				code[i] = 0
			}
			if i == n {
				break
			}
		}
	}
	rec.EvalN(int(states))
	rec.ClassN("exh:states", int(states))
	rec.ClassN("exh:states-with-held-generation", int(withHeld))
	rec.ClassN("exh:states-with-held-generation-between-free-ones", int(sandwich))
	rec.ClassN("exh:states-nontrivial", int(nontrivial))
	rec.ClassN("exh:planner-calls", int(calls))
	rec.Extra("exhaustive_subspace_states", states)
	rec.Extra("exhaustive_subspace", fmt.Sprintf("all states of <=%d single-file generations x sequence 1..5 x 3 size classes x tombstone x held, 7 planner entry points each: %d states", maxN, states))
}
