package c05_planner

import (
	"testing"

	"verifharness/internal/ev"
)

func TestMain(m *testing.M) { ev.Main(m) }
