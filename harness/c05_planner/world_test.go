// C05 — Compaction plans never reorder data or double-book files.
//
// The real tsm1.DefaultPlanner is driven over a FAKE file store (the unexported `fileStore`
// interface is satisfied structurally). The harness keeps its own record of every group the
// planner handed out and that was not released yet ("held"), mutates the fake store the way the
// engine does (finished compaction: inputs replaced by files <max-gen>-<max-seq+1..>; snapshot:
// new generation; delete: tombstone flag) and checks every returned group against the validity
// predicate of the property statement:
//
//	(1) disjoint from every other held group (and from the other groups of the same call),
//	(2) its generations are a contiguous run in generation order among the generations that
//	    currently exist,
//	(3) whole generations only,
//	(4) DefaultPlanner.InUseCount() == number of held files (doc of filesInUse / Release).
//
// Call protocol (derived from Engine.planCompactionsInner / compact / compactionStrategy):
// FindGenerations() is taken from the planner and is fresh with respect to the file store when it
// is passed to PlanLevel/Plan/PlanOptimize; one snapshot may be used for several planner calls;
// every handed-out group is released exactly once, after (or without) FileStore.Replace.
package c05_planner

import (
	"errors"
	"fmt"
	"sort"
	"strings"
	"time"

	"github.com/influxdata/influxdb/v2/tsdb"
	"github.com/influxdata/influxdb/v2/tsdb/engine/tsm1"
)

const (
	keySkipHeld     = "full-plan-skips-generation"
	keySkipOversize = "full-plan-skips-oversize-generation"
)

// time constants: "cold" = last write at the zero time (time.Since saturates, > any cold
// duration); "hot" = last write far in the future (time.Since negative, < any cold duration).
// Both are independent of the wall clock for the next ~170 years.
var (
	coldTime   = time.Time{}
	hotTime    = time.Date(2200, 1, 1, 0, 0, 0, 0, time.UTC)
	fsStale    = time.Time{}                                  // file store not modified since the last Plan
	fsModified = time.Date(2200, 1, 1, 0, 0, 0, 0, time.UTC) // file store modified after any lastPlanCheck
)

// ---- fake file store ------------------------------------------------------------------------

type fakeStore struct {
	files   []tsm1.ExtFileStat // sorted by (generation, sequence) like FileStore.files
	lastMod time.Time
	maxGen  int
}

func (s *fakeStore) Stats() []tsm1.ExtFileStat {
	out := make([]tsm1.ExtFileStat, len(s.files))
	copy(out, s.files)
	return out
}
func (s *fakeStore) LastModified() time.Time { return s.lastMod }
func (s *fakeStore) ParseFileName(path string) (int, int, error) {
	return tsm1.DefaultParseFileName(path)
}
func (s *fakeStore) NextGeneration() int { s.maxGen++; return s.maxGen }
func (s *fakeStore) TSMReader(path string) (*tsm1.TSMReader, error) {
	return nil, errors.New("fake file store has no readers")
}
func (s *fakeStore) SupportsCompactionPlanning() bool { return true }

func pathOf(gen, seq int) string {
	return "/fake/" + tsm1.DefaultFormatFileName(gen, seq) + "." + tsm1.TSMFileExtension
}

func mkStat(gen, seq int, size uint32, fbc int, tomb bool) tsm1.ExtFileStat {
	return tsm1.ExtFileStat{
		FileStat:        tsm1.FileStat{Path: pathOf(gen, seq), Generation: gen, Sequence: seq, Size: size, HasTombstone: tomb},
		FirstBlockCount: fbc,
	}
}

func (s *fakeStore) sortFiles() {
	sort.Slice(s.files, func(i, j int) bool {
		a, b := s.files[i], s.files[j]
		if a.Generation != b.Generation {
			return a.Generation < b.Generation
		}
		return a.Sequence < b.Sequence
	})
	for _, f := range s.files {
		if f.Generation > s.maxGen {
			s.maxGen = f.Generation
		}
	}
}

// genInfo is the harness' own view of one generation (independent of tsm1's tsmGeneration).
type genInfo struct {
	id    int
	files []tsm1.ExtFileStat
}

func (g genInfo) level() int {
	if g.files[0].Sequence < 4 {
		return g.files[0].Sequence
	}
	return 4
}
func (g genInfo) size() uint64 {
	var n uint64
	for _, f := range g.files {
		n += uint64(f.Size)
	}
	return n
}
func (g genInfo) tomb() bool {
	for _, f := range g.files {
		if f.HasTombstone {
			return true
		}
	}
	return false
}

func (s *fakeStore) gens() []genInfo {
	// s.files is sorted by generation: every generation is a sub-slice (capacity-limited, callers
	// only read it; wide generations make copying the large ExtFileStat structs expensive)
	var out []genInfo
	start := 0
	for i := 1; i <= len(s.files); i++ {
		if i == len(s.files) || s.files[i].Generation != s.files[start].Generation {
			out = append(out, genInfo{id: s.files[start].Generation, files: s.files[start:i:i]})
			start = i
		}
	}
	return out
}

func (s *fakeStore) render() string {
	var sb strings.Builder
	for _, f := range s.files {
		fmt.Fprintf(&sb, "%d-%d:%d:%d", f.Generation, f.Sequence, f.Size, f.FirstBlockCount)
		if f.HasTombstone {
			sb.WriteString("T")
		}
		sb.WriteString(" ")
	}
	return sb.String()
}

// ---- the world: planner + fake store + harness bookkeeping ---------------------------------------

type heldGroup struct {
	id     int
	files  []string
	origin string
	known  bool // handed out under an open known finding (exempt from the contiguity re-check)
}

type finding struct {
	key, detail string
}

type world struct {
	st           *fakeStore
	p            *tsm1.DefaultPlanner
	coldDur      time.Duration
	gens         tsm1.TsmGenerations
	dirty        bool // file store changed since gens was taken
	held         []*heldGroup
	heldFiles    map[string]int // path -> held group id
	forcePending bool           // ForceFull called and not yet consumed by a Plan call
	nextID       int
	log          []string
	quiet        bool // do not keep a call log (exhaustive enumeration)
	ops          []opRec
	lastSig      string

	// statistics of the case
	sigs              map[string]int // known-finding signatures seen (key -> count)
	planCalls         int
	planCallsWithHeld int // planning calls made while >=1 group was held
	returnedWithHeld  int // ... that returned >=1 group
	sandwiched        int // planning calls made while a held generation lay strictly between two free ones
	sandwichedFull    int // ... that took the full-compaction branch of Plan
	nontrivialCalls   int // planning calls with >=1 held group and >=3 generations that returned >=1 group
	fullBranchCalls   int
	groupsReturned    int
	byCall            map[string]int // call kind -> groups returned
}

func newWorld(files []tsm1.ExtFileStat, coldDur time.Duration) *world {
	st := &fakeStore{files: files, lastMod: fsStale}
	st.sortFiles()
	return newWorldOn(st, coldDur)
}

// newWorldOn: a fresh planner + bookkeeping over an existing (already sorted) fake store.
func newWorldOn(st *fakeStore, coldDur time.Duration) *world {
	w := &world{st: st, coldDur: coldDur, heldFiles: map[string]int{}, sigs: map[string]int{}, byCall: map[string]int{}, dirty: true}
	w.p = tsm1.NewDefaultPlanner(st, coldDur)
	return w
}

// opRec is one executed harness action in replayable form (see replay_test.go).
type opRec struct {
	Op string `json:"op"`
	A  []int  `json:"a,omitempty"`
	B  []bool `json:"b,omitempty"`
}

func (w *world) record(op string, a []int, b []bool) {
	if w.quiet {
		return
	}
	w.ops = append(w.ops, opRec{op, a, b})
}

func (w *world) logf(format string, a ...any) {
	if w.quiet {
		return
	}
	w.log = append(w.log, fmt.Sprintf(format, a...))
}

func (w *world) refresh() {
	w.record("refresh", nil, nil)
	w.refreshQuiet()
}

func (w *world) refreshQuiet() {
	w.gens = w.p.FindGenerations()
	w.dirty = false
}

func (w *world) generations(forceRefresh bool) tsm1.TsmGenerations {
	if w.dirty || forceRefresh || w.gens == nil {
		w.refreshQuiet()
	}
	return w.gens
}

func (w *world) genHeld(g genInfo) bool {
	for _, f := range g.files {
		if _, ok := w.heldFiles[f.Path]; ok {
			return true
		}
	}
	return false
}

// hasSandwich: some held generation lies strictly between two generations that are not held.
func (w *world) hasSandwich() bool {
	gs := w.st.gens()
	firstFree, lastFree := -1, -1
	for i, g := range gs {
		if !w.genHeld(g) {
			if firstFree < 0 {
				firstFree = i
			}
			lastFree = i
		}
	}
	if firstFree < 0 {
		return false
	}
	for i := firstFree + 1; i < lastFree; i++ {
		if w.genHeld(gs[i]) {
			return true
		}
	}
	return false
}

// oversizeSkippable mirrors the condition under which the full-compaction branch of Plan leaves a
// generation out although it is not in use (compact.go, "Skip the file if it's over the max size...").
func oversizeSkippable(gs []genInfo, i int) bool {
	g := gs[i]
	if !(len(gs) > 2 && g.size() > uint64(tsdb.MaxTSMFileSize) && g.files[0].FirstBlockCount >= tsdb.DefaultMaxPointsPerBlock && !g.tomb()) {
		return false
	}
	if i < len(gs)-1 && gs[i+1].level() <= 3 {
		return false
	}
	return true
}

// accept checks the groups returned by one planner call against the validity predicate and, when
// they pass (or only show known-finding signatures), records them as held. It returns a finding for
// a violation, and the list of known-finding signature keys that were observed (the caller decides,
// via ev.KnownOpen, whether those are excluded or reported).
func (w *world) accept(call string, fullBranch bool, groups []tsm1.CompactionGroup) (*finding, []string) {
	gs := w.st.gens()
	pos := map[int]int{}       // generation id -> index in generation order
	fileGen := map[string]int{} // path -> generation id
	for i, g := range gs {
		pos[g.id] = i
		for _, f := range g.files {
			fileGen[f.Path] = g.id
		}
	}
	var sigKeys []string
	seenNow := map[string]int{}
	type pending struct {
		files []string
		known bool
	}
	var toHold []pending
	for gi, grp := range groups {
		if len(grp) == 0 {
			return &finding{"empty-group", fmt.Sprintf("%s returned an empty compaction group (index %d)", call, gi)}, nil
		}
		touched := map[int]int{}
		for _, f := range grp {
			if other, ok := w.heldFiles[f]; ok {
				return &finding{"double-booked", fmt.Sprintf("%s handed out %s which is already held by group #%d (%s)", call, f, other, w.heldDesc(other))}, nil
			}
			if prev, ok := seenNow[f]; ok {
				return &finding{"double-booked", fmt.Sprintf("%s handed out %s twice (groups %d and %d of the same call)", call, f, prev, gi)}, nil
			}
			seenNow[f] = gi
			g, ok := fileGen[f]
			if !ok {
				return &finding{"unknown-file", fmt.Sprintf("%s handed out %s which is not in the file store", call, f)}, nil
			}
			touched[g]++
		}
		ids := make([]int, 0, len(touched))
		for id, n := range touched {
			if n != len(gs[pos[id]].files) {
				return &finding{"partial-generation", fmt.Sprintf("%s handed out %d of %d files of generation %d: %v", call, n, len(gs[pos[id]].files), id, []string(grp))}, nil
			}
			ids = append(ids, id)
		}
		sort.Ints(ids)
		lo, hi := pos[ids[0]], pos[ids[len(ids)-1]]
		known := false
		if hi-lo+1 != len(ids) {
			// non-contiguous: which generations were skipped?
			var heldGaps, oversizeGaps, otherGaps []int
			for i := lo + 1; i < hi; i++ {
				if _, in := touched[gs[i].id]; in {
					continue
				}
				switch {
				case w.genHeld(gs[i]):
					heldGaps = append(heldGaps, gs[i].id)
				case oversizeSkippable(gs, i):
					oversizeGaps = append(oversizeGaps, gs[i].id)
				default:
					otherGaps = append(otherGaps, gs[i].id)
				}
			}
			detail := fmt.Sprintf("%s handed out generations %v, skipping existing generations held=%v oversize=%v other=%v; store: %s", call, ids, heldGaps, oversizeGaps, otherGaps, w.st.render())
			if !fullBranch || len(otherGaps) > 0 {
				return &finding{"non-contiguous", detail}, nil
			}
			if len(heldGaps) > 0 {
				sigKeys = append(sigKeys, keySkipHeld)
			}
			if len(oversizeGaps) > 0 {
				sigKeys = append(sigKeys, keySkipOversize)
			}
			known = true
			w.lastSig = detail
			w.logf("   (known signature: %s)", detail)
		}
		toHold = append(toHold, pending{append([]string(nil), grp...), known})
	}
	for _, p := range toHold {
		w.nextID++
		h := &heldGroup{id: w.nextID, files: p.files, origin: call, known: p.known}
		w.held = append(w.held, h)
		for _, f := range p.files {
			w.heldFiles[f] = h.id
		}
	}
	for _, k := range sigKeys {
		w.sigs[k]++
	}
	w.groupsReturned += len(groups)
	return nil, sigKeys
}

func (w *world) heldDesc(id int) string {
	for _, h := range w.held {
		if h.id == id {
			return fmt.Sprintf("from %s: %v", h.origin, h.files)
		}
	}
	return "?"
}

func (w *world) checkInUse(after string) *finding {
	if got, want := w.p.InUseCount(), len(w.heldFiles); got != want {
		return &finding{"inuse-count", fmt.Sprintf("after %s: InUseCount()=%d but %d files are in handed-out, unreleased groups", after, got, want)}
	}
	return nil
}

func (w *world) notePlanCall(kind string, full bool) {
	w.planCalls++
	if len(w.held) > 0 {
		w.planCallsWithHeld++
	}
	if w.hasSandwich() {
		w.sandwiched++
		if full {
			w.sandwichedFull++
		}
	}
	if full {
		w.fullBranchCalls++
	}
}

func (w *world) afterPlan(kind, call string, full bool, hadHeld bool, groups []tsm1.CompactionGroup) (*finding, []string) {
	w.logf("%s -> %v", call, groups)
	f, sigs := w.accept(call, full, groups)
	if f != nil {
		return f, nil
	}
	if hadHeld && len(groups) > 0 {
		w.returnedWithHeld++
		if len(w.st.gens()) >= 3 {
			w.nontrivialCalls++
		}
	}
	w.byCall[kind] += len(groups)
	if f := w.checkInUse(call); f != nil {
		return f, sigs
	}
	return nil, sigs
}

func (w *world) planLevel(level int, forceRefresh bool) (*finding, []string) {
	w.record("planLevel", []int{level}, []bool{forceRefresh})
	gens := w.generations(forceRefresh)
	hadHeld := len(w.held) > 0
	w.notePlanCall("PlanLevel", false)
	groups, _ := w.p.PlanLevel(gens, level)
	return w.afterPlan(fmt.Sprintf("PlanLevel%d", level), fmt.Sprintf("PlanLevel(%d)", level), false, hadHeld, groups)
}

// plan calls Plan. cold selects lastWrite; modified selects what FileStore.LastModified reports.
func (w *world) plan(cold, modified, forceRefresh bool) (*finding, []string) {
	w.record("plan", nil, []bool{cold, modified, forceRefresh})
	gens := w.generations(forceRefresh)
	hadHeld := len(w.held) > 0
	lastWrite := hotTime
	if cold {
		lastWrite = coldTime
	}
	w.st.lastMod = fsStale
	if modified {
		w.st.lastMod = fsModified
	}
	// which branch will Plan take? (compact.go: forceFull || coldDur>0 && Since(lastWrite)>coldDur && len(gens)>1)
	full := w.forcePending || (w.coldDur > 0 && cold && len(w.st.gens()) > 1)
	w.forcePending = false // Plan resets forceFull whenever it was set
	kind := "Plan"
	if full {
		kind = "PlanFull"
	}
	w.notePlanCall(kind, full)
	groups, _ := w.p.Plan(gens, lastWrite)
	return w.afterPlan(kind, fmt.Sprintf("Plan(cold=%v,modified=%v)[full=%v]", cold, modified, full), full, hadHeld, groups)
}

func (w *world) planOptimize(cold, forceRefresh bool) (*finding, []string) {
	w.record("planOptimize", nil, []bool{cold, forceRefresh})
	gens := w.generations(forceRefresh)
	hadHeld := len(w.held) > 0
	lastWrite := hotTime
	if cold {
		lastWrite = coldTime
	}
	w.notePlanCall("PlanOptimize", false)
	groups, _, _ := w.p.PlanOptimize(gens, lastWrite)
	return w.afterPlan("PlanOptimize", fmt.Sprintf("PlanOptimize(cold=%v)", cold), false, hadHeld, groups)
}

func (w *world) forceFull() {
	w.record("forceFull", nil, nil)
	w.p.ForceFull()
	w.forcePending = true
	w.logf("ForceFull()")
}

func (w *world) heldIndex(id int) int {
	for i, h := range w.held {
		if h.id == id {
			return i
		}
	}
	return -1
}

// release releases the held groups with the given indices (into w.held) in ONE Release call, in the given order.
func (w *world) release(idx []int) *finding {
	w.record("release", append([]int(nil), idx...), nil)
	var arg []tsm1.CompactionGroup
	ids := map[int]bool{}
	for _, i := range idx {
		h := w.held[i]
		arg = append(arg, tsm1.CompactionGroup(append([]string(nil), h.files...)))
		ids[h.id] = true
	}
	w.p.Release(arg)
	var keep []*heldGroup
	for _, h := range w.held {
		if ids[h.id] {
			for _, f := range h.files {
				delete(w.heldFiles, f)
			}
			continue
		}
		keep = append(keep, h)
	}
	w.held = keep
	w.logf("Release(%v)", arg)
	return w.checkInUse("Release")
}

func (w *world) releaseAll() *finding {
	for len(w.held) > 0 {
		if f := w.release([]int{len(w.held) - 1}); f != nil {
			return f
		}
	}
	if n := w.p.InUseCount(); n != 0 {
		return &finding{"inuse-count", fmt.Sprintf("everything released but InUseCount()=%d", n)}
	}
	return nil
}

// groupExists: all files of the held group are still in the file store (its compaction has not been replaced yet).
func (w *world) groupExists(h *heldGroup) bool {
	have := map[string]bool{}
	for _, f := range w.st.files {
		have[f.Path] = true
	}
	for _, f := range h.files {
		if !have[f] {
			return false
		}
	}
	return true
}

// replace simulates FileStore.Replace at the end of a compaction of held group i: the inputs
// disappear, the outputs are <max generation>-<max sequence+1 ...> (Compactor.compact / writeNewFiles).
func (w *world) replace(i int, outSizes []uint32, outFbc int) {
	a := []int{i, outFbc}
	for _, sz := range outSizes {
		a = append(a, int(sz))
	}
	w.record("replace", a, nil)
	h := w.held[i]
	in := map[string]bool{}
	for _, f := range h.files {
		in[f] = true
	}
	maxGen, maxSeq := 0, 0
	var keep []tsm1.ExtFileStat
	for _, f := range w.st.files {
		if !in[f.Path] {
			keep = append(keep, f)
			continue
		}
		if f.Generation > maxGen {
			maxGen, maxSeq = f.Generation, f.Sequence
		} else if f.Generation == maxGen && f.Sequence > maxSeq {
			maxSeq = f.Sequence
		}
	}
	for k, sz := range outSizes {
		keep = append(keep, mkStat(maxGen, maxSeq+1+k, sz, outFbc, false))
	}
	w.st.files = keep
	w.st.sortFiles()
	w.dirty = true
	w.logf("Replace(group #%d %v -> %d file(s) at %d-%d)", h.id, h.files, len(outSizes), maxGen, maxSeq+1)
}

func (w *world) snapshot(nFiles int, size uint32, fbc int) {
	w.record("snapshot", []int{nFiles, int(size), fbc}, nil)
	g := w.st.NextGeneration()
	for s := 1; s <= nFiles; s++ {
		w.st.files = append(w.st.files, mkStat(g, s, size, fbc, false))
	}
	w.st.sortFiles()
	w.dirty = true
	w.logf("Snapshot(gen %d, %d file(s))", g, nFiles)
}

func (w *world) toggleTombstone(fileIdx int) {
	w.record("tomb", []int{fileIdx}, nil)
	w.st.files[fileIdx].HasTombstone = !w.st.files[fileIdx].HasTombstone
	w.dirty = true
	w.logf("Tombstone(%s=%v)", w.st.files[fileIdx].Path, w.st.files[fileIdx].HasTombstone)
}

// seedHold makes generation gi (index into st.gens()) held WITHOUT going through a plan over the
// whole store: the fake store temporarily shows only that generation, flagged with a tombstone, so
// that PlanLevel (levels 1-3) or the level-4 branch of Plan hands out exactly that generation. The
// planner's in-use set is a set of path names, so afterwards the planner is in the state "this
// generation is held by a running compaction". Must not be used while ForceFull is pending.
// Returns false (and changes nothing) when the planner did not hand out exactly that generation.
func (w *world) seedHold(g genInfo) (bool, *finding) {
	w.record("seedHold", []int{g.id}, nil)
	save, saveMod := w.st.files, w.st.lastMod
	only := make([]tsm1.ExtFileStat, len(g.files))
	copy(only, g.files)
	for i := range only {
		only[i].HasTombstone = true
	}
	w.st.files = only
	w.st.lastMod = fsModified
	gens := w.p.FindGenerations()
	var got []tsm1.CompactionGroup
	if lvl := g.level(); lvl < 4 {
		got, _ = w.p.PlanLevel(gens, lvl)
	} else {
		got, _ = w.p.Plan(gens, hotTime)
	}
	w.st.files, w.st.lastMod = save, saveMod
	w.dirty = true
	ok := len(got) == 1 && len(got[0]) == len(g.files)
	if ok {
		want := map[string]bool{}
		for _, f := range g.files {
			want[f.Path] = true
		}
		for _, f := range got[0] {
			if !want[f] {
				ok = false
			}
		}
	}
	if !ok {
		w.p.Release(got)
		w.logf("SeedHold(gen %d) not obtained: %v", g.id, got)
		return false, w.checkInUse("SeedHold(undo)")
	}
	w.nextID++
	h := &heldGroup{id: w.nextID, files: append([]string(nil), got[0]...), origin: fmt.Sprintf("SeedHold(gen %d)", g.id)}
	w.held = append(w.held, h)
	for _, f := range h.files {
		w.heldFiles[f] = h.id
	}
	w.logf("SeedHold(gen %d) -> %v", g.id, got)
	return true, w.checkInUse("SeedHold")
}

// recheckHeld re-validates the predicate over everything currently held (groups whose files still
// all exist): disjointness is structural in heldFiles; contiguity is re-evaluated against the
// current generations (a correct planner's groups stay contiguous because new generations only
// appear at the end and compaction outputs reuse the newest input generation).
func (w *world) recheckHeld() *finding {
	gs := w.st.gens()
	pos := map[int]int{}
	fileGen := map[string]int{}
	for i, g := range gs {
		pos[g.id] = i
		for _, f := range g.files {
			fileGen[f.Path] = g.id
		}
	}
	n := 0
	for _, h := range w.held {
		n += len(h.files)
		if h.known || !w.groupExists(h) {
			continue
		}
		touched := map[int]bool{}
		for _, f := range h.files {
			touched[fileGen[f]] = true
		}
		lo, hi := len(gs), -1
		for id := range touched {
			if pos[id] < lo {
				lo = pos[id]
			}
			if pos[id] > hi {
				hi = pos[id]
			}
		}
		if hi-lo+1 != len(touched) {
			return &finding{"non-contiguous", fmt.Sprintf("held group #%d (%s) %v is no longer contiguous among the existing generations; store: %s", h.id, h.origin, h.files, w.st.render())}
		}
	}
	if n != len(w.heldFiles) {
		return &finding{"double-booked", fmt.Sprintf("held groups contain %d files but only %d distinct paths", n, len(w.heldFiles))}
	}
	return nil
}
