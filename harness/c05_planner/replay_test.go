package c05_planner

import (
	"encoding/json"
	"fmt"
	"os"
	"testing"
	"time"

	"github.com/influxdata/influxdb/v2/tsdb/engine/tsm1"

	"verifharness/internal/ev"
)

// A failing generated sequence is stored (inside the violation's case) as the initial layout plus
// the executed harness actions, so that a replay does not depend on rapid's byte-stream format:
//
//	./check C05 --replay /verif/replays/C05/violations--seed<N>-<stamp>.json
type fileRec struct {
	Gen, Seq int
	Size     uint32
	Fbc      int
	Tomb     bool
}

type replayCase struct {
	Files     []fileRec `json:"files"`
	ColdDurNs int64     `json:"cold_dur_ns"`
	Ops       []opRec   `json:"ops"`
}

func layoutRecs(files []tsm1.ExtFileStat) []fileRec {
	out := make([]fileRec, 0, len(files))
	for _, f := range files {
		out = append(out, fileRec{f.Generation, f.Sequence, f.Size, f.FirstBlockCount, f.HasTombstone})
	}
	return out
}

// runReplay re-executes a recorded case; it returns the first violation (known-finding signatures
// that are not listed open count as violations, exactly as in the generated search).
func runReplay(rc replayCase) (*finding, []string, error) {
	var files []tsm1.ExtFileStat
	for _, f := range rc.Files {
		files = append(files, mkStat(f.Gen, f.Seq, f.Size, f.Fbc, f.Tomb))
	}
	w := newWorld(files, time.Duration(rc.ColdDurNs))
	check := func(f *finding, sigs []string) *finding {
		for _, k := range sigs {
			if !ev.KnownOpen("C05", k) {
				return &finding{k, "non-contiguous group from the full-compaction branch of Plan: " + w.lastSig}
			}
		}
		return f
	}
	bad := func(i int, op opRec) error { return fmt.Errorf("replay op %d %+v does not fit the state", i, op) }
	for i, op := range rc.Ops {
		var f *finding
		var sigs []string
		switch op.Op {
		case "refresh":
			w.refresh()
		case "planLevel":
			if len(op.A) < 1 || len(op.B) < 1 {
				return nil, w.log, bad(i, op)
			}
			f, sigs = w.planLevel(op.A[0], op.B[0])
		case "plan":
			if len(op.B) < 3 {
				return nil, w.log, bad(i, op)
			}
			f, sigs = w.plan(op.B[0], op.B[1], op.B[2])
		case "planOptimize":
			if len(op.B) < 2 {
				return nil, w.log, bad(i, op)
			}
			f, sigs = w.planOptimize(op.B[0], op.B[1])
		case "forceFull":
			w.forceFull()
		case "release":
			for _, j := range op.A {
				if j < 0 || j >= len(w.held) {
					return nil, w.log, bad(i, op)
				}
			}
			f = w.release(op.A)
		case "replace":
			if len(op.A) < 2 || op.A[0] < 0 || op.A[0] >= len(w.held) {
				return nil, w.log, bad(i, op)
			}
			var out []uint32
			for _, sz := range op.A[2:] {
				out = append(out, uint32(sz))
			}
			w.replace(op.A[0], out, op.A[1])
		case "snapshot":
			if len(op.A) < 3 {
				return nil, w.log, bad(i, op)
			}
			w.snapshot(op.A[0], uint32(op.A[1]), op.A[2])
		case "tomb":
			if len(op.A) < 1 || op.A[0] < 0 || op.A[0] >= len(w.st.files) {
				return nil, w.log, bad(i, op)
			}
			w.toggleTombstone(op.A[0])
		case "seedHold":
			found := false
			for _, g := range w.st.gens() {
				if len(op.A) > 0 && g.id == op.A[0] {
					_, f = w.seedHold(g)
					found = true
					break
				}
			}
			if !found {
				return nil, w.log, bad(i, op)
			}
		default:
			return nil, w.log, bad(i, op)
		}
		if v := check(f, sigs); v != nil {
			return v, w.log, nil
		}
		if v := w.recheckHeld(); v != nil {
			return v, w.log, nil
		}
	}
	return w.releaseAll(), w.log, nil
}

func TestReplay(t *testing.T) {
	path := os.Getenv("VERIF_REPLAY")
	if path == "" {
		t.Skip("VERIF_REPLAY not set")
	}
	b, err := os.ReadFile(path)
	if err != nil {
		t.Fatal(err)
	}
	var doc struct {
		Violations []struct {
			Test string `json:"test"`
			Key  string `json:"key"`
			Case struct {
				Replay *replayCase `json:"replay"`
			} `json:"case"`
		} `json:"violations"`
	}
	if err := json.Unmarshal(b, &doc); err != nil {
		t.Fatalf("cannot parse %s: %v", path, err)
	}
	if len(doc.Violations) == 0 {
		t.Fatalf("%s contains no violations to replay", path)
	}
	for _, v := range doc.Violations {
		switch {
		case v.Case.Replay != nil:
			f, log, err := runReplay(*v.Case.Replay)
			if err != nil {
				t.Fatalf("replay of %s/%s: %v", v.Test, v.Key, err)
			}
			t.Logf("replayed %s (%s): %d ops", v.Test, v.Key, len(v.Case.Replay.Ops))
			if f != nil {
				rec.Fail(t, "TestReplay", f.key, f.detail, map[string]any{"calls": log})
			}
		case v.Test == "TestExhaustiveSmall":
			TestExhaustiveSmall(t) // deterministic enumeration
		case v.Test == "TestPropConcurrentPlans":
			// a schedule-dependent violation: there is no deterministic replay; the generated search is
			// repeated (same seed, several schedules per contended case)
			TestPropConcurrentPlans(t)
		case v.Test == "TestKnown_full_plan_skips_generation":
			TestKnown_full_plan_skips_generation(t)
		case v.Test == "TestKnown_full_plan_skips_oversize_generation":
			TestKnown_full_plan_skips_oversize_generation(t)
		default:
			t.Fatalf("violation of %s has no replayable case", v.Test)
		}
	}
}
