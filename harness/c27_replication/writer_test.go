// C27 — Replication forwards every queued batch, in order, until the remote accepts it.
//
// Layer 1 (this file): remotewrite.NewWriter(...).Write against the scripted remote.
// Generator: one batch (random bytes, 1..400, rarely empty), a starting attempt number 0..14 and a
// script of 1..6 remote answers from {204, 200, 400, 401, 404, 413, 429 (no header /
// Retry-After: 0 | N | garbage), 500, 503, connection reset, config-store failure}, each with its
// own DropNonRetryableData flag (the writer re-reads the configuration on every attempt). The
// batch is written the way the queue does it: again with attempt+1 after every failure, until the
// writer reports success or the script ends. In a part of the cases the script ends with the
// replication being CLOSED (the writer's done channel, what replicationQueue.Close does) either
// just before the attempt starts or while the request is in flight at a remote that has received
// it completely and does not answer: the remote never accepted the batch, so Write must come back
// with an error (a nil error lets the queue discard the batch).
// Oracle (documented rules, computed independently): 204 => (0,nil); 400 with drop enabled =>
// (0,nil) and the bytes counted as dropped; 429 with a positive integer Retry-After => that many
// seconds; Retry-After "0" => backoff(1); everything else => backoff(attempts) =
// 0.5s * 2^(attempts-1), 15 min when attempts > 10, and a non-nil error. Every attempt must reach
// the remote as exactly one POST /api/v2/write whose body is the batch byte for byte.
package c27_replication

import (
	"bytes"
	"context"
	"encoding/hex"
	"fmt"
	"net/http"
	"strconv"
	"strings"
	"testing"
	"time"

	"github.com/influxdata/influxdb/v2/kit/platform"
	"github.com/influxdata/influxdb/v2/replications/metrics"
	"github.com/influxdata/influxdb/v2/replications/remotewrite"
	"github.com/prometheus/client_golang/prometheus"
	dto "github.com/prometheus/client_model/go"
	"go.uber.org/zap"
	"pgregory.net/rapid"

	"verifharness/internal/ev"
)

const propID = "C27"

var rec = ev.For(propID, "fault_enumeration",
	"queue cases: one generated history (segment size, enqueue/send/drain/reopen ops, per-offer remote decisions); non-trivial = >=3 batches and a batch that is not the last one failed at least once and was accepted later; close-while-sending cases (enqueued batches, how many the remote accepts before the replication is closed, when it is closed, batches enqueued afterwards): non-trivial = at least one batch accepted before the close and at least two left unaccepted; writer cases: (batch, start attempt, scripted answers); non-trivial = at least one failed attempt followed by an accepted/dropped one; distinct by canonical rendering of the case")

var replID = platform.ID(0x27)

// ---- documented rules ---------------------------------------------------------------------

// backoffDoc: 0.5 s * 2^(attempts-1); after more than 10 attempts the maximum of 15 minutes.
func backoffDoc(attempts int) time.Duration {
	if attempts > 10 {
		return 15 * time.Minute
	}
	d := 250 * time.Millisecond
	for i := 0; i < attempts; i++ {
		d *= 2
	}
	return d
}

type expectation struct {
	Accepted   bool          // the writer must report success (nil error): accepted by the remote or dropped
	Dropped    bool          // ... because of the 400-drop rule
	Wait       time.Duration // documented delay before the next attempt
	WaitKnown  bool          // false: the documentation does not fix the delay for this answer
	NoRequest  bool          // the attempt cannot reach the remote (config store failure)
	Aborted    bool          // the replication is closed before/while the attempt runs; the remote never answers
	NeedSeen   bool          // ... and the close happens only after the remote has the complete request
	MayBeLost  bool          // transport-level failure: the remote may not see a complete request
	RemoteOKed bool          // the remote itself acknowledged the batch (204)
}

func expect(resp response, attempts int) expectation {
	e := expectation{Wait: backoffDoc(attempts), WaitKnown: true}
	switch resp.Kind {
	case "cfgerr":
		e.NoRequest = true
		return e
	case "reset":
		e.MayBeLost = true
		return e
	case "abort":
		// not accepted, hence an error; the documentation does not say what delay a write that was
		// cut short by closing the replication has to ask for (nobody is left to wait for it)
		return expectation{Aborted: true, MayBeLost: resp.AbortWhen != "inflight", NeedSeen: resp.AbortWhen == "inflight"}
	}
	switch {
	case resp.Status == http.StatusNoContent:
		return expectation{Accepted: true, RemoteOKed: true, WaitKnown: true}
	case resp.Status == http.StatusBadRequest && resp.Drop:
		return expectation{Accepted: true, Dropped: true, WaitKnown: true}
	case resp.Status == http.StatusTooManyRequests && resp.RetryAfter != nil:
		s := *resp.RetryAfter
		if s == "0" {
			e.Wait = backoffDoc(1)
			return e
		}
		if n, ok := plainPositiveInt(s); ok {
			e.Wait = time.Duration(n) * time.Second
			return e
		}
		// anything that is not a plain decimal number of seconds: the fallback is the back-off
		return e
	}
	return e
}

// plainPositiveInt accepts only [1-9][0-9]{0,5}: the unambiguous "number of seconds" form.
func plainPositiveInt(s string) (int, bool) {
	if len(s) == 0 || len(s) > 6 || s[0] < '1' || s[0] > '9' {
		return 0, false
	}
	n, err := strconv.Atoi(s)
	return n, err == nil
}

// ---- generators ---------------------------------------------------------------------------

var retryAfterGarbage = []string{"soon", "1.5", "Wed, 21 Oct 2015 07:28:00 GMT", "5s", "ten", "0x10", "1e3"}

func strp(s string) *string { return &s }

func genResponse(t *rapid.T, label string, withCfgErr bool) response {
	kinds := []string{
		"204", "204", "204", "204",
		"400", "400", "400",
		"429", "429", "429", "429",
		"500", "503", "401", "404", "413", "200", "502",
		"reset", "reset",
	}
	if withCfgErr {
		kinds = append(kinds, "cfgerr")
	}
	k := rapid.SampledFrom(kinds).Draw(t, label+".kind")
	r := response{Drop: rapid.Bool().Draw(t, label+".drop")}
	switch k {
	case "reset", "cfgerr":
		r.Kind = k
		return r
	}
	r.Kind = "status"
	r.Status, _ = strconv.Atoi(k)
	if r.Status != http.StatusNoContent {
		r.Body = rapid.SampledFrom([]string{"", "json", "json", "text"}).Draw(t, label+".body")
	}
	if r.Status == http.StatusTooManyRequests {
		switch rapid.SampledFrom([]string{"none", "zero", "n", "n", "garbage"}).Draw(t, label+".ra") {
		case "zero":
			r.RetryAfter = strp("0")
		case "n":
			n := rapid.OneOf(rapid.IntRange(1, 9), rapid.IntRange(10, 120), rapid.SampledFrom([]int{1, 60, 300, 900, 901, 3600, 86400})).Draw(t, label+".ra_n")
			r.RetryAfter = strp(strconv.Itoa(n))
		case "garbage":
			r.RetryAfter = strp(rapid.SampledFrom(retryAfterGarbage).Draw(t, label+".ra_g"))
		}
	}
	return r
}

func respClass(r response) string {
	switch r.Kind {
	case "status":
		s := strconv.Itoa(r.Status)
		if r.Status == http.StatusBadRequest {
			if r.Drop {
				return "400+drop"
			}
			return "400-nodrop"
		}
		if r.Status == http.StatusTooManyRequests {
			switch {
			case r.RetryAfter == nil:
				return "429-noheader"
			case *r.RetryAfter == "0":
				return "429-ra0"
			default:
				if _, ok := plainPositiveInt(*r.RetryAfter); ok {
					return "429-raN"
				}
				return "429-garbage"
			}
		}
		if r.Status >= 400 && r.Status < 500 && r.Drop {
			return s + "+drop"
		}
		return s
	case "abort":
		return "closed-" + r.AbortWhen
	}
	return r.Kind
}

func genBatchBytes(t *rapid.T, label string) []byte {
	switch rapid.IntRange(0, 9).Draw(t, label+".shape") {
	case 0:
		return []byte{}
	case 1, 2:
		// looks like what the service enqueues: a gzip member header followed by arbitrary bytes
		b := []byte{0x1f, 0x8b, 8, 0, 0, 0, 0, 0, 0, 0xff}
		return append(b, rapid.SliceOfN(rapid.Byte(), 1, 200).Draw(t, label+".gz")...)
	default:
		return rapid.SliceOfN(rapid.Byte(), 1, 400).Draw(t, label+".raw")
	}
}

// ---- request check ------------------------------------------------------------------------

// checkRequests verifies what the remote saw for one attempt; returns "" when fine.
func checkRequests(reqs []seenReq, data []byte, e expectation) string {
	if e.NoRequest {
		if len(reqs) != 0 {
			return fmt.Sprintf("config store failed but %d request(s) reached the remote", len(reqs))
		}
		return ""
	}
	if len(reqs) != 1 {
		if e.MayBeLost && len(reqs) == 0 {
			return ""
		}
		return fmt.Sprintf("one attempt produced %d requests at the remote, want exactly 1", len(reqs))
	}
	q := reqs[0]
	if e.Aborted && !e.NeedSeen && q.Err != nil {
		// closed before the attempt started: whatever part of the request got out may be cut short
		return ""
	}
	if q.Err != nil {
		return fmt.Sprintf("remote failed to read the request body: %v", q.Err)
	}
	if q.Method != http.MethodPost || q.Path != "/api/v2/write" {
		return fmt.Sprintf("request is %s %s, want POST /api/v2/write", q.Method, q.Path)
	}
	if !bytes.Equal(q.Body, data) {
		return fmt.Sprintf("request body (%d bytes) differs from the batch (%d bytes): got %s want %s",
			len(q.Body), len(data), clip(hex.EncodeToString(q.Body)), clip(hex.EncodeToString(data)))
	}
	if got := q.Query.Get("bucket"); got != remoteBucket {
		return fmt.Sprintf("bucket parameter %q, want %q", got, remoteBucket)
	}
	if got := q.Header.Get("Authorization"); got != "Token "+remoteToken {
		return fmt.Sprintf("Authorization header %q, want the configured remote token", got)
	}
	if ce := q.Header.Get("Content-Encoding"); len(data) > 0 && ce != "gzip" {
		return fmt.Sprintf("Content-Encoding %q for a non-empty (gzip) batch", ce)
	}
	return ""
}

func clip(s string) string {
	if len(s) > 96 {
		return s[:96] + "…"
	}
	return s
}

func counterValue(c prometheus.Counter) float64 {
	var m dto.Metric
	if err := c.Write(&m); err != nil {
		return -1
	}
	return m.GetCounter().GetValue()
}

// ---- a real writer and the done channel of "its" replication queue ---------------------------

type rwriter interface {
	Write(data []byte, attempt int) (time.Duration, error)
}

type liveWriter struct {
	w       rwriter
	done    chan struct{}
	closed  bool
	stalled string // non-empty: the machine (not the writer) spoiled an aborted attempt
}

func newLiveWriter(store remotewrite.HttpConfigStore, m *metrics.ReplicationsMetrics) *liveWriter {
	l := &liveWriter{done: make(chan struct{})}
	l.w = remotewrite.NewWriter(replID, store, m, zap.NewNop(), l.done)
	return l
}

// close is what replicationQueue.Close does to the writer: it closes the done channel.
func (l *liveWriter) close() {
	if !l.closed {
		l.closed = true
		close(l.done)
	}
}

// abortedWrite performs one Write against a remote that takes the request and never answers,
// and closes the replication either before the call (resp.AbortWhen "before", or when it is
// closed already) or as soon as the remote has received the complete request ("inflight").
// It returns once the remote side is quiet again, with the requests the remote saw.
func (l *liveWriter) abortedWrite(resp response, data []byte, attempt int, mem bool) (time.Duration, error, []seenReq) {
	remote.arm(resp)
	fin := make(chan struct{})
	if l.closed || resp.AbortWhen != "inflight" {
		l.close()
		close(fin)
	} else {
		seen := remote.seenCh()
		go func() {
			defer close(fin)
			select {
			case <-seen:
			case <-time.After(10 * time.Second):
				l.stalled = "the remote did not receive the request within 10s"
			}
			close(l.done)
		}()
	}
	wait, err := l.w.Write(data, attempt)
	<-fin
	l.closed = true
	if mem && !memL.quiesce(5*time.Second) {
		l.stalled = "in-memory remote still busy 5s after the aborted write returned"
	}
	return wait, err, remote.take()
}

// ---- property -----------------------------------------------------------------------------

type writerStep struct {
	Attempt int      `json:"attempt"`
	Resp    response `json:"resp"`
	Wait    string   `json:"got_wait"`
	Err     string   `json:"got_err"`
}

type writerCase struct {
	Transport    string       `json:"transport"`
	DataHex      string       `json:"data_hex"`
	StartAttempt int          `json:"start_attempt"`
	Script       []response   `json:"script"`
	Steps        []writerStep `json:"steps"`
}

func runWriterProp(t *testing.T, name string, tcp bool, quick, thorough int) {
	rec.Assume("layer 1: the remote is the harness' scripted HTTP handler, reached over an in-memory net.Pipe listener (http.DefaultTransport.DialContext override for one reserved host) or, for a smaller number of cases, a loop-back httptest.Server; UpdateResponseInfo of the configuration store always succeeds")
	rec.Assume("Retry-After values generated: absent, \"0\", plain decimal 1..86400, and non-numeric text (HTTP-date, \"1.5\", \"5s\"...) for which the documented fallback is the exponential back-off; negative, signed, zero-padded and overflowing numbers are not generated (the documentation is silent)")
	rec.Check(t, quick, thorough, func(t *rapid.T) {
		c := writerCase{Transport: "mem"}
		store := &cfgStore{url: memURL}
		if tcp {
			c.Transport = "tcp"
			store.url = remote.tcpURL()
		}
		data := genBatchBytes(t, "data")
		c.DataHex = hex.EncodeToString(data)
		c.StartAttempt = rapid.OneOf(rapid.IntRange(0, 3), rapid.IntRange(0, 14)).Draw(t, "start_attempt")
		n := rapid.IntRange(1, 6).Draw(t, "script_len")
		for i := 0; i < n; i++ {
			c.Script = append(c.Script, genResponse(t, fmt.Sprintf("r%d", i), true))
		}
		// the replication is closed during (or right before) one of the attempts: the script ends there
		abortKinds := []string{"", "", "", "", "", "inflight", "inflight", "before"}
		if tcp {
			// over loop-back TCP a request cut short can reach the handler after the attempt is over
			abortKinds = []string{"", "", "", "", "", "inflight", "inflight"}
		}
		if when := rapid.SampledFrom(abortKinds).Draw(t, "closed"); when != "" {
			k := rapid.IntRange(0, n-1).Draw(t, "closed_at")
			c.Script = append(c.Script[:k:k], response{Kind: "abort", AbortWhen: when})
		}

		m := metrics.NewReplicationsMetrics()
		sent := m.RemoteWriteBytesSent.WithLabelValues(replID.String())
		dropped := m.RemoteWriteBytesDropped.WithLabelValues(replID.String())
		lw := newLiveWriter(store, m)
		defer lw.close()
		w := lw.w

		fail := func(key, detail string) {
			rec.Fail(t, name, key, detail, c)
		}

		attempt := c.StartAttempt
		failures, finished, closedDuring := 0, false, false
		for _, resp := range c.Script {
			e := expect(resp, attempt)
			store.set(resp)
			sent0, dropped0 := counterValue(sent), counterValue(dropped)
			var wait time.Duration
			var err error
			var reqs []seenReq
			if resp.Kind == "abort" {
				wait, err, reqs = lw.abortedWrite(resp, data, attempt, !tcp)
				if lw.stalled != "" {
					rec.Inconclusive(name + ": " + lw.stalled)
					t.Skip("stalled")
				}
				closedDuring = true
			} else {
				remote.arm(resp)
				wait, err = w.Write(data, attempt)
				reqs = remote.take()
			}
			rec.Eval()
			rec.Class("writer:resp:" + respClass(resp))
			rec.Class("writer:attempt:" + attemptClass(attempt))
			st := writerStep{Attempt: attempt, Resp: resp, Wait: wait.String()}
			if err != nil {
				st.Err = err.Error()
			}
			c.Steps = append(c.Steps, st)

			if tcp && err != nil && len(reqs) == 0 && !e.NoRequest && strings.Contains(err.Error(), "dial tcp") {
				// the loop-back connection could not be established: the machine, not the writer
				rec.Inconclusive(name + ": loop-back dial failed: " + err.Error())
				t.Skip("loop-back dial failed")
			}
			if msg := checkRequests(reqs, data, e); msg != "" {
				fail("request-not-the-batch", msg)
			}
			if e.Accepted != (err == nil) {
				if e.Accepted {
					fail("accepted-answer-reported-as-failure", fmt.Sprintf("remote answered %s (attempt %d): the batch is accepted/dropped by the documented rules but Write returned error %v", respClass(resp), attempt, err))
				}
				if e.Aborted {
					fail("failure-reported-as-success", fmt.Sprintf("the replication was closed (done channel) %s the write at attempt %d and the remote never answered: not accepted, yet Write returned a nil error (the queue would discard the batch)", map[bool]string{true: "while the remote held the complete request of", false: "right before"}[e.NeedSeen], attempt))
				}
				fail("failure-reported-as-success", fmt.Sprintf("remote answered %s (attempt %d, drop=%v): not accepted, yet Write returned a nil error (the queue would discard the batch)", respClass(resp), attempt, resp.Drop))
			}
			if e.WaitKnown && wait != e.Wait {
				fail("wait-differs-from-documented-rule", fmt.Sprintf("remote answered %s with Retry-After %s at attempt %d: Write returned wait %v, documented rule gives %v", respClass(resp), raString(resp), attempt, wait, e.Wait))
			}
			dSent, dDropped := counterValue(sent)-sent0, counterValue(dropped)-dropped0
			wantSent, wantDropped := 0.0, 0.0
			if e.RemoteOKed {
				wantSent = float64(len(data))
			}
			if e.Dropped {
				wantDropped = float64(len(data))
			}
			if dSent != wantSent || dDropped != wantDropped {
				fail("sent-dropped-accounting", fmt.Sprintf("remote answered %s: bytes counted sent %+v / dropped %+v, want %v / %v", respClass(resp), dSent, dDropped, wantSent, wantDropped))
			}
			if err == nil {
				finished = true
				break
			}
			failures++
			attempt++
		}
		switch {
		case finished && failures > 0:
			rec.Class("writer:case:failures-then-accepted")
			rec.NonTrivial("writer|" + canonWriter(c))
		case finished:
			rec.Class("writer:case:accepted-first-try")
		default:
			rec.Class("writer:case:never-accepted")
		}
		if closedDuring {
			rec.Class("writer:case:replication-closed-during-attempt")
		}
		if rec.WantSample() && finished && failures > 1 {
			rec.Sample(c)
		}
	})
}

func raString(r response) string {
	if r.RetryAfter == nil {
		return "<absent>"
	}
	return strconv.Quote(*r.RetryAfter)
}

func attemptClass(a int) string {
	switch {
	case a == 0:
		return "0"
	case a <= 3:
		return "1-3"
	case a <= 9:
		return "4-9"
	case a == 10:
		return "10"
	case a == 11:
		return "11"
	default:
		return ">11"
	}
}

func canonWriter(c writerCase) string {
	var sb strings.Builder
	fmt.Fprintf(&sb, "%s|%s|%d", c.Transport, c.DataHex, c.StartAttempt)
	for _, s := range c.Steps {
		fmt.Fprintf(&sb, "|%s,%s,%v", respClass(s.Resp), raString(s.Resp), s.Resp.Drop)
	}
	return sb.String()
}

func TestPropWriter(t *testing.T)    { runWriterProp(t, "TestPropWriter", false, 8000, 120000) }
func TestPropWriterTCP(t *testing.T) { runWriterProp(t, "TestPropWriterTCP", true, 1200, 4000) }

// TestPropPostWriteTimeout: the only reachable client time-out (the writer's own is a 2-minute
// constant): PostWrite with a 50 ms budget against a remote that does not answer must come back
// with an error and no response, in bounded time.
func TestPropPostWriteTimeout(t *testing.T) {
	const name = "TestPropPostWriteTimeout"
	rec.Check(t, 12, 200, func(t *rapid.T) {
		data := genBatchBytes(t, "data")
		store := &cfgStore{url: memURL}
		conf, _ := store.GetFullHTTPConfig(context.Background(), replID)
		remote.arm(response{Kind: "stall"})
		type result struct {
			res *http.Response
			err error
		}
		ch := make(chan result, 1)
		start := time.Now()
		go func() {
			res, err := remotewrite.PostWrite(context.Background(), conf, data, 50*time.Millisecond)
			ch <- result{res, err}
		}()
		var r result
		select {
		case r = <-ch:
		case <-time.After(20 * time.Second):
			rec.Inconclusive(name + ": PostWrite with a 50ms timeout did not return within 20s (machine stall?)")
			t.Skip("stalled")
		}
		remote.take()
		rec.Eval()
		rec.Class("writer:resp:client-timeout")
		if r.err == nil {
			rec.Fail(t, name, "timeout-reported-as-success", fmt.Sprintf("remote never answered within the 50ms budget, PostWrite returned a nil error after %v", time.Since(start)), hex.EncodeToString(data))
		}
	})
	// let stalled handlers finish
	remote.mu.Lock()
	close(remote.release)
	remote.release = make(chan struct{})
	remote.mu.Unlock()
}
