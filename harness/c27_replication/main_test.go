package c27_replication

import (
	"testing"

	"verifharness/internal/ev"
)

func TestMain(m *testing.M) {
	installMemDial()
	ev.Main(m)
}
