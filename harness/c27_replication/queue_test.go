// C27 layer 2: queue discipline of the real replicationQueue (real durable queue on disk, real
// SendWrite) obtained through replications/verifexport.NewQueue, with a harness remote writer.
//
// Generator: a history over one queue directory: enqueue (1..4 unique non-empty batches, each at
// most a quarter of the segment size — the service's batches are at most 2.5 MB against 10 MB
// segments), send (one SendWrite call), drain (what run() does on a signal: SendWrite again while
// it returns (0,true)), reopen (Close + open the directory again) and crash-reopen (open the
// directory again without Close); tiny segment sizes so that segments roll over every few
// batches. Every offer of a batch to the remote writer is answered from a generated script:
// mode "script": {accept | fail(wait)} returned directly by the harness writer;
// mode "http":   the harness writer forwards to a real remotewrite writer talking to the
//
//	scripted in-memory remote ({204, 400 +/- drop, 429 +/- Retry-After, 5xx, reset, ...}); the
//	expected outcome of each attempt is the documented rule applied to the attempt number the
//	MODEL predicts, so wrong attempt numbers show up as wrong back-off delays as well. A script
//	of a send/drain can end (after 0..3 accepted batches of the same scan) with the replication
//	being closed while the remote holds the request unanswered / right before the write starts
//	(the writer's done channel is closed, what replicationQueue.Close does); every later write
//	through that writer is cut short the same way; the history then continues with, sometimes,
//	one more SendWrite (run() can pick a pending signal over done) and the Close + reopen of the
//	queue with a fresh writer. None of these writes was accepted by the remote.
//
// Oracle (per SendWrite call, against a list model of the enqueued batches):
//   - every offered byte string is exactly one enqueued batch;
//   - the offers of one call are consecutive batches in enqueue order, and the first one is not
//     beyond the first batch the remote has not accepted yet (nothing unaccepted is ever skipped;
//     re-sending already accepted batches is allowed: delivery is at-least-once);
//   - the call stops at the first failed offer and returns (that writer's wait, true); without a
//     failure it returns (0,true) after >=1 offers and (0,false) only when it had nothing to offer;
//     while unaccepted batches exist it must offer at least one;
//   - the attempt number passed to the writer = number of consecutive failed offers before it
//     (0 after a success or after the queue was reopened) = FailedWrites();
//   - queue contents: TotalBytes() is the size of a suffix of the enqueued batches that starts at
//     or before the first unaccepted batch (the head moved only past accepted/dropped batches);
//   - after reopen the same rules hold (so all unaccepted batches are offered again, in order);
//   - at the end, after a drain against an all-accepting remote, every batch has been accepted,
//     the queue is empty, and a reopened queue offers nothing.
package c27_replication

import (
	"encoding/hex"
	"errors"
	"fmt"
	"net/http"
	"os"
	"strings"
	"sync"
	"testing"
	"time"

	"github.com/influxdata/influxdb/v2/replications/metrics"
	"github.com/influxdata/influxdb/v2/replications/verifexport"
	"go.uber.org/zap"
	"pgregory.net/rapid"

	"verifharness/internal/scratch"
)

var errScripted = errors.New("scripted remote failure")

type decision struct {
	Accept bool      `json:"accept"`
	WaitMS int64     `json:"wait_ms,omitempty"` // script mode, failure: the delay the writer asks for
	Resp   *response `json:"resp,omitempty"`    // http mode: the remote's answer
}

type offer struct {
	Data     []byte
	Attempt  int
	Dec      decision
	Accepted bool          // the remote accepted (or, by the 400 rule, dropped) the batch
	GotWait  time.Duration // what the writer returned to SendWrite
	GotErr   bool
	Problem  string // http mode: the real writer's result contradicts the documented rule
}

// hWriter is the remote writer handed to the queue.
type hWriter struct {
	mu     sync.Mutex
	http   bool
	live   *liveWriter        // http mode: the real writer and its done channel
	mk     func() *liveWriter // http mode: a fresh writer (the queue was opened again)
	dead   bool               // the replication was closed (done channel) during/before a write
	nAbort map[string]int     // aborted offers by kind
	store  *cfgStore
	script []decision
	offers []offer
	consec int // model: consecutive failed writes so far (reset on reopen); the attempt number the documented rule is evaluated with
}

func (w *hWriter) setScript(s []decision) {
	w.mu.Lock()
	w.script = s
	w.mu.Unlock()
}

func (w *hWriter) take() []offer {
	w.mu.Lock()
	defer w.mu.Unlock()
	o := w.offers
	w.offers = nil
	return o
}

func (w *hWriter) isDead() bool {
	w.mu.Lock()
	defer w.mu.Unlock()
	return w.dead
}

// renew replaces the closed writer by a fresh one (the queue is being opened again).
func (w *hWriter) renew() {
	w.mu.Lock()
	defer w.mu.Unlock()
	if w.http && w.dead {
		w.live.close()
		w.live = w.mk()
		w.dead = false
	}
}

func abortDecision(when string) decision {
	return decision{Resp: &response{Kind: "abort", AbortWhen: when}}
}

func (w *hWriter) nextDecision() decision {
	w.mu.Lock()
	defer w.mu.Unlock()
	if w.http && w.dead {
		// the done channel is closed: whatever the remote would answer, the request is cut short
		if len(w.script) > 0 {
			w.script = w.script[1:]
		}
		return abortDecision("before")
	}
	if len(w.script) > 0 {
		d := w.script[0]
		w.script = w.script[1:]
		return d
	}
	if w.http {
		return decision{Accept: true, Resp: &response{Kind: "status", Status: http.StatusNoContent}}
	}
	return decision{Accept: true}
}

func (w *hWriter) Write(data []byte, attempt int) (time.Duration, error) {
	d := w.nextDecision()
	o := offer{Data: append([]byte(nil), data...), Attempt: attempt, Dec: d}
	var wait time.Duration
	var err error
	if !w.http {
		o.Accepted = d.Accept
		if !d.Accept {
			wait, err = time.Duration(d.WaitMS)*time.Millisecond, errScripted
		}
	} else {
		modelAttempt := w.consec
		e := expect(*d.Resp, modelAttempt)
		w.store.set(*d.Resp)
		var reqs []seenReq
		if d.Resp.Kind == "abort" {
			wait, err, reqs = w.live.abortedWrite(*d.Resp, data, attempt, true)
			w.mu.Lock()
			w.dead = true
			if w.nAbort == nil {
				w.nAbort = map[string]int{}
			}
			w.nAbort[d.Resp.AbortWhen]++
			w.mu.Unlock()
		} else {
			remote.arm(*d.Resp)
			wait, err = w.live.w.Write(data, attempt)
			reqs = remote.take()
		}
		o.Accepted = e.Accepted
		switch {
		case d.Resp.Kind == "abort" && w.live.stalled != "":
			// judged by the property (inconclusive), not a statement about the writer
		case checkRequests(reqs, data, e) != "":
			o.Problem = checkRequests(reqs, data, e)
		case e.Aborted && err == nil:
			o.Problem = fmt.Sprintf("the replication was closed (%s) and the remote never answered the write, yet the writer returned a nil error: SendWrite takes the batch for accepted", respClass(*d.Resp))
		case e.Accepted != (err == nil):
			o.Problem = fmt.Sprintf("remote answered %s: documented outcome accepted=%v but the writer returned err=%v", respClass(*d.Resp), e.Accepted, err)
		case e.WaitKnown && wait != e.Wait:
			o.Problem = fmt.Sprintf("remote answered %s (Retry-After %s) after %d consecutive failures: writer returned wait %v, documented rule gives %v", respClass(*d.Resp), raString(*d.Resp), modelAttempt, wait, e.Wait)
		}
	}
	o.GotWait, o.GotErr = wait, err != nil
	w.mu.Lock()
	if err != nil {
		w.consec++
	} else {
		w.consec = 0
	}
	w.offers = append(w.offers, o)
	w.mu.Unlock()
	return wait, err
}

// ---- model --------------------------------------------------------------------------------

type qmodel struct {
	batches     [][]byte
	index       map[string]int
	acc         []bool
	failedOnce  []bool
	failThenAcc []bool
	consec      int
}

func newModel() *qmodel { return &qmodel{index: map[string]int{}} }

func (m *qmodel) add(b []byte) {
	m.index[string(b)] = len(m.batches)
	m.batches = append(m.batches, b)
	m.acc = append(m.acc, false)
	m.failedOnce = append(m.failedOnce, false)
	m.failThenAcc = append(m.failThenAcc, false)
}

func (m *qmodel) firstUnaccepted() int {
	for i, a := range m.acc {
		if !a {
			return i
		}
	}
	return len(m.acc)
}

// headFor returns h with sum_{i>=h}(8+len) == total, or -1.
func (m *qmodel) headFor(total int64) int {
	var s int64
	if total == 0 {
		return len(m.batches)
	}
	for h := len(m.batches) - 1; h >= 0; h-- {
		s += 8 + int64(len(m.batches[h]))
		if s == total {
			return h
		}
		if s > total {
			return -1
		}
	}
	return -1
}

type violation struct{ key, detail string }

// applyOffers checks a run of offers (one SendWrite call when perCall, else a flat log) and
// updates the model.
func (m *qmodel) applyOffers(offers []offer, perCall bool) *violation {
	prev := -1
	for k, o := range offers {
		idx, ok := m.index[string(o.Data)]
		if !ok {
			return &violation{"offered-bytes-never-enqueued", fmt.Sprintf("offer %d hands the writer %d bytes that are not an enqueued batch: %s", k, len(o.Data), clip(hex.EncodeToString(o.Data)))}
		}
		fu := m.firstUnaccepted()
		if idx > fu {
			return &violation{"unaccepted-batch-skipped", fmt.Sprintf("batch #%d offered while batch #%d (enqueued earlier) has not been accepted by the remote", idx, fu)}
		}
		if perCall && k > 0 && idx != prev+1 {
			return &violation{"offers-not-in-enqueue-order", fmt.Sprintf("within one SendWrite batch #%d was offered right after batch #%d", idx, prev)}
		}
		if perCall && k > 0 && offers[k-1].GotErr {
			return &violation{"continued-after-failed-write", fmt.Sprintf("batch #%d offered in the same SendWrite after the write of batch #%d failed", idx, prev)}
		}
		if o.Attempt != m.consec {
			return &violation{"attempt-number", fmt.Sprintf("batch #%d offered with attempt=%d after %d consecutive failed writes", idx, o.Attempt, m.consec)}
		}
		if o.Problem != "" {
			return &violation{"writer-rule", o.Problem}
		}
		if o.Accepted {
			if m.failedOnce[idx] && !m.acc[idx] {
				m.failThenAcc[idx] = true
			}
			m.acc[idx] = true
		} else if !m.acc[idx] {
			m.failedOnce[idx] = true
		}
		if o.GotErr {
			m.consec++
		} else {
			m.consec = 0
		}
		prev = idx
	}
	return nil
}

func (m *qmodel) nontrivial() bool {
	if len(m.batches) < 3 {
		return false
	}
	for i := 0; i < len(m.batches)-1; i++ {
		if m.failThenAcc[i] {
			return true
		}
	}
	return false
}

// ---- case ---------------------------------------------------------------------------------

type qop struct {
	Op      string     `json:"op"`
	Batches []string   `json:"batches_hex,omitempty"`
	Script  []decision `json:"script,omitempty"`
	Result  string     `json:"result,omitempty"`
}

type qcase struct {
	Mode    string `json:"mode"`
	SegSize int64  `json:"segment_size"`
	Ops     []qop  `json:"ops"`
}

func canonQueue(c qcase) string {
	var sb strings.Builder
	fmt.Fprintf(&sb, "%s|%d", c.Mode, c.SegSize)
	for _, op := range c.Ops {
		sb.WriteString("|" + op.Op)
		for _, b := range op.Batches {
			fmt.Fprintf(&sb, ",%d", len(b)/2)
		}
		for _, d := range op.Script {
			if d.Resp != nil {
				fmt.Fprintf(&sb, ",%s/%s/%v", respClass(*d.Resp), raString(*d.Resp), d.Resp.Drop)
			} else {
				fmt.Fprintf(&sb, ",%v/%d", d.Accept, d.WaitMS)
			}
		}
	}
	return sb.String()
}

func genDecision(t *rapid.T, label string, httpMode, allowZeroWait bool) decision {
	if httpMode {
		r := genResponse(t, label, false)
		return decision{Accept: expect(r, 0).Accepted, Resp: &r}
	}
	if rapid.IntRange(0, 99).Draw(t, label+".p") < 45 {
		return decision{Accept: true}
	}
	waits := []int64{1, 250, 500, 64000, 900000}
	if allowZeroWait {
		waits = append(waits, 0)
	}
	return decision{WaitMS: rapid.SampledFrom(waits).Draw(t, label+".wait")}
}

func genScript(t *rapid.T, label string, httpMode, allowZeroWait bool) []decision {
	n := rapid.IntRange(0, 5).Draw(t, label+".n")
	var s []decision
	for i := 0; i < n; i++ {
		s = append(s, genDecision(t, fmt.Sprintf("%s.%d", label, i), httpMode, allowZeroWait))
	}
	if httpMode && rapid.IntRange(0, 99).Draw(t, label+".closed") < 25 {
		// the replication is closed during this scan, after 0..3 batches the remote accepted
		when := rapid.SampledFrom([]string{"inflight", "inflight", "before"}).Draw(t, label+".closed.when")
		pre := rapid.SampledFrom([]int{0, 0, 1, 2, 3}).Draw(t, label+".closed.after")
		s = nil
		for i := 0; i < pre; i++ {
			s = append(s, decision{Accept: true, Resp: &response{Kind: "status", Status: http.StatusNoContent}})
		}
		s = append(s, abortDecision(when))
	}
	return s
}

const maxQueueBytes = 1 << 30

type qfix struct {
	dir     string
	segSize int64
	w       *hWriter
	q       *verifexport.Queue
}

func (f *qfix) open() error {
	q, err := verifexport.NewQueue(zap.NewNop(), f.dir, maxQueueBytes, f.segSize, 0, f.w)
	if err != nil {
		return err
	}
	f.q = q
	return nil
}

func countSegments(dir string) int {
	ents, err := os.ReadDir(dir)
	if err != nil {
		return 0
	}
	return len(ents)
}

func TestPropQueueDiscipline(t *testing.T) {
	const name = "TestPropQueueDiscipline"
	rec.Assume("layer 2: the queue is the real replicationQueue built by the verif export shim (background run() loop not started; SendWrite called directly so the schedule is owned by the harness); the durable queue directory lives on a RAM-backed file system; batches are unique, non-empty and at most a quarter of the segment size; max-age purging (60 s ticker) and the 10 s periodic scanner advance are not reached")
	rec.Check(t, 5000, 90000, func(t *rapid.T) {
		c := qcase{Mode: rapid.SampledFrom([]string{"script", "script", "http"}).Draw(t, "mode")}
		httpMode := c.Mode == "http"
		c.SegSize = rapid.SampledFrom([]int64{64, 64, 128, 128, 256, 1024, 0}).Draw(t, "segsize")
		maxBatch := 60
		if c.SegSize > 0 && int(c.SegSize/4) < maxBatch {
			maxBatch = int(c.SegSize / 4)
		}

		dir, err := scratch.Dir("c27q-")
		if err != nil {
			t.Fatalf("scratch: %v", err)
		}
		defer os.RemoveAll(dir)

		m := newModel()
		w := &hWriter{http: httpMode}
		if httpMode {
			w.store = &cfgStore{url: memURL}
			rm := metrics.NewReplicationsMetrics()
			w.mk = func() *liveWriter { return newLiveWriter(w.store, rm) }
			w.live = w.mk()
			defer func() { w.live.close() }()
		}
		f := &qfix{dir: dir, segSize: c.SegSize, w: w}
		if err := f.open(); err != nil {
			t.Fatalf("open queue: %v", err)
		}
		defer func() {
			if f.q != nil {
				f.q.Close(false)
			}
		}()

		fail := func(key, detail string) {
			rec.Fail(t, name, key, detail, c)
		}
		rolled, reopenedWithPending, sends := false, false, 0
		closedInFlight, sendsAfterClose := 0, 0

		// one SendWrite call + all per-call checks
		send := func(op *qop) (time.Duration, bool) {
			pendingBefore := m.firstUnaccepted() < len(m.batches)
			wait, retry := f.q.SendWrite()
			offers := w.take()
			sends++
			op.Result += fmt.Sprintf("[offers=%d ret=(%v,%v)]", len(offers), wait, retry)
			if httpMode && w.live.stalled != "" {
				rec.Inconclusive(name + ": " + w.live.stalled)
				t.Skip("stalled")
			}
			if v := m.applyOffers(offers, true); v != nil {
				fail(v.key, v.detail)
			}
			switch {
			case len(offers) == 0:
				if pendingBefore {
					fail("pending-batch-not-offered", fmt.Sprintf("batch #%d is enqueued and not accepted, but SendWrite offered nothing (returned (%v,%v))", m.firstUnaccepted(), wait, retry))
				}
				if wait != 0 || retry {
					fail("sendwrite-return", fmt.Sprintf("SendWrite had nothing to offer but returned (%v,%v), want (0,false)", wait, retry))
				}
			case offers[len(offers)-1].GotErr:
				last := offers[len(offers)-1]
				if wait != last.GotWait || !retry {
					fail("sendwrite-return", fmt.Sprintf("the remote writer failed and asked for a wait of %v; SendWrite returned (%v,%v)", last.GotWait, wait, retry))
				}
			default:
				if wait != 0 || !retry {
					fail("sendwrite-return", fmt.Sprintf("all %d offers succeeded; SendWrite returned (%v,%v), want (0,true)", len(offers), wait, retry))
				}
			}
			if got := f.q.FailedWrites(); got != m.consec {
				fail("attempt-number", fmt.Sprintf("FailedWrites()=%d after %d consecutive failed writes", got, m.consec))
			}
			tb := f.q.TotalBytes()
			h := m.headFor(tb)
			if h < 0 {
				fail("queue-contents", fmt.Sprintf("TotalBytes()=%d is not the size of any suffix of the %d enqueued batches", tb, len(m.batches)))
			}
			if fu := m.firstUnaccepted(); h > fu {
				fail("head-advanced-past-unaccepted", fmt.Sprintf("queue holds batches #%d.. (TotalBytes=%d) but batch #%d has not been accepted by the remote", h, tb, fu))
			}
			return wait, retry
		}
		drain := func(op *qop) {
			for i := 0; ; i++ {
				wait, retry := send(op)
				if !retry || wait != 0 {
					if !retry && m.firstUnaccepted() < len(m.batches) {
						fail("pending-batch-not-offered", fmt.Sprintf("SendWrite reported nothing left to send while batch #%d is not accepted", m.firstUnaccepted()))
					}
					return
				}
				if i > 4*len(m.batches)+50 {
					fail("drain-does-not-terminate", fmt.Sprintf("SendWrite kept returning (0,true) for %d calls with %d batches enqueued", i, len(m.batches)))
				}
			}
		}

		// Close (unless crash) + open the directory again, with a fresh writer if the old one's
		// done channel has been closed
		reopen := func(op qop) {
			if m.firstUnaccepted() < len(m.batches) {
				reopenedWithPending = true
			}
			old := f.q
			if op.Op == "reopen" {
				if err := old.Close(false); err != nil {
					t.Fatalf("close: %v", err)
				}
				old = nil
			}
			f.q = nil
			if err := f.open(); err != nil {
				fail("reopen-failed", fmt.Sprintf("%s of the queue directory failed: %v", op.Op, err))
			}
			if old != nil {
				old.Close(false)
			}
			m.consec, w.consec = 0, 0
			w.renew()
			c.Ops = append(c.Ops, op)
			tb := f.q.TotalBytes()
			if h := m.headFor(tb); h < 0 || h > m.firstUnaccepted() {
				fail("head-advanced-past-unaccepted", fmt.Sprintf("after %s TotalBytes()=%d (suffix from #%d) with batch #%d not accepted", op.Op, tb, h, m.firstUnaccepted()))
			}
		}
		// the replication was closed during the last scan: sometimes one more SendWrite (run()
		// may pick a pending signal / retry timer over done), then the queue is closed and, on
		// the next start, opened again
		afterClose := func(i int) {
			if !w.isDead() {
				return
			}
			closedInFlight++
			if rapid.IntRange(0, 2).Draw(t, fmt.Sprintf("op%d.send-after-close", i)) == 0 {
				c.Ops = append(c.Ops, qop{Op: "send-after-close"})
				send(&c.Ops[len(c.Ops)-1])
				sendsAfterClose++
			}
			reopen(qop{Op: "reopen"})
		}

		nOps := rapid.IntRange(4, 22).Draw(t, "nops")
		for i := 0; i < nOps; i++ {
			kinds := []string{"enqueue", "enqueue", "enqueue", "send", "send", "drain", "drain", "reopen", "crash-reopen"}
			if len(m.batches) == 0 {
				kinds = []string{"enqueue"}
			}
			op := qop{Op: rapid.SampledFrom(kinds).Draw(t, fmt.Sprintf("op%d", i))}
			switch op.Op {
			case "enqueue":
				k := rapid.IntRange(1, 4).Draw(t, fmt.Sprintf("op%d.k", i))
				for j := 0; j < k; j++ {
					idx := len(m.batches)
					extra := rapid.SliceOfN(rapid.Byte(), 0, maxBatch-2).Draw(t, fmt.Sprintf("op%d.b%d", i, j))
					b := append([]byte{byte(idx >> 8), byte(idx)}, extra...)
					before := f.q.TotalBytes()
					if err := f.q.Append(b); err != nil {
						rec.Inconclusive(fmt.Sprintf("%s: Append failed on a 1 GiB queue: %v", name, err))
						t.Skip("append failed")
					}
					m.add(b)
					op.Batches = append(op.Batches, hex.EncodeToString(b))
					if after := f.q.TotalBytes(); after != before+8+int64(len(b)) {
						fail("queue-contents", fmt.Sprintf("Append of %d bytes moved TotalBytes from %d to %d", len(b), before, after))
					}
				}
				if countSegments(dir) > 1 {
					rolled = true
				}
			case "send":
				op.Script = genScript(t, fmt.Sprintf("op%d.s", i), httpMode, true)
				w.setScript(op.Script)
				c.Ops = append(c.Ops, op)
				send(&c.Ops[len(c.Ops)-1])
				w.setScript(nil)
				afterClose(i)
				continue
			case "drain":
				op.Script = genScript(t, fmt.Sprintf("op%d.s", i), httpMode, false)
				w.setScript(op.Script)
				c.Ops = append(c.Ops, op)
				drain(&c.Ops[len(c.Ops)-1])
				w.setScript(nil)
				afterClose(i)
				continue
			case "reopen", "crash-reopen":
				reopen(op)
				continue
			}
			c.Ops = append(c.Ops, op)
		}

		// the remote recovers: everything must get through, and the queue must end up empty
		final := qop{Op: "final-drain"}
		w.setScript(nil)
		c.Ops = append(c.Ops, final)
		drain(&c.Ops[len(c.Ops)-1])
		if fu := m.firstUnaccepted(); fu < len(m.batches) {
			fail("batch-never-delivered", fmt.Sprintf("the remote accepts everything, the drain finished, but batch #%d was never accepted", fu))
		}
		if tb := f.q.TotalBytes(); tb != 0 {
			fail("accepted-batches-not-removed", fmt.Sprintf("every batch was accepted and SendWrite reports nothing left, but TotalBytes()=%d", tb))
		}
		if err := f.q.Close(false); err != nil {
			t.Fatalf("close: %v", err)
		}
		f.q = nil
		if err := f.open(); err != nil {
			fail("reopen-failed", fmt.Sprintf("final reopen failed: %v", err))
		}
		m.consec, w.consec = 0, 0
		wait, retry := f.q.SendWrite()
		if offers := w.take(); len(offers) != 0 || wait != 0 || retry {
			fail("accepted-batches-not-removed", fmt.Sprintf("after everything was accepted and the queue reopened, SendWrite offered %d batches and returned (%v,%v)", len(offers), wait, retry))
		}

		rec.Eval()
		rec.Class("queue:mode:" + c.Mode)
		rec.Class(fmt.Sprintf("queue:segsize:%d", c.SegSize))
		rec.ClassN("queue:sendwrite-calls", sends)
		rec.ClassN("queue:batches", len(m.batches))
		if rolled {
			rec.Class("queue:case:segment-rollover")
		}
		if reopenedWithPending {
			rec.Class("queue:case:reopen-with-unaccepted")
		}
		if closedInFlight > 0 {
			rec.Class("queue:case:replication-closed-during-scan")
		}
		if sendsAfterClose > 0 {
			rec.Class("queue:case:sendwrite-after-close")
		}
		for when, n := range w.nAbort {
			rec.ClassN("queue:offer:closed-"+when, n)
		}
		if m.nontrivial() {
			rec.Class("queue:case:nontrivial")
			rec.NonTrivial("queue|" + canonQueue(c))
			if rec.WantSample() && rolled && reopenedWithPending {
				rec.Sample(c)
			}
		}
	})
}

// TestPropRunLoop drives the real background loop (Run / Notify / Close) instead of calling
// SendWrite by hand: enqueue bursts are appended and signalled the way EnqueueData does while the
// loop retries against a scripted writer whose failures ask for 1..4 ms of (real) waiting. The
// flat log of offers must obey the same rules (bytes, no unaccepted batch skipped, attempt
// numbers); once every batch has been accepted the loop is closed and a reopened queue must have
// nothing left to offer. Wall clock enters only as a deadline: not getting everything accepted
// within it is reported as inconclusive, never as a violation.
func TestPropRunLoop(t *testing.T) {
	const name = "TestPropRunLoop"
	rec.Assume("run-loop cases: real timers; a deadline of 20 s per case for the loop to get all batches accepted (missing it = inconclusive)")
	rec.Check(t, 700, 12000, func(t *rapid.T) {
		c := qcase{Mode: "run-loop"}
		c.SegSize = rapid.SampledFrom([]int64{64, 64, 128, 256, 0}).Draw(t, "segsize")
		maxBatch := 60
		if c.SegSize > 0 && int(c.SegSize/4) < maxBatch {
			maxBatch = int(c.SegSize / 4)
		}
		dir, err := scratch.Dir("c27r-")
		if err != nil {
			t.Fatalf("scratch: %v", err)
		}
		defer os.RemoveAll(dir)

		// the whole script is drawn up front: the writer runs on the loop's goroutine
		nScript := rapid.IntRange(0, 14).Draw(t, "nscript")
		var script []decision
		for i := 0; i < nScript; i++ {
			d := decision{Accept: rapid.IntRange(0, 99).Draw(t, fmt.Sprintf("s%d.p", i)) < 40}
			if !d.Accept {
				d.WaitMS = int64(rapid.IntRange(1, 4).Draw(t, fmt.Sprintf("s%d.w", i)))
			}
			script = append(script, d)
		}
		type burst struct {
			batches [][]byte
			pauseMS int
		}
		var bursts []burst
		m := newModel()
		nb := rapid.IntRange(1, 5).Draw(t, "bursts")
		idx := 0
		for i := 0; i < nb; i++ {
			b := burst{pauseMS: rapid.IntRange(0, 3).Draw(t, fmt.Sprintf("b%d.pause", i))}
			k := rapid.IntRange(1, 4).Draw(t, fmt.Sprintf("b%d.k", i))
			op := qop{Op: "enqueue+notify"}
			for j := 0; j < k; j++ {
				extra := rapid.SliceOfN(rapid.Byte(), 0, maxBatch-2).Draw(t, fmt.Sprintf("b%d.%d", i, j))
				data := append([]byte{byte(idx >> 8), byte(idx)}, extra...)
				idx++
				b.batches = append(b.batches, data)
				op.Batches = append(op.Batches, hex.EncodeToString(data))
			}
			bursts = append(bursts, b)
			c.Ops = append(c.Ops, op)
		}
		c.Ops = append(c.Ops, qop{Op: "script", Script: script})

		w := &hWriter{script: script}
		f := &qfix{dir: dir, segSize: c.SegSize, w: w}
		if err := f.open(); err != nil {
			t.Fatalf("open queue: %v", err)
		}
		f.q.Run()
		closed := false
		defer func() {
			if !closed && f.q != nil {
				f.q.Close(true)
			}
		}()
		for _, b := range bursts {
			for _, data := range b.batches {
				m.add(data)
				if err := f.q.Append(data); err != nil {
					rec.Inconclusive(fmt.Sprintf("%s: Append failed on a 1 GiB queue: %v", name, err))
					t.Skip("append failed")
				}
				f.q.Notify()
			}
			if b.pauseMS > 0 {
				time.Sleep(time.Duration(b.pauseMS) * time.Millisecond)
			}
		}
		// wait until the remote has accepted every batch
		accepted := func() int {
			w.mu.Lock()
			defer w.mu.Unlock()
			seen := map[string]bool{}
			for _, o := range w.offers {
				if o.Accepted {
					seen[string(o.Data)] = true
				}
			}
			n := 0
			for _, b := range m.batches {
				if seen[string(b)] {
					n++
				}
			}
			return n
		}
		// a rule already broken in the log so far ends the wait (the batch may never be accepted)
		brokenAlready := func() bool {
			w.mu.Lock()
			log := append([]offer(nil), w.offers...)
			w.mu.Unlock()
			tmp := newModel()
			for _, b := range m.batches {
				tmp.add(b)
			}
			return tmp.applyOffers(log, false) != nil
		}
		deadline := time.Now().Add(20 * time.Second)
		timedOut := false
		for i := 0; accepted() < len(m.batches); i++ {
			if time.Now().After(deadline) {
				timedOut = true
				break
			}
			if i%50 == 49 && brokenAlready() {
				break
			}
			time.Sleep(200 * time.Microsecond)
		}
		closed = true
		if err := f.q.Close(true); err != nil {
			t.Fatalf("close: %v", err)
		}
		offers := w.take()
		if v := m.applyOffers(offers, false); v != nil {
			rec.Fail(t, name, v.key, v.detail, c)
		}
		if timedOut {
			rec.Inconclusive(fmt.Sprintf("%s: %d of %d batches accepted after 20s (%d offers logged)", name, accepted(), len(m.batches), len(offers)))
			t.Skip("deadline")
		}
		// reopened queue: nothing left
		f.q = nil
		w.consec = 0
		if err := f.open(); err != nil {
			rec.Fail(t, name, "reopen-failed", fmt.Sprintf("reopen failed: %v", err), c)
		}
		wait, retry := f.q.SendWrite()
		left := w.take()
		tb := f.q.TotalBytes()
		f.q.Close(false)
		f.q = nil
		if len(left) != 0 || wait != 0 || retry || tb != 0 {
			rec.Fail(t, name, "accepted-batches-not-removed", fmt.Sprintf("the loop got every batch accepted and was closed; the reopened queue still offers %d batches (SendWrite returned (%v,%v), TotalBytes=%d)", len(left), wait, retry, tb), c)
		}
		rec.Eval()
		rec.Class("queue:mode:run-loop")
		rec.ClassN("queue:run-loop-offers", len(offers))
		if m.nontrivial() {
			rec.Class("queue:case:nontrivial")
			rec.NonTrivial("runloop|" + canonQueue(c))
		}
	})
}

// TestPropCloseWhileSending: the replication is closed while the real background loop is busy
// with a remote that has stopped answering (server shutdown / replication close while the remote
// is slow). The loop runs against the real writer and the scripted HTTP remote: the remote
// accepts the first `pre` batches (204) and then holds a request unanswered; at that moment (or,
// "before", at the start of that write) the writer's done channel is closed, more batches may
// still be enqueued and signalled, and the queue is closed the way replicationQueue.Close does
// (the loop may run further scans, whose writes are all cut short). Nothing that the remote did
// not answer with 204 may have left the queue: the directory is opened again with a fresh writer
// and an accepting remote, and the same rules as in TestPropQueueDiscipline must hold for the
// flat offer log of the loop and for every SendWrite call afterwards, i.e. every batch the
// remote had not accepted is offered again, in order, and the queue ends up empty.
func TestPropCloseWhileSending(t *testing.T) {
	const name = "TestPropCloseWhileSending"
	rec.Assume("close-while-sending cases: the harness writer owns the done channel of the real remote writer (the shim's queue keeps the one of the writer it replaced), so 'closing the replication' = close(done) followed by the real replicationQueue.Close; a deadline of 20 s per case for the loop to reach the unanswered request (missing it = inconclusive)")
	rec.Check(t, 500, 9000, func(t *rapid.T) {
		c := qcase{Mode: "run-loop-close"}
		c.SegSize = rapid.SampledFrom([]int64{64, 64, 128, 256, 0}).Draw(t, "segsize")
		maxBatch := 60
		if c.SegSize > 0 && int(c.SegSize/4) < maxBatch {
			maxBatch = int(c.SegSize / 4)
		}
		dir, err := scratch.Dir("c27c-")
		if err != nil {
			t.Fatalf("scratch: %v", err)
		}
		defer os.RemoveAll(dir)

		nb := rapid.IntRange(1, 8).Draw(t, "batches")
		pre := rapid.IntRange(0, nb-1).Draw(t, "accepted_before_close")
		when := rapid.SampledFrom([]string{"inflight", "inflight", "before"}).Draw(t, "when")
		late := rapid.SampledFrom([]int{0, 0, 1, 2}).Draw(t, "late")
		pauseUS := rapid.SampledFrom([]int{0, 0, 200, 1000}).Draw(t, "pause_us")
		idx := 0
		mkBatch := func(label string) []byte {
			extra := rapid.SliceOfN(rapid.Byte(), 0, maxBatch-2).Draw(t, label)
			b := append([]byte{byte(idx >> 8), byte(idx)}, extra...)
			idx++
			return b
		}
		var first, later [][]byte
		op := qop{Op: "enqueue+notify"}
		for i := 0; i < nb; i++ {
			b := mkBatch(fmt.Sprintf("b%d", i))
			first = append(first, b)
			op.Batches = append(op.Batches, hex.EncodeToString(b))
		}
		var script []decision
		for i := 0; i < pre; i++ {
			script = append(script, decision{Accept: true, Resp: &response{Kind: "status", Status: http.StatusNoContent}})
		}
		script = append(script, abortDecision(when))
		c.Ops = append(c.Ops, qop{Op: "script", Script: script}, op)
		op = qop{Op: "enqueue+notify (remote hangs, done closed)"}
		for i := 0; i < late; i++ {
			b := mkBatch(fmt.Sprintf("l%d", i))
			later = append(later, b)
			op.Batches = append(op.Batches, hex.EncodeToString(b))
		}
		c.Ops = append(c.Ops, op, qop{Op: "close"}, qop{Op: "open + drain, remote accepts"})

		m := newModel()
		w := &hWriter{http: true, script: script, store: &cfgStore{url: memURL}}
		rm := metrics.NewReplicationsMetrics()
		w.mk = func() *liveWriter { return newLiveWriter(w.store, rm) }
		w.live = w.mk()
		defer func() { w.live.close() }()
		f := &qfix{dir: dir, segSize: c.SegSize, w: w}
		if err := f.open(); err != nil {
			t.Fatalf("open queue: %v", err)
		}
		f.q.Run()
		running := true
		defer func() {
			if f.q != nil {
				f.q.Close(running)
			}
		}()
		enqueue := func(bs [][]byte) {
			for _, data := range bs {
				m.add(data)
				if err := f.q.Append(data); err != nil {
					rec.Inconclusive(fmt.Sprintf("%s: Append failed on a 1 GiB queue: %v", name, err))
					t.Skip("append failed")
				}
				f.q.Notify()
			}
		}
		enqueue(first)
		// wait for the loop to reach the request that is never answered
		deadline := time.Now().Add(20 * time.Second)
		for !w.isDead() {
			if time.Now().After(deadline) {
				f.q.Close(true)
				f.q = nil
				if v := m.applyOffers(w.take(), false); v != nil {
					rec.Fail(t, name, v.key, v.detail, c)
				}
				rec.Inconclusive(fmt.Sprintf("%s: the loop did not reach offer %d within 20s", name, pre+1))
				t.Skip("deadline")
			}
			time.Sleep(100 * time.Microsecond)
		}
		enqueue(later)
		if pauseUS > 0 {
			time.Sleep(time.Duration(pauseUS) * time.Microsecond)
		}
		running = false
		if err := f.q.Close(true); err != nil {
			t.Fatalf("close: %v", err)
		}
		f.q = nil
		if w.live.stalled != "" {
			rec.Inconclusive(name + ": " + w.live.stalled)
			t.Skip("stalled")
		}
		loopOffers := w.take()
		if v := m.applyOffers(loopOffers, false); v != nil {
			rec.Fail(t, name, v.key, v.detail, c)
		}
		fuAtClose := m.firstUnaccepted()
		if fuAtClose != pre {
			// cannot happen with a sound model: exactly the scripted 204s were accepted
			rec.Fail(t, name, "model-out-of-step", fmt.Sprintf("%d batches accepted by the remote before the close, model says %d", pre, fuAtClose), c)
		}

		// next start: fresh writer, the remote is back
		w.renew()
		m.consec, w.consec = 0, 0
		if err := f.open(); err != nil {
			rec.Fail(t, name, "reopen-failed", fmt.Sprintf("reopen failed: %v", err), c)
		}
		tb := f.q.TotalBytes()
		if h := m.headFor(tb); h < 0 || h > fuAtClose {
			rec.Fail(t, name, "head-advanced-past-unaccepted", fmt.Sprintf("the replication was closed while the remote held batch #%d unanswered (%d offers by the loop); after reopening TotalBytes()=%d (suffix from #%d of %d batches)", fuAtClose, len(loopOffers), tb, h, len(m.batches)), c)
		}
		for i := 0; ; i++ {
			wait, retry := f.q.SendWrite()
			offers := w.take()
			if v := m.applyOffers(offers, true); v != nil {
				rec.Fail(t, name, v.key, v.detail, c)
			}
			if len(offers) == 0 && m.firstUnaccepted() < len(m.batches) {
				rec.Fail(t, name, "pending-batch-not-offered", fmt.Sprintf("after reopening, batch #%d is not accepted but SendWrite offered nothing (returned (%v,%v))", m.firstUnaccepted(), wait, retry), c)
			}
			if wait != 0 {
				rec.Fail(t, name, "sendwrite-return", fmt.Sprintf("the remote accepts everything; SendWrite returned (%v,%v)", wait, retry), c)
			}
			if !retry {
				break
			}
			if i > 4*len(m.batches)+50 {
				rec.Fail(t, name, "drain-does-not-terminate", fmt.Sprintf("SendWrite kept returning (0,true) for %d calls", i), c)
			}
		}
		if fu := m.firstUnaccepted(); fu < len(m.batches) {
			rec.Fail(t, name, "batch-never-delivered", fmt.Sprintf("the remote accepts everything, the drain finished, but batch #%d was never accepted", fu), c)
		}
		if tb := f.q.TotalBytes(); tb != 0 {
			rec.Fail(t, name, "accepted-batches-not-removed", fmt.Sprintf("every batch was accepted, but TotalBytes()=%d", tb), c)
		}

		rec.Eval()
		rec.Class("queue:mode:run-loop-close")
		rec.Class("queue:close-while-sending:" + when)
		rec.ClassN("queue:close-while-sending:loop-offers-cut-short", len(loopOffers)-pre)
		if late > 0 {
			rec.Class("queue:close-while-sending:enqueued-after-close")
		}
		if pre > 0 && fuAtClose < len(m.batches)-1 {
			rec.Class("queue:case:nontrivial-close")
			rec.NonTrivial("runloop-close|" + canonQueue(c))
			if rec.WantSample() {
				rec.Sample(c)
			}
		}
	})
}
