// Scripted remote used by all C27 properties: one HTTP handler whose answer to the next request
// is set by the harness, reachable (a) over an in-memory net.Pipe listener (bulk of the cases: no
// TCP ports, no TIME_WAIT, no dependence on the machine's network state) and (b) over a real
// loop-back httptest.Server (smaller number of cases, same handler).
//
// remotewrite.PostWrite builds its own http.Client from a Clone of http.DefaultTransport on every
// call, so the only way to route it over the in-memory listener is to give the process-wide
// http.DefaultTransport a DialContext that recognises one reserved host name (test process only).
package c27_replication

import (
	"context"
	"errors"
	"io"
	"net"
	"net/http"
	"net/http/httptest"
	"net/url"
	"sync"
	"sync/atomic"
	"time"

	"github.com/influxdata/influxdb/v2"
	"github.com/influxdata/influxdb/v2/kit/platform"
)

const (
	memHost      = "verif-remote.invalid"
	memURL       = "http://" + memHost
	remoteToken  = "tok-c27-Zm9v"
	remoteBucket = "remote-bucket"
)

// response is one scripted answer of the remote (plus the state of the configuration store for
// that attempt: the writer re-reads the configuration on every attempt).
type response struct {
	Kind       string  `json:"kind"`                  // "status" | "reset" | "cfgerr" | "stall" | "abort"
	AbortWhen  string  `json:"abort_when,omitempty"`  // Kind=="abort": the replication is closed "before" the write starts | while it is "inflight"
	Status     int     `json:"status,omitempty"`      // for Kind=="status"
	RetryAfter *string `json:"retry_after,omitempty"` // Retry-After header, when non-nil
	Body       string  `json:"body,omitempty"`        // "", "json", "text"
	Drop       bool    `json:"drop"`                  // DropNonRetryableData for this attempt
}

type seenReq struct {
	Method string
	Path   string
	Query  url.Values
	Header http.Header
	Body   []byte
	Err    error
}

type remoteT struct {
	mu      sync.Mutex
	cur     response
	armed   bool
	reqs    []seenReq
	release chan struct{} // closed to let stalled handlers go
	seen    chan struct{} // signalled (non-blocking) whenever a request has been received completely

	tcpOnce sync.Once
	tcp     *httptest.Server
}

var remote = &remoteT{release: make(chan struct{})}

func (r *remoteT) arm(resp response) {
	r.mu.Lock()
	r.cur = resp
	r.armed = true
	r.reqs = nil
	r.seen = make(chan struct{}, 8)
	r.mu.Unlock()
}

// seenCh is the channel that is signalled when the remote has received a request since arm.
func (r *remoteT) seenCh() <-chan struct{} {
	r.mu.Lock()
	defer r.mu.Unlock()
	return r.seen
}

// take returns the requests seen since arm and disarms.
func (r *remoteT) take() []seenReq {
	r.mu.Lock()
	defer r.mu.Unlock()
	out := r.reqs
	r.reqs = nil
	r.armed = false
	return out
}

func (r *remoteT) ServeHTTP(w http.ResponseWriter, req *http.Request) {
	body, err := io.ReadAll(req.Body)
	r.mu.Lock()
	resp := r.cur
	r.reqs = append(r.reqs, seenReq{Method: req.Method, Path: req.URL.Path, Query: req.URL.Query(),
		Header: req.Header.Clone(), Body: body, Err: err})
	release := r.release
	if r.seen != nil {
		select {
		case r.seen <- struct{}{}:
		default:
		}
	}
	r.mu.Unlock()

	// one connection per request: PostWrite never reuses its transport, an idle keep-alive
	// connection would only be a leaked goroutine pair per call
	w.Header().Set("Connection", "close")
	switch resp.Kind {
	case "reset":
		if hj, ok := w.(http.Hijacker); ok {
			if c, _, err := hj.Hijack(); err == nil {
				c.Close()
				return
			}
		}
		panic(http.ErrAbortHandler)
	case "abort":
		// the remote has the request but never answers it: it waits for the client to give up
		// (the replication was closed); a client that does not give up gets its connection cut
		select {
		case <-release:
		case <-req.Context().Done():
		case <-time.After(10 * time.Second):
		}
		if hj, ok := w.(http.Hijacker); ok {
			if c, _, err := hj.Hijack(); err == nil {
				c.Close()
				return
			}
		}
		panic(http.ErrAbortHandler)
	case "stall":
		select {
		case <-release:
		case <-req.Context().Done():
		case <-time.After(30 * time.Second):
		}
		w.WriteHeader(http.StatusNoContent)
		return
	}
	if resp.RetryAfter != nil {
		w.Header()["Retry-After"] = []string{*resp.RetryAfter}
	}
	switch resp.Body {
	case "json":
		w.Header().Set("Content-Type", "application/json; charset=utf-8")
		w.WriteHeader(resp.Status)
		if resp.Status != http.StatusNoContent {
			io.WriteString(w, `{"code":"invalid","message":"scripted failure: unable to parse 'x': bad timestamp"}`)
		}
	case "text":
		w.Header().Set("Content-Type", "text/plain")
		w.WriteHeader(resp.Status)
		if resp.Status != http.StatusNoContent {
			io.WriteString(w, "upstream says no\nsecond line")
		}
	default:
		w.WriteHeader(resp.Status)
	}
}

func (r *remoteT) tcpURL() string {
	r.tcpOnce.Do(func() { r.tcp = httptest.NewServer(r) })
	return r.tcp.URL
}

// ---- in-memory listener ------------------------------------------------------------------

type memAddr struct{}

func (memAddr) Network() string { return "mem" }
func (memAddr) String() string  { return memHost + ":80" }

type memListener struct {
	ch     chan net.Conn
	closed chan struct{}
	mu     sync.Mutex
	live   map[*memConnState]struct{} // connections dialled and not yet closed by the server side
	freed  chan struct{}              // signalled (non-blocking) when a connection leaves live
}

// memConnState is shared by the two ends of one in-memory connection.
type memConnState struct {
	used atomic.Bool // the client has started to write a request on it
	srv  *memSrvConn
}

// memCliConn is the client end: it notes the first write BEFORE any byte can reach the server.
type memCliConn struct {
	net.Conn
	st *memConnState
}

func (c *memCliConn) Write(b []byte) (int, error) {
	c.st.used.Store(true)
	return c.Conn.Write(b)
}

// memSrvConn is the server end; Close (by the http.Server or by a handler that hijacked it) ends
// the connection's life for memListener.live.
type memSrvConn struct {
	net.Conn
	once sync.Once
	st   *memConnState
	l    *memListener
}

func (c *memSrvConn) Close() error {
	c.once.Do(func() {
		c.l.mu.Lock()
		delete(c.l.live, c.st)
		c.l.mu.Unlock()
		select {
		case c.l.freed <- struct{}{}:
		default:
		}
	})
	return c.Conn.Close()
}

// quiesce is called after a write that was cut short has returned: the request (or a part of it)
// can still be on its way to the handler. It waits until the server side has finished with every
// connection a request was started on, and closes the ones that were dialled but never used
// (the transport parks those in the idle pool of a client nobody will use again).
func (l *memListener) quiesce(max time.Duration) bool {
	deadline := time.Now().Add(max)
	for {
		busy := false
		var idle []*memSrvConn
		l.mu.Lock()
		for st := range l.live {
			if st.used.Load() {
				busy = true
			} else {
				idle = append(idle, st.srv)
			}
		}
		l.mu.Unlock()
		for _, c := range idle {
			c.Close()
		}
		if !busy {
			return true
		}
		if time.Now().After(deadline) {
			return false
		}
		select {
		case <-l.freed:
		case <-time.After(time.Millisecond):
		}
	}
}

func (l *memListener) Accept() (net.Conn, error) {
	select {
	case c := <-l.ch:
		return c, nil
	case <-l.closed:
		return nil, net.ErrClosed
	}
}
func (l *memListener) Close() error   { return nil }
func (l *memListener) Addr() net.Addr { return memAddr{} }
func (l *memListener) dial(ctx context.Context) (net.Conn, error) {
	c, p := net.Pipe()
	st := &memConnState{}
	st.srv = &memSrvConn{Conn: p, st: st, l: l}
	l.mu.Lock()
	l.live[st] = struct{}{}
	l.mu.Unlock()
	select {
	case l.ch <- st.srv:
		return &memCliConn{Conn: c, st: st}, nil
	case <-ctx.Done():
		c.Close()
		st.srv.Close()
		return nil, ctx.Err()
	}
}

var memL = &memListener{ch: make(chan net.Conn), closed: make(chan struct{}), live: map[*memConnState]struct{}{}, freed: make(chan struct{}, 1)}

func installMemDial() {
	tr, ok := http.DefaultTransport.(*http.Transport)
	if !ok {
		panic("http.DefaultTransport is not *http.Transport")
	}
	orig := tr.DialContext
	tr.Proxy = nil // the scripted remote must be reached directly, whatever the environment says
	tr.DialContext = func(ctx context.Context, network, addr string) (net.Conn, error) {
		if addr == memHost+":80" {
			return memL.dial(ctx)
		}
		return orig(ctx, network, addr)
	}
	go (&http.Server{Handler: remote}).Serve(memL)
}

// ---- configuration store -----------------------------------------------------------------

var errCfg = errors.New("scripted config store failure")

type cfgStore struct {
	mu      sync.Mutex
	url     string
	drop    bool
	fail    bool
	updates []int
}

func (c *cfgStore) set(resp response) {
	c.mu.Lock()
	c.drop = resp.Drop
	c.fail = resp.Kind == "cfgerr"
	c.mu.Unlock()
}

func (c *cfgStore) GetFullHTTPConfig(context.Context, platform.ID) (*influxdb.ReplicationHTTPConfig, error) {
	c.mu.Lock()
	defer c.mu.Unlock()
	if c.fail {
		return nil, errCfg
	}
	return &influxdb.ReplicationHTTPConfig{RemoteURL: c.url, RemoteToken: remoteToken,
		RemoteBucketName: remoteBucket, DropNonRetryableData: c.drop}, nil
}

func (c *cfgStore) UpdateResponseInfo(_ context.Context, _ platform.ID, code int, _ string) error {
	c.mu.Lock()
	c.updates = append(c.updates, code)
	c.mu.Unlock()
	return nil
}
