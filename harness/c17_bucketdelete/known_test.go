package c17_bucketdelete

import (
	"fmt"
	"testing"

	"github.com/influxdata/influxdb/v2/models"

	"verifharness/internal/model"
)

// TestKnown_delete_series_key_prefix_order: Engine.deleteSeriesRange walks the TSM index keys
// ("<series key>#!~#<field>") and the sorted series keys to delete in one merge pass, assuming both
// orders agree. They do not when one series key is a prefix of another and the next byte sorts
// below '#': "m0,host=a" < "m0,host=a!" but "m0,host=a!#!~#fi" < "m0,host=a#!~#fi". The pass then
// never visits "m0,host=a": its points inside the range are not deleted, and the reconciliation
// pass (same walk) does not find its remaining TSM data and drops the series from the index, so
// its surviving points become unreadable and the series is no longer listed.
func TestKnown_delete_series_key_prefix_order(t *testing.T) {
	mc, err := newMachine(2, []string{"m0,host=a", "m0,host=a!"})
	if err != nil {
		t.Fatal(err)
	}
	defer mc.close()
	var ps []wpoint
	for _, sk := range []string{"m0,host=a", "m0,host=a!"} {
		for _, ts := range []int64{1000, 2000} {
			ps = append(ps, wpoint{Series: sk, T: ts, Fields: map[string]model.Val{"fi": {K: model.Integer, I: ts}}})
		}
	}
	if err := mc.write(ps); err != nil {
		t.Fatal(err)
	}
	if err := mc.snapshot(0); err != nil {
		t.Fatal(err)
	}
	if f := mc.observe(); f != nil {
		t.Fatalf("before the delete: %s %s", f.Key, f.Detail)
	}
	p := pred{{"_measurement", "m0"}}
	if !mc.prefixPairInMatch(p) {
		t.Fatal("signature predicate does not recognise the reproducer")
	}
	if _, err := mc.delete(1000, 1000, p, false); err != nil {
		t.Fatal(err)
	}
	f := mc.observe()
	what := "bucket delete [1000,1000] _measurement=\"m0\" over TSM data of series m0,host=a and m0,host=a! (fi at 1000 and 2000 each): "
	if f != nil {
		what += f.Key + ": " + f.Detail
	}
	rec.Known(t, "TestKnown_delete_series_key_prefix_order", knownPrefixKey, f != nil,
		what+" — tsm1.Engine.deleteSeriesRange merge-walks TSM index keys (series#!~#field) against the sorted series keys; the two orders disagree when a series key is a prefix of another one followed by a byte < '#' ('!', '\"'), so the shorter series is neither deleted nor found by the index reconciliation and is dropped from the index with its data still on disk",
		map[string]any{"ops": mc.ops, "observed": fmt.Sprint(f)})
}

// TestKnown_delete_index_prefix_series_kept: when a delete removes the last point of series A in a
// shard, Engine.deleteSeriesRange decides whether A still has cached values by scanning the cache
// keys that have A's series key as a byte prefix (bytes.HasPrefix(deleteKeys[i], k)). The keys of a
// different series B whose key merely extends A's ("m1" / "m1,host=b,region=x"; "m0,host=a" /
// "m0,host=a,region=x") satisfy that test, so if B is matched by the same delete and keeps a cached
// value, A is not dropped from the index: it stays listed (series enumeration, SeriesCardinality)
// although it has no remaining data.
func TestKnown_delete_index_prefix_series_kept(t *testing.T) {
	mc, err := newMachine(2, []string{"m1", "m1,host=b,region=x"})
	if err != nil {
		t.Fatal(err)
	}
	defer mc.close()
	if err := mc.write([]wpoint{
		{Series: "m1", T: 0, Fields: map[string]model.Val{"fi": {K: model.Integer, I: 36}}},
		{Series: "m1,host=b,region=x", T: hourNs - 2, Fields: map[string]model.Val{"ff": {K: model.Float, F: 74.5}}},
	}); err != nil {
		t.Fatal(err)
	}
	if f := mc.observe(); f != nil {
		t.Fatalf("before the delete: %s %s", f.Key, f.Detail)
	}
	st, err := mc.delete(0, hourNs-3, nil, false)
	if err != nil {
		t.Fatal(err)
	}
	if len(st.prefixKept) != 1 {
		t.Fatalf("signature does not recognise the reproducer: %v", st.prefixKept)
	}
	mc.staleOK, mc.staleHours = map[string]bool{}, map[string]map[int]bool{} // observe without the tolerance
	f := mc.observe()
	reproduced := f != nil && (f.Key == "series-listed-without-data" || f.Key == "series-cardinality")
	if f != nil && !reproduced {
		t.Fatalf("unexpected disagreement: %s %s", f.Key, f.Detail)
	}
	what := "bucket delete [0, 1h-3ns] without predicate over cached points m1 fi@0 and m1,host=b,region=x ff@1h-2ns: "
	if f != nil {
		what += f.Key + ": " + f.Detail
	}
	rec.Known(t, "TestKnown_delete_index_prefix_series_kept", knownKeptKey, reproduced,
		what+" — tsm1.Engine.deleteSeriesRange tests remaining cache values of series k with bytes.HasPrefix(deleteKeys[i], k), which also accepts the cache keys of another matched series whose key extends k; k is then kept in the shard index without any data",
		map[string]any{"ops": mc.ops, "observed": fmt.Sprint(f)})
}

// TestKnown_write_to_idle_shard_waits_for_delete: a write whose points lie outside the delete's
// time range (the store's guard does not match it) still waits for the delete when the shard's
// cache is empty: Store.WriteToShard calls Shard.IsIdle on every write; with an empty cache
// Engine.IsIdle goes on to CompactionPlan.FullyCompacted -> FileStore.Stats, whose cache the
// delete's first FileStore.Apply has just invalidated, so Stats takes the FileStore write lock and
// has to wait for the delete's second Apply, which holds the read lock while it writes and fsyncs
// the tombstone files.
func TestKnown_write_to_idle_shard_waits_for_delete(t *testing.T) {
	sc := scenario{Hours: 2, Series: []string{"m0,host=a"}, Min: 1000, Max: 2000, WaitSecs: 2}
	for _, o := range []int64{1000, 2000, 3000} {
		sc.Load = append(sc.Load, wpoint{Series: "m0,host=a", T: o, Fields: map[string]model.Val{"fi": {K: model.Integer, I: o}}})
	}
	sc.Outside = []wpoint{{Series: "m0,host=a", T: 5000, Fields: map[string]model.Val{"fi": {K: model.Integer, I: 7}}}}
	sc.Other = []wpoint{{Series: "m0,host=a", T: 1500, Fields: map[string]model.Val{"fi": {K: model.Integer, I: 8}}}}
	blocked := 0
	var detail string
	for i := 0; i < 3; i++ {
		out, err := runScenario(sc)
		if err != nil {
			t.Fatal(err)
		}
		if !out.held {
			t.Fatal("the delete was not held open")
		}
		if out.finding != nil {
			t.Fatalf("unexpected: %s %s", out.finding.Key, out.finding.Detail)
		}
		if out.blocked != "" {
			blocked++
			detail = out.blocked
		}
	}
	// control: the same scenario with a non-empty cache is not blocked
	warm := sc
	warm.Warm = []wpoint{{Series: "m0,host=a", T: 0, Fields: map[string]model.Val{"fi": {K: model.Integer, I: 9}}}}
	out, err := runScenario(warm)
	if err != nil {
		t.Fatal(err)
	}
	if out.blocked != "" || out.finding != nil || !out.held {
		t.Fatalf("control (warm shard) fails: held=%v blocked=%q finding=%v", out.held, out.blocked, out.finding)
	}
	if blocked != 0 && blocked != 3 {
		rec.Inconclusive(fmt.Sprintf("TestKnown_write_to_idle_shard_waits_for_delete: blocked in %d of 3 runs", blocked))
		return
	}
	rec.Known(t, "TestKnown_write_to_idle_shard_waits_for_delete", knownIdleKey, blocked == 3,
		"delete [1000,2000] of bucket data held open while writing tombstones; a write of m0,host=a@5000 (outside the range) to the same, just snapshotted shard (empty cache): "+detail+" — Store.WriteToShard -> Shard.IsIdle -> Engine.IsIdle -> DefaultPlanner.FullyCompacted -> FileStore.Stats needs the FileStore write lock (the stats cache was invalidated by the delete's first Apply) and waits for the delete's FileStore.Apply, which keeps the read lock for as long as tombstones are written; with a non-empty cache IsIdle returns early and the write is not blocked",
		map[string]any{"scenario": sc})
}

// TestKnown_series_listed_while_tsm_key_fully_tombstoned: two deletes remove the two points of a
// series in a TSM file ([2999, ...] takes the later point, [min, 0] the earlier one). The TSM
// reader only drops a key from its index when the tombstone ranges cover the key's whole block time
// range without a gap (indirectIndex.DeleteRange); here the gap (0, 2999) holds no point, so every
// value is tombstoned but the key stays, deleteSeriesRange's reconciliation finds the key and keeps
// the series in the index: it is still enumerated / counted / its measurement listed although it
// has no remaining data.
func TestKnown_series_listed_while_tsm_key_fully_tombstoned(t *testing.T) {
	mc, err := newMachine(2, []string{"m0x,host=a"})
	if err != nil {
		t.Fatal(err)
	}
	defer mc.close()
	if err := mc.write([]wpoint{
		{Series: "m0x,host=a", T: 0, Fields: map[string]model.Val{"ff": {K: model.Float, F: 21.5}}},
		{Series: "m0x,host=a", T: hourNs - 1, Fields: map[string]model.Val{"ff": {K: model.Float, F: 24.5}}},
	}); err != nil {
		t.Fatal(err)
	}
	if err := mc.snapshot(0); err != nil {
		t.Fatal(err)
	}
	if _, err := mc.delete(2999, 2*hourNs-1, nil, false); err != nil {
		t.Fatal(err)
	}
	if f := mc.observe(); f != nil {
		t.Fatalf("after the first delete: %s %s", f.Key, f.Detail)
	}
	if _, err := mc.delete(models.MinNanoTime, 0, pred{{"host", "a"}}, false); err != nil {
		t.Fatal(err)
	}
	if len(mc.hoursWithTSMKey("m0x,host=a")) == 0 {
		rec.Known(t, "TestKnown_series_listed_while_tsm_key_fully_tombstoned", knownTombKey, false, "", nil)
		if f := mc.observe(); f != nil {
			t.Fatalf("no TSM key left but: %s %s", f.Key, f.Detail)
		}
		return
	}
	// observe as if the finding were not listed
	f := mc.observeWith(false)
	reproduced := f != nil && (f.Key == "series-listed-without-data" || f.Key == "series-cardinality" || f.Key == "measurement-listing")
	if f != nil && !reproduced {
		t.Fatalf("unexpected disagreement: %s %s", f.Key, f.Detail)
	}
	what := "m0x,host=a ff@0 and @1h-1ns in one TSM file; delete [2999, 2h-1ns] (no predicate), then delete [min, 0] host=\"a\": "
	if f != nil {
		what += f.Key + ": " + f.Detail
	}
	rec.Known(t, "TestKnown_series_listed_while_tsm_key_fully_tombstoned", knownTombKey, reproduced,
		what+" — every value of the TSM key is tombstoned, but the tombstone ranges leave a gap (without points) inside the key's block range, so indirectIndex.DeleteRange keeps the key and tsm1.Engine.deleteSeriesRange, which reconciles the index by key presence, keeps the series",
		map[string]any{"ops": mc.ops, "observed": fmt.Sprint(f)})
}
