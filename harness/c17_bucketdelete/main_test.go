package c17_bucketdelete

import (
	"testing"

	"verifharness/internal/ev"
)

func TestMain(m *testing.M) { ev.Main(m) }
