package c17_bucketdelete

import (
	"context"
	"fmt"
	"os"
	"path/filepath"
	"sort"
	"strings"
	"sync"
	"testing"
	"time"

	"github.com/influxdata/influxdb/v2"
	"github.com/influxdata/influxdb/v2/kit/platform"
	"github.com/influxdata/influxdb/v2/models"
	"github.com/influxdata/influxdb/v2/pkg/verifhook"
	"github.com/influxdata/influxdb/v2/storage/reads/datatypes"
	"google.golang.org/protobuf/types/known/anypb"
	"pgregory.net/rapid"

	"verifharness/internal/ev"
	"verifharness/internal/fix"
	"verifharness/internal/model"
)

const knownIdleKey = "write-to-idle-shard-waits-for-delete"

const otherBucket = platform.ID(0x3000)

// scenario of the concurrency clause: data, a delete that will be held open, and two batches of
// writes that do not conflict with it.
type scenario struct {
	Hours   int      `json:"hours"`
	Series  []string `json:"series"`
	Load    []wpoint `json:"load"`
	Min     int64    `json:"min"`
	Max     int64    `json:"max"`
	Pred    pred     `json:"pred"`
	MExpr   bool     `json:"measurement_expr"`
	Other   []wpoint `json:"writes_other_bucket"`  // any time, also inside [min,max]
	Outside []wpoint `json:"writes_outside_range"` // same bucket, every time outside [min,max]
	// Warm: points written after the snapshots, so that every shard's cache is non-empty while the
	// delete runs. Without them (cold shards) the write path takes Store.WriteToShard -> Shard.IsIdle
	// -> FileStore.Stats, which needs the FileStore write lock (known finding, see known_test.go).
	Warm     []wpoint `json:"warm_points_after_snapshot"`
	WaitSecs int      `json:"-"`
}

type outcome struct {
	held         bool   // the delete reached the hold point
	blocked      string // "" or which write did not complete while the delete was held
	finding      *finding
	heldShardDir string
}

func readBucket(s *fix.Stack, bucket platform.ID) ([]fix.SeriesRows, error) {
	src, err := anypb.New(s.Reads.GetSource(uint64(s.Org), uint64(bucket)))
	if err != nil {
		return nil, err
	}
	rs, err := s.Reads.ReadFilter(context.Background(), &datatypes.ReadFilterRequest{
		ReadSource: src, Range: &datatypes.TimestampRange{Start: models.MinNanoTime, End: models.MaxNanoTime}})
	if err != nil {
		return nil, err
	}
	return fix.DrainResultSet(rs)
}

func compareBucket(what string, rows []fix.SeriesRows, m *model.Store) *finding {
	seen := map[string]bool{}
	for _, r := range rows {
		sk, f := r.Key()
		seen[sk+"#"+f] = true
		want := m.Range(sk, f, models.MinNanoTime, models.MaxNanoTime, true)
		if !model.EqualPoints(r.Points, want) {
			return &finding{"state-after-concurrent-delete", fmt.Sprintf("%s: %s %s read [%s], expected [%s]", what, sk, f, model.Render(r.Points), model.Render(want))}
		}
	}
	for _, sk := range m.LiveSeries() {
		for _, f := range m.Fields(sk) {
			if len(m.Range(sk, f, models.MinNanoTime, models.MaxNanoTime, true)) > 0 && !seen[sk+"#"+f] {
				return &finding{"state-after-concurrent-delete", fmt.Sprintf("%s: %s %s has points but is not returned", what, sk, f)}
			}
		}
	}
	return nil
}

// runScenario executes the scenario once on a fresh stack.
func runScenario(sc scenario) (outcome, error) {
	var out outcome
	mc, err := newMachine(sc.Hours, sc.Series)
	if err != nil {
		return out, err
	}
	defer mc.close()
	s := mc.s
	ctx := context.Background()
	if err := s.Eng.CreateBucket(ctx, &influxdb.Bucket{ID: otherBucket, OrgID: s.Org, ShardGroupDuration: time.Hour}); err != nil {
		return out, fmt.Errorf("create second bucket: %w", err)
	}
	if err := mc.write(sc.Load); err != nil {
		return out, err
	}
	for h := 0; h < sc.Hours; h++ {
		if err := mc.snapshot(h); err != nil {
			return out, err
		}
	}
	if len(sc.Warm) > 0 {
		if err := mc.write(sc.Warm); err != nil {
			return out, err
		}
	}
	pr, me, err := sc.Pred.build(sc.MExpr)
	if err != nil {
		return out, err
	}
	// hold the delete open after it has written (not yet renamed) a tombstone file of this bucket
	prefix := filepath.Join(s.Root, "data", s.DB()) + string(os.PathSeparator)
	held := make(chan struct{})
	release := make(chan struct{})
	var once sync.Once
	var heldDir string
	verifhook.Set(func(name, detail string) {
		if name == "tsm1.tombstone.after-tmp-write" && strings.HasPrefix(detail, prefix) {
			once.Do(func() { heldDir = filepath.Dir(detail); close(held) })
			<-release
		}
	})
	defer verifhook.Set(nil)
	released := false
	doRelease := func() {
		if !released {
			released = true
			close(release)
		}
	}
	defer doRelease()

	delDone := make(chan error, 1)
	go func() {
		delDone <- s.Eng.DeleteBucketRangePredicate(ctx, s.Org, s.Bucket, sc.Min, sc.Max, pr, me)
	}()
	wait := time.Duration(sc.WaitSecs) * time.Second
	select {
	case <-held:
		out.held = true
		out.heldShardDir = heldDir
	case err := <-delDone:
		// the delete touched no TSM data: nothing was held
		s.Quiesce()
		if err != nil {
			return out, fmt.Errorf("delete: %w", err)
		}
		return out, nil
	case <-time.After(2 * wait):
		doRelease()
		out.blocked = "delete neither finished nor reached the hold point"
		return out, nil
	}

	// writes that do not conflict with the held delete
	type wres struct {
		what string
		err  error
	}
	results := make(chan wres, 2)
	pending := 0
	startWrite := func(what string, bucket platform.ID, ps []wpoint) error {
		if len(ps) == 0 {
			return nil
		}
		mps, err := toModelsPoints(ps)
		if err != nil {
			return err
		}
		pending++
		go func() { results <- wres{what, s.Eng.WritePoints(ctx, s.Org, bucket, mps)} }()
		return nil
	}
	if err := startWrite("write to another bucket", otherBucket, sc.Other); err != nil {
		return out, err
	}
	if err := startWrite("write to the same bucket outside the delete's time range", s.Bucket, sc.Outside); err != nil {
		return out, err
	}
	deadline := time.After(wait)
	completed := map[string]bool{}
	var werr error
	for pending > 0 && out.blocked == "" {
		select {
		case r := <-results:
			pending--
			completed[r.what] = true
			if r.err != nil && werr == nil {
				werr = fmt.Errorf("%s: %w", r.what, r.err)
			}
		case err := <-delDone:
			// cannot happen while the hook blocks; if it does the hold was not effective
			delDone <- err
			out.held = false
			pending = 0
		case <-deadline:
			var missing []string
			for _, w := range []string{"write to another bucket", "write to the same bucket outside the delete's time range"} {
				if !completed[w] && ((w == "write to another bucket" && len(sc.Other) > 0) || (w != "write to another bucket" && len(sc.Outside) > 0)) {
					missing = append(missing, w)
				}
			}
			out.blocked = strings.Join(missing, " and ") + fmt.Sprintf(" did not complete within %v while the delete was held", wait)
		}
	}
	doRelease()
	// let everything finish
	var derr error
	select {
	case derr = <-delDone:
	case <-time.After(4 * wait):
		return out, fmt.Errorf("delete did not finish within %v after the hold was released", 4*wait)
	}
	for pending > 0 {
		select {
		case r := <-results:
			pending--
			if r.err != nil && werr == nil {
				werr = fmt.Errorf("%s: %w", r.what, r.err)
			}
		case <-time.After(4 * wait):
			return out, fmt.Errorf("a write did not finish within %v after the hold was released", 4*wait)
		}
	}
	s.Quiesce()
	if derr != nil {
		return out, fmt.Errorf("delete: %w", derr)
	}
	if werr != nil {
		out.finding = &finding{"non-conflicting-write-failed", werr.Error()}
		return out, nil
	}
	if out.blocked != "" {
		return out, nil
	}
	// final state: the delete applied to the loaded data, every concurrent write present
	for _, sk := range mc.m.SeriesKeys() {
		if sc.Pred.matches(sk) {
			mc.m.DeleteRange(sk, sc.Min, sc.Max)
		}
	}
	for _, p := range sc.Outside {
		for k, v := range p.Fields {
			mc.m.Write(p.Series, k, p.T, v)
		}
	}
	other := model.NewStore()
	for _, p := range sc.Other {
		for k, v := range p.Fields {
			other.Write(p.Series, k, p.T, v)
		}
	}
	rows, err := readBucket(s, s.Bucket)
	if err != nil {
		return out, err
	}
	if f := compareBucket("bucket under delete", rows, mc.m); f != nil {
		out.finding = f
		return out, nil
	}
	rows, err = readBucket(s, otherBucket)
	if err != nil {
		return out, err
	}
	out.finding = compareBucket("other bucket", rows, other)
	return out, nil
}

func TestPropNonConflictingWritesNotBlocked(t *testing.T) {
	rec.Assume("conflict = a write to a shard of the bucket under delete with a point time inside the delete's [min,max] (the guard the store installs); writes to other buckets and writes whose times all lie outside [min,max] are non-conflicting; in-range writes to series the predicate does not match are not asserted either way")
	rec.Assume("bounded wait of 5 s per write while the delete is held at tsm1.tombstone.after-tmp-write; a timeout that does not reproduce in 3 runs is reported as inconclusive")
	rec.Check(t, 20, 300, func(t *rapid.T) {
		sc := scenario{Hours: rapid.IntRange(2, 3).Draw(t, "hours"), WaitSecs: 5}
		nser := rapid.IntRange(2, 5).Draw(t, "nser")
		perm := rapid.Permutation(seriesDomain[:9]).Draw(t, "perm")
		sc.Series = append([]string(nil), perm[:nser]...)
		sort.Strings(sc.Series)
		mc := &machine{hours: sc.Hours, series: sc.Series}
		// every series has points at offsets 1000, 2000, 3000 of every hour (so that a delete inside
		// an hour always finds TSM data) plus some more
		for _, sk := range sc.Series {
			for h := 0; h < sc.Hours; h++ {
				for _, o := range []int64{1000, 2000, 3000} {
					mc.seq++
					sc.Load = append(sc.Load, wpoint{Series: sk, T: int64(h)*hourNs + o, Fields: map[string]model.Val{"fi": {K: model.Integer, I: int64(mc.seq)}}})
				}
			}
		}
		sc.Load = append(sc.Load, mc.drawPoints(t, "l", rapid.IntRange(0, 6).Draw(t, "nl"))...)
		// the delete: inside one hour (leaving room in the same shard) or across shard boundaries
		h1 := rapid.IntRange(0, sc.Hours-1).Draw(t, "h1")
		switch rapid.IntRange(0, 3).Draw(t, "rkind") {
		case 0:
			sc.Min, sc.Max = int64(h1)*hourNs+1000, int64(h1)*hourNs+3000
		case 1:
			sc.Min, sc.Max = int64(h1)*hourNs+2, int64(h1)*hourNs+hourNs/2
		case 2:
			h2 := rapid.IntRange(h1, sc.Hours-1).Draw(t, "h2")
			sc.Min, sc.Max = int64(h1)*hourNs+2000, int64(h2)*hourNs+hourNs-3
		default:
			sc.Min, sc.Max = int64(h1)*hourNs+1, int64(sc.Hours)*hourNs-2
		}
		// a predicate that matches at least one series (otherwise nothing is held)
		cands := []pred{nil}
		for _, sk := range sc.Series {
			name, tags := parseSeries(sk)
			cands = append(cands, pred{{"_measurement", name}})
			if v, ok := tags["host"]; ok {
				cands = append(cands, pred{{"host", v}}, pred{{"_measurement", name}, {"host", v}})
			}
		}
		sc.Pred = rapid.SampledFrom(cands).Draw(t, "pred")
		sc.MExpr = rapid.Bool().Draw(t, "mexpr")
		// non-conflicting writes
		sc.Other = mc.drawPoints(t, "o", rapid.IntRange(1, 5).Draw(t, "no"))
		outside := []int64{}
		for h := 0; h < sc.Hours; h++ {
			for _, o := range []int64{0, 1, hourNs - 2, hourNs - 1, 1000, 3000, hourNs / 2} {
				if ts := int64(h)*hourNs + o; ts < sc.Min || ts > sc.Max {
					outside = append(outside, ts)
				}
			}
		}
		inHeldHours := 0
		for i, n := 0, rapid.IntRange(2, 6).Draw(t, "nw"); i < n; i++ {
			p := mc.drawPoints(t, "w", 1)[0]
			p.T = rapid.SampledFrom(outside).Draw(t, "wt")
			if i == 0 {
				// at least one point in a shard the delete works on, outside its range
				for _, ts := range outside {
					if h := ts / hourNs; h >= sc.Min/hourNs && h <= sc.Max/hourNs {
						p.T = ts
						break
					}
				}
			}
			if h := p.T / hourNs; h >= sc.Min/hourNs && h <= sc.Max/hourNs {
				inHeldHours++
			}
			sc.Outside = append(sc.Outside, p)
		}

		// warm (non-empty cache) or cold shards
		cold := rapid.IntRange(0, 5).Draw(t, "cold") == 5
		if !cold {
			for h := 0; h < sc.Hours; h++ {
				mc.seq++
				sc.Warm = append(sc.Warm, wpoint{Series: sc.Series[0], T: int64(h) * hourNs, Fields: map[string]model.Val{"fi": {K: model.Integer, I: int64(mc.seq)}}})
			}
		}
		if cold && inHeldHours > 0 && ev.KnownOpen("C17", knownIdleKey) {
			// exactly the signature of the known finding: a write into a shard under delete whose
			// cache is empty
			rec.ExcludedKnown(knownIdleKey)
			return
		}

		var blocked []string
		var last outcome
		attempts := 0
		for attempts < 3 {
			attempts++
			out, err := runScenario(sc)
			if err != nil {
				t.Fatalf("scenario: %v", err)
			}
			last = out
			if out.finding != nil {
				rec.Fail(t, "TestPropNonConflictingWritesNotBlocked", out.finding.Key, out.finding.Detail, sc)
			}
			if out.blocked == "" {
				break
			}
			blocked = append(blocked, out.blocked)
		}
		rec.Eval()
		switch {
		case len(blocked) == 3:
			rec.Fail(t, "TestPropNonConflictingWritesNotBlocked", "non-conflicting-write-blocked", "3 of 3 runs: "+blocked[0], sc)
		case len(blocked) > 0:
			rec.Inconclusive(fmt.Sprintf("TestPropNonConflictingWritesNotBlocked: %d of %d runs timed out (%s), not reproducible", len(blocked), attempts, blocked[0]))
		}
		if cold {
			rec.Class("concurrent:cold-shards")
		} else {
			rec.Class("concurrent:warm-shards")
		}
		if last.held {
			rec.Class("concurrent:delete-held-open")
			if inHeldHours > 0 {
				rec.Class("concurrent:write-into-shard-under-delete-outside-range")
			}
			rec.Class("concurrent:write-to-other-bucket")
			rec.NonTrivial(fmt.Sprintf("concurrent|%+v", sc))
		} else {
			rec.Class("concurrent:delete-not-held(no TSM data matched)")
		}
	})
}
