// C17 — Bucket deletes remove exactly the matching data and reconcile metadata.
//
// Fixture: the full storage stack (storage.Engine, meta client on an in-memory KV store, tsdb.Store;
// shard-group duration 1 h so that the data of a bucket is spread over several shards), part of the
// data snapshotted to TSM files, part still in the cache/WAL.
//
// TestPropBucketDelete — state machine: write batches, snapshot a shard, full-compact a shard,
// Engine.DeleteBucketRangePredicate(min, max, predicate[, measurement expression as the HTTP delete
// handler derives it]) and, after every delete and at the end, a complete observation: ReadFilter of
// everything (every point of every series/field compared with the reference model) and the metadata
// queries (tsdb.Store.MeasurementNames / SeriesCardinality, the storage read service's TagKeys,
// TagValues(_measurement | host | region) over the whole time range and per shard group).
// Oracle: internal/model point store: a delete removes exactly the points of series matching the
// predicate with min <= t <= max; a series / measurement / tag key / tag value is listed iff at least
// one remaining point carries it.
//
// TestPropNonConflictingWritesNotBlocked — a generated delete is held open inside the engine (hook
// tsm1.tombstone.after-tmp-write blocks) while a writer writes to another bucket and to the same
// bucket outside the delete's time range; those writes must complete while the delete is still held.
package c17_bucketdelete

import (
	"context"
	"encoding/json"
	"fmt"
	"os"
	"path/filepath"
	"sort"
	"strings"
	"testing"
	"time"

	"github.com/influxdata/influxdb/v2"
	"github.com/influxdata/influxdb/v2/influxql/query"
	"github.com/influxdata/influxdb/v2/models"
	"github.com/influxdata/influxdb/v2/predicate"
	"github.com/influxdata/influxdb/v2/storage/reads/datatypes"
	"github.com/influxdata/influxdb/v2/tsdb/cursors"
	"github.com/influxdata/influxdb/v2/v1/services/meta"
	"github.com/influxdata/influxql"
	"pgregory.net/rapid"

	"verifharness/internal/ev"
	"verifharness/internal/fix"
	"verifharness/internal/model"
	"verifharness/internal/scratch"
)

var rec = ev.For("C17", "exploration",
	"case = history of writes / snapshots / compactions / bucket deletes over 2-4 shards; non-trivial = a delete that removes points in >=2 shards, leaves some series without any point while its measurement keeps another live series, at a moment when the touched shards hold data both in TSM files and in the cache; distinct by canonical rendering of the op list")

const hourNs = int64(time.Hour)

// ---------------------------------------------------------------------------------------------
// domain

// seriesDomain: 0-2 tag keys, measurement names with a common prefix ("m0" / "m0x"), a series
// without tags, and one series whose key extends another one by a byte that sorts below '#'
// ("m0,host=a" / "m0,host=a!", see known finding delete-series-key-prefix-order).
var seriesDomain = []string{
	"m0,host=a", "m0,host=b", "m0,host=a,region=x", "m0,host=b,region=y", "m0,region=y",
	"m0x,host=a", "m1,host=a", "m1,host=b,region=x", "m1",
	"m0,host=a!",
}

type fieldDef struct {
	Name string
	Kind model.Kind
}

var fieldDomain = []fieldDef{{"ff", model.Float}, {"fi", model.Integer}, {"fs", model.String}}

var offsets = []int64{0, 1, 1000, 2000, 3000, hourNs / 2, hourNs - 2, hourNs - 1}

func parseSeries(sk string) (string, map[string]string) {
	name, tags := models.ParseKeyBytes([]byte(sk))
	m := map[string]string{}
	for _, t := range tags {
		m[string(t.Key)] = string(t.Value)
	}
	return string(name), m
}

// ---------------------------------------------------------------------------------------------
// predicates (definite semantics only: tag = "v", _measurement = "m", AND)

type cmp struct {
	Key string `json:"key"`
	Val string `json:"val"`
}

type pred []cmp

func (p pred) String() string {
	parts := make([]string, len(p))
	for i, c := range p {
		parts[i] = fmt.Sprintf("%s=%q", c.Key, c.Val)
	}
	return strings.Join(parts, " AND ")
}

func (p pred) matches(sk string) bool {
	name, tags := parseSeries(sk)
	for _, c := range p {
		if c.Key == "_measurement" {
			if name != c.Val {
				return false
			}
			continue
		}
		if v, ok := tags[c.Key]; !ok || v != c.Val {
			return false
		}
	}
	return true
}

// build constructs the influxdb.Predicate and the measurement expression exactly as the HTTP
// delete handler does (predicate.Parse + predicate.New; influxql.ParseExpr + PartitionExpr).
func (p pred) build(withMeasurementExpr bool) (influxdb.Predicate, influxql.Expr, error) {
	if len(p) == 0 {
		return nil, nil, nil
	}
	src := p.String()
	n, err := predicate.Parse(src)
	if err != nil {
		return nil, nil, fmt.Errorf("predicate.Parse(%s): %w", src, err)
	}
	pr, err := predicate.New(n)
	if err != nil {
		return nil, nil, fmt.Errorf("predicate.New(%s): %w", src, err)
	}
	if !withMeasurementExpr {
		return pr, nil, nil
	}
	expr, err := influxql.ParseExpr(src)
	if err != nil {
		return nil, nil, fmt.Errorf("influxql.ParseExpr(%s): %w", src, err)
	}
	mexpr, _, err := influxql.PartitionExpr(influxql.CloneExpr(expr), func(e influxql.Expr) (bool, error) {
		if be, ok := e.(*influxql.BinaryExpr); ok {
			switch be.Op {
			case influxql.EQ, influxql.NEQ, influxql.EQREGEX, influxql.NEQREGEX:
				if tag, ok := be.LHS.(*influxql.VarRef); ok && tag.Val == "_measurement" {
					return true, nil
				}
			}
		}
		return false, nil
	})
	return pr, mexpr, err
}

func drawPred(t *rapid.T, label string, series []string) pred {
	// values mostly taken from the series that take part in the history (a delete that matches
	// nothing is a rare case, not the typical one)
	hosts, regions, names := []string{}, []string{}, []string{}
	seen := map[string]bool{}
	add := func(dst *[]string, kind, v string) {
		if !seen[kind+v] {
			seen[kind+v] = true
			*dst = append(*dst, v)
		}
	}
	for _, sk := range series {
		name, tags := parseSeries(sk)
		add(&names, "m", name)
		if v, ok := tags["host"]; ok {
			add(&hosts, "h", v)
		}
		if v, ok := tags["region"]; ok {
			add(&regions, "r", v)
		}
	}
	pick := func(have []string, all []string, l string) string {
		if len(have) > 0 && rapid.IntRange(0, 9).Draw(t, l+"?") > 0 {
			return rapid.SampledFrom(have).Draw(t, l)
		}
		return rapid.SampledFrom(all).Draw(t, l+"any")
	}
	host := func() cmp { return cmp{"host", pick(hosts, []string{"a", "b", "a!"}, label+"host")} }
	region := func() cmp { return cmp{"region", pick(regions, []string{"x", "y"}, label+"region")} }
	meas := func() cmp { return cmp{"_measurement", pick(names, []string{"m0", "m1", "m0x"}, label+"meas")} }
	switch k := rapid.IntRange(0, 19).Draw(t, label+"kind"); {
	case k < 2:
		return nil
	case k < 5:
		return pred{meas()}
	case k < 10:
		return pred{host()}
	case k < 12:
		return pred{region()}
	case k < 16:
		return pred{meas(), host()}
	case k < 17:
		return pred{host(), meas()}
	case k < 18:
		return pred{host(), region()}
	case k < 19:
		return pred{meas(), host(), region()}
	default:
		return pred{cmp{rapid.SampledFrom([]string{"host", "region", "_measurement", "zone"}).Draw(t, label+"nk"), "zz"}}
	}
}

// ---------------------------------------------------------------------------------------------
// ops

type wpoint struct {
	Series string               `json:"series"`
	T      int64                `json:"t"`
	Fields map[string]model.Val `json:"fields"`
}

type op struct {
	Kind   string   `json:"kind"` // write | snapshot | compact | delete | reopen
	Points []wpoint `json:"points,omitempty"`
	Hour   int      `json:"hour,omitempty"`
	Min    int64    `json:"min,omitempty"`
	Max    int64    `json:"max,omitempty"`
	Pred   pred     `json:"pred,omitempty"`
	MExpr  bool     `json:"measurement_expr,omitempty"`
}

type machine struct {
	s      *fix.Stack
	dir    string
	m      *model.Store
	hours  int
	series []string
	dirty  map[int]bool // hour -> points were written since the last snapshot
	// cached[hour]: the live points ("series\x00field\x00ts") that the shard's cache holds, i.e. written
	// since the last snapshot of that shard and not deleted since
	cached map[int]map[string]bool
	// staleOK: series that known finding delete-index-prefix-series-kept leaves in a shard's index
	// without data (only filled while that finding is listed open)
	staleOK map[string]bool
	// staleHours: for the series in staleOK, the hours (shards) whose index may keep them
	staleHours map[string]map[int]bool
	// tombHours: (series, hour) pairs for which the signature of known finding
	// series-listed-while-tsm-key-fully-tombstoned was observed right after a delete; the stale
	// index entry outlives the TSM key (a compaction drops the key, nothing revisits the index)
	tombHours map[string]map[int]bool
	tombUsed  bool // the tolerance of known finding series-listed-while-tsm-key-fully-tombstoned was used
	seq       int
	ops       []op
}

func newMachine(hours int, series []string) (*machine, error) {
	dir, err := scratch.Dir("c17-")
	if err != nil {
		return nil, err
	}
	s, err := fix.NewStack(dir, time.Hour)
	if err != nil {
		os.RemoveAll(dir)
		return nil, err
	}
	return &machine{s: s, dir: dir, m: model.NewStore(), hours: hours, series: series, dirty: map[int]bool{}, cached: map[int]map[string]bool{}, staleOK: map[string]bool{}, staleHours: map[string]map[int]bool{}, tombHours: map[string]map[int]bool{}}, nil
}

func (mc *machine) close() {
	mc.s.Close()
	os.RemoveAll(mc.dir)
}

// shardOfHour returns the shard holding hour h (0 if none was created yet).
func (mc *machine) shardOfHour(h int) uint64 {
	at := time.Unix(0, int64(h)*hourNs)
	gs, err := mc.s.Meta.ShardGroupsByTimeRange(mc.s.DB(), meta.DefaultRetentionPolicyName, at, at)
	if err != nil {
		return 0
	}
	for _, g := range gs {
		if g.Deleted() || len(g.Shards) == 0 {
			continue
		}
		if !g.StartTime.After(at) && g.EndTime.After(at) {
			return g.Shards[0].ID
		}
	}
	return 0
}

func (mc *machine) tsmFiles(h int) int {
	id := mc.shardOfHour(h)
	if id == 0 {
		return 0
	}
	m, _ := filepath.Glob(filepath.Join(mc.s.DataDir(id), "*.tsm"))
	return len(m)
}

func (mc *machine) drawPoints(t *rapid.T, label string, n int) []wpoint {
	out := make([]wpoint, 0, n)
	for i := 0; i < n; i++ {
		p := wpoint{
			Series: rapid.SampledFrom(mc.series).Draw(t, label+"s"),
			T:      int64(rapid.IntRange(0, mc.hours-1).Draw(t, label+"h"))*hourNs + rapid.SampledFrom(offsets).Draw(t, label+"o"),
			Fields: map[string]model.Val{},
		}
		nf := rapid.IntRange(1, 2).Draw(t, label+"nf")
		for j := 0; j < nf; j++ {
			fd := rapid.SampledFrom(fieldDomain).Draw(t, label+"f")
			mc.seq++
			switch fd.Kind {
			case model.Float:
				p.Fields[fd.Name] = model.Val{K: fd.Kind, F: float64(mc.seq) + 0.5}
			case model.Integer:
				p.Fields[fd.Name] = model.Val{K: fd.Kind, I: int64(mc.seq)}
			default:
				p.Fields[fd.Name] = model.Val{K: fd.Kind, S: fmt.Sprintf("v%d", mc.seq)}
			}
		}
		out = append(out, p)
	}
	return out
}

func toModelsPoints(ps []wpoint) ([]models.Point, error) {
	out := make([]models.Point, 0, len(ps))
	for _, p := range ps {
		name, tags := models.ParseKeyBytes([]byte(p.Series))
		fs := models.Fields{}
		for k, v := range p.Fields {
			fs[k] = v.Interface()
		}
		mp, err := models.NewPoint(string(name), tags, fs, time.Unix(0, p.T))
		if err != nil {
			return nil, err
		}
		out = append(out, mp)
	}
	return out, nil
}

func (mc *machine) write(ps []wpoint) error {
	mps, err := toModelsPoints(ps)
	if err != nil {
		return err
	}
	if err := mc.s.Write(mps); err != nil {
		return err
	}
	for _, p := range ps {
		fks := make([]string, 0, len(p.Fields))
		for k := range p.Fields {
			fks = append(fks, k)
		}
		sort.Strings(fks)
		for _, k := range fks {
			mc.m.Write(p.Series, k, p.T, p.Fields[k])
		}
		h := int(p.T / hourNs)
		mc.dirty[h] = true
		if mc.cached[h] == nil {
			mc.cached[h] = map[string]bool{}
		}
		for _, k := range fks {
			mc.cached[h][fmt.Sprintf("%s\x00%s\x00%d", p.Series, k, p.T)] = true
		}
	}
	mc.ops = append(mc.ops, op{Kind: "write", Points: ps})
	return nil
}

func (mc *machine) snapshot(h int) error {
	id := mc.shardOfHour(h)
	if id == 0 {
		return nil
	}
	mc.ops = append(mc.ops, op{Kind: "snapshot", Hour: h})
	mc.dirty[h] = false
	mc.cached[h] = nil
	return mc.s.SnapshotShard(id)
}

func (mc *machine) compact(h int) error {
	id := mc.shardOfHour(h)
	if id == 0 {
		return nil
	}
	mc.ops = append(mc.ops, op{Kind: "compact", Hour: h})
	_, err := mc.s.CompactShard(id, "forcefull")
	return err
}

type delStats struct {
	removed      int
	hoursHit     map[int]bool
	emptied      []string // series that lost their last point
	measKept     bool     // some emptied series' measurement still has a live series
	tsmAndCache  bool
	prefixKept   []string // series hit by the signature of known finding delete-index-prefix-series-kept
	prefixKeptAt [][2]any // (series, hour) of the same
}

// prefixPairInMatch reports the signature of known finding delete-series-key-prefix-order: some
// shard has received two series keys A and B = A + c + ... with c < '#', and the delete matches A or
// B. The TSM index orders B's keys before A's ("A!#!~#f" < "A#!~#f") while deleteSeriesRange
// assumes series-key order (A < B) in its file-overlap test (tsmMax series >= min series key: fails
// when only B is matched and A is the file's last key), in its delete walk and in its index
// reconciliation walk (both skip A once they have seen B).
func (mc *machine) prefixPairInMatch(p pred) bool {
	all := mc.m.SeriesKeys()
	for _, a := range all {
		for _, b := range all {
			if len(b) > len(a) && strings.HasPrefix(b, a) && b[len(a)] < '#' && (p.matches(a) || p.matches(b)) && mc.shareShard(a, b) {
				return true
			}
		}
	}
	return false
}

func (mc *machine) shareShard(a, b string) bool {
	hoursOf := func(sk string) map[int]bool {
		hs := map[int]bool{}
		for _, o := range mc.ops {
			if o.Kind != "write" {
				continue
			}
			for _, p := range o.Points {
				if p.Series == sk {
					hs[int(p.T/hourNs)] = true
				}
			}
		}
		return hs
	}
	ha, hb := hoursOf(a), hoursOf(b)
	for h := range ha {
		if hb[h] {
			return true
		}
	}
	return false
}

func (mc *machine) delete(min, max int64, p pred, mexpr bool) (delStats, error) {
	st := delStats{hoursHit: map[int]bool{}}
	pr, me, err := p.build(mexpr)
	if err != nil {
		return st, err
	}
	// what the touched shards hold right now
	liveBefore := map[string]bool{}
	for _, sk := range mc.m.LiveSeries() {
		liveBefore[sk] = true
	}
	for _, sk := range mc.m.SeriesKeys() {
		if !p.matches(sk) {
			continue
		}
		for _, f := range mc.m.Fields(sk) {
			for _, pt := range mc.m.Range(sk, f, min, max, true) {
				st.hoursHit[int(pt.T/hourNs)] = true
				st.removed++
			}
		}
	}
	hasTSM, hasCache := false, false
	for h := range st.hoursHit {
		if mc.tsmFiles(h) > 0 {
			hasTSM = true
		}
		if mc.dirty[h] {
			hasCache = true
		}
	}
	st.tsmAndCache = hasTSM && hasCache
	mc.ops = append(mc.ops, op{Kind: "delete", Min: min, Max: max, Pred: p, MExpr: mexpr})
	err = mc.s.Eng.DeleteBucketRangePredicate(context.Background(), mc.s.Org, mc.s.Bucket, min, max, pr, me)
	mc.s.Quiesce()
	if err != nil {
		return st, err
	}
	perHour := func(sk string) map[int]int {
		out := map[int]int{}
		for _, f := range mc.m.Fields(sk) {
			for _, pt := range mc.m.Range(sk, f, models.MinNanoTime, models.MaxNanoTime, true) {
				out[int(pt.T/hourNs)]++
			}
		}
		return out
	}
	var matched []string
	before := map[string]map[int]int{}
	for _, sk := range mc.m.SeriesKeys() {
		if p.matches(sk) {
			matched = append(matched, sk)
			before[sk] = perHour(sk)
		}
	}
	for _, sk := range matched {
		mc.m.DeleteRange(sk, min, max)
	}
	for h, set := range mc.cached {
		for k := range set {
			parts := strings.SplitN(k, "\x00", 3)
			var ts int64
			fmt.Sscan(parts[2], &ts)
			if _, ok := mc.m.Has(parts[0], parts[1], ts); !ok {
				delete(mc.cached[h], k)
			}
		}
	}
	// signature of known finding delete-index-prefix-series-kept: in one shard, a matched series A
	// loses its last point while a matched series B whose key extends A's key keeps a cached value
	for _, a := range matched {
		after := perHour(a)
		for h, n := range before[a] {
			if n == 0 || after[h] > 0 {
				continue
			}
			for _, b := range matched {
				if b == a || !strings.HasPrefix(b, a) {
					continue
				}
				for k := range mc.cached[h] {
					if strings.HasPrefix(k, b+"\x00") {
						st.prefixKept = append(st.prefixKept, fmt.Sprintf("%s (kept by cached %s in hour %d)", a, b, h))
						st.prefixKeptAt = append(st.prefixKeptAt, [2]any{a, h})
						break
					}
				}
			}
		}
	}
	sort.Strings(st.prefixKept)
	if len(st.prefixKept) > 0 && ev.KnownOpen("C17", knownKeptKey) {
		// exactly the series named by the signature may stay listed without data
		for _, e := range st.prefixKeptAt {
			sk, h := e[0].(string), e[1].(int)
			mc.staleOK[sk] = true
			if mc.staleHours[sk] == nil {
				mc.staleHours[sk] = map[int]bool{}
			}
			mc.staleHours[sk][h] = true
		}
	}
	liveAfter := map[string]bool{}
	liveMeas := map[string]bool{}
	for _, sk := range mc.m.LiveSeries() {
		liveAfter[sk] = true
		n, _ := parseSeries(sk)
		liveMeas[n] = true
	}
	for sk := range liveBefore {
		if !liveAfter[sk] {
			st.emptied = append(st.emptied, sk)
			if n, _ := parseSeries(sk); liveMeas[n] {
				st.measKept = true
			}
		}
	}
	sort.Strings(st.emptied)
	return st, nil
}

// ---------------------------------------------------------------------------------------------
// observation

type finding struct {
	Key    string
	Detail string
}

func drainStrings(it cursors.StringIterator) []string {
	var out []string
	for it.Next() {
		out = append(out, it.Value())
	}
	return out
}

func sortedKeys(m map[string]bool) []string {
	out := make([]string, 0, len(m))
	for k := range m {
		out = append(out, k)
	}
	sort.Strings(out)
	return out
}

func sameSet(a, b []string) bool {
	if len(a) != len(b) {
		return false
	}
	for i := range a {
		if a[i] != b[i] {
			return false
		}
	}
	return true
}

// expectMeta derives the live metadata from the model, optionally restricted to points inside
// [lo, hi].
func expectMeta(m *model.Store, lo, hi int64) (series, meas map[string]bool, tagVals map[string]map[string]bool) {
	series, meas, tagVals = map[string]bool{}, map[string]bool{}, map[string]map[string]bool{}
	for _, sk := range m.SeriesKeys() {
		live := false
		for _, f := range m.Fields(sk) {
			if len(m.Range(sk, f, lo, hi, true)) > 0 {
				live = true
				break
			}
		}
		if !live {
			continue
		}
		series[sk] = true
		name, tags := parseSeries(sk)
		meas[name] = true
		for k, v := range tags {
			if tagVals[k] == nil {
				tagVals[k] = map[string]bool{}
			}
			tagVals[k][v] = true
		}
	}
	return
}

func (mc *machine) tagValues(key string, start, end int64) ([]string, error) {
	src, err := mc.s.Source()
	if err != nil {
		return nil, err
	}
	it, err := mc.s.Reads.TagValues(context.Background(), &datatypes.TagValuesRequest{
		TagsSource: src, Range: &datatypes.TimestampRange{Start: start, End: end}, TagKey: key})
	if err != nil {
		return nil, err
	}
	out := drainStrings(it)
	sort.Strings(out)
	return out, nil
}

// observe compares everything observable with the model; nil = agreement.
func (mc *machine) observe() *finding { return mc.observeWith(true) }

// observeWith: tombTolerance=false ignores the listing of known finding
// series-listed-while-tsm-key-fully-tombstoned (used by its reproducer).
func (mc *machine) observeWith(tombTolerance bool) *finding {
	ctx := context.Background()
	lo, hi := models.MinNanoTime, models.MaxNanoTime
	// --- points: ReadFilter of everything
	rows, err := mc.s.ReadFilter(lo, hi, nil)
	if err != nil {
		return &finding{"read-error", err.Error()}
	}
	listed := map[string]bool{}
	seenField := map[string]bool{}
	for _, r := range rows {
		sk, f := r.Key()
		listed[sk] = true
		if seenField[sk+"#"+f] {
			return &finding{"series-returned-twice", fmt.Sprintf("ReadFilter returns %s %s twice", sk, f)}
		}
		seenField[sk+"#"+f] = true
		want := mc.m.Range(sk, f, lo, hi, true)
		if !model.EqualPoints(r.Points, want) {
			key := "points-differ"
			switch {
			case len(r.Points) > len(want):
				key = "deleted-or-foreign-point-readable"
			case len(r.Points) < len(want):
				key = "surviving-point-not-readable"
			}
			return &finding{key, fmt.Sprintf("%s %s: read [%s], model [%s]", sk, f, model.Render(r.Points), model.Render(want))}
		}
	}
	wantSeries, wantMeas, wantTags := expectMeta(mc.m, lo, hi)
	for _, sk := range sortedKeys(wantSeries) {
		for _, f := range mc.m.Fields(sk) {
			if len(mc.m.Range(sk, f, lo, hi, true)) > 0 && !seenField[sk+"#"+f] {
				return &finding{"surviving-series-not-readable", fmt.Sprintf("%s %s has %d remaining points but ReadFilter does not return the series", sk, f, len(mc.m.Range(sk, f, lo, hi, true)))}
			}
		}
	}
	// --- series listing (the index series the read service enumerates; SeriesCardinality)
	// tol: series (without remaining data) that an open known finding may leave in the index of the
	// given hours' shards
	tol := map[string]map[int]bool{}
	for sk, hs := range mc.staleHours {
		if !wantSeries[sk] {
			tol[sk] = map[int]bool{}
			for h := range hs {
				tol[sk][h] = true
			}
		}
	}
	if tombTolerance && ev.KnownOpen("C17", knownTombKey) {
		// signature of series-listed-while-tsm-key-fully-tombstoned: the series has no remaining point
		// (the read above agreed with the model), yet a TSM file of some shard still carries an index
		// key of it (every value of the key is tombstoned, the tombstones do not cover the key's whole
		// block range contiguously)
		for sk := range listed {
			if wantSeries[sk] {
				continue
			}
			for h := range mc.hoursWithTSMKey(sk) {
				if mc.tombHours[sk] == nil {
					mc.tombHours[sk] = map[int]bool{}
				}
				mc.tombHours[sk][h] = true
				mc.tombUsed = true
			}
		}
		// the same signature per shard: a series that still has points in other shards, none left
		// in hour h's shard, and a (fully tombstoned) TSM index key there keeps its measurement in
		// that shard's index; this only feeds the per-shard measurement check (staleMeasAt), the
		// bucket-wide listings below keep skipping series that have data
		for _, sk := range mc.m.SeriesKeys() {
			if !wantSeries[sk] {
				continue
			}
			for h := range mc.hoursWithTSMKey(sk) {
				left := false
				for _, f := range mc.m.Fields(sk) {
					if len(mc.m.Range(sk, f, int64(h)*hourNs, int64(h+1)*hourNs-1, true)) > 0 {
						left = true
						break
					}
				}
				if !left {
					if mc.tombHours[sk] == nil {
						mc.tombHours[sk] = map[int]bool{}
					}
					mc.tombHours[sk][h] = true
					mc.tombUsed = true
				}
			}
		}
		for sk, hs := range mc.tombHours {
			if wantSeries[sk] {
				continue
			}
			if tol[sk] == nil {
				tol[sk] = map[int]bool{}
			}
			for h := range hs {
				tol[sk][h] = true
			}
		}
	}
	tolerated := len(tol)
	for sk := range tol {
		delete(listed, sk) // may or may not be listed
	}
	if got, want := sortedKeys(listed), sortedKeys(wantSeries); !sameSet(got, want) {
		key := "series-listed-without-data"
		for _, w := range want {
			if !listed[w] {
				key = "series-with-data-not-listed"
			}
		}
		return &finding{key, fmt.Sprintf("series enumerated by the read service %v, series with remaining data %v (tolerated by open known finding: %v)", got, want, sortedKeys(mc.staleOK))}
	}
	if n, err := mc.s.Store.SeriesCardinality(ctx, mc.s.DB()); err != nil {
		return &finding{"metadata-error", "SeriesCardinality: " + err.Error()}
	} else if int(n) < len(wantSeries) || int(n) > len(wantSeries)+tolerated {
		return &finding{"series-cardinality", fmt.Sprintf("Store.SeriesCardinality = %d, series with remaining data %d %v (tolerated by open known finding: %v)", n, len(wantSeries), sortedKeys(wantSeries), sortedKeys(mc.staleOK))}
	}
	// --- measurements (a series kept in an index by the open known finding keeps its measurement
	// listed as well: such a measurement may or may not be listed)
	tolMeas := map[string]bool{}
	for sk := range tol {
		if n, _ := parseSeries(sk); !wantMeas[n] {
			tolMeas[n] = true
		}
	}
	dropTolerated := func(in []string, tol map[string]bool) []string {
		out := in[:0:0]
		for _, n := range in {
			if !tol[n] {
				out = append(out, n)
			}
		}
		return out
	}
	names, err := mc.s.Store.MeasurementNames(ctx, query.OpenAuthorizer, mc.s.DB(), nil)
	if err != nil {
		return &finding{"metadata-error", "MeasurementNames: " + err.Error()}
	}
	var got []string
	for _, n := range names {
		got = append(got, string(n))
	}
	sort.Strings(got)
	got = dropTolerated(got, tolMeas)
	if want := sortedKeys(wantMeas); !sameSet(got, want) {
		return &finding{"measurement-listing", fmt.Sprintf("Store.MeasurementNames %v, measurements with remaining data %v (tolerated by open known finding: %v)", got, want, sortedKeys(tolMeas))}
	}
	gotM, err := mc.tagValues("_measurement", lo, hi)
	if err != nil {
		return &finding{"metadata-error", "TagValues(_measurement): " + err.Error()}
	}
	gotM = dropTolerated(gotM, tolMeas)
	if want := sortedKeys(wantMeas); !sameSet(gotM, want) {
		return &finding{"measurement-listing", fmt.Sprintf("TagValues(_measurement) %v, measurements with remaining data %v (tolerated by open known finding: %v)", gotM, want, sortedKeys(tolMeas))}
	}
	// --- tag keys and values
	src, err := mc.s.Source()
	if err != nil {
		return &finding{"metadata-error", err.Error()}
	}
	kit, err := mc.s.Reads.TagKeys(ctx, &datatypes.TagKeysRequest{TagsSource: src, Range: &datatypes.TimestampRange{Start: lo, End: hi}})
	if err != nil {
		return &finding{"metadata-error", "TagKeys: " + err.Error()}
	}
	wantKeys := map[string]bool{"_measurement": true, "_field": true} // always reported by the service
	for k := range wantTags {
		wantKeys[k] = true
	}
	gotKeys := drainStrings(kit)
	sort.Strings(gotKeys)
	everKeys := map[string]bool{"_measurement": true, "_field": true}
	everVals := map[string]map[string]bool{}
	for _, sk := range mc.m.SeriesKeys() {
		_, tags := parseSeries(sk)
		for k, v := range tags {
			everKeys[k] = true
			if everVals[k] == nil {
				everVals[k] = map[string]bool{}
			}
			everVals[k][v] = true
		}
	}
	// The statement speaks about series and measurements; for tag keys / values only the
	// uncontroversial directions are asserted: everything carried by remaining data is listed and
	// nothing is listed that was never written. A key/value that outlives its last series is
	// tallied (it is the subject of C42, not of this property).
	if f := supersetCheck("tag-key", "TagKeys", gotKeys, wantKeys, everKeys); f != nil {
		return f
	}
	for _, k := range []string{"host", "region"} {
		gotV, err := mc.tagValues(k, lo, hi)
		if err != nil {
			return &finding{"metadata-error", "TagValues(" + k + "): " + err.Error()}
		}
		if f := supersetCheck("tag-value", "TagValues("+k+")", gotV, wantTags[k], everVals[k]); f != nil {
			return f
		}
	}
	// --- per shard group: the range [h*1h, (h+1)*1h-1] selects exactly one shard; whether the last
	// nanosecond belongs to the range is not asserted (lower / upper expectation)
	for h := 0; h < mc.hours; h++ {
		if mc.shardOfHour(h) == 0 {
			continue
		}
		a, b := int64(h)*hourNs, int64(h+1)*hourNs-1
		_, lowM, _ := expectMeta(mc.m, a, b-1)
		_, upM, _ := expectMeta(mc.m, a, b)
		check := func(what string, got []string, low, up map[string]bool) *finding {
			gs := map[string]bool{}
			for _, g := range got {
				gs[g] = true
				if !up[g] {
					return &finding{what + "-listing-per-shard", fmt.Sprintf("hour %d: %s %v lists %q which no remaining point of that hour carries (remaining: %v)", h, what, got, g, sortedKeys(up))}
				}
			}
			for l := range low {
				if !gs[l] {
					return &finding{what + "-listing-per-shard", fmt.Sprintf("hour %d: %s %v misses %q which remaining data of that hour carries", h, what, got, l)}
				}
			}
			return nil
		}
		// the shard's own index (the delete path itself consults Shard.MeasurementExists)
		if sh := mc.s.Store.Shard(mc.shardOfHour(h)); sh != nil {
			var gm []string
			for _, name := range []string{"m0", "m0x", "m1"} {
				ok, err := sh.MeasurementExists([]byte(name))
				if err != nil {
					return &finding{"metadata-error", err.Error()}
				}
				if ok && !upM[name] && (staleMeasAt(mc.staleHours, name, h) || staleMeasAt(mc.tombHours, name, h)) {
					continue // kept by a series the open known finding leaves in this shard's index
				}
				if ok {
					gm = append(gm, name)
				}
			}
			if f := check("measurement", gm, lowM, upM); f != nil {
				return f
			}
		}
	}
	return nil
}

// staleMeasAt reports whether a tolerated series of measurement name may sit in hour h's index.
func staleMeasAt(tol map[string]map[int]bool, name string, h int) bool {
	for sk, hs := range tol {
		if n, _ := parseSeries(sk); n == name && hs[h] {
			return true
		}
	}
	return false
}

// hoursWithTSMKey returns the hours whose shard still has a TSM index key of the series.
func (mc *machine) hoursWithTSMKey(sk string) map[int]bool {
	out := map[int]bool{}
	for h := 0; h < mc.hours; h++ {
		id := mc.shardOfHour(h)
		if id == 0 {
			continue
		}
		e, err := mc.s.ShardEngine(id)
		if err != nil {
			continue
		}
		for k := range e.FileStore.Keys() {
			if strings.HasPrefix(k, sk+"#!~#") {
				out[h] = true
				break
			}
		}
	}
	return out
}

// supersetCheck: live ⊆ got ⊆ ever; stale entries (got but not live) are tallied.
func supersetCheck(kind, what string, got []string, live, ever map[string]bool) *finding {
	gs := map[string]bool{}
	for _, g := range got {
		if gs[g] {
			return &finding{kind + "-listed-twice", fmt.Sprintf("%s %v lists %q twice", what, got, g)}
		}
		gs[g] = true
		if !ever[g] {
			return &finding{kind + "-never-written", fmt.Sprintf("%s %v lists %q which was never written", what, got, g)}
		}
		if !live[g] {
			rec.Class("observation:stale-" + kind + "-listed")
		}
	}
	for l := range live {
		if !gs[l] {
			return &finding{kind + "-missing", fmt.Sprintf("%s %v misses %q which remaining data carries", what, got, l)}
		}
	}
	return nil
}

// ---------------------------------------------------------------------------------------------
// the property

const knownPrefixKey = "delete-series-key-prefix-order"
const knownKeptKey = "delete-index-prefix-series-kept"
const knownTombKey = "series-listed-while-tsm-key-fully-tombstoned"

func drawRange(t *rapid.T, hours int) (int64, int64, string) {
	switch k := rapid.IntRange(0, 19).Draw(t, "rkind"); {
	case k < 4:
		return models.MinNanoTime, models.MaxNanoTime, "all"
	case k < 9:
		h1 := rapid.IntRange(0, hours-1).Draw(t, "rh1")
		h2 := rapid.IntRange(h1, hours-1).Draw(t, "rh2")
		return int64(h1) * hourNs, int64(h2+1)*hourNs - 1, "shard-aligned"
	case k < 15:
		h1 := rapid.IntRange(0, hours-1).Draw(t, "rh1")
		h2 := rapid.IntRange(h1, hours-1).Draw(t, "rh2")
		a := int64(h1)*hourNs + rapid.SampledFrom(offsets).Draw(t, "ro1") + int64(rapid.IntRange(-1, 1).Draw(t, "rj1"))
		b := int64(h2)*hourNs + rapid.SampledFrom(offsets).Draw(t, "ro2") + int64(rapid.IntRange(-1, 1).Draw(t, "rj2"))
		if a > b {
			a, b = b, a
		}
		return a, b, "unaligned"
	case k < 17:
		h := rapid.IntRange(0, hours-1).Draw(t, "rh")
		return models.MinNanoTime, int64(h)*hourNs + rapid.SampledFrom(offsets).Draw(t, "ro"), "open-low"
	case k < 19:
		h := rapid.IntRange(0, hours-1).Draw(t, "rh")
		return int64(h)*hourNs + rapid.SampledFrom(offsets).Draw(t, "ro"), models.MaxNanoTime, "open-high"
	default:
		h := rapid.IntRange(0, hours-1).Draw(t, "rh")
		return int64(h)*hourNs + 5, int64(h)*hourNs + 7, "no-point-inside"
	}
}

func TestPropBucketDelete(t *testing.T) {
	rec.Assume("predicates restricted to definite semantics: tag = \"non-empty value\" (false for series that lack the tag, as tsm1/predicate.go documents), _measurement = \"m\", AND; no !=, no regex, no empty values, no measurement names containing '='")
	rec.Assume("each shard is kept at <= 8 TSM files per key (unrelated finding keycursor-cyclic-block-order) and no delete runs inside a held snapshot window (finding delete-during-snapshot-window, C03)")
	rec.Assume("delete ranges satisfy models.MinNanoTime <= min <= max <= models.MaxNanoTime (the HTTP handler validates the two ends; min > max is not issued)")
	rec.CheckSteps(t, 100, 1500, 14, func(t *rapid.T) {
		hours := rapid.IntRange(2, 4).Draw(t, "hours")
		// active series: 4..8 of the domain; the '!' series takes part in about a quarter of the cases
		nser := rapid.IntRange(4, 8).Draw(t, "nser")
		perm := rapid.Permutation(seriesDomain[:9]).Draw(t, "perm")
		series := append([]string(nil), perm[:nser]...)
		if rapid.IntRange(0, 5).Draw(t, "bang") == 5 {
			series = append(series, "m0,host=a!")
			has := false
			for _, s := range series {
				has = has || s == "m0,host=a"
			}
			if !has {
				series = append(series, "m0,host=a")
			}
		}
		sort.Strings(series)
		mc, err := newMachine(hours, series)
		if err != nil {
			t.Fatalf("fixture: %v", err)
		}
		defer mc.close()
		fail := func(key, detail string) {
			if os.Getenv("C17_DEBUG") != "" {
				for i, o := range mc.ops {
					fmt.Fprintf(os.Stderr, "op %d: %s\n", i, renderOp(o))
				}
			}
			if f := os.Getenv("C17_DUMP"); f != "" {
				b, _ := json.Marshal(map[string]any{"hours": hours, "series": series, "ops": mc.ops})
				os.WriteFile(f, b, 0o644)
			}
			rec.Fail(t, "TestPropBucketDelete", key, detail, map[string]any{"hours": hours, "series": series, "ops": mc.ops})
		}
		// initial load: every series gets points in most hours, some shards are snapshotted
		var load []wpoint
		for _, sk := range series {
			for h := 0; h < hours; h++ {
				if rapid.IntRange(0, 4).Draw(t, "skiphour") == 0 {
					continue
				}
				n := rapid.IntRange(1, 3).Draw(t, "npts")
				for _, p := range mc.drawPoints(t, "l", n) {
					p.Series = sk
					p.T = int64(h)*hourNs + p.T%hourNs
					load = append(load, p)
				}
			}
		}
		if len(load) == 0 {
			load = mc.drawPoints(t, "l0", 3)
		}
		if err := mc.write(load); err != nil {
			t.Fatalf("initial write: %v", err)
		}
		for h := 0; h < hours; h++ {
			if rapid.IntRange(0, 2).Draw(t, "snap0") > 0 {
				if err := mc.snapshot(h); err != nil {
					t.Fatalf("snapshot: %v", err)
				}
			}
		}
		if err := mc.write(mc.drawPoints(t, "w0", rapid.IntRange(1, 8).Draw(t, "w0n"))); err != nil {
			t.Fatalf("write: %v", err)
		}
		deletes, nontrivial := 0, false
		actions := map[string]func(*rapid.T){
			"write": func(t *rapid.T) {
				if err := mc.write(mc.drawPoints(t, "w", rapid.IntRange(1, 8).Draw(t, "wn"))); err != nil {
					t.Fatalf("write: %v", err)
				}
			},
			"snapshot": func(t *rapid.T) {
				h := rapid.IntRange(0, hours-1).Draw(t, "sh")
				if mc.tsmFiles(h) >= 6 || !mc.dirty[h] {
					t.Skip("nothing to snapshot / file budget")
				}
				if err := mc.snapshot(h); err != nil {
					t.Fatalf("snapshot: %v", err)
				}
			},
			"compact": func(t *rapid.T) {
				h := rapid.IntRange(0, hours-1).Draw(t, "ch")
				if mc.tsmFiles(h) < 2 {
					t.Skip("fewer than 2 files")
				}
				if err := mc.compact(h); err != nil {
					t.Fatalf("compact: %v", err)
				}
			},
			"delete": func(t *rapid.T) {
				min, max, rk := drawRange(t, hours)
				p := drawPred(t, "p", series)
				mexpr := rapid.Bool().Draw(t, "mexpr")
				if mc.prefixPairInMatch(p) && ev.KnownOpen("C17", knownPrefixKey) {
					rec.ExcludedKnown(knownPrefixKey)
					t.Skip("known finding " + knownPrefixKey)
				}
				st, err := mc.delete(min, max, p, mexpr)
				if err != nil {
					fail("delete-error", fmt.Sprintf("DeleteBucketRangePredicate(%d,%d,%s): %v", min, max, p, err))
				}
				deletes++
				if len(st.prefixKept) > 0 && ev.KnownOpen("C17", knownKeptKey) {
					rec.ExcludedKnown(knownKeptKey) // mc.delete has registered the tolerated series
				}
				rec.Class("delete:range-" + rk)
				rec.Class(fmt.Sprintf("delete:pred-terms-%d", len(p)))
				if mexpr && strings.Contains(p.String(), "_measurement") {
					rec.Class("delete:with-measurement-expr")
				}
				switch {
				case st.removed == 0:
					rec.Class("delete:removes-nothing")
				case len(st.hoursHit) >= 2:
					rec.Class("delete:removes-in->=2-shards")
				default:
					rec.Class("delete:removes-in-1-shard")
				}
				if len(st.emptied) > 0 {
					rec.Class("delete:empties-a-series")
					if st.measKept {
						rec.Class("delete:empties-series-keeps-measurement")
					} else {
						rec.Class("delete:empties-a-measurement")
					}
				}
				if st.tsmAndCache {
					rec.Class("delete:tsm-and-cache")
				}
				if len(st.hoursHit) >= 2 && st.measKept && st.tsmAndCache {
					nontrivial = true
				}
				if f := mc.observe(); f != nil {
					fail(f.Key, "after delete: "+f.Detail)
				}
			},
			"": func(t *rapid.T) {},
		}
		actions["delete2"] = actions["delete"] // deletes are the subject: twice the weight
		t.Repeat(actions)
		rec.Eval()
		if f := mc.observe(); f != nil {
			fail(f.Key, "final observation: "+f.Detail)
		}
		// a restart must not change what is observable
		if rapid.IntRange(0, 3).Draw(t, "reopen") == 0 {
			mc.ops = append(mc.ops, op{Kind: "reopen"})
			if err := mc.s.Reopen(); err != nil {
				fail("reopen-error", err.Error())
			}
			rec.Class("history:reopen")
			if f := mc.observe(); f != nil {
				fail(f.Key, "after reopen: "+f.Detail)
			}
		}
		if mc.tombUsed {
			rec.ExcludedKnown(knownTombKey)
		}
		rec.Class(fmt.Sprintf("history:shards-%d", hours))
		if deletes > 0 {
			rec.Class("history:with-delete")
		}
		if nontrivial {
			rec.NonTrivial(fmt.Sprintf("%v|%+v", series, mc.ops))
		}
		if rec.WantSample() && nontrivial {
			rec.Sample(map[string]any{"hours": hours, "series": series, "ops": len(mc.ops), "last_ops": mc.ops[max(0, len(mc.ops)-3):]})
		}
	})
}

func renderOp(o op) string {
	switch o.Kind {
	case "write":
		var sb strings.Builder
		for _, p := range o.Points {
			fks := make([]string, 0, len(p.Fields))
			for k := range p.Fields {
				fks = append(fks, k)
			}
			sort.Strings(fks)
			fmt.Fprintf(&sb, " %s@h%d+%d%v", p.Series, p.T/hourNs, p.T%hourNs, fks)
		}
		return "write" + sb.String()
	case "delete":
		return fmt.Sprintf("delete [%d,%d] (h%d+%d .. h%d+%d) pred{%s} mexpr=%v", o.Min, o.Max, o.Min/hourNs, o.Min%hourNs, o.Max/hourNs, o.Max%hourNs, o.Pred, o.MExpr)
	}
	return fmt.Sprintf("%s h%d", o.Kind, o.Hour)
}

// replay executes a recorded op list; it returns the first disagreement.
func replay(hours int, series []string, ops []op, verbose bool) (*finding, error) {
	mc, err := newMachine(hours, series)
	if err != nil {
		return nil, err
	}
	defer mc.close()
	for i, o := range ops {
		switch o.Kind {
		case "write":
			err = mc.write(o.Points)
		case "snapshot":
			err = mc.snapshot(o.Hour)
		case "compact":
			err = mc.compact(o.Hour)
		case "reopen":
			err = mc.s.Reopen()
		case "delete":
			_, err = mc.delete(o.Min, o.Max, o.Pred, o.MExpr)
		}
		if err != nil {
			return nil, fmt.Errorf("op %d %s: %w", i, renderOp(o), err)
		}
		if o.Kind == "delete" || o.Kind == "reopen" || i == len(ops)-1 {
			if f := mc.observe(); f != nil {
				f.Detail = fmt.Sprintf("after op %d (%s): %s", i, renderOp(o), f.Detail)
				return f, nil
			}
		}
		if verbose {
			fmt.Fprintf(os.Stderr, "op %d ok: %s\n", i, renderOp(o))
		}
	}
	return nil, nil
}

// TestReplay re-executes a dumped history (C17_REPLAY or VERIF_REPLAY = <file written via C17_DUMP=file
// on a failing run>; `./check C17 --replay file.json` uses it).
func TestReplay(t *testing.T) {
	f := os.Getenv("C17_REPLAY")
	if f == "" {
		f = os.Getenv("VERIF_REPLAY")
	}
	if f == "" {
		t.Skip("C17_REPLAY / VERIF_REPLAY not set")
	}
	b, err := os.ReadFile(f)
	if err != nil {
		t.Fatal(err)
	}
	var c struct {
		Hours  int      `json:"hours"`
		Series []string `json:"series"`
		Ops    []op     `json:"ops"`
	}
	if err := json.Unmarshal(b, &c); err != nil {
		t.Fatal(err)
	}
	fd, err := replay(c.Hours, c.Series, c.Ops, true)
	if err != nil {
		t.Fatal(err)
	}
	if fd != nil {
		t.Fatalf("replay: %s: %s", fd.Key, fd.Detail)
	}
}
