package c17_bucketdelete

import (
	"context"
	"fmt"
	"os"
	"path/filepath"
	"sort"
	"strings"
	"sync"
	"testing"
	"time"

	"github.com/influxdata/influxdb/v2/pkg/verifhook"
	"pgregory.net/rapid"

	"verifharness/internal/model"
)

// prefix-free subset of the series domain (the known prefix-order findings are c17's main test's
// business, not this one's)
var conflictSeries = []string{"m0,host=a", "m0,host=b", "m0,region=y", "m1,host=a", "m1,host=b,region=x"}

// conflictScenario: a delete that empties a series in one shard is held right before it drops the
// series from the index; a write of that series with a time inside the delete's range is issued
// meanwhile. Whether that write waits is the store's business; what the statement fixes is the
// outcome: the delete removed exactly the matching points written before it, and the concurrent
// write is either there or not - now and after the next write to the series.
type conflictScenario struct {
	Series []string `json:"series"`
	Victim string   `json:"victim"`
	Hour   int      `json:"hour"`
	Min    int64    `json:"min"`
	Max    int64    `json:"max"`
	Pred   pred     `json:"pred"`
	WriteT int64    `json:"conflicting_write_time"`
	Warm   bool     `json:"warm"`
	Load   []wpoint `json:"load"`
}

type conflictOutcome struct {
	held, duringHold, withWrite bool
	finding                     *finding
}

func runConflict(sc conflictScenario) (conflictOutcome, error) {
	var out conflictOutcome
	mc, err := newMachine(2, sc.Series)
	if err != nil {
		return out, err
	}
	defer mc.close()
	s := mc.s
	ctx := context.Background()
	if err := mc.write(sc.Load); err != nil {
		return out, err
	}
	for h := 0; h < 2; h++ {
		if err := mc.snapshot(h); err != nil {
			return out, err
		}
	}
	if sc.Warm {
		// another series, outside the range, keeps the shard's cache non-empty
		for _, sk := range sc.Series {
			if sk != sc.Victim {
				if err := mc.write([]wpoint{{Series: sk, T: int64(sc.Hour) * hourNs, Fields: map[string]model.Val{"fi": {K: model.Integer, I: 777}}}}); err != nil {
					return out, err
				}
				break
			}
		}
	}
	pr, me, err := sc.Pred.build(false)
	if err != nil {
		return out, err
	}
	prefix := filepath.Join(s.Root, "data", s.DB()) + string(os.PathSeparator)
	held := make(chan struct{})
	release := make(chan struct{})
	var once sync.Once
	verifhook.Set(func(name, detail string) {
		if name == "tsm1.delete.before-drop-series" && strings.HasPrefix(detail, prefix) {
			first := false
			once.Do(func() { first = true; close(held) })
			if first {
				<-release
			}
		}
	})
	defer verifhook.Set(nil)
	released := false
	doRelease := func() {
		if !released {
			released = true
			close(release)
		}
	}
	defer doRelease()

	delDone := make(chan error, 1)
	go func() { delDone <- s.Eng.DeleteBucketRangePredicate(ctx, s.Org, s.Bucket, sc.Min, sc.Max, pr, me) }()
	select {
	case <-held:
		out.held = true
	case err := <-delDone:
		s.Quiesce()
		if err != nil {
			return out, fmt.Errorf("delete: %w", err)
		}
		return out, nil
	case <-time.After(20 * time.Second):
		return out, fmt.Errorf("delete neither finished nor reached the hold point within 20 s")
	}

	cw := wpoint{Series: sc.Victim, T: sc.WriteT, Fields: map[string]model.Val{"fi": {K: model.Integer, I: 424242}}}
	mps, err := toModelsPoints([]wpoint{cw})
	if err != nil {
		return out, err
	}
	wDone := make(chan error, 1)
	go func() { wDone <- s.Eng.WritePoints(ctx, s.Org, s.Bucket, mps) }()
	var werr error
	wFinished := false
	select {
	case werr = <-wDone:
		wFinished = true
		out.duringHold = true // classification only
	case <-time.After(300 * time.Millisecond):
	}
	doRelease()
	select {
	case err := <-delDone:
		if err != nil {
			return out, fmt.Errorf("delete: %w", err)
		}
	case <-time.After(30 * time.Second):
		return out, fmt.Errorf("delete did not finish within 30 s after the hold was released")
	}
	if !wFinished {
		select {
		case werr = <-wDone:
		case <-time.After(30 * time.Second):
			return out, fmt.Errorf("the conflicting write did not finish within 30 s after the delete")
		}
	}
	if werr != nil {
		return out, fmt.Errorf("conflicting write: %w", werr)
	}
	s.Quiesce()

	// expected: the delete applied to everything written before it; the concurrent write optional
	for _, sk := range mc.m.SeriesKeys() {
		if sc.Pred.matches(sk) {
			mc.m.DeleteRange(sk, sc.Min, sc.Max)
		}
	}
	rowsA, err := readBucket(s, s.Bucket)
	if err != nil {
		return out, err
	}
	if fA := compareBucket("after the delete and the concurrent write", rowsA, mc.m); fA != nil {
		mc.m.Write(cw.Series, "fi", cw.T, cw.Fields["fi"])
		if f2 := compareBucket("after the delete and the concurrent write", rowsA, mc.m); f2 != nil {
			out.finding = &finding{"state-after-conflicting-write", "neither serialization explains the state; without the write: " + fA.Detail + "; with it: " + f2.Detail}
			return out, nil
		}
		out.withWrite = true
	}
	// the next write to the series (same shard, outside the range) must not change what is there
	next := wpoint{Series: sc.Victim, T: int64(sc.Hour)*hourNs + hourNs - 5, Fields: map[string]model.Val{"fi": {K: model.Integer, I: 434343}}}
	if err := mc.write([]wpoint{next}); err != nil {
		return out, err
	}
	rowsB, err := readBucket(s, s.Bucket)
	if err != nil {
		return out, err
	}
	if fB := compareBucket("after the next write to the series", rowsB, mc.m); fB != nil {
		out.finding = &finding{"point-reappears-after-conflicting-write", fmt.Sprintf("the write of %s at %d (acknowledged during the delete of [%d,%d]) was not readable after the delete but: %s", cw.Series, cw.T, sc.Min, sc.Max, fB.Detail)}
		if out.withWrite {
			out.finding.Key = "state-after-conflicting-write"
		}
	}
	return out, nil
}

func TestPropConflictingWriteSerializes(t *testing.T) {
	rec.Assume("a write to a series under delete with a time inside the delete's range, issued while the delete is held just before it drops the emptied series from the index (hook tsm1.delete.before-drop-series), may take effect before or after the delete; either way the bucket must read as one of the two serial outcomes, and keep doing so after the next write to that series. Whether the write waits for the delete is not asserted.")
	rec.Check(t, 12, 150, func(t *rapid.T) {
		sc := conflictScenario{Hour: rapid.IntRange(0, 1).Draw(t, "hour"), Warm: rapid.IntRange(0, 3).Draw(t, "warm") != 0}
		nser := rapid.IntRange(2, 4).Draw(t, "nser")
		perm := rapid.Permutation(conflictSeries).Draw(t, "perm")
		sc.Series = append([]string(nil), perm[:nser]...)
		sort.Strings(sc.Series)
		sc.Victim = rapid.SampledFrom(sc.Series).Draw(t, "victim")
		base := int64(sc.Hour) * hourNs
		seq := 0
		// with data in one shard only the emptied series also leaves the series file; with data in
		// the other shard too it stays listed there and reads still reach this shard's cache
		victimOnlyHere := rapid.IntRange(0, 3).Draw(t, "victimOnlyHere") != 0
		for _, sk := range sc.Series {
			for h := 0; h < 2; h++ {
				if sk == sc.Victim && h != sc.Hour && victimOnlyHere {
					continue
				}
				for _, o := range []int64{1000, 2000, 3000} {
					seq++
					sc.Load = append(sc.Load, wpoint{Series: sk, T: int64(h)*hourNs + o, Fields: map[string]model.Val{"fi": {K: model.Integer, I: int64(seq)}}})
				}
			}
		}
		sc.Min, sc.Max = base+1, base+hourNs/2
		name, tags := parseSeries(sc.Victim)
		cands := []pred{nil, {{"_measurement", name}}}
		if v, ok := tags["host"]; ok {
			cands = append(cands, pred{{"host", v}}, pred{{"_measurement", name}, {"host", v}})
		}
		sc.Pred = rapid.SampledFrom(cands).Draw(t, "pred")
		sc.WriteT = rapid.SampledFrom([]int64{sc.Max, sc.Max, sc.Min, sc.Min + 1, sc.Max - 1, base + 2000}).Draw(t, "wt")

		out, err := runConflict(sc)
		if err != nil {
			t.Fatalf("scenario: %v", err)
		}
		rec.Eval()
		if out.finding != nil {
			rec.Fail(t, "TestPropConflictingWriteSerializes", out.finding.Key, out.finding.Detail, sc)
		}
		if !out.held {
			rec.Class("conflict:delete-not-held")
			return
		}
		rec.Class("conflict:delete-held-before-index-drop")
		if out.duringHold {
			rec.Class("conflict:write-completed-while-delete-held")
		} else {
			rec.Class("conflict:write-waited-for-delete")
		}
		if out.withWrite {
			rec.Class("conflict:outcome=delete-then-write")
		} else {
			rec.Class("conflict:outcome=write-then-delete")
		}
		if sc.WriteT == sc.Max || sc.WriteT == sc.Min {
			rec.Class("conflict:write-at-range-bound")
		}
		if victimOnlyHere {
			rec.Class("conflict:series-exists-in-held-shard-only")
		}
		rec.NonTrivial(fmt.Sprintf("conflict|%+v", sc))
	})
}
