package c34_toml

import (
	"errors"
	"fmt"
	"math"
	"math/big"
	"regexp"
	"strings"
	"testing"
	"time"

	itoml "github.com/influxdata/influxdb/v2/toml"
	"pgregory.net/rapid"

	"verifharness/internal/ev"
)

// ---- value generators ---------------------------------------------------------------------

var u64Pool = []uint64{0, 1, 9, 10, 1023, 1024, 1025, 1<<20 - 1, 1 << 20, 1<<20 + 1, 1<<30 - 1, 1 << 30, 1<<30 + 1,
	25_000_000, 1 << 40, 1<<53 - 1, 1 << 53, 1<<53 + 1, 1<<53 + 2, 1<<63 - 1025, 1<<63 - 1024, 1<<63 - 1, 1 << 63, 1<<63 + 1,
	1<<64 - 2049, 1<<64 - 2048, 1<<64 - 1025, 1<<64 - 1024, math.MaxUint64 - 1, math.MaxUint64}

// genU64 covers every magnitude (uniform over bit widths), the boundary pool, whole multiples of
// the binary units and their +-1 neighbours.
func genU64(t *rapid.T, label string) uint64 {
	switch rapid.IntRange(0, 9).Draw(t, label+"_mode") {
	case 0, 1:
		return rapid.SampledFrom(u64Pool).Draw(t, label+"_pool")
	case 2, 3, 4:
		w := rapid.IntRange(0, 64).Draw(t, label+"_w")
		if w == 0 {
			return 0
		}
		v := rapid.Uint64().Draw(t, label+"_bits")
		v |= 1 << 63
		return v >> (64 - uint(w))
	case 5, 6, 7:
		// q * unit (+-1): exercises the marshaller's suffix choice
		sh := uint(rapid.SampledFrom([]int{10, 20, 30}).Draw(t, label+"_unit"))
		w := rapid.IntRange(1, 64-int(sh)).Draw(t, label+"_qw")
		q := (rapid.Uint64().Draw(t, label+"_q") | 1<<63) >> (64 - uint(w))
		v := q << sh
		switch rapid.IntRange(0, 3).Draw(t, label+"_d") {
		case 0:
			v--
		case 1:
			v++
		}
		return v
	default:
		return rapid.Uint64().Draw(t, label+"_any")
	}
}

func genI64(t *rapid.T, label string) int64 {
	if rapid.IntRange(0, 11).Draw(t, label+"_ext") == 0 {
		return rapid.SampledFrom([]int64{math.MinInt64, math.MinInt64 + 1, math.MinInt64 + 1024, math.MaxInt64, -1, -1024, -(1<<53 + 1), -(1 << 30), -(1 << 53)}).Draw(t, label+"_e")
	}
	u := genU64(t, label)
	neg := rapid.Bool().Draw(t, label+"_neg")
	if u > 1<<63 {
		u >>= 1
	}
	if u == 1<<63 {
		return math.MinInt64
	}
	if neg {
		return -int64(u)
	}
	return int64(u)
}

func nearUnit(a *big.Int) bool {
	a = new(big.Int).Abs(a)
	for _, sh := range []uint{10, 20, 30} {
		unit := new(big.Int).Lsh(bigOne, sh)
		if a.Cmp(new(big.Int).Sub(unit, bigOne)) < 0 {
			continue
		}
		r := new(big.Int).Mod(a, unit)
		if r.Sign() == 0 || r.Cmp(bigOne) == 0 || r.Cmp(new(big.Int).Sub(unit, bigOne)) == 0 {
			return true
		}
	}
	return false
}

var v1TextRe = regexp.MustCompile(`\A(-?)([0-9]+)([kmg]?)\z`)

// ref1x parses the 1.x on-disk form (digits + optional k/m/g, binary) with big integers.
func ref1x(s string) (*big.Int, bool) {
	m := v1TextRe.FindStringSubmatch(s)
	if m == nil {
		return nil, false
	}
	n, _ := new(big.Int).SetString(m[2], 10)
	switch m[3] {
	case "k":
		n.Lsh(n, 10)
	case "m":
		n.Lsh(n, 20)
	case "g":
		n.Lsh(n, 30)
	}
	if m[1] == "-" {
		n.Neg(n)
	}
	return n, true
}

// v2Known classifies a failed V2 round trip as exactly one of the two listed findings.
func v2Known(k kind, v *big.Int) string {
	if k == kSizeV2 && v.Cmp(maxInt64) > 0 {
		return keyV2Range
	}
	if !floatExact(v) {
		return keyV2Inexact
	}
	return ""
}

// ---- (a) round trips of sizes ----------------------------------------------------------------

// TestPropSizeRoundTrip: generated value of each size type (and of the branch aliases
// toml.Size/toml.SSize) -> the form the configuration layer writes (MarshalText / String for the
// V1 types, a BurntSushi TOML document for all) -> parsed back == identical value. The V1 text
// must additionally be in the 1.x on-disk grammar and mean the value under an independent
// big-integer reading. The typed helpers succeed exactly when the value fits.
func TestPropSizeRoundTrip(t *testing.T) {
	aliasU, aliasS := aliasKinds()
	rec.Check(t, 450000, 15000000, func(t *rapid.T) {
		sel := rapid.IntRange(0, 5).Draw(t, "type")
		var k kind
		alias := false
		switch sel {
		case 4:
			k, alias = aliasU, true
		case 5:
			k, alias = aliasS, true
		default:
			k = kinds[sel]
		}
		var v *big.Int
		if k.signed() {
			v = bi(genI64(t, "v"))
		} else {
			v = bu(genU64(t, "v"))
		}
		rec.Eval()
		name := k.String()
		if alias {
			name = "alias:" + name
		}
		big53 := new(big.Int).Abs(v).Cmp(two53) >= 0
		nu := nearUnit(v)
		switch {
		case big53:
			rec.Class("rt:" + name + ":>=2^53")
		case nu:
			rec.Class("rt:" + name + ":unit-boundary+-1")
		default:
			rec.Class("rt:" + name + ":plain")
		}
		if big53 || nu {
			rec.NonTrivial(name + "|" + v.String())
		}
		fail := func(key, detail string) {
			rec.Fail(t, "TestPropSizeRoundTrip", key, detail, map[string]any{"type": name, "value": v.String()})
		}

		// V1: MarshalText / String -> UnmarshalText / Set
		if k.v1() {
			text, str, err := marshalText(k, v)
			if err != nil {
				fail("marshal-error", fmt.Sprintf("%s(%v).MarshalText: %v", name, v, err))
			}
			if str != text {
				fail("string-differs-from-marshaltext", fmt.Sprintf("%s(%v): String()=%q MarshalText=%q (documented to be the same compact form)", name, v, str, text))
			}
			ref, ok := ref1x(text)
			if !ok || ref.Cmp(v) != 0 {
				fail("marshal-wrong-text", fmt.Sprintf("%s(%v).MarshalText = %q which a 1.x reader understands as %v", name, v, text, ref))
			}
			if !k.signed() && strings.HasPrefix(text, "-") {
				fail("marshal-wrong-text", fmt.Sprintf("%s(%v).MarshalText = %q", name, v, text))
			}
			got, err := parseReal(k, text)
			if err != nil || got.Cmp(v) != 0 {
				fail("text-roundtrip", fmt.Sprintf("%s(%v) -> %q -> %v (err %v)", name, v, text, got, err))
			}
			got, err = setReal(k, str)
			if err != nil || got.Cmp(v) != 0 {
				fail("string-set-roundtrip", fmt.Sprintf("%s(%v) -> String %q -> Set -> %v (err %v)", name, v, str, got, err))
			}
		}

		// typed helpers: succeed iff the value fits, never wrap
		checkHelpers(t, k, v, fail)

		// all: through a TOML document
		var got *big.Int
		var written string
		var encErr, decErr error
		if alias {
			got, written, encErr, decErr = tomlRTAlias(k.signed(), v)
		} else {
			got, written, encErr, decErr = tomlRT(k, v)
		}
		if encErr != nil {
			fail("toml-encode-error", fmt.Sprintf("%s(%v): %v", name, v, encErr))
		}
		if decErr != nil || got.Cmp(v) != 0 {
			if !k.v1() {
				if key := v2Known(k, v); key != "" && ev.KnownOpen("C34", key) {
					rec.ExcludedKnown(key)
					return
				}
			}
			fail("toml-roundtrip", fmt.Sprintf("%s(%v) written as %q reads back as %v (err %v)", name, v, written, got, decErr))
		}
		if rec.WantSample() && big53 {
			rec.Sample(map[string]any{"type": name, "value": v.String(), "written": written})
		}
	})
}

func checkHelpers(t *rapid.T, k kind, v *big.Int, fail func(key, detail string)) {
	type res struct {
		name string
		got  *big.Int
		err  error
		lo   *big.Int
		hi   *big.Int
	}
	var rs []res
	maxInt := bi(math.MaxInt)
	minInt := bi(math.MinInt)
	switch k {
	case kSizeV1:
		x := itoml.SizeV1(v.Uint64())
		a, e1 := x.ToInt()
		b, e2 := x.ToInt64()
		rs = append(rs, res{"ToInt", bi(int64(a)), e1, bigZero, maxInt}, res{"ToInt64", bi(b), e2, bigZero, maxInt64})
	case kSizeV2:
		x := itoml.SizeV2(v.Uint64())
		a, e1 := x.ToInt()
		b, e2 := x.ToInt64()
		rs = append(rs, res{"ToInt", bi(int64(a)), e1, bigZero, maxInt}, res{"ToInt64", bi(b), e2, bigZero, maxInt64})
	case kSSizeV1:
		x := itoml.SSizeV1(v.Int64())
		a, e1 := x.ToInt()
		b, e2 := x.ToUint64()
		rs = append(rs, res{"ToInt", bi(int64(a)), e1, minInt, maxInt}, res{"ToUint64", bu(b), e2, bigZero, maxInt64})
	case kSSizeV2:
		x := itoml.SSizeV2(v.Int64())
		a, e1 := x.ToInt()
		b, e2 := x.ToUint64()
		rs = append(rs, res{"ToInt", bi(int64(a)), e1, minInt, maxInt}, res{"ToUint64", bu(b), e2, bigZero, maxInt64})
	}
	for _, r := range rs {
		fits := v.Cmp(r.lo) >= 0 && v.Cmp(r.hi) <= 0
		switch {
		case fits && (r.err != nil || r.got.Cmp(v) != 0):
			fail("helper-wrong", fmt.Sprintf("%v(%v).%s = %v, %v", k, v, r.name, r.got, r.err))
		case !fits && r.err == nil:
			fail("helper-wrapped", fmt.Sprintf("%v(%v).%s = %v without error although the value does not fit", k, v, r.name, r.got))
		case !fits && !errors.Is(r.err, itoml.ErrSizeOutOfRange):
			fail("helper-wrong-error", fmt.Sprintf("%v(%v).%s error %v does not wrap ErrSizeOutOfRange", k, v, r.name, r.err))
		}
	}
}

// ---- (a) durations -----------------------------------------------------------------------------

var durPool = []int64{0, 1, -1, 999, 1000, 1001, 999_999, 1_000_000, 1_000_001, 999_999_999, 1_000_000_000, 1_000_000_001,
	60_000_000_000, 3_600_000_000_000, 3_600_000_000_001, 1 << 53, 1<<53 + 1, math.MaxInt64, math.MaxInt64 - 1, math.MinInt64, math.MinInt64 + 1}

// TestPropDurationRoundTrip: every int64 duration -> MarshalText / String / TOML document ->
// UnmarshalText / Set / TOML decode == identical duration; empty input leaves the value alone
// (documented), Set("") is an error (documented).
func TestPropDurationRoundTrip(t *testing.T) {
	rec.Check(t, 150000, 5000000, func(t *rapid.T) {
		var d int64
		switch rapid.IntRange(0, 5).Draw(t, "mode") {
		case 0:
			d = rapid.SampledFrom(durPool).Draw(t, "pool")
		case 1:
			// whole units +- a few ns
			unit := rapid.SampledFrom([]int64{1e3, 1e6, 1e9, 60e9, 3600e9}).Draw(t, "unit")
			d = unit*rapid.Int64Range(-2000, 2000).Draw(t, "q") + rapid.Int64Range(-2, 2).Draw(t, "delta")
		default:
			d = genI64(t, "d")
		}
		rec.Eval()
		a := new(big.Int).Abs(bi(d))
		sub := d%1_000_000_000 != 0
		switch {
		case a.Cmp(two53) >= 0:
			rec.Class("dur:>=2^53")
		case sub:
			rec.Class("dur:sub-second")
		default:
			rec.Class("dur:whole-seconds")
		}
		if sub || a.Cmp(two53) >= 0 {
			rec.NonTrivial(fmt.Sprintf("dur|%d", d))
		}
		fail := func(key, detail string) {
			rec.Fail(t, "TestPropDurationRoundTrip", key, detail, map[string]any{"duration_ns": d})
		}
		x := itoml.Duration(d)
		text, err := x.MarshalText()
		if err != nil {
			fail("duration-marshal-error", fmt.Sprintf("Duration(%d).MarshalText: %v", d, err))
		}
		// independent reading of the written text
		if ref, perr := time.ParseDuration(string(text)); perr != nil || int64(ref) != d {
			fail("duration-marshal-wrong-text", fmt.Sprintf("Duration(%d).MarshalText = %q which means %d (err %v)", d, text, int64(ref), perr))
		}
		var y itoml.Duration
		if err := y.UnmarshalText(text); err != nil || int64(y) != d {
			fail("duration-text-roundtrip", fmt.Sprintf("Duration(%d) -> %q -> %d (err %v)", d, text, int64(y), err))
		}
		var z itoml.Duration
		if err := z.Set(x.String()); err != nil || int64(z) != d {
			fail("duration-string-set-roundtrip", fmt.Sprintf("Duration(%d) -> String %q -> Set -> %d (err %v)", d, x.String(), int64(z), err))
		}
		got, written, encErr, decErr := tomlRoundTrip(x)
		if encErr != nil || decErr != nil || int64(got) != d {
			fail("duration-toml-roundtrip", fmt.Sprintf("Duration(%d) written as %q reads back as %d (enc %v, dec %v)", d, written, int64(got), encErr, decErr))
		}
		// documented: empty text is "no value set"
		w := x
		if err := w.UnmarshalText(nil); err != nil || w != x {
			fail("duration-empty-not-ignored", fmt.Sprintf("Duration(%d).UnmarshalText(\"\") -> %d, %v", d, int64(w), err))
		}
		if err := w.Set(""); err == nil {
			fail("duration-set-empty-accepted", "Duration.Set(\"\") returned nil; documented to be rejected")
		}
		if rec.WantSample() && sub {
			rec.Sample(map[string]any{"type": "Duration", "ns": d, "written": written})
		}
	})
}

// ---- (b)+(c) suffix semantics and overflow ---------------------------------------------------

type unitChoice struct {
	low   string
	class string
}

var unitChoices = []unitChoice{
	{"", "none"}, {"b", "none"},
	{"k", "bare"}, {"m", "bare"}, {"g", "bare"},
	{"kb", "si"}, {"mb", "si"}, {"gb", "si"}, {"tb", "si"}, {"pb", "si"}, {"eb", "si"},
	{"kib", "iec"}, {"mib", "iec"}, {"gib", "iec"}, {"tib", "iec"}, {"pib", "iec"}, {"eib", "iec"},
}

// genSizeString builds a string of the documented grammar. The integer part is chosen relative
// to the unit so that the product lands near the interesting magnitudes (2^53, 2^63, 2^64) under
// binary or decimal reading about half of the time.
func genSizeString(t *rapid.T) string {
	uc := unitChoices[rapid.IntRange(0, len(unitChoices)-1).Draw(t, "unit")]
	// bare suffixes are the heart of the V1/V2 distinction: weight them up
	if rapid.IntRange(0, 3).Draw(t, "bareBias") == 0 {
		uc = unitChoices[rapid.IntRange(2, 4).Draw(t, "bareUnit")]
	}
	unit := uc.low
	switch rapid.IntRange(0, 3).Draw(t, "case") {
	case 0:
		unit = strings.ToUpper(unit)
	case 1:
		if c, ok := canonicalUnit[unit]; ok {
			unit = c
		}
	}
	var n *big.Int
	switch rapid.IntRange(0, 9).Draw(t, "nmode") {
	case 0, 1, 2, 3:
		// near limit/mult for limit in {2^53, 2^63, 2^64} and mult read as binary or decimal
		limit := rapid.SampledFrom([]*big.Int{two53, two63, two64}).Draw(t, "limit")
		v1reading := rapid.Bool().Draw(t, "reading")
		mult, _ := unitMult(uc.low, v1reading)
		n = new(big.Int).Quo(limit, mult)
		n.Add(n, big.NewInt(rapid.Int64Range(-3, 3).Draw(t, "delta")))
		if n.Sign() < 0 {
			n.SetInt64(0)
		}
	case 4, 5:
		n = bu(genU64(t, "n"))
	case 6:
		// beyond 64 bits
		n = new(big.Int).Lsh(bu(genU64(t, "nhi")|1), uint(rapid.IntRange(1, 40).Draw(t, "sh")))
	default:
		n = big.NewInt(rapid.Int64Range(0, 5000).Draw(t, "small"))
	}
	digits := n.String()
	if rapid.IntRange(0, 19).Draw(t, "lz") == 0 {
		digits = "0" + digits
	}
	frac := ""
	if rapid.IntRange(0, 6).Draw(t, "hasFrac") == 0 {
		frac = "." + rapid.StringMatching(`[0-9]{1,3}`).Draw(t, "frac")
	}
	sign := ""
	switch rapid.IntRange(0, 9).Draw(t, "sign") {
	case 0, 1, 2:
		sign = "-"
	case 3:
		sign = "+"
	}
	ws1 := rapid.SampledFrom([]string{"", "", "", " ", " ", "  ", "\t"}).Draw(t, "ws1")
	ws2 := ""
	if unit != "" && rapid.IntRange(0, 7).Draw(t, "ws2") == 0 {
		ws2 = rapid.SampledFrom([]string{" ", "\t", "  "}).Draw(t, "ws2v")
	}
	lead := ""
	if rapid.IntRange(0, 11).Draw(t, "lead") == 0 {
		lead = " "
	}
	return lead + sign + digits + frac + ws1 + unit + ws2
}

// TestPropSizeStrings: generated grammar string x all four types -> checkSizeString (big.Rat
// reference of the documented unit meanings; overflow must be rejected; plainly documented
// spellings whose value fits must be accepted).
func TestPropSizeStrings(t *testing.T) {
	rec.Check(t, 500000, 20000000, func(t *rapid.T) {
		s := genSizeString(t)
		viaSet := rapid.IntRange(0, 4).Draw(t, "viaSet") == 0
		f, ok := parseForm(s)
		if !ok {
			t.Fatalf("harness bug: generated string %q is outside the reference grammar", s)
		}
		rec.Eval()
		uclass := "none"
		for _, uc := range unitChoices {
			if uc.low == f.unitLow {
				uclass = uc.class
			}
		}
		rec.Class("str:unit-" + uclass)
		if f.hasDot {
			rec.Class("str:fraction")
		}
		if f.unitLow != "" {
			rec.NonTrivial(s)
		}
		for _, k := range kinds {
			v, _, _, accepted, got := checkSizeString(k, s, viaSet)
			ex := f.exact(k.v1())
			tr := truncRat(ex)
			switch {
			case !k.fits(tr):
				rec.Class("str:" + k.String() + ":overflowing")
			case new(big.Int).Abs(tr).Cmp(two53) >= 0:
				rec.Class("str:" + k.String() + ":fits>=2^53")
			default:
				rec.Class("str:" + k.String() + ":fits<2^53")
			}
			if accepted {
				rec.Class("str:" + k.String() + ":accepted")
			}
			if v.known != "" {
				rec.Class(fmt.Sprintf("str:%v:overflow-accepted-at-bound(sign%+d)", k, tr.Sign()))
				if ev.KnownOpen("C34", v.known) {
					rec.ExcludedKnown(v.known)
					continue
				}
				v.key = v.known
				v.detail = fmt.Sprintf("%v.UnmarshalText(%q) = %v although the exact value %s overflows the type (float64 rounding at the bound)", k, s, got, ex.FloatString(1))
			}
			if v.key != "" {
				rec.Fail(t, "TestPropSizeStrings", v.key, v.detail, map[string]any{"type": k.String(), "input": s, "viaSet": viaSet})
			}
		}
		if rec.WantSample() && f.unitLow != "" {
			rec.Sample(map[string]any{"input": s})
		}
	})
}

// ---- known findings ----------------------------------------------------------------------------

// TestKnown_sizev2_roundtrip_inexact_above_2p53: SizeV2/SSizeV2 (the active toml.Size/SSize) are
// written as raw TOML integers and read back through humanize.ParseBytes (float64): 2^53+1 comes
// back as 2^53, MaxInt64 as 2^63 (SizeV2) or as an error (SSizeV2).
func TestKnown_sizev2_roundtrip_inexact_above_2p53(t *testing.T) {
	v := new(big.Int).Add(two53, bigOne)
	gu, wu, _, eu := tomlRT(kSizeV2, v)
	gs, ws, _, es := tomlRT(kSSizeV2, v)
	gm, _, _, em := tomlRT(kSizeV2, maxInt64)
	_, _, _, esm := tomlRT(kSSizeV2, maxInt64)
	reproduced := (eu != nil || gu.Cmp(v) != 0) || (es != nil || gs.Cmp(v) != 0) || (em != nil || gm.Cmp(maxInt64) != 0) || esm != nil
	rec.Known(t, "TestKnown_sizev2_roundtrip_inexact_above_2p53", keyV2Inexact, reproduced,
		fmt.Sprintf("SizeV2(2^53+1) written as %q reads back as %v (err %v); SSizeV2(2^53+1) written as %q reads back as %v (err %v); SizeV2(MaxInt64) reads back as %v (err %v); SSizeV2(MaxInt64) read-back error: %v",
			strings.TrimSpace(wu), gu, eu, strings.TrimSpace(ws), gs, es, gm, em, esm),
		map[string]any{"value": v.String()})
}

// TestKnown_sizev2_roundtrip_above_maxint64_rejected: the TOML encoder writes SizeV2 values above
// MaxInt64 as integers that the decoder refuses (TOML integers are int64).
func TestKnown_sizev2_roundtrip_above_maxint64_rejected(t *testing.T) {
	g, w, encErr, decErr := tomlRT(kSizeV2, two63)
	reproduced := encErr == nil && (decErr != nil || g.Cmp(two63) != 0)
	rec.Known(t, "TestKnown_sizev2_roundtrip_above_maxint64_rejected", keyV2Range, reproduced,
		fmt.Sprintf("SizeV2(2^63) is written as %q and reads back as %v (err %v)", strings.TrimSpace(w), g, decErr),
		map[string]any{"value": two63.String()})
}

// TestKnown_size_float_rounding_accepts_overflow_at_boundary: "-9223372036854775809" (= MinInt64-1)
// is accepted by SSizeV2 as MinInt64; SSizeV1 does the same on its humanize route ("… b").
func TestKnown_size_float_rounding_accepts_overflow_at_boundary(t *testing.T) {
	g2, e2 := parseReal(kSSizeV2, "-9223372036854775809")
	g1, e1 := parseReal(kSSizeV1, "-9223372036854775809 b")
	reproduced := e2 == nil || e1 == nil
	rec.Known(t, "TestKnown_size_float_rounding_accepts_overflow_at_boundary", keyBoundary, reproduced,
		fmt.Sprintf("SSizeV2.UnmarshalText(\"-9223372036854775809\") = %v (err %v); SSizeV1.UnmarshalText(\"-9223372036854775809 b\") = %v (err %v): MinInt64-1 overflows int64 but is accepted as MinInt64", g2, e2, g1, e1),
		map[string]any{"input": "-9223372036854775809"})
}
