// C34 — Configuration sizes and durations round-trip exactly.
//
// This file holds the harness-side reference: adaptors that run the real toml.* types and return
// math/big values, an independent strict parser for the documented size grammar, the exact
// (big.Rat) meaning of a size string, and the string oracle shared by the rapid properties and
// the native fuzz target.
package c34_toml

import (
	"bytes"
	"fmt"
	"math/big"
	"strings"

	bt "github.com/BurntSushi/toml"
	itoml "github.com/influxdata/influxdb/v2/toml"

	"verifharness/internal/ev"
)

var rec = ev.For("C34", "exploration",
	"case = (size type, value) for round trips, (type-independent size string) for suffix/overflow checks, (duration) for duration round trips; "+
		"non-trivial = value magnitude >= 2^53, or within +-1 of a 2^10/2^20/2^30 unit boundary, or a string carrying a unit suffix (durations: sub-second part or magnitude >= 2^53); "+
		"distinct by (type, value) resp. the literal string")

func init() {
	rec.Assume("the harness's big.Rat reading of the grammar [ws][+-]digits[.digits][ws]unit[ws] (unit: none, b, bare k/m/g, kb..eb = 10^3k, kib..eib = 2^10k; V1 bare k/m/g binary, V2 decimal) is the documented meaning")
	rec.Assume("on the humanize (float64) route exactness is demanded only for integer values representable in float64; otherwise 2^-51 relative (+1 for truncated fractions); the 1.x route digits[ws][kKmMgG] is demanded bit-exact")
	rec.Assume("'written out by the configuration layer' = MarshalText/String for SizeV1/SSizeV1/Duration and a BurntSushi/toml document for every type (SizeV2/SSizeV2 have no TextMarshaler by design)")
	rec.Assume("acceptance is demanded only for plain spellings (no leading/trailing blanks, at most one blank before the unit, lower/upper/canonical unit case, '-' only for signed types); other spellings are checked only if accepted")
}

// ---- the four size types behind one adaptor ------------------------------------------------

type kind int

const (
	kSizeV1 kind = iota
	kSSizeV1
	kSizeV2
	kSSizeV2
)

var kinds = []kind{kSizeV1, kSSizeV1, kSizeV2, kSSizeV2}

func (k kind) String() string {
	return [...]string{"SizeV1", "SSizeV1", "SizeV2", "SSizeV2"}[k]
}
func (k kind) signed() bool { return k == kSSizeV1 || k == kSSizeV2 }
func (k kind) v1() bool     { return k == kSizeV1 || k == kSSizeV1 }

var (
	bigZero   = big.NewInt(0)
	bigOne    = big.NewInt(1)
	two53     = new(big.Int).Lsh(bigOne, 53)
	two63     = new(big.Int).Lsh(bigOne, 63)
	two64     = new(big.Int).Lsh(bigOne, 64)
	maxInt64  = new(big.Int).Sub(two63, bigOne)
	minInt64  = new(big.Int).Neg(two63)
	maxUint64 = new(big.Int).Sub(two64, bigOne)
)

func (k kind) lo() *big.Int {
	if k.signed() {
		return minInt64
	}
	return bigZero
}
func (k kind) hi() *big.Int {
	if k.signed() {
		return maxInt64
	}
	return maxUint64
}
func (k kind) fits(v *big.Int) bool { return v.Cmp(k.lo()) >= 0 && v.Cmp(k.hi()) <= 0 }

func bu(v uint64) *big.Int { return new(big.Int).SetUint64(v) }
func bi(v int64) *big.Int  { return big.NewInt(v) }

// parseReal runs the real UnmarshalText of the type on s.
func parseReal(k kind, s string) (*big.Int, error) {
	switch k {
	case kSizeV1:
		var x itoml.SizeV1
		err := x.UnmarshalText([]byte(s))
		return bu(uint64(x)), err
	case kSSizeV1:
		var x itoml.SSizeV1
		err := x.UnmarshalText([]byte(s))
		return bi(int64(x)), err
	case kSizeV2:
		var x itoml.SizeV2
		err := x.UnmarshalText([]byte(s))
		return bu(uint64(x)), err
	default:
		var x itoml.SSizeV2
		err := x.UnmarshalText([]byte(s))
		return bi(int64(x)), err
	}
}

// setReal is parseReal through the pflag.Value entry point.
func setReal(k kind, s string) (*big.Int, error) {
	switch k {
	case kSizeV1:
		var x itoml.SizeV1
		err := x.Set(s)
		return bu(uint64(x)), err
	case kSSizeV1:
		var x itoml.SSizeV1
		err := x.Set(s)
		return bi(int64(x)), err
	case kSizeV2:
		var x itoml.SizeV2
		err := x.Set(s)
		return bu(uint64(x)), err
	default:
		var x itoml.SSizeV2
		err := x.Set(s)
		return bi(int64(x)), err
	}
}

// doc is the one-key TOML document used for the "written out by the configuration layer" route:
// BurntSushi/toml encodes a TextMarshaler as a string and anything else by its underlying kind.
type doc[T any] struct {
	V T `toml:"v"`
}

func tomlRoundTrip[T any](v T) (got T, written string, encErr, decErr error) {
	var buf bytes.Buffer
	encErr = bt.NewEncoder(&buf).Encode(doc[T]{V: v})
	written = buf.String()
	if encErr != nil {
		return
	}
	var d doc[T]
	_, decErr = bt.Decode(written, &d)
	return d.V, written, nil, decErr
}

// tomlRT: value -> TOML document -> value for one kind.
func tomlRT(k kind, v *big.Int) (got *big.Int, written string, encErr, decErr error) {
	switch k {
	case kSizeV1:
		g, w, e1, e2 := tomlRoundTrip(itoml.SizeV1(v.Uint64()))
		return bu(uint64(g)), w, e1, e2
	case kSSizeV1:
		g, w, e1, e2 := tomlRoundTrip(itoml.SSizeV1(v.Int64()))
		return bi(int64(g)), w, e1, e2
	case kSizeV2:
		g, w, e1, e2 := tomlRoundTrip(itoml.SizeV2(v.Uint64()))
		return bu(uint64(g)), w, e1, e2
	default:
		g, w, e1, e2 := tomlRoundTrip(itoml.SSizeV2(v.Int64()))
		return bi(int64(g)), w, e1, e2
	}
}

// aliasKinds reports which implementation the branch-specific aliases toml.Size / toml.SSize
// currently select (the oracle is the same; only the known-finding signature depends on it).
func aliasKinds() (kind, kind) {
	ku, ks := kSizeV1, kSSizeV1
	if _, ok := any(itoml.Size(0)).(itoml.SizeV2); ok {
		ku = kSizeV2
	}
	if _, ok := any(itoml.SSize(0)).(itoml.SSizeV2); ok {
		ks = kSSizeV2
	}
	return ku, ks
}

func tomlRTAlias(signed bool, v *big.Int) (got *big.Int, written string, encErr, decErr error) {
	if signed {
		g, w, e1, e2 := tomlRoundTrip(itoml.SSize(v.Int64()))
		return bi(int64(g)), w, e1, e2
	}
	g, w, e1, e2 := tomlRoundTrip(itoml.Size(v.Uint64()))
	return bu(uint64(g)), w, e1, e2
}

// marshalText returns the MarshalText / String renderings of the V1 kinds (the V2 kinds have, on
// purpose, no TextMarshaler: they are written as raw TOML integers).
func marshalText(k kind, v *big.Int) (text string, str string, err error) {
	switch k {
	case kSizeV1:
		x := itoml.SizeV1(v.Uint64())
		b, e := x.MarshalText()
		return string(b), x.String(), e
	case kSSizeV1:
		x := itoml.SSizeV1(v.Int64())
		b, e := x.MarshalText()
		return string(b), x.String(), e
	}
	return "", "", fmt.Errorf("no text marshaller for %v", k)
}

// floatExact: |v| survives a trip through float64 (<= 53 significant bits).
func floatExact(v *big.Int) bool {
	a := new(big.Int).Abs(v)
	if a.Sign() == 0 {
		return true
	}
	return a.BitLen()-int(a.TrailingZeroBits()) <= 53
}

// ---- strict reference parser for the documented grammar ------------------------------------
//
//	[ws] [+|-] digits [ . digits ] [ws] [unit] [ws]      ws = ' ' | '\t'
//
// unit (case-insensitive): "" b | kb mb gb tb pb eb (10^3k) | kib mib gib tib pib eib (2^10k) |
// bare k m g (V1 types: 2^10, 2^20, 2^30 — V2 types: 10^3, 10^6, 10^9).

type sizeForm struct {
	lead    string
	sign    string
	digits  string
	hasDot  bool
	frac    string
	ws1     string
	unit    string // as written
	ws2     string
	unitLow string
}

func isWS(c byte) bool    { return c == ' ' || c == '\t' }
func isDigit(c byte) bool { return c >= '0' && c <= '9' }
func isAlpha(c byte) bool { return (c >= 'a' && c <= 'z') || (c >= 'A' && c <= 'Z') }

var pow10 = func() map[int]*big.Int {
	m := map[int]*big.Int{}
	for _, e := range []int{3, 6, 9, 12, 15, 18} {
		m[e] = new(big.Int).Exp(big.NewInt(10), big.NewInt(int64(e)), nil)
	}
	return m
}()

// unitMult returns the documented multiplier of a lower-cased unit for V1 / V2 semantics.
func unitMult(unitLow string, v1 bool) (*big.Int, bool) {
	switch unitLow {
	case "", "b":
		return bigOne, true
	case "kb":
		return pow10[3], true
	case "mb":
		return pow10[6], true
	case "gb":
		return pow10[9], true
	case "tb":
		return pow10[12], true
	case "pb":
		return pow10[15], true
	case "eb":
		return pow10[18], true
	case "kib":
		return new(big.Int).Lsh(bigOne, 10), true
	case "mib":
		return new(big.Int).Lsh(bigOne, 20), true
	case "gib":
		return new(big.Int).Lsh(bigOne, 30), true
	case "tib":
		return new(big.Int).Lsh(bigOne, 40), true
	case "pib":
		return new(big.Int).Lsh(bigOne, 50), true
	case "eib":
		return new(big.Int).Lsh(bigOne, 60), true
	case "k", "m", "g":
		e := map[string]int{"k": 1, "m": 2, "g": 3}[unitLow]
		if v1 {
			return new(big.Int).Lsh(bigOne, uint(10*e)), true
		}
		return pow10[3*e], true
	}
	return nil, false
}

var canonicalUnit = map[string]string{
	"b": "B", "kb": "kB", "mb": "MB", "gb": "GB", "tb": "TB", "pb": "PB", "eb": "EB",
	"kib": "KiB", "mib": "MiB", "gib": "GiB", "tib": "TiB", "pib": "PiB", "eib": "EiB",
}

// parseForm recognises the grammar above; ok=false means "outside the grammar the statement and
// the documentation talk about" (no value/acceptance assertion is made for such strings).
func parseForm(s string) (f sizeForm, ok bool) {
	i := 0
	for i < len(s) && isWS(s[i]) {
		i++
	}
	f.lead = s[:i]
	if i < len(s) && (s[i] == '+' || s[i] == '-') {
		f.sign = s[i : i+1]
		i++
	}
	j := i
	for j < len(s) && isDigit(s[j]) {
		j++
	}
	if j == i {
		return f, false
	}
	f.digits = s[i:j]
	i = j
	if i < len(s) && s[i] == '.' {
		j = i + 1
		for j < len(s) && isDigit(s[j]) {
			j++
		}
		if j == i+1 {
			return f, false
		}
		f.hasDot = true
		f.frac = s[i+1 : j]
		i = j
	}
	j = i
	for j < len(s) && isWS(s[j]) {
		j++
	}
	f.ws1 = s[i:j]
	i = j
	for j < len(s) && isAlpha(s[j]) {
		j++
	}
	f.unit = s[i:j]
	i = j
	for j < len(s) && isWS(s[j]) {
		j++
	}
	f.ws2 = s[i:j]
	if j != len(s) {
		return f, false
	}
	if len(f.digits)+len(f.frac) > 400 {
		return f, false
	}
	f.unitLow = strings.ToLower(f.unit)
	if _, known := unitMult(f.unitLow, true); !known {
		return f, false
	}
	return f, true
}

// exact is the mathematical value of the form under V1 / V2 unit semantics.
func (f sizeForm) exact(v1 bool) *big.Rat {
	n, _ := new(big.Int).SetString(f.digits+f.frac, 10)
	r := new(big.Rat).SetInt(n)
	if len(f.frac) > 0 {
		den := new(big.Int).Exp(big.NewInt(10), big.NewInt(int64(len(f.frac))), nil)
		r.Quo(r, new(big.Rat).SetInt(den))
	}
	m, _ := unitMult(f.unitLow, v1)
	r.Mul(r, new(big.Rat).SetInt(m))
	if f.sign == "-" {
		r.Neg(r)
	}
	return r
}

// plainStyle: spelled the way the documentation and the repository's own examples spell units
// (all lower, all upper, or humanize's canonical mixed case).
func (f sizeForm) plainStyle() bool {
	return f.unit == f.unitLow || f.unit == strings.ToUpper(f.unit) || f.unit == canonicalUnit[f.unitLow]
}

// exactRoute: the documented 1.x accept pattern (optional sign for SSize, digits, optional
// whitespace, optional bare k/K/m/M/g/G), for which SizeV1/SSizeV1 promise bit-exact integer
// arithmetic.
func (f sizeForm) exactRoute(k kind) bool {
	if !k.v1() || f.lead != "" || f.hasDot || f.ws2 != "" {
		return false
	}
	if f.sign != "" && !k.signed() {
		return false
	}
	switch f.unitLow {
	case "", "k", "m", "g":
		return true
	}
	return false
}

func truncRat(r *big.Rat) *big.Int {
	return new(big.Int).Quo(r.Num(), r.Denom()) // Quo truncates toward zero
}

func ratAbs(r *big.Rat) *big.Rat { return new(big.Rat).Abs(r) }

var (
	eps51  = new(big.Rat).SetFrac(bigOne, new(big.Int).Lsh(bigOne, 51))
	eps50  = new(big.Rat).SetFrac(bigOne, new(big.Int).Lsh(bigOne, 50))
	ratOne = new(big.Rat).SetInt64(1)
)

// verdict of the string oracle.
type verdict struct {
	key    string // "" = fine
	detail string
	known  string // non-empty: matches exactly the signature of this known finding
}

const (
	keyBoundary  = "size-float-rounding-accepts-overflow-at-boundary"
	keyV2Inexact = "sizev2-roundtrip-inexact-above-2p53"
	keyV2Range   = "sizev2-roundtrip-above-maxint64-rejected"
)

// checkSizeString is the oracle for one (type, string) pair; entry selects UnmarshalText or Set.
//
//   - accepted  => the exact value (truncated toward zero) fits the type — never wrapped or
//     saturated — and the result equals the documented meaning: exactly on the 1.x integer route
//     and whenever the exact value is an integer representable in float64 (humanize computes in
//     float64), otherwise within float64 rounding (+1 for truncation of fractions);
//   - rejected  => not one of the plainly documented spellings whose value fits (with margin
//     for the float route).
func checkSizeString(k kind, s string, viaSet bool) (v verdict, f sizeForm, inGrammar bool, accepted bool, got *big.Int) {
	var err error
	if viaSet {
		got, err = setReal(k, s)
	} else {
		got, err = parseReal(k, s)
	}
	accepted = err == nil
	f, inGrammar = parseForm(s)
	if !inGrammar {
		return
	}
	ex := f.exact(k.v1())
	tr := truncRat(ex)
	fits := k.fits(tr)
	exactRoute := f.exactRoute(k)
	isInt := ex.IsInt()
	exactExpected := exactRoute || (!f.hasDot && isInt && floatExact(tr))

	if accepted {
		if !fits {
			// which bound is violated, and is the excess within float64 rounding of it?
			bound := k.hi()
			if tr.Sign() < 0 {
				bound = k.lo()
			}
			lim := new(big.Rat).SetInt(new(big.Int).Abs(bound))
			lim.Add(lim, ratOne) // the first magnitude that does not fit
			slack := new(big.Rat).Mul(lim, eps50)
			if !exactRoute && bound.Sign() < 0 && ratAbs(ex).Cmp(new(big.Rat).Add(lim, slack)) <= 0 {
				// accepted although it overflows, within float rounding of the type bound
				v.known = keyBoundary
				diff := new(big.Rat).Sub(new(big.Rat).SetInt(got), ex)
				if ratAbs(diff).Cmp(new(big.Rat).Add(slack, ratOne)) > 0 {
					v.known = ""
					v.key = "overflow-accepted-wrong-value"
					v.detail = fmt.Sprintf("%v.UnmarshalText(%q) accepted an overflowing value as %v (exact %s)", k, s, got, ex.FloatString(3))
				}
				return
			}
			v.key = "overflow-accepted"
			v.detail = fmt.Sprintf("%v.UnmarshalText(%q) = %v but the exact value %s does not fit the type", k, s, got, ex.FloatString(3))
			return
		}
		if exactExpected {
			if got.Cmp(tr) != 0 {
				v.key = "wrong-value"
				v.detail = fmt.Sprintf("%v.UnmarshalText(%q) = %v, documented meaning %v", k, s, got, tr)
			}
			return
		}
		diff := ratAbs(new(big.Rat).Sub(new(big.Rat).SetInt(got), ex))
		tol := new(big.Rat).Mul(ratAbs(ex), eps51)
		tol.Add(tol, ratOne)
		if diff.Cmp(tol) > 0 || (got.Sign() != 0 && got.Sign() != ex.Sign()) {
			v.key = "wrong-value"
			v.detail = fmt.Sprintf("%v.UnmarshalText(%q) = %v, documented meaning %s (beyond float64 rounding)", k, s, got, ex.FloatString(3))
		}
		return
	}

	// rejected: only the plainly documented spellings are required to be accepted
	plain := f.lead == "" && f.ws2 == "" && (f.ws1 == "" || f.ws1 == " ") && f.plainStyle() &&
		(f.digits == "0" || f.digits[0] != '0') && (f.sign == "" || (f.sign == "-" && k.signed()))
	if !plain || !fits {
		return
	}
	mustAccept := exactExpected
	if !mustAccept {
		// float route with rounding: demand acceptance only clear of the type bound
		lim := new(big.Rat).SetInt(new(big.Int).Abs(k.hi()))
		m := new(big.Rat).Mul(ratAbs(ex), new(big.Rat).Add(ratOne, eps50))
		m.Add(m, ratOne)
		mustAccept = m.Cmp(lim) < 0
	}
	if mustAccept {
		v.key = "documented-form-rejected"
		v.detail = fmt.Sprintf("%v.UnmarshalText(%q) failed (%v) although the value %s fits", k, s, err, ex.FloatString(3))
	}
	return
}
