package c34_toml

import (
	"testing"

	"verifharness/internal/ev"
)

func TestMain(m *testing.M) { ev.Main(m) }
