package c34_toml

import (
	"testing"
	"time"

	itoml "github.com/influxdata/influxdb/v2/toml"

	"verifharness/internal/ev"
)

// FuzzSizeUnmarshalText (thorough tier): arbitrary text x the four size types.
//   - the string oracle of TestPropSizeStrings whenever the text is inside the documented grammar;
//   - for ANY accepted text: the accepted value, written out the way the configuration layer
//     writes it, parses back to the identical value (open known findings excluded by signature).
func FuzzSizeUnmarshalText(f *testing.F) {
	for _, s := range []string{"0", "1", "1k", "1K", "10m", "1 g", "1.5g", "1kb", "1kib", "25 MiB", "42 MB", "1tib", "1eb", "16eib",
		"18446744073709551615", "18446744073709551616", "9223372036854775807", "-9223372036854775808", "-9223372036854775809",
		"18014398509481984k", "17592186044416m", "17179869184g", "-8589934592g", "8589934592g", "9007199254740993", "+5", " 5", "5 ",
		"1,000", "１２", "1e3", "0x10", "1_000", "-0", "", "k", "1 kIb", "1.k", ".5k", "\xff\xfe", "1\x00k", "1 \n k"} {
		for typ := 0; typ < 4; typ++ {
			f.Add(s, uint8(typ))
		}
	}
	f.Fuzz(func(t *testing.T, s string, typ uint8) {
		k := kinds[int(typ)%len(kinds)]
		v, _, _, accepted, got := checkSizeString(k, s, false)
		if v.known != "" && !ev.KnownOpen("C34", v.known) {
			v.key = v.known
		}
		if v.key != "" {
			t.Fatalf("VIOLATION-CANDIDATE property=C34 key=%s: %s %s", v.key, v.detail, k)
		}
		if !accepted {
			return
		}
		if !k.fits(got) {
			t.Fatalf("harness bug: %v does not fit %v", got, k)
		}
		if k.v1() {
			text, _, err := marshalText(k, got)
			back, perr := parseReal(k, text)
			if err != nil || perr != nil || back.Cmp(got) != 0 {
				t.Fatalf("VIOLATION-CANDIDATE property=C34 key=text-roundtrip: %v.UnmarshalText(%q)=%v -> MarshalText %q -> %v (%v, %v)", k, s, got, text, back, err, perr)
			}
		}
		back, written, encErr, decErr := tomlRT(k, got)
		if encErr != nil || decErr != nil || back.Cmp(got) != 0 {
			if !k.v1() {
				if key := v2Known(k, got); key != "" && ev.KnownOpen("C34", key) {
					return
				}
			}
			t.Fatalf("VIOLATION-CANDIDATE property=C34 key=toml-roundtrip: %v.UnmarshalText(%q)=%v written as %q reads back as %v (%v, %v)", k, s, got, written, back, encErr, decErr)
		}
	})
}

// FuzzDurationUnmarshalText (thorough tier): accepted text => the value agrees with
// time.ParseDuration and MarshalText of it parses back to the same duration.
func FuzzDurationUnmarshalText(f *testing.F) {
	for _, s := range []string{"", "0", "0s", "1ns", "1us", "1µs", "1.5h", "-2562047h47m16.854775808s", "2562047h47m16.854775807s",
		"2562047h47m16.854775808s", "1h0m0.000000001s", "9223372036854775807ns", "9223372036854775808ns", "1d", "1w", "+1s", ".5s", "1e3s", "1 s"} {
		f.Add(s)
	}
	f.Fuzz(func(t *testing.T, s string) {
		d := itoml.Duration(12345)
		err := d.UnmarshalText([]byte(s))
		if s == "" {
			if err != nil || d != 12345 {
				t.Fatalf("VIOLATION-CANDIDATE property=C34 key=duration-empty-not-ignored: %v %v", d, err)
			}
			return
		}
		ref, rerr := time.ParseDuration(s)
		if (err == nil) != (rerr == nil) || (err == nil && time.Duration(d) != ref) {
			t.Fatalf("VIOLATION-CANDIDATE property=C34 key=duration-parse: %q -> %d (%v), time.ParseDuration -> %d (%v)", s, int64(d), err, int64(ref), rerr)
		}
		if err != nil {
			return
		}
		text, merr := d.MarshalText()
		var back itoml.Duration
		if uerr := back.UnmarshalText(text); merr != nil || uerr != nil || back != d {
			t.Fatalf("VIOLATION-CANDIDATE property=C34 key=duration-text-roundtrip: %q -> %d -> %q -> %d (%v %v)", s, int64(d), text, int64(back), merr, uerr)
		}
	})
}
