package c36_structs

import (
	"bytes"
	"fmt"
	"sort"
	"strings"
	"testing"

	"github.com/influxdata/influxdb/v2/pkg/radix"
	"pgregory.net/rapid"

	"verifharness/internal/ev"
)

var radixStems = []string{"", "", "cpu,host=server", "cpu,host=server0", "cpu,host=server0#!~#usage", "m"}

func TestPropRadix(t *testing.T) {
	excludeMinMax := ev.KnownOpen("C36", knownRadixMinMax)
	rec.Check(t, 40000, 500000, func(t *rapid.T) {
		// narrow alphabet: deep trees with keys that are prefixes of each other, including the
		// bytes 0x00 and 0xff (edge order is unsigned byte order); wide alphabet: nodes with more
		// than 16 edges (getEdge switches to binary search)
		alphabet := []byte{'a', 'b', 0x00, 0xff}
		wide := rapid.IntRange(0, 3).Draw(t, "wide") == 0
		if wide {
			alphabet = []byte("abcdefghijklmnopqrstuvwx")
		}
		genKey := func(label string, maxSuffix int) []byte {
			stem := radixStems[rapid.IntRange(0, len(radixStems)-1).Draw(t, label+"_stem")]
			n := rapid.IntRange(0, maxSuffix).Draw(t, label+"_len")
			key := []byte(stem)
			for i := 0; i < n; i++ {
				key = append(key, alphabet[rapid.IntRange(0, len(alphabet)-1).Draw(t, fmt.Sprintf("%s_%d", label, i))])
			}
			return key
		}

		model := map[string]int{}
		var tr *radix.Tree
		var hist []string
		if rapid.IntRange(0, 4).Draw(t, "fromMap") == 0 {
			init := map[string]int{}
			for i, n := 0, rapid.IntRange(0, 8).Draw(t, "initN"); i < n; i++ {
				k := genKey(fmt.Sprintf("init%d", i), 3)
				init[string(k)] = i + 1
				model[string(k)] = i + 1
			}
			tr = radix.NewFromMap(init)
			hist = append(hist, fmt.Sprintf("fromMap(%d keys)", len(init)))
		} else {
			tr = radix.New()
		}
		// dirty: a DeletePrefix with a non-empty prefix removed something (it may have left an
		// empty node behind); cleared by DeletePrefix("") which drops every node below the root
		dirty, innerDelete := false, false

		fail := func(key, detail string) {
			rec.Fail(t, "TestPropRadix", key, detail+" | history: "+strings.Join(hist, " "), map[string]any{"wideAlphabet": wide, "history": hist})
		}
		sortedKeys := func() []string {
			ks := make([]string, 0, len(model))
			for k := range model {
				ks = append(ks, k)
			}
			sort.Strings(ks) // byte-wise, like bytes.Compare
			return ks
		}
		checkMinMax := func() {
			ks := sortedKeys()
			for _, which := range []string{"Minimum", "Maximum"} {
				var k []byte
				var v int
				var ok bool
				var wantKey string
				if which == "Minimum" {
					k, v, ok = tr.Minimum()
					if len(ks) > 0 {
						wantKey = ks[0]
					}
				} else {
					k, v, ok = tr.Maximum()
					if len(ks) > 0 {
						wantKey = ks[len(ks)-1]
					}
				}
				if len(ks) == 0 {
					if ok {
						fail("radix-minmax-on-empty", fmt.Sprintf("%s() on an empty tree = (%q,%d,true)", which, k, v))
					}
					continue
				}
				if !ok {
					if dirty && excludeMinMax {
						rec.ExcludedKnown(knownRadixMinMax)
						continue
					}
					fail("radix-minmax-not-found", fmt.Sprintf("%s() reports an empty tree, model has %d keys (smallest %q, largest %q)", which, len(ks), ks[0], ks[len(ks)-1]))
				}
				if string(k) != wantKey || v != model[wantKey] {
					fail("radix-minmax-wrong", fmt.Sprintf("%s() = (%q,%d), sorted model says (%q,%d)", which, k, v, wantKey, model[wantKey]))
				}
			}
		}
		fullCheck := func() {
			if got := tr.Len(); got != len(model) {
				fail("radix-len", fmt.Sprintf("Len()=%d, model has %d keys", got, len(model)))
			}
			for _, k := range sortedKeys() {
				if v, ok := tr.Get([]byte(k)); !ok || v != model[k] {
					fail("radix-get", fmt.Sprintf("Get(%q)=(%d,%v), model has %d", k, v, ok, model[k]))
				}
			}
			checkMinMax()
		}

		n := rapid.IntRange(1, 70).Draw(t, "steps")
		for s := 0; s < n; s++ {
			op := rapid.IntRange(0, 19).Draw(t, "op")
			switch {
			case op <= 9: // insert-if-absent, returns (existing value,false) or (v,true)
				key := genKey("ins", 5)
				ks := string(key)
				v := rapid.IntRange(1, 9).Draw(t, "val")
				got, inserted := tr.Insert(key, v)
				hist = append(hist, fmt.Sprintf("ins(%q,%d)", ks, v))
				// the tsm1 engine reuses its key buffer after Insert: the tree must have copied it
				for i := range key {
					key[i] = 'Z'
				}
				if old, exists := model[ks]; exists {
					if inserted || got != old {
						fail("radix-insert-existing", fmt.Sprintf("Insert(%q,%d) on an existing key = (%d,%v), want (%d,false)", ks, v, got, inserted, old))
					}
				} else {
					if !inserted || got != v {
						fail("radix-insert-new", fmt.Sprintf("Insert(%q,%d) of a new key = (%d,%v), want (%d,true)", ks, v, got, inserted, v))
					}
					model[ks] = v
				}
				if gv, ok := tr.Get([]byte(ks)); !ok || gv != model[ks] {
					fail("radix-get-after-insert", fmt.Sprintf("Get(%q) after Insert = (%d,%v), model has %d", ks, gv, ok, model[ks]))
				}
				if got := tr.Len(); got != len(model) {
					fail("radix-len", fmt.Sprintf("Len()=%d after insert, model has %d keys", got, len(model)))
				}
			case op <= 12: // get, present or absent (absent keys are often prefixes / extensions of present ones)
				key := genKey("get", 5)
				v, ok := tr.Get(key)
				hist = append(hist, fmt.Sprintf("get(%q)", key))
				mv, present := model[string(key)]
				if ok != present || (present && v != mv) {
					fail("radix-get", fmt.Sprintf("Get(%q)=(%d,%v), model (%d,%v)", key, v, ok, mv, present))
				}
			case op <= 15: // delete prefix
				var prefix []byte
				if ks := sortedKeys(); len(ks) > 0 && rapid.Bool().Draw(t, "prefixOfKey") {
					k := ks[rapid.IntRange(0, len(ks)-1).Draw(t, "prefixKey")]
					prefix = []byte(k[:rapid.IntRange(0, len(k)).Draw(t, "prefixLen")])
				} else {
					prefix = genKey("del", 3)
				}
				want := 0
				for k := range model {
					if bytes.HasPrefix([]byte(k), prefix) {
						want++
					}
				}
				got := tr.DeletePrefix(prefix)
				hist = append(hist, fmt.Sprintf("delprefix(%q)", prefix))
				if got != want {
					fail("radix-deleteprefix-count", fmt.Sprintf("DeletePrefix(%q) = %d, model has %d keys with that prefix", prefix, got, want))
				}
				for k := range model {
					if bytes.HasPrefix([]byte(k), prefix) {
						delete(model, k)
					}
				}
				if len(prefix) == 0 {
					dirty = false
				} else if want > 0 {
					dirty = true
					if want >= 2 && len(model) > 0 {
						innerDelete = true
					}
				}
				fullCheck()
			case op <= 17:
				hist = append(hist, "minmax")
				checkMinMax()
			default:
				hist = append(hist, "check")
				fullCheck()
			}
		}
		fullCheck()

		rec.Eval()
		if wide {
			rec.Class("radix:wide-alphabet")
		} else {
			rec.Class("radix:narrow-alphabet")
		}
		if innerDelete {
			rec.Class("radix:inner-node-deleted")
			rec.NonTrivial("radix|" + strings.Join(hist, " "))
			if len(hist) < 14 && wantSample("radix") {
				rec.Sample(map[string]any{"structure": "radix.Tree", "history": strings.Join(hist, " ")})
			}
		} else {
			rec.Class("radix:no-inner-delete")
		}
	})
}
