package c36_structs

import (
	"bytes"
	"fmt"
	"sort"
	"strings"
	"testing"

	"github.com/influxdata/influxdb/v2/pkg/rhh"
	"pgregory.net/rapid"

	"verifharness/internal/ev"
)

// rhhPool is a collision-rich key pool: index 0 is the empty key, then three groups of keys
// whose HashKey agree in the low 6 bits (so they share a home slot at every capacity <= 64),
// then keys with unrelated hashes, then two long keys.
var rhhPool = buildRHHPool()

func buildRHHPool() [][]byte {
	pool := [][]byte{{}}
	groups := map[int64][][]byte{}
	var order []int64
	for i := 0; i < 4000; i++ {
		k := []byte(fmt.Sprintf("k%d", i))
		g := rhh.HashKey(k) & 63
		if _, ok := groups[g]; !ok {
			order = append(order, g)
		}
		groups[g] = append(groups[g], k)
	}
	taken := 0
	for _, g := range order {
		if len(groups[g]) >= 9 && taken < 3 {
			pool = append(pool, groups[g][:9]...)
			taken++
		}
	}
	for i := 0; i < 20; i++ {
		pool = append(pool, []byte(fmt.Sprintf("cpu,host=server%02d", i)))
	}
	pool = append(pool, bytes.Repeat([]byte("x"), 300), append(bytes.Repeat([]byte("x"), 300), 'y'))
	return pool
}

// callerLookup is the lookup the tsi1 readers run over the slot layout they serialised from
// Elem(0..Cap-1) (MeasurementBlock.Elem, TagBlock key/value lookups): start at hash mod n, stop
// at an empty slot or when the probe distance exceeds that of the resident element.
func callerLookup(m *rhh.HashMap, key []byte) (interface{}, bool) {
	n := m.Cap()
	pos := rhh.HashKey(key) % n
	for d := int64(0); d <= n; d++ {
		k, v := m.Elem(pos)
		if v == nil {
			return nil, false
		}
		if bytes.Equal(k, key) {
			return v, true
		}
		if d > rhh.Dist(rhh.HashKey(k), pos, n) {
			return nil, false
		}
		pos = (pos + 1) % n
	}
	return nil, false
}

func TestPropRHH(t *testing.T) {
	excludeEmpty := ev.KnownOpen("C36", knownRHHEmptyKey)
	rec.Check(t, 40000, 400000, func(t *rapid.T) {
		capacity := int64(rapid.IntRange(0, 64).Draw(t, "capacity"))
		loadFactor := rapid.SampledFrom([]int{90, 80, 50, 25}).Draw(t, "loadFactor")
		m := rhh.NewHashMap(rhh.Options{Capacity: capacity, LoadFactor: loadFactor, MetricsEnabled: rapid.Bool().Draw(t, "metrics")})
		model := map[string]int{}
		var hist []string
		grewByPut, maxProbe, steps := false, int64(0), 0

		fail := func(key, detail string) {
			rec.Fail(t, "TestPropRHH", key, detail+" | history: "+strings.Join(hist, " "),
				map[string]any{"capacity": capacity, "loadFactor": loadFactor, "history": hist})
		}
		sortedModelKeys := func() []string {
			ks := make([]string, 0, len(model))
			for k := range model {
				ks = append(ks, k)
			}
			sort.Strings(ks)
			return ks
		}
		fullCheck := func() {
			if got := m.Len(); got != int64(len(model)) {
				fail("rhh-len", fmt.Sprintf("Len()=%d, model has %d keys", got, len(model)))
			}
			want := sortedModelKeys()
			got := m.Keys()
			if len(got) != len(want) {
				fail("rhh-keys", fmt.Sprintf("Keys() has %d keys, model %d", len(got), len(want)))
			}
			for i := range got {
				if string(got[i]) != want[i] {
					fail("rhh-keys", fmt.Sprintf("Keys()[%d]=%q, model (sorted) %q", i, got[i], want[i]))
				}
			}
			// slot scan, as the tsi1 encoders do
			c := m.Cap()
			if c < m.Len() {
				fail("rhh-cap", fmt.Sprintf("Cap()=%d < Len()=%d", c, m.Len()))
			}
			seen := map[string]bool{}
			for i := int64(0); i < c; i++ {
				k, v := m.Elem(i)
				if v == nil {
					continue
				}
				mv, ok := model[string(k)]
				if !ok || v != interface{}(mv) {
					fail("rhh-elem", fmt.Sprintf("Elem(%d)=(%q,%v) but model has (%v,%v)", i, k, v, mv, ok))
				}
				if seen[string(k)] {
					fail("rhh-elem-duplicate", fmt.Sprintf("key %q occupies two slots", k))
				}
				seen[string(k)] = true
				if d := rhh.Dist(rhh.HashKey(k), i, c); d > maxProbe {
					maxProbe = d
				}
			}
			if len(seen) != len(model) {
				fail("rhh-elem-missing", fmt.Sprintf("slot scan found %d keys, model has %d", len(seen), len(model)))
			}
			if k, v := m.Elem(c); k != nil || v != nil {
				fail("rhh-elem-out-of-range", fmt.Sprintf("Elem(Cap()) = (%q,%v), documented (nil,nil)", k, v))
			}
			for _, k := range rhhPool {
				mv, present := model[string(k)]
				v, ok := callerLookup(m, k)
				if ok != present || (present && v != interface{}(mv)) {
					fail("rhh-layout-lookup", fmt.Sprintf("robin-hood lookup over the Elem layout for %q: got (%v,%v), model (%v,%v)", k, v, ok, mv, present))
				}
				g := m.Get(append([]byte{}, k...))
				if present && g != interface{}(mv) || !present && g != nil {
					fail("rhh-get", fmt.Sprintf("Get(%q)=%v, model (%v,%v)", k, g, mv, present))
				}
			}
		}

		n := rapid.IntRange(1, 90).Draw(t, "steps")
		for s := 0; s < n; s++ {
			op := rapid.IntRange(0, 19).Draw(t, "op")
			switch {
			case op <= 11: // put
				ki := rapid.IntRange(0, len(rhhPool)-1).Draw(t, "key")
				v := rapid.IntRange(1, 1000).Draw(t, "val")
				if ki == 0 && excludeEmpty {
					rec.ExcludedKnown(knownRHHEmptyKey)
					continue
				}
				key := append([]byte{}, rhhPool[ki]...)
				before := m.Cap()
				quietPut := rapid.Bool().Draw(t, "quiet")
				if quietPut {
					m.PutQuiet(key, v)
				} else {
					m.Put(key, v)
				}
				hist = append(hist, fmt.Sprintf("put(%d,%d)", ki, v))
				if !bytes.Equal(key, rhhPool[ki]) {
					fail("rhh-put-modifies-argument", fmt.Sprintf("Put changed the caller's key buffer from %q to %q", rhhPool[ki], key))
				}
				model[string(rhhPool[ki])] = v
				if m.Cap() > before {
					grewByPut = true
				}
				if g := m.Get(key); g != interface{}(v) {
					fail("rhh-get-after-put", fmt.Sprintf("Get(%q) right after Put(..,%d) = %v", key, v, g))
				}
				if got := m.Len(); got != int64(len(model)) {
					fail("rhh-len", fmt.Sprintf("Len()=%d after put, model has %d keys", got, len(model)))
				}
			case op <= 14: // get
				ki := rapid.IntRange(0, len(rhhPool)-1).Draw(t, "key")
				key := append([]byte{}, rhhPool[ki]...)
				g := m.Get(key)
				mv, present := model[string(key)]
				hist = append(hist, fmt.Sprintf("get(%d)", ki))
				if present && g != interface{}(mv) || !present && g != nil {
					fail("rhh-get", fmt.Sprintf("Get(%q)=%v, model (%v,%v)", key, g, mv, present))
				}
			case op <= 16: // grow
				sz := int64(rapid.IntRange(0, 300).Draw(t, "growTo"))
				before := m.Cap()
				m.Grow(sz)
				hist = append(hist, fmt.Sprintf("grow(%d)", sz))
				if m.Cap() < before {
					fail("rhh-grow-shrinks", fmt.Sprintf("Grow(%d) reduced Cap from %d to %d", sz, before, m.Cap()))
				}
				fullCheck()
			case op == 17: // reset
				m.Reset()
				model = map[string]int{}
				hist = append(hist, "reset")
				fullCheck()
			default:
				hist = append(hist, "check")
				fullCheck()
			}
			steps++
		}
		fullCheck()

		rec.Eval()
		switch {
		case grewByPut && steps >= 10:
			rec.Class("rhh:growth-reached")
			rec.NonTrivial(fmt.Sprintf("rhh|%d|%d|%s", capacity, loadFactor, strings.Join(hist, " ")))
			if len(hist) < 40 && wantSample("rhh") {
				rec.Sample(map[string]any{"structure": "rhh.HashMap", "capacity": capacity, "loadFactor": loadFactor, "history(put(keyIndex,value))": strings.Join(hist, " ")})
			}
		default:
			rec.Class("rhh:no-growth-or-short")
		}
		switch {
		case maxProbe >= 3:
			rec.Class("rhh:probe-distance>=3")
		case maxProbe >= 1:
			rec.Class("rhh:probe-distance-1..2")
		default:
			rec.Class("rhh:no-displacement")
		}
	})
}
