// C36 — Index and ID-set data structures behave like their abstract models.
//
// Four model-based checks, one per structure named in the statement:
//   - rhh.HashMap       vs map[string]int            (rhh_test.go)
//   - bloom.Filter      vs the set of inserted keys   (bloom_test.go)
//   - radix.Tree        vs a sorted map               (radix_test.go)
//   - tsdb.SeriesIDSet  vs map[uint64]struct{}        (seriesidset_test.go)
//
// Known findings on the unchanged tree (known_test.go):
//   - rhh-empty-key-len: Put of the empty key into a free slot is reported as an overwrite, Len() is short by one.
//   - radix-minmax-after-deleteprefix: DeletePrefix leaves an empty node linked from its parent;
//     Minimum()/Maximum() that descend into it report "not found" for a non-empty tree.
package c36_structs

import (
	"verifharness/internal/ev"
)

const (
	knownRHHEmptyKey = "rhh-empty-key-len"
	knownRadixMinMax = "radix-minmax-after-deleteprefix"
)

var rec = ev.For("C36", "exploration",
	"case = one rapid-generated operation history against one of the four structures, replayed against a Go map/set model after every step; "+
		"NON-TRIVIAL: rhh: history of >= 10 operations in which a Put triggered growth; bloom: a Merge of two filters that each hold >= 2 keys with different key sets; radix: a DeletePrefix with a non-empty prefix that removed >= 2 keys (an inner node) while other keys remain; SeriesIDSet: a binary set operation (Merge/MergeInPlace/And/AndNot/Diff/Intersects/Equals) or a serialization round trip on sets whose ids span >= 2 roaring containers (distinct high 16 bits); distinct by canonical rendering of the whole history")

// sampleQuota spreads the few verbatim evidence samples over the four structures.
var sampleQuota = map[string]int{"bloom": 1, "radix": 2, "rhh": 1, "idset": 2}

func wantSample(structure string) bool {
	if sampleQuota[structure] > 0 && rec.WantSample() {
		sampleQuota[structure]--
		return true
	}
	return false
}

func init() {
	rec.Assume("rhh.HashMap: values are non-nil (Get returns nil for a missing key, Keys/Elem treat nil as an empty slot, as the tsi1 callers do); load factors 25..90 as used by callers (80, 90)")
	rec.Assume("tsdb.SeriesIDSet: ids are < 2^32 — the implementation stores uint32(id) in a 32-bit roaring bitmap by explicit cast, and series ids are small sequence numbers in every caller; larger ids alias (2^32+5 is reported as 5) and are outside the generated domain")
	rec.Assume("SeriesIDSet binary operations are never given the receiver itself where the implementation takes both locks (Merge(s), Diff(s) self-deadlock; no caller does this); Equals and MergeInPlace guard against it and are exercised with the receiver")
	rec.Assume("bloom.Filter false-positive rate is only reported (coverage.bloom_false_positive_rate), not asserted; asserted are: no false negatives, an empty filter contains nothing, at most k bits per inserted key, Contains(v) is positive exactly when the bits set by Insert(v) are all set, Merge = filter of the union")
	rec.Assume("reference models are Go maps plus sort; single-goroutine histories only (concurrent use is not part of this property)")
}
