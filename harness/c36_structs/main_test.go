package c36_structs

import (
	"testing"

	"verifharness/internal/ev"
)

func TestMain(m *testing.M) { ev.Main(m) }
