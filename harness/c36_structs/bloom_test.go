package c36_structs

import (
	"bytes"
	"fmt"
	"math/bits"
	"sort"
	"strings"
	"sync/atomic"
	"testing"

	"github.com/influxdata/influxdb/v2/pkg/bloom"
	"pgregory.net/rapid"
)

var bloomProbes, bloomFalsePositives atomic.Int64

func popcount(b []byte) int {
	n := 0
	for _, x := range b {
		n += bits.OnesCount8(x)
	}
	return n
}

func setKeys(s map[string]bool) []string {
	ks := make([]string, 0, len(s))
	for k := range s {
		ks = append(ks, k)
	}
	sort.Strings(ks)
	return ks
}

func TestPropBloom(t *testing.T) {
	rec.Check(t, 25000, 300000, func(t *rapid.T) {
		m := uint64(rapid.SampledFrom([]int{1, 8, 9, 64, 100, 256, 1000, 1024, 4096, 5000}).Draw(t, "m"))
		k := uint64(rapid.IntRange(1, 7).Draw(t, "k"))
		genKey := func(label string) []byte {
			switch rapid.IntRange(0, 9).Draw(t, label+"_kind") {
			case 0:
				return []byte{}
			case 1, 2, 3:
				return []byte(fmt.Sprintf("cpu,host=server%d", rapid.IntRange(0, 40).Draw(t, label+"_n")))
			case 4:
				// keys differing only in the last byte (the second hash zeroes the last byte)
				return []byte{'q', byte(rapid.IntRange(0, 255).Draw(t, label+"_b"))}
			default:
				return rapid.SliceOfN(rapid.Byte(), 1, 12).Draw(t, label)
			}
		}
		filters := []*bloom.Filter{bloom.NewFilter(m, k), bloom.NewFilter(m, k)}
		sets := []map[string]bool{{}, {}}
		var hist []string
		fail := func(key, detail string) {
			rec.Fail(t, "TestPropBloom", key, detail+" | history: "+strings.Join(hist, " "), map[string]any{"m": m, "k": k, "history": hist})
		}
		wantBytes := uint64(1)
		for wantBytes*8 < m {
			wantBytes *= 2
		}
		// an empty filter holds no key
		if popcount(filters[0].Bytes()) != 0 {
			fail("bloom-new-filter-not-empty", "NewFilter returned a filter with bits set")
		}
		if uint64(len(filters[0].Bytes()))*8 < m || filters[0].K() != k {
			fail("bloom-new-filter-size", fmt.Sprintf("NewFilter(%d,%d): %d bytes, K()=%d", m, k, len(filters[0].Bytes()), filters[0].K()))
		}
		for i := 0; i < 3; i++ {
			p := genKey(fmt.Sprintf("empty%d", i))
			if filters[0].Contains(p) {
				fail("bloom-empty-filter-contains", fmt.Sprintf("empty filter (m=%d,k=%d) claims to contain %q", m, k, p))
			}
		}

		checkAll := func(fi int, f *bloom.Filter, what string) {
			for _, key := range setKeys(sets[fi]) {
				buf := []byte(key)
				if !f.Contains(buf) {
					fail("bloom-false-negative", fmt.Sprintf("%s: inserted key %q reported absent (m=%d,k=%d)", what, key, m, k))
				}
				if string(buf) != key {
					fail("bloom-modifies-argument", fmt.Sprintf("%s: Contains changed the caller's key from %q to %q", what, key, buf))
				}
			}
			if pc, bound := popcount(f.Bytes()), int(k)*len(sets[fi]); pc > bound {
				fail("bloom-too-many-bits", fmt.Sprintf("%s: %d bits set after inserting %d distinct keys with k=%d (at most %d possible)", what, pc, len(sets[fi]), k, bound))
			}
		}

		merged, mergedDifferent := false, false
		n := rapid.IntRange(1, 40).Draw(t, "steps")
		for s := 0; s < n; s++ {
			op := rapid.IntRange(0, 19).Draw(t, "op")
			fi := rapid.IntRange(0, 1).Draw(t, "filter")
			f := filters[fi]
			switch {
			case op <= 10: // insert
				key := genKey("ins")
				orig := string(key)
				f.Insert(key)
				hist = append(hist, fmt.Sprintf("ins(%d,%q)", fi, orig))
				if string(key) != orig {
					fail("bloom-modifies-argument", fmt.Sprintf("Insert changed the caller's key from %q to %q", orig, key))
				}
				sets[fi][orig] = true
				if !f.Contains([]byte(orig)) {
					fail("bloom-false-negative", fmt.Sprintf("key %q absent right after Insert (m=%d,k=%d)", orig, m, k))
				}
			case op <= 13: // probe (false positives are only counted)
				key := genKey("probe")
				got := f.Contains(key)
				hist = append(hist, fmt.Sprintf("has(%d,%q)", fi, key))
				if sets[fi][string(key)] {
					if !got {
						fail("bloom-false-negative", fmt.Sprintf("inserted key %q reported absent", key))
					}
				} else {
					bloomProbes.Add(1)
					if got {
						bloomFalsePositives.Add(1)
					}
				}
				// "false if the filter definitely does not contain v": a query is positive exactly
				// when every bit that Insert(v) sets in an empty filter of the same shape is set
				single := bloom.NewFilter(m, k)
				single.Insert(append([]byte{}, key...))
				covered := true
				for i, b := range single.Bytes() {
					if f.Bytes()[i]&b != b {
						covered = false
					}
				}
				if got != covered {
					fail("bloom-contains-inconsistent-with-insert", fmt.Sprintf("Contains(%q)=%v but the bits Insert(%q) sets are covered=%v (m=%d,k=%d)", key, got, key, covered, m, k))
				}
			case op <= 15: // merge other into f: f becomes the filter of the union
				o := 1 - fi
				if len(sets[fi]) >= 2 && len(sets[o]) >= 2 {
					merged = true
					if strings.Join(setKeys(sets[fi]), "\x00") != strings.Join(setKeys(sets[o]), "\x00") {
						mergedDifferent = true
					}
				}
				otherBefore := append([]byte{}, filters[o].Bytes()...)
				if err := f.Merge(filters[o]); err != nil {
					fail("bloom-merge-error", fmt.Sprintf("Merge of filters with equal m,k failed: %v", err))
				}
				hist = append(hist, fmt.Sprintf("merge(%d<-%d)", fi, o))
				for key := range sets[o] {
					sets[fi][key] = true
				}
				if !bytes.Equal(otherBefore, filters[o].Bytes()) {
					fail("bloom-merge-modifies-argument", "Merge changed its argument")
				}
				// merge = union of inserted sets: identical to inserting the union into a fresh filter
				fresh := bloom.NewFilter(m, k)
				for _, key := range setKeys(sets[fi]) {
					fresh.Insert([]byte(key))
				}
				if !bytes.Equal(fresh.Bytes(), f.Bytes()) {
					fail("bloom-merge-not-union", fmt.Sprintf("merged filter differs from a filter built from the union of both key sets (m=%d,k=%d)", m, k))
				}
				checkAll(fi, f, "after Merge")
			case op == 16: // clone is an independent copy
				c := f.Clone()
				hist = append(hist, fmt.Sprintf("clone(%d)", fi))
				if !bytes.Equal(c.Bytes(), f.Bytes()) || c.K() != f.K() {
					fail("bloom-clone-differs", "Clone() differs from the original")
				}
				checkAll(fi, c, "clone")
				snap := append([]byte{}, f.Bytes()...)
				c.Insert(genKey("cloneins"))
				if !bytes.Equal(snap, f.Bytes()) {
					fail("bloom-clone-shares-memory", "inserting into the clone changed the original")
				}
			case op == 17: // reopen from bytes (the tsi1 index file path)
				buf := append([]byte{}, f.Bytes()...)
				g, err := bloom.NewFilterBuffer(buf, f.K())
				hist = append(hist, fmt.Sprintf("reopen(%d)", fi))
				if err != nil {
					fail("bloom-reopen-error", fmt.Sprintf("NewFilterBuffer(Bytes()) failed: %v", err))
				}
				checkAll(fi, g, "NewFilterBuffer(Bytes())")
				if err := g.Merge(f); err != nil {
					fail("bloom-reopen-merge", fmt.Sprintf("reopened filter cannot be merged with its origin: %v", err))
				}
				filters[fi] = g
			case op == 18: // documented Merge preconditions
				var other *bloom.Filter
				if rapid.Bool().Draw(t, "mismatchK") {
					other = bloom.NewFilter(m, k+1)
				} else {
					other = bloom.NewFilter(wantBytes*8*2, k)
				}
				before := append([]byte{}, f.Bytes()...)
				err := f.Merge(other)
				hist = append(hist, "merge-mismatch")
				if err == nil {
					fail("bloom-merge-mismatch-accepted", "Merge of filters with different m or k returned nil (documented: error)")
				}
				if !bytes.Equal(before, f.Bytes()) {
					fail("bloom-merge-mismatch-modifies", "failed Merge modified the receiver")
				}
				if err := f.Merge(nil); err != nil {
					fail("bloom-merge-nil", fmt.Sprintf("Merge(nil) = %v", err))
				}
			default: // NewFilterBuffer rejects a buffer whose bit count is not a power of two
				l := rapid.SampledFrom([]int{3, 5, 6, 7, 12, 100}).Draw(t, "badLen")
				if _, err := bloom.NewFilterBuffer(make([]byte, l), k); err == nil {
					fail("bloom-buffer-not-pow2-accepted", fmt.Sprintf("NewFilterBuffer accepted a %d-byte buffer (documented: MUST be a power of 2)", l))
				}
				hist = append(hist, fmt.Sprintf("badbuf(%d)", l))
			}
		}
		checkAll(0, filters[0], "final")
		checkAll(1, filters[1], "final")

		rec.Eval()
		switch {
		case mergedDifferent:
			rec.Class("bloom:merge-of-different-sets")
			rec.NonTrivial(fmt.Sprintf("bloom|%d|%d|%s", m, k, strings.Join(hist, " ")))
			if len(hist) < 16 && wantSample("bloom") {
				rec.Sample(map[string]any{"structure": "bloom.Filter", "m": m, "k": k, "history": strings.Join(hist, " ")})
			}
		case merged:
			rec.Class("bloom:merge-of-equal-sets")
		default:
			rec.Class("bloom:no-substantial-merge")
		}
	})
	if p := bloomProbes.Load(); p > 0 {
		rec.Extra("bloom_false_positive_rate", float64(bloomFalsePositives.Load())/float64(p))
		rec.Extra("bloom_absent_key_probes", p)
	}
}
