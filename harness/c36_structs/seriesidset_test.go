package c36_structs

import (
	"bytes"
	"fmt"
	"sort"
	"strings"
	"testing"

	"github.com/influxdata/influxdb/v2/tsdb"
	"pgregory.net/rapid"
)

type idset = map[uint64]struct{}

// container boundaries of the 32-bit roaring bitmap are multiples of 65536
var idBases = []uint64{0, 65535, 65536, 131071, 131072, 1 << 24, 1<<31 - 1, 1 << 31, 1<<32 - 70000, 1<<32 - 1}

func genID(t *rapid.T, label string) uint64 {
	var id uint64
	switch rapid.IntRange(0, 9).Draw(t, label+"_kind") {
	case 0, 1, 2, 3:
		id = uint64(rapid.IntRange(0, 60).Draw(t, label))
	case 4, 5, 6, 7:
		b := idBases[rapid.IntRange(0, len(idBases)-1).Draw(t, label+"_base")]
		off := rapid.IntRange(-20, 20).Draw(t, label+"_off")
		if off < 0 && uint64(-off) > b {
			off = 0
		}
		id = uint64(int64(b) + int64(off))
	default:
		id = uint64(rapid.Uint32().Draw(t, label+"_any"))
	}
	if id > 1<<32-1 {
		id = 1<<32 - 1
	}
	return id
}

func containers(s idset) int {
	hi := map[uint64]bool{}
	for id := range s {
		hi[id>>16] = true
	}
	return len(hi)
}

func sortedIDs(s idset) []uint64 {
	out := make([]uint64, 0, len(s))
	for id := range s {
		out = append(out, id)
	}
	sort.Slice(out, func(i, j int) bool { return out[i] < out[j] })
	return out
}

func cloneModel(s idset) idset {
	c := make(idset, len(s))
	for id := range s {
		c[id] = struct{}{}
	}
	return c
}

func TestPropSeriesIDSet(t *testing.T) {
	rec.Check(t, 8000, 80000, func(t *rapid.T) {
		const nSlots = 3
		sets := make([]*tsdb.SeriesIDSet, nSlots)
		models := make([]idset, nSlots)
		for i := range sets {
			if i == 0 && rapid.Bool().Draw(t, "ctorWithIDs") {
				ids := []uint64{genID(t, "c0"), genID(t, "c1"), genID(t, "c2")}
				sets[i] = tsdb.NewSeriesIDSet(ids...)
				models[i] = idset{}
				for _, id := range ids {
					models[i][id] = struct{}{}
				}
			} else {
				sets[i], models[i] = tsdb.NewSeriesIDSet(), idset{}
			}
		}
		var hist []string
		type unsafeBuf struct{ live, snapshot []byte }
		var unsafeBufs []unsafeBuf
		nontrivialOp := false

		fail := func(key, detail string) {
			rec.Fail(t, "TestPropSeriesIDSet", key, detail+" | history: "+strings.Join(hist, " "), map[string]any{"history": hist})
		}
		// compare a real set with a model through every read accessor
		compare := func(what string, s *tsdb.SeriesIDSet, m idset) {
			want := sortedIDs(m)
			if c := s.Cardinality(); c != uint64(len(want)) {
				fail("idset-cardinality", fmt.Sprintf("%s: Cardinality()=%d, model has %d ids", what, c, len(want)))
			}
			got := s.Slice()
			sorted := append([]uint64{}, got...)
			sort.Slice(sorted, func(i, j int) bool { return sorted[i] < sorted[j] })
			if len(sorted) != len(want) {
				fail("idset-slice", fmt.Sprintf("%s: Slice() has %d ids, model %d", what, len(sorted), len(want)))
			}
			for i := range want {
				if sorted[i] != want[i] {
					fail("idset-slice", fmt.Sprintf("%s: Slice() (sorted) [%d]=%d, model %d", what, i, sorted[i], want[i]))
				}
			}
			var each []uint64
			s.ForEach(func(id uint64) { each = append(each, id) })
			if len(each) != len(want) {
				fail("idset-foreach", fmt.Sprintf("%s: ForEach visited %d ids, model %d", what, len(each), len(want)))
			}
			for i := range want { // documented: ascending order
				if each[i] != want[i] {
					fail("idset-foreach", fmt.Sprintf("%s: ForEach visit %d = %d, model (ascending) %d", what, i, each[i], want[i]))
				}
			}
			itr := s.Iterator() // order undocumented: compared as a set, duplicates rejected
			var iterated []uint64
			for itr.HasNext() {
				iterated = append(iterated, uint64(itr.Next()))
			}
			sort.Slice(iterated, func(i, j int) bool { return iterated[i] < iterated[j] })
			if len(iterated) != len(want) {
				fail("idset-iterator", fmt.Sprintf("%s: Iterator returned %d ids, model %d", what, len(iterated), len(want)))
			}
			for i := range want {
				if iterated[i] != want[i] {
					fail("idset-iterator", fmt.Sprintf("%s: Iterator (sorted) [%d]=%d, model %d", what, i, iterated[i], want[i]))
				}
			}
			stride := len(want)/64 + 1 // neighbours of every member for small sets, of a sample for dense runs
			for i, id := range want {
				if !s.Contains(id) || !s.ContainsNoLock(id) {
					fail("idset-contains", fmt.Sprintf("%s: Contains(%d)=false for a member", what, id))
				}
				if i%stride != 0 && i != len(want)-1 {
					continue
				}
				for _, nb := range []uint64{id - 1, id + 1, id ^ 65536} {
					if nb > 1<<32-1 {
						continue
					}
					if _, ok := m[nb]; s.Contains(nb) != ok {
						fail("idset-contains", fmt.Sprintf("%s: Contains(%d)=%v, model %v", what, nb, !ok, ok))
					}
				}
			}
		}
		compareAll := func() {
			for i := range sets {
				compare(fmt.Sprintf("slot %d", i), sets[i], models[i])
			}
		}
		// after an operation only the slots it involved are compared (its inputs must be
		// unchanged, its receiver must hold the result); everything is compared by the
		// "check" operation and at the end of the history
		compareSlots := func(slots ...int) {
			for _, i := range slots {
				compare(fmt.Sprintf("slot %d", i), sets[i], models[i])
			}
		}
		spans := func(a, b int) bool { return containers(models[a]) >= 2 && containers(models[b]) >= 2 }
		other := func(label string, not int) int {
			o := rapid.IntRange(0, nSlots-2).Draw(t, label)
			if o >= not {
				o++
			}
			return o
		}

		n := rapid.IntRange(1, 60).Draw(t, "steps")
		for s := 0; s < n; s++ {
			op := rapid.IntRange(0, 33).Draw(t, "op")
			a := rapid.IntRange(0, nSlots-1).Draw(t, "slot")
			switch {
			case op <= 5:
				id := genID(t, "add")
				if rapid.Bool().Draw(t, "noLock") {
					sets[a].AddNoLock(id)
				} else {
					sets[a].Add(id)
				}
				models[a][id] = struct{}{}
				hist = append(hist, fmt.Sprintf("add(%d,%d)", a, id))
				if !sets[a].Contains(id) {
					fail("idset-add", fmt.Sprintf("Contains(%d)=false right after Add", id))
				}
			case op <= 9: // AddMany: scattered ids, or a dense run (array -> bitmap container at 4096)
				var ids []uint64
				if rapid.IntRange(0, 5).Draw(t, "dense") == 0 {
					start := genID(t, "runStart")
					l := uint64(rapid.SampledFrom([]int{50, 1000, 4095, 4097, 6000}).Draw(t, "runLen"))
					step := uint64(rapid.IntRange(1, 2).Draw(t, "runStep"))
					for i := uint64(0); i < l && start+i*step <= 1<<32-1; i++ {
						ids = append(ids, start+i*step)
					}
					hist = append(hist, fmt.Sprintf("addrun(%d,%d,len%d,step%d)", a, start, l, step))
				} else {
					for i, k := 0, rapid.IntRange(0, 12).Draw(t, "many"); i < k; i++ {
						ids = append(ids, genID(t, fmt.Sprintf("m%d", i)))
					}
					hist = append(hist, fmt.Sprintf("addmany(%d,%v)", a, ids))
				}
				sets[a].AddMany(ids...)
				for _, id := range ids {
					models[a][id] = struct{}{}
				}
			case op <= 12:
				var id uint64
				if ms := sortedIDs(models[a]); len(ms) > 0 && rapid.IntRange(0, 3).Draw(t, "removeMember") > 0 {
					id = ms[rapid.IntRange(0, len(ms)-1).Draw(t, "removeIdx")]
				} else {
					id = genID(t, "remove")
				}
				if rapid.Bool().Draw(t, "noLock") {
					sets[a].RemoveNoLock(id)
				} else {
					sets[a].Remove(id)
				}
				delete(models[a], id)
				hist = append(hist, fmt.Sprintf("remove(%d,%d)", a, id))
				if sets[a].Contains(id) {
					fail("idset-remove", fmt.Sprintf("Contains(%d)=true right after Remove", id))
				}
			case op <= 14:
				id := genID(t, "contains")
				_, want := models[a][id]
				hist = append(hist, fmt.Sprintf("contains(%d,%d)", a, id))
				if got := sets[a].Contains(id); got != want {
					fail("idset-contains", fmt.Sprintf("Contains(%d)=%v, model %v", id, got, want))
				}
			case op <= 16: // Merge(others...): s = s ∪ others, others unchanged
				var os []*tsdb.SeriesIDSet
				var oi []int
				for i := 0; i < nSlots; i++ {
					if i != a && rapid.Bool().Draw(t, fmt.Sprintf("mergeWith%d", i)) {
						os, oi = append(os, sets[i]), append(oi, i)
					}
				}
				for _, i := range oi {
					if spans(a, i) {
						nontrivialOp = true
					}
				}
				sets[a].Merge(os...)
				for _, i := range oi {
					for id := range models[i] {
						models[a][id] = struct{}{}
					}
				}
				hist = append(hist, fmt.Sprintf("merge(%d<-%v)", a, oi))
				compareSlots(append([]int{a}, oi...)...)
			case op <= 18: // MergeInPlace (also with itself: guarded no-op)
				b := rapid.IntRange(0, nSlots-1).Draw(t, "other")
				if spans(a, b) && a != b {
					nontrivialOp = true
				}
				sets[a].MergeInPlace(sets[b])
				for id := range models[b] {
					models[a][id] = struct{}{}
				}
				hist = append(hist, fmt.Sprintf("mergeinplace(%d<-%d)", a, b))
				compareSlots(a, b)
			case op <= 20: // And -> new set
				b := other("other", a)
				if spans(a, b) {
					nontrivialOp = true
				}
				res := sets[a].And(sets[b])
				want := idset{}
				for id := range models[a] {
					if _, ok := models[b][id]; ok {
						want[id] = struct{}{}
					}
				}
				hist = append(hist, fmt.Sprintf("and(%d,%d)", a, b))
				compare("And result", res, want)
				if inter := sets[a].Intersects(sets[b]); inter != (len(want) > 0) {
					fail("idset-intersects", fmt.Sprintf("Intersects=%v but intersection has %d ids", inter, len(want)))
				}
				if rapid.Bool().Draw(t, "keep") {
					c := 3 - a - b
					sets[c], models[c] = res, want
					hist = append(hist, fmt.Sprintf("->slot%d", c))
				}
				compareSlots(a, b)
			case op <= 22: // AndNot -> new set
				b := other("other", a)
				if spans(a, b) {
					nontrivialOp = true
				}
				res := sets[a].AndNot(sets[b])
				want := idset{}
				for id := range models[a] {
					if _, ok := models[b][id]; !ok {
						want[id] = struct{}{}
					}
				}
				hist = append(hist, fmt.Sprintf("andnot(%d,%d)", a, b))
				compare("AndNot result", res, want)
				if rapid.Bool().Draw(t, "keep") {
					c := 3 - a - b
					sets[c], models[c] = res, want
					hist = append(hist, fmt.Sprintf("->slot%d", c))
				}
				compareSlots(a, b)
			case op <= 24: // Diff: in-place difference
				b := other("other", a)
				if spans(a, b) {
					nontrivialOp = true
				}
				sets[a].Diff(sets[b])
				for id := range models[b] {
					delete(models[a], id)
				}
				hist = append(hist, fmt.Sprintf("diff(%d,%d)", a, b))
				compareSlots(a, b)
			case op <= 26: // Equals / Intersects
				b := rapid.IntRange(0, nSlots-1).Draw(t, "other")
				if a != b && spans(a, b) {
					nontrivialOp = true
				}
				wantEq := len(models[a]) == len(models[b])
				wantInter := false
				for id := range models[a] {
					if _, ok := models[b][id]; ok {
						wantInter = true
					} else {
						wantEq = false
					}
				}
				hist = append(hist, fmt.Sprintf("equals(%d,%d)", a, b))
				if got := sets[a].Equals(sets[b]); got != wantEq {
					fail("idset-equals", fmt.Sprintf("Equals=%v, models equal=%v", got, wantEq))
				}
				if a != b {
					if got := sets[a].Intersects(sets[b]); got != wantInter {
						fail("idset-intersects", fmt.Sprintf("Intersects=%v, models intersect=%v", got, wantInter))
					}
				}
			case op <= 28: // Clone: deep copy, stored in another slot so later ops test independence
				b := other("other", a)
				if rapid.Bool().Draw(t, "noLock") {
					sets[b] = sets[a].CloneNoLock()
				} else {
					sets[b] = sets[a].Clone()
				}
				models[b] = cloneModel(models[a])
				hist = append(hist, fmt.Sprintf("clone(%d->%d)", a, b))
				if !sets[b].Equals(sets[a]) {
					fail("idset-clone", "Clone() is not Equal to its origin")
				}
				compareSlots(a, b)
			case op <= 30: // serialization round trip into a fresh set
				if containers(models[a]) >= 2 {
					nontrivialOp = true
				}
				var buf bytes.Buffer
				nw, err := sets[a].WriteTo(&buf)
				if err != nil || nw != int64(buf.Len()) {
					fail("idset-writeto", fmt.Sprintf("WriteTo returned (%d,%v) but wrote %d bytes", nw, err, buf.Len()))
				}
				data := append([]byte{}, buf.Bytes()...)
				fresh := tsdb.NewSeriesIDSet()
				mode := "unmarshal"
				if rapid.Bool().Draw(t, "unsafe") {
					mode = "unmarshal-unsafe"
					if err := fresh.UnmarshalBinaryUnsafe(data); err != nil {
						fail("idset-unmarshal", fmt.Sprintf("UnmarshalBinaryUnsafe(WriteTo()) failed: %v", err))
					}
					// the index files hand in read-only mmapped memory: the buffer must never be written
					unsafeBufs = append(unsafeBufs, unsafeBuf{live: data, snapshot: append([]byte{}, data...)})
				} else {
					if err := fresh.UnmarshalBinary(data); err != nil {
						fail("idset-unmarshal", fmt.Sprintf("UnmarshalBinary(WriteTo()) failed: %v", err))
					}
					for i := range data { // the safe variant must not keep references
						data[i] ^= 0xa5
					}
				}
				hist = append(hist, fmt.Sprintf("%s(%d)", mode, a))
				compare(mode+" result", fresh, models[a])
				if !fresh.Equals(sets[a]) || !sets[a].Equals(fresh) {
					fail("idset-roundtrip-equals", "round-tripped set is not Equal to its origin")
				}
				if rapid.Bool().Draw(t, "keep") {
					b := other("other", a)
					sets[b], models[b] = fresh, cloneModel(models[a])
					hist = append(hist, fmt.Sprintf("->slot%d", b))
				}
			case op >= 32:
				hist = append(hist, "check")
				compareAll()
			default:
				sets[a].Clear()
				models[a] = idset{}
				hist = append(hist, fmt.Sprintf("clear(%d)", a))
				compareSlots(a)
			}
		}
		compareAll()
		for i, ub := range unsafeBufs {
			if !bytes.Equal(ub.live, ub.snapshot) {
				fail("idset-unsafe-buffer-written", fmt.Sprintf("buffer %d handed to UnmarshalBinaryUnsafe was modified by later set operations", i))
			}
		}

		rec.Eval()
		if nontrivialOp {
			rec.Class("idset:binary-op-or-roundtrip-across-containers")
			h := strings.Join(hist, " ")
			rec.NonTrivial("idset|" + h)
			if len(h) < 400 && wantSample("idset") {
				rec.Sample(map[string]any{"structure": "tsdb.SeriesIDSet", "history": h})
			}
		} else {
			rec.Class("idset:single-container-only")
		}
		if len(unsafeBufs) > 0 {
			rec.Class("idset:unsafe-unmarshal-used")
		}
	})
}
