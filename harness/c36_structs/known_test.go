package c36_structs

import (
	"fmt"
	"testing"

	"github.com/influxdata/influxdb/v2/pkg/radix"
	"github.com/influxdata/influxdb/v2/pkg/rhh"
)

// TestKnown_rhh_empty_key_len: HashMap.insert computes `match := bytes.Equal(elems[pos].key, key)`
// before looking at whether the slot is occupied, so the empty key "matches" every free slot:
// Put reports an overwrite and decrements n again. Len() is then short by one although Get, Keys
// and Elem all show the key. No production caller stores an empty key (measurement names, tag
// keys/values and series keys are never empty).
func TestKnown_rhh_empty_key_len(t *testing.T) {
	m := rhh.NewHashMap(rhh.Options{Capacity: 4, LoadFactor: 90})
	m.Put([]byte{}, 7)
	l1, g1, k1 := m.Len(), m.Get([]byte{}), len(m.Keys())
	reproduced := l1 == 0 && g1 == interface{}(7) && k1 == 1
	rec.Eval()
	rec.Known(t, "TestKnown_rhh_empty_key_len", knownRHHEmptyKey, reproduced,
		fmt.Sprintf("rhh.HashMap: after Put([]byte{}, 7) on an empty map Len()=%d but Get(empty)=%v and Keys() has %d key(s): the empty key is counted as an overwrite of a free slot", l1, g1, k1),
		map[string]any{"ops": "NewHashMap(cap 4, lf 90); Put([]byte{},7); Len()", "len": l1, "keys": k1})
}

// TestKnown_radix_minmax_after_deleteprefix: deletePrefix clears the matched node (leaf and
// edges) but leaves it linked from its parent. Minimum() follows edges[0] and Maximum() follows
// the last edge; when they reach such an empty node they report "not found" although the tree
// still holds keys. DeletePrefix/Minimum/Maximum have no production caller (the tsm1 engine only
// uses Insert and Get).
func TestKnown_radix_minmax_after_deleteprefix(t *testing.T) {
	tr := radix.New()
	tr.Insert([]byte("ab"), 1)
	tr.Insert([]byte("ac"), 2)
	n := tr.DeletePrefix([]byte("ab"))
	k, v, ok := tr.Minimum()
	gv, gok := tr.Get([]byte("ac"))
	reproduced := n == 1 && tr.Len() == 1 && gok && gv == 2 && !ok
	rec.Eval()
	rec.Known(t, "TestKnown_radix_minmax_after_deleteprefix", knownRadixMinMax, reproduced,
		fmt.Sprintf("radix.Tree: Insert(ab,1) Insert(ac,2) DeletePrefix(ab)=%d; Len()=%d, Get(ac)=(%d,%v) but Minimum()=(%q,%d,%v): the emptied node stays linked from its parent and Minimum/Maximum stop there", n, tr.Len(), gv, gok, k, v, ok),
		map[string]any{"ops": "Insert(ab,1) Insert(ac,2) DeletePrefix(ab) Minimum()", "min_found": ok, "len": tr.Len()})
}
