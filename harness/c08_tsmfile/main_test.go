package c08_tsmfile

import (
	"testing"

	"verifharness/internal/ev"
)

func TestMain(m *testing.M) { ev.Main(m) }
