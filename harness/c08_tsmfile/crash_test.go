package c08_tsmfile

import (
	"fmt"
	"io"
	"os"
	"path/filepath"
	"strings"
	"testing"

	"github.com/influxdata/influxdb/v2/pkg/verifhook"
	"github.com/influxdata/influxdb/v2/tsdb/engine/tsm1"
	"pgregory.net/rapid"

	"verifharness/internal/ev"
	"verifharness/internal/scratch"
)

func copyDir(src string) (string, error) {
	dst, err := scratch.Dir("c08-img-")
	if err != nil {
		return "", err
	}
	ents, err := os.ReadDir(src)
	if err != nil {
		return "", err
	}
	for _, e := range ents {
		in, err := os.Open(filepath.Join(src, e.Name()))
		if err != nil {
			return "", err
		}
		out, err := os.Create(filepath.Join(dst, e.Name()))
		if err != nil {
			in.Close()
			return "", err
		}
		_, err = io.Copy(out, in)
		in.Close()
		out.Close()
		if err != nil {
			return "", err
		}
	}
	return dst, nil
}

func findTmp(dir string) string {
	m, _ := filepath.Glob(filepath.Join(dir, "*.tombstone.tmp"))
	if len(m) == 1 {
		return m[0]
	}
	return ""
}

// truncationOffsets: every offset in the thorough tier; in the quick tier the first and last 9
// bytes of the file and of the region appended by the interrupted commit, plus evenly spread ones.
func truncationOffsets(size, oldSize int64) []int64 {
	set := map[int64]bool{}
	add := func(o int64) {
		if o >= 0 && o < size {
			set[o] = true
		}
	}
	if ev.Thorough() || size <= 40 {
		for o := int64(0); o < size; o++ {
			add(o)
		}
	} else {
		for i := int64(0); i < 9; i++ {
			add(size - 1 - i) // trailer of the new gzip member
			add(oldSize + i)  // header of the new gzip member
		}
		for i := int64(0); i < 4; i++ {
			add(i) // file header
			add(oldSize - 1 - i)
		}
		for i := int64(1); i < 5; i++ {
			add(oldSize + (size-oldSize)*i/5)
		}
	}
	var out []int64
	for o := range set {
		out = append(out, o)
	}
	// deterministic order
	for i := range out {
		for j := i + 1; j < len(out); j++ {
			if out[j] < out[i] {
				out[i], out[j] = out[j], out[i]
			}
		}
	}
	return out
}

// TestPropTombstoneCrash interrupts the commit of one delete (process-crash model): a copy of
// the directory is taken inside Tombstoner.commit at tsm1.tombstone.after-tmp-write (temporary
// file complete, not renamed) and at tsm1.tombstone.after-rename, and the first image is also
// tried with its .tombstone.tmp cut at byte offsets. Every image must open, must show exactly
// the old or exactly the new tombstone set, must accept a further delete (after the engine's
// start-up removal of *.tmp) and must show that delete after another reopen.
func TestPropTombstoneCrash(t *testing.T) {
	rec.Assume("crash model for tombstones: process crash — the image holds what reached write(2)/rename(2) at the hook point; truncated images cut only the not-yet-renamed .tombstone.tmp; loss of un-fsynced data after rename is not modelled; stale *.tmp files are removed before a follow-up delete as Engine.cleanup does at start-up")
	rec.Check(t, 100, 300, func(t *rapid.T) {
		c := genContent(t, 6)
		v := writerVariant{DiskIndex: rapid.Bool().Draw(t, "diskIndex"), WriteBlock: rapid.Bool().Draw(t, "writeBlock")}
		probes := probeKeys(t, c)
		dir := mkdir(t)
		defer os.RemoveAll(dir)
		defer flushKnown()
		path, err := writeFile(dir, c, v)
		if err != nil {
			t.Fatalf("harness: %v", err)
		}
		r, err := openReader(path)
		if err != nil {
			t.Fatalf("harness: open: %v", err)
		}
		defer func() { r.Close() }()
		old := newTombModel()
		var log []string
		caseJSON := func() any { return map[string]any{"content": c.canon(), "ops": log} }

		genCommitted := func(label string) tombOp {
			for {
				op, _ := genTombOp(t, c, probes)
				if op.Kind != "reopen" && op.Commit {
					return op
				}
			}
		}
		for i, n := 0, rapid.IntRange(0, 2).Draw(t, "nPrior"); i < n; i++ {
			op := genCommitted("prior")
			log = append(log, op.String())
			if err := applyTombOp(r, c, old, op); err != nil {
				rec.Fail(t, "TestPropTombstoneCrash", "delete-error", err.Error(), caseJSON())
			}
		}
		var oldSize int64
		if st, err := os.Stat(strings.TrimSuffix(path, ".tsm") + ".tombstone"); err == nil {
			oldSize = st.Size()
		}

		// the interrupted delete
		final := genCommitted("final")
		log = append(log, "INTERRUPTED: "+final.String())
		next := old.clone()
		var imgA, imgB string
		var hookErr error
		verifhook.Set(func(name, detail string) {
			if !strings.HasPrefix(detail, dir) {
				return
			}
			switch {
			case name == "tsm1.tombstone.after-tmp-write" && imgA == "":
				imgA, hookErr = copyDir(dir)
			case name == "tsm1.tombstone.after-rename" && imgB == "":
				imgB, hookErr = copyDir(dir)
			}
		})
		err = applyTombOp(r, c, next, final)
		verifhook.Set(nil)
		defer func() {
			for _, d := range []string{imgA, imgB} {
				if d != "" {
					os.RemoveAll(d)
				}
			}
		}()
		if err != nil {
			rec.Fail(t, "TestPropTombstoneCrash", "delete-error", err.Error(), caseJSON())
		}
		if hookErr != nil {
			t.Fatalf("harness: copying the crash image: %v", hookErr)
		}
		rec.Eval()
		if d := checkTombstoned(r, c, next, probes); !d.ok() {
			rec.Fail(t, "TestPropTombstoneCrash", d.key, "live reader after the delete: "+d.detail, caseJSON())
		}
		if imgA == "" {
			rec.Class("crash:delete-wrote-nothing") // every call was skipped (no overlap with the file)
			return
		}
		if imgB == "" {
			rec.Fail(t, "TestPropTombstoneCrash", "hook-order", "commit reached after-tmp-write but not after-rename although it returned success", caseJSON())
		}

		// follow-up delete used on recovered images
		follow := genCommitted("follow")

		// examine opens the image, classifies its tombstone set and (optionally) continues on it
		examine := func(img, what string, doFollow bool) {
			p := filepath.Join(img, filepath.Base(path))
			ir, err := openReader(p)
			if err != nil {
				rec.Fail(t, "TestPropTombstoneCrash", "image-unreadable", fmt.Sprintf("%s: NewTSMReader fails: %v", what, err), caseJSON())
			}
			defer func() { ir.Close() }()
			dOld := checkTombstoned(ir, c, old, probes)
			dNew := checkTombstoned(ir, c, next, probes)
			var m *tombModel
			switch {
			case dOld.ok():
				m = old.clone()
				rec.Class("crash:image-shows:old-set")
			case dNew.ok():
				m = next.clone()
				rec.Class("crash:image-shows:new-set")
			default:
				rec.Fail(t, "TestPropTombstoneCrash", "neither-old-nor-new",
					fmt.Sprintf("%s: the reopened image shows neither the old tombstone set (%s) nor the new one (%s)", what, dOld.detail, dNew.detail), caseJSON())
			}
			if !doFollow {
				return
			}
			// what Engine.cleanup does before the file store opens: remove *.tmp
			tmps, _ := filepath.Glob(filepath.Join(img, "*.tmp"))
			for _, f := range tmps {
				os.Remove(f)
			}
			if err := applyTombOp(ir, c, m, follow); err != nil {
				rec.Fail(t, "TestPropTombstoneCrash", "delete-after-recovery", fmt.Sprintf("%s: %s on the recovered file: %v", what, follow, err), caseJSON())
			}
			if d := checkTombstoned(ir, c, m, probes); !d.ok() {
				rec.Fail(t, "TestPropTombstoneCrash", d.key, fmt.Sprintf("%s, then %s: %s", what, follow, d.detail), caseJSON())
			}
			ir.Close()
			if ir, err = openReader(p); err != nil {
				rec.Fail(t, "TestPropTombstoneCrash", "image-unreadable", fmt.Sprintf("%s, then %s, reopen: %v", what, follow, err), caseJSON())
			}
			if d := checkTombstoned(ir, c, m, probes); !d.ok() {
				rec.Fail(t, "TestPropTombstoneCrash", d.key, fmt.Sprintf("%s, then %s, reopen: %s", what, follow, d.detail), caseJSON())
			}
		}

		// truncated variants of image A (before examine(imgA) modifies it)
		tmp := findTmp(imgA)
		if tmp == "" {
			rec.Fail(t, "TestPropTombstoneCrash", "no-tmp-at-hook", "no .tombstone.tmp in the image taken at after-tmp-write", caseJSON())
		}
		st, _ := os.Stat(tmp)
		offs := truncationOffsets(st.Size(), oldSize)
		for i, off := range offs {
			func() {
				img, err := copyDir(imgA)
				if err != nil {
					t.Fatalf("harness: %v", err)
				}
				defer os.RemoveAll(img) // also when examine fails the case
				if err := os.Truncate(findTmp(img), off); err != nil {
					t.Fatalf("harness: %v", err)
				}
				examine(img, fmt.Sprintf("crash with .tombstone.tmp cut at %d of %d bytes", off, st.Size()), i%8 == 0)
			}()
			rec.Class("crash:image:truncated-tmp")
		}
		examine(imgA, "crash at tsm1.tombstone.after-tmp-write", true)
		rec.Class("crash:image:after-tmp-write")
		examine(imgB, "crash at tsm1.tombstone.after-rename", true)
		rec.Class("crash:image:after-rename")

		changed := false
		for _, kd := range c.keys {
			if len(old.visible(kd)) != len(next.visible(kd)) {
				changed = true
			}
		}
		if changed {
			rec.Class("crash:interrupted-delete-hides-values")
			rec.NonTrivial("crash|" + c.canon() + strings.Join(log, "|") + follow.String())
			if rec.WantSample() && len(c.keys) <= 3 {
				rec.Sample(map[string]any{"test": "crash", "content": c.canon(), "ops": log, "follow_up": follow.String(), "truncation_offsets": len(offs)})
			}
		} else {
			rec.Class("crash:interrupted-delete-hides-nothing")
		}
	})
}

var _ = tsm1.TombstoneFileExtension
