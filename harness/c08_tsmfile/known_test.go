package c08_tsmfile

import (
	"fmt"
	"os"
	"testing"

	"github.com/influxdata/influxdb/v2/tsdb/engine/tsm1"

	"verifharness/internal/scratch"
)

func knownFile(t *testing.T, c *content) (*tsm1.TSMReader, func()) {
	dir, err := scratch.Dir("c08-known-")
	if err != nil {
		t.Fatal(err)
	}
	path, err := writeFile(dir, c, writerVariant{})
	if err != nil {
		t.Fatal(err)
	}
	r, err := openReader(path)
	if err != nil {
		t.Fatal(err)
	}
	return r, func() { r.Close(); os.RemoveAll(dir) }
}

func oneKey(key string, ts ...int64) *content {
	kd := &keyData{key: []byte(key), typ: tsm1.BlockInteger}
	var b block
	for i, t := range ts {
		b.vals = append(b.vals, tsm1.NewIntegerValue(t, int64(i)))
	}
	b.min, b.max = ts[0], ts[len(ts)-1]
	b.enc, _ = tsm1.Values(b.vals).Encode(nil)
	kd.blocks = []block{b}
	return &content{keys: []*keyData{kd}}
}

func TestKnown_timerange_max_zero_for_negative_times(t *testing.T) {
	r, done := knownFile(t, oneKey("cpu#!~#v", -20, -10))
	defer done()
	min, max := r.TimeRange()
	rec.Known(t, "TestKnown_timerange_max_zero_for_negative_times", knownTimeRange, min == -20 && max == 0,
		fmt.Sprintf("file with one key and timestamps -20,-10: TimeRange() = [%d,%d], want [-20,-10]; OverlapsTimeRange(-5,-1) = %v", min, max, r.OverlapsTimeRange(-5, -1)),
		map[string]any{"timestamps": []int64{-20, -10}})
}

func TestKnown_seek_past_last_key_returns_last(t *testing.T) {
	r, done := knownFile(t, oneKey("a", 1, 2))
	defer done()
	got := r.Seek([]byte("a\x00"))
	rec.Known(t, "TestKnown_seek_past_last_key_returns_last", knownSeekLast, got == 0 && r.KeyCount() == 1,
		fmt.Sprintf("file with the single key \"a\": Seek(\"a\\x00\") = %d, want the insertion position %d (KeyCount)", got, r.KeyCount()),
		map[string]any{"keys": []string{"a"}, "probe": "a\x00"})
}
