package c08_tsmfile

import (
	"bytes"
	"errors"
	"fmt"
	"math"
	"os"
	"sort"
	"strings"
	"testing"

	"github.com/influxdata/influxdb/v2/tsdb/engine/tsm1"
	"pgregory.net/rapid"

	"verifharness/internal/scratch"
)

func mkdir(t *rapid.T) string {
	dir, err := scratch.Dir("c08-")
	if err != nil {
		t.Fatalf("harness: scratch dir: %v", err)
	}
	return dir
}

// TestPropRoundTrip: generated content -> TSMWriter (4 variants) -> NewTSMReader -> every index
// lookup and read path compared with the content.
func TestPropRoundTrip(t *testing.T) {
	rec.Check(t, 1000, 20000, func(t *rapid.T) {
		c := genContent(t, 30)
		v := writerVariant{DiskIndex: rapid.Bool().Draw(t, "diskIndex"), WriteBlock: rapid.Bool().Draw(t, "writeBlock")}
		probes := probeKeys(t, c)
		dir := mkdir(t)
		defer os.RemoveAll(dir)
		defer flushKnown()
		caseJSON := map[string]any{"content": c.canon(), "writer": v}

		path, err := writeFile(dir, c, v)
		if err != nil {
			rec.Fail(t, "TestPropRoundTrip", "write-error", fmt.Sprintf("writing sorted keys and blocks failed: %v", err), caseJSON)
		}
		if left, _ := os.ReadDir(dir); len(left) != 1 {
			rec.Fail(t, "TestPropRoundTrip", "writer-leftovers", fmt.Sprintf("after Close the directory holds %d files (temporary index not removed?)", len(left)), caseJSON)
		}
		r, err := openReader(path)
		if err != nil {
			rec.Fail(t, "TestPropRoundTrip", "open-error", fmt.Sprintf("NewTSMReader on a freshly written file: %v", err), caseJSON)
		}
		defer r.Close()
		rec.Eval()
		if d := checkFresh(r, c, probes); !d.ok() {
			rec.Fail(t, "TestPropRoundTrip", d.key, d.detail, caseJSON)
		}

		// classes
		rec.Class(fmt.Sprintf("roundtrip:writer:disk=%v,writeblock=%v", v.DiskIndex, v.WriteBlock))
		multi := 0
		hasLong := false
		for _, k := range c.keys {
			if len(k.blocks) >= 2 {
				multi++
			}
			if len(k.key) == maxKeyLen {
				hasLong = true
			}
		}
		if hasLong {
			rec.Class("roundtrip:key-of-65535-bytes")
		}
		if _, max := c.timeRange(); max < 0 {
			rec.Class("roundtrip:all-timestamps-negative")
		}
		between := false
		for _, p := range probes {
			if bytes.Compare(p, c.keys[0].key) > 0 && bytes.Compare(p, c.keys[len(c.keys)-1].key) < 0 {
				between = true
			}
		}
		if len(c.keys) >= 3 && multi >= 3 && between {
			rec.Class("roundtrip:non-trivial")
			rec.NonTrivial("rt|" + c.canon() + fmt.Sprint(v))
			if rec.WantSample() && len(c.keys) <= 4 {
				rec.Sample(map[string]any{"test": "roundtrip", "content": c.canon(), "writer": v, "probes": len(probes)})
			}
		} else {
			rec.Class("roundtrip:small")
		}
	})
}

// TestPropKeyTooLong: a key of 65 536 bytes is refused by Write and WriteBlock with
// ErrMaxKeyLengthExceeded and leaves the rest of the file intact.
func TestPropKeyTooLong(t *testing.T) {
	rec.Check(t, 40, 400, func(t *rapid.T) {
		c := genContent(t, 4)
		v := writerVariant{DiskIndex: rapid.Bool().Draw(t, "diskIndex"), WriteBlock: rapid.Bool().Draw(t, "writeBlock")}
		dir := mkdir(t)
		defer os.RemoveAll(dir)
		defer flushKnown()
		// the oversized key sorts after everything (0xff...), it is offered last
		long := bytes.Repeat([]byte{0xff}, maxKeyLen+1)
		f, err := os.Create(dir + "/000000001-000000001.tsm.tmp")
		if err != nil {
			t.Fatalf("harness: %v", err)
		}
		var w tsm1.TSMWriter
		if v.DiskIndex {
			w, err = tsm1.NewTSMWriterWithDiskBuffer(f)
		} else {
			w, err = tsm1.NewTSMWriter(f)
		}
		if err != nil {
			t.Fatalf("harness: %v", err)
		}
		for _, k := range c.keys {
			for _, b := range k.blocks {
				if err := w.Write(k.key, b.vals); err != nil {
					t.Fatalf("harness: %v", err)
				}
			}
		}
		b := c.keys[0].blocks[0]
		if v.WriteBlock {
			err = w.WriteBlock(long, b.min, b.max, b.enc)
		} else {
			err = w.Write(long, b.vals)
		}
		rec.Eval()
		rec.Class("keytoolong")
		if !errors.Is(err, tsm1.ErrMaxKeyLengthExceeded) {
			rec.Fail(t, "TestPropKeyTooLong", "oversized-key-accepted", fmt.Sprintf("writing a %d-byte key returned %v, want ErrMaxKeyLengthExceeded", len(long), err), nil)
		}
		if err := w.WriteIndex(); err != nil {
			rec.Fail(t, "TestPropKeyTooLong", "write-error", fmt.Sprintf("WriteIndex after a refused key: %v", err), nil)
		}
		if err := w.Close(); err != nil {
			rec.Fail(t, "TestPropKeyTooLong", "write-error", fmt.Sprintf("Close after a refused key: %v", err), nil)
		}
		r, err := openReader(f.Name())
		if err != nil {
			rec.Fail(t, "TestPropKeyTooLong", "open-error", fmt.Sprintf("NewTSMReader: %v", err), nil)
		}
		defer r.Close()
		if d := checkFresh(r, c, nil); !d.ok() {
			rec.Fail(t, "TestPropKeyTooLong", d.key, d.detail, map[string]any{"content": c.canon()})
		}
	})
}

// ---------------------------------------------------------------------------------------------
// tombstones

type delCall struct {
	Keys     [][]byte `json:"-"`
	KeysDesc []string `json:"keys"`
	Min      int64    `json:"min"`
	Max      int64    `json:"max"`
}

type tombOp struct {
	Kind   string    `json:"kind"` // batch | deleterange | delete | reopen
	Calls  []delCall `json:"calls,omitempty"`
	Commit bool      `json:"commit"`
}

func (o tombOp) String() string {
	var sb strings.Builder
	sb.WriteString(o.Kind)
	for _, c := range o.Calls {
		fmt.Fprintf(&sb, "{%s [%d,%d]}", strings.Join(c.KeysDesc, ","), c.Min, c.Max)
	}
	if o.Kind == "batch" {
		fmt.Fprintf(&sb, " commit=%v", o.Commit)
	}
	return sb.String()
}

// genRange draws a closed range relative to the timestamps of one stored key: inside a block,
// whole blocks, everything, beyond the ends, or the int64 extremes.
func genRange(t *rapid.T, c *content) (int64, int64, bool) {
	kd := c.keys[rapid.IntRange(0, len(c.keys)-1).Draw(t, "rangeKey")]
	var tss []int64
	for _, v := range kd.all() {
		tss = append(tss, v.UnixNano())
	}
	pick := func(label string) int64 {
		ts := tss[rapid.IntRange(0, len(tss)-1).Draw(t, label)]
		switch rapid.IntRange(0, 7).Draw(t, label+"-adj") {
		case 0:
			if ts > math.MinInt64 {
				ts--
			}
		case 1:
			if ts < math.MaxInt64 {
				ts++
			}
		}
		return ts
	}
	a, b := pick("rmin"), pick("rmax")
	if a > b {
		a, b = b, a
	}
	switch rapid.IntRange(0, 11).Draw(t, "rangeShape") {
	case 0:
		a = math.MinInt64
	case 1:
		b = math.MaxInt64
	case 2:
		a, b = math.MinInt64, math.MaxInt64
	case 3:
		a, b = tss[0], tss[len(tss)-1] // exactly the key's span
	}
	// partial = covers part of some block of that key but not all of it
	partial := false
	for _, blk := range kd.blocks {
		in, out := 0, 0
		for _, v := range blk.vals {
			if a <= v.UnixNano() && v.UnixNano() <= b {
				in++
			} else {
				out++
			}
		}
		if in > 0 && out > 0 {
			partial = true
		}
	}
	return a, b, partial
}

func genKeySubset(t *rapid.T, c *content, probes [][]byte) ([][]byte, []string) {
	n := rapid.IntRange(1, 4).Draw(t, "nDelKeys")
	set := map[string][]byte{}
	for i := 0; i < n; i++ {
		if len(probes) > 0 && rapid.IntRange(0, 5).Draw(t, "absentKey") == 0 {
			p := probes[rapid.IntRange(0, len(probes)-1).Draw(t, "probeIdx")]
			set[string(p)] = p
		} else {
			k := c.keys[rapid.IntRange(0, len(c.keys)-1).Draw(t, "keyIdx")].key
			set[string(k)] = k
		}
	}
	var keys [][]byte
	for _, k := range set {
		keys = append(keys, k)
	}
	sort.Slice(keys, func(i, j int) bool { return bytes.Compare(keys[i], keys[j]) < 0 }) // documented: must be sorted
	desc := make([]string, len(keys))
	for i, k := range keys {
		desc[i] = kstr(k)
	}
	return keys, desc
}

func genTombOp(t *rapid.T, c *content, probes [][]byte) (tombOp, bool) {
	partial := false
	call := func() delCall {
		keys, desc := genKeySubset(t, c, probes)
		a, b, p := genRange(t, c)
		if p {
			for _, k := range keys {
				if kd := c.find(k); kd != nil {
					for _, blk := range kd.blocks {
						in, out := 0, 0
						for _, v := range blk.vals {
							if a <= v.UnixNano() && v.UnixNano() <= b {
								in++
							} else {
								out++
							}
						}
						if in > 0 && out > 0 {
							partial = true
						}
					}
				}
			}
		}
		return delCall{Keys: keys, KeysDesc: desc, Min: a, Max: b}
	}
	switch rapid.IntRange(0, 9).Draw(t, "tombOp") {
	case 0, 1, 2, 3:
		op := tombOp{Kind: "batch", Commit: rapid.IntRange(0, 4).Draw(t, "commit") != 0}
		for i, n := 0, rapid.IntRange(1, 3).Draw(t, "nCalls"); i < n; i++ {
			op.Calls = append(op.Calls, call())
		}
		return op, partial && op.Commit
	case 4, 5, 6:
		return tombOp{Kind: "deleterange", Calls: []delCall{call()}, Commit: true}, partial
	case 7:
		keys, desc := genKeySubset(t, c, probes)
		return tombOp{Kind: "delete", Calls: []delCall{{Keys: keys, KeysDesc: desc, Min: math.MinInt64, Max: math.MaxInt64}}, Commit: true}, false
	default:
		return tombOp{Kind: "reopen"}, false
	}
}

func copyKeys(keys [][]byte) [][]byte {
	out := make([][]byte, len(keys))
	for i, k := range keys {
		out[i] = append([]byte(nil), k...)
	}
	return out
}

// applyTombOp runs the op on the reader and, when it committed, on the model.
func applyTombOp(r *tsm1.TSMReader, c *content, m *tombModel, op tombOp) error {
	switch op.Kind {
	case "batch":
		b := r.BatchDelete()
		for _, cl := range op.Calls {
			if err := b.DeleteRange(copyKeys(cl.Keys), cl.Min, cl.Max); err != nil {
				b.Rollback()
				return fmt.Errorf("BatchDelete.DeleteRange: %w", err)
			}
		}
		if !op.Commit {
			return b.Rollback()
		}
		if err := b.Commit(); err != nil {
			return fmt.Errorf("Commit: %w", err)
		}
	case "deleterange":
		cl := op.Calls[0]
		if err := r.DeleteRange(copyKeys(cl.Keys), cl.Min, cl.Max); err != nil {
			return fmt.Errorf("DeleteRange: %w", err)
		}
	case "delete":
		if err := r.Delete(copyKeys(op.Calls[0].Keys)); err != nil {
			return fmt.Errorf("Delete: %w", err)
		}
	}
	if op.Commit {
		for _, cl := range op.Calls {
			m.add(c, cl.Keys, cl.Min, cl.Max)
		}
	}
	return nil
}

func TestPropTombstones(t *testing.T) {
	rec.Check(t, 800, 12000, func(t *rapid.T) {
		c := genContent(t, 8)
		v := writerVariant{DiskIndex: rapid.Bool().Draw(t, "diskIndex"), WriteBlock: rapid.Bool().Draw(t, "writeBlock")}
		probes := probeKeys(t, c)
		dir := mkdir(t)
		defer os.RemoveAll(dir)
		path, err := writeFile(dir, c, v)
		if err != nil {
			t.Fatalf("harness: %v", err)
		}
		r, err := openReader(path)
		if err != nil {
			rec.Fail(t, "TestPropTombstones", "open-error", fmt.Sprintf("NewTSMReader: %v", err), map[string]any{"content": c.canon()})
		}
		defer func() { r.Close() }()
		defer flushKnown()
		m := newTombModel()
		var log []string
		caseJSON := func() any { return map[string]any{"content": c.canon(), "ops": log} }
		nops := rapid.IntRange(1, 7).Draw(t, "nops")
		sawPartial, sawReopenAfterPartial, sawRollback := false, false, false
		for i := 0; i < nops; i++ {
			op, partial := genTombOp(t, c, probes)
			log = append(log, op.String())
			if op.Kind == "reopen" {
				if err := r.Close(); err != nil {
					rec.Fail(t, "TestPropTombstones", "close-error", err.Error(), caseJSON())
				}
				if r, err = openReader(path); err != nil {
					rec.Fail(t, "TestPropTombstones", "reopen-error", fmt.Sprintf("NewTSMReader after tombstones were written: %v", err), caseJSON())
				}
				if sawPartial {
					sawReopenAfterPartial = true
				}
			} else if err := applyTombOp(r, c, m, op); err != nil {
				rec.Fail(t, "TestPropTombstones", "delete-error", err.Error(), caseJSON())
			}
			sawPartial = sawPartial || partial
			if op.Kind == "batch" && !op.Commit {
				sawRollback = true
			}
			rec.Class("tomb:op:" + op.Kind)
			if d := checkTombstoned(r, c, m, probes); !d.ok() {
				rec.Fail(t, "TestPropTombstones", d.key, "after "+op.String()+": "+d.detail, caseJSON())
			}
		}
		// persistence: close, reopen, same picture
		if err := r.Close(); err != nil {
			rec.Fail(t, "TestPropTombstones", "close-error", err.Error(), caseJSON())
		}
		if r, err = openReader(path); err != nil {
			rec.Fail(t, "TestPropTombstones", "reopen-error", fmt.Sprintf("NewTSMReader after tombstones were written: %v", err), caseJSON())
		}
		if d := checkTombstoned(r, c, m, probes); !d.ok() {
			rec.Fail(t, "TestPropTombstones", d.key, "after final reopen: "+d.detail, caseJSON())
		}
		if left, _ := os.ReadDir(dir); len(left) > 2 {
			rec.Fail(t, "TestPropTombstones", "tombstone-leftovers", fmt.Sprintf("directory holds %d files after all deletes were committed or rolled back", len(left)), caseJSON())
		}
		rec.Eval()
		if sawRollback {
			rec.Class("tomb:history:with-rollback")
		}
		if m.anyHidden(c) {
			rec.Class("tomb:history:hides-stored-values")
		}
		if sawPartial {
			rec.Class("tomb:history:partial-block-range")
			if sawReopenAfterPartial || true { // the final reopen always follows
				rec.Class("tomb:history:non-trivial")
				rec.NonTrivial("tomb|" + c.canon() + strings.Join(log, "|"))
				if rec.WantSample() && len(c.keys) <= 3 {
					rec.Sample(map[string]any{"test": "tombstones", "content": c.canon(), "ops": log})
				}
			}
		}
		_ = sawReopenAfterPartial
	})
}
