// C08 — TSM files and tombstones read back what was written.
//
// gen_test.go: generated file content (sorted keys, typed blocks), the writer driver (all four
// combinations of Write/WriteBlock and in-memory/disk-buffered index) and the tombstone model.
package c08_tsmfile

import (
	"bytes"
	"fmt"
	"math"
	"os"
	"path/filepath"
	"sort"
	"strings"

	"github.com/influxdata/influxdb/v2/tsdb/engine/tsm1"
	"pgregory.net/rapid"

	"verifharness/internal/ev"
)

var rec = ev.For("C08", "exploration",
	"round trip: case = (sorted key set, per key a value type and 1-5 blocks, writer variant, probe keys); non-trivial = >=3 keys with >=2 blocks each and an absent probe key strictly between two stored keys; "+
		"tombstones: case = file + sequence of BatchDelete{DeleteRange...;Commit|Rollback} / DeleteRange / Delete / reopen; non-trivial = a committed range that covers part of a block (not all of it) and a later reopen; "+
		"crash: case = file + committed deletes + one delete whose commit is interrupted at a hook point or leaves a truncated .tombstone.tmp; distinct by canonical rendering of the case")

const maxKeyLen = 65535

type block struct {
	vals     []tsm1.Value
	min, max int64
	enc      []byte // encoded block as the writer stores it (without checksum)
}

type keyData struct {
	key    []byte
	typ    byte // tsm1.Block*
	blocks []block
}

func (k *keyData) all() []tsm1.Value {
	var out []tsm1.Value
	for _, b := range k.blocks {
		out = append(out, b.vals...)
	}
	return out
}

type content struct {
	keys []*keyData // sorted by key
}

func (c *content) find(key []byte) *keyData {
	i := sort.Search(len(c.keys), func(i int) bool { return bytes.Compare(c.keys[i].key, key) >= 0 })
	if i < len(c.keys) && bytes.Equal(c.keys[i].key, key) {
		return c.keys[i]
	}
	return nil
}

func (c *content) timeRange() (int64, int64) {
	min, max := int64(math.MaxInt64), int64(math.MinInt64)
	for _, k := range c.keys {
		if t := k.blocks[0].min; t < min {
			min = t
		}
		if t := k.blocks[len(k.blocks)-1].max; t > max {
			max = t
		}
	}
	return min, max
}

func (c *content) canon() string {
	var sb strings.Builder
	for _, k := range c.keys {
		if len(k.key) > 64 {
			fmt.Fprintf(&sb, "%x..(%d)/%d:", k.key[:16], len(k.key), k.typ)
		} else {
			fmt.Fprintf(&sb, "%x/%d:", k.key, k.typ)
		}
		for _, b := range k.blocks {
			sb.WriteByte('[')
			for _, v := range b.vals {
				fmt.Fprintf(&sb, "%d=%v,", v.UnixNano(), v.Value())
			}
			sb.WriteByte(']')
		}
		sb.WriteByte(';')
	}
	return sb.String()
}

// keyAlphabet: line-protocol specials, the series/field separator pieces, NUL and 0xFF.
var keyAlphabet = []byte{'a', 'b', 'c', 'm', ',', ' ', '=', '\\', '#', '!', '~', 0x00, 0xff, '1'}

func genKey(t *rapid.T, label string) []byte {
	switch rapid.IntRange(0, 9).Draw(t, label+"-shape") {
	case 0: // looks like a composite key
		return []byte(fmt.Sprintf("m%d,t=%d#!~#f%d", rapid.IntRange(0, 3).Draw(t, label+"-m"), rapid.IntRange(0, 2).Draw(t, label+"-t"), rapid.IntRange(0, 2).Draw(t, label+"-f")))
	default:
		n := rapid.IntRange(1, 6).Draw(t, label+"-len")
		b := make([]byte, n)
		for i := range b {
			b[i] = rapid.SampledFrom(keyAlphabet).Draw(t, label+"-byte")
		}
		return b
	}
}

func mkValue(typ byte, ts int64, v int) tsm1.Value {
	switch typ {
	case tsm1.BlockFloat64:
		return tsm1.NewFloatValue(ts, float64(v)*0.25)
	case tsm1.BlockInteger:
		return tsm1.NewIntegerValue(ts, int64(v)-3)
	case tsm1.BlockUnsigned:
		return tsm1.NewUnsignedValue(ts, uint64(v))
	case tsm1.BlockBoolean:
		return tsm1.NewBooleanValue(ts, v&1 == 1)
	default:
		return tsm1.NewStringValue(ts, strings.Repeat("s", v%4)+fmt.Sprint(v))
	}
}

var blockTypes = []byte{tsm1.BlockFloat64, tsm1.BlockInteger, tsm1.BlockBoolean, tsm1.BlockString, tsm1.BlockUnsigned}

// genContent draws a sorted key set with blocks. Timestamps of a key are strictly increasing
// across its blocks (the writer's documented precondition). timeMode selects the timestamp
// region: around zero (both signs), negative only, positive only, or near the int64 extremes
// that the engine allows (models.MinNanoTime / MaxNanoTime).
func genContent(t *rapid.T, maxKeys int) *content {
	nk := rapid.IntRange(1, maxKeys).Draw(t, "nkeys")
	seen := map[string]bool{}
	c := &content{}
	longAt := -1
	if rapid.IntRange(0, 24).Draw(t, "withMaxLenKey") == 0 {
		longAt = rapid.IntRange(0, nk-1).Draw(t, "maxLenKeyAt")
	}
	timeMode := rapid.IntRange(0, 5).Draw(t, "timeMode")
	id := 0
	for i := 0; i < nk; i++ {
		var key []byte
		if i == longAt {
			key = bytes.Repeat([]byte{rapid.SampledFrom(keyAlphabet).Draw(t, "longbyte")}, maxKeyLen)
			copy(key, genKey(t, "longprefix"))
		} else {
			key = genKey(t, "key")
		}
		if seen[string(key)] {
			continue
		}
		seen[string(key)] = true
		kd := &keyData{key: key, typ: rapid.SampledFrom(blockTypes).Draw(t, "type")}
		nb := rapid.IntRange(1, 5).Draw(t, "nblocks")
		var ts int64
		switch timeMode {
		case 0, 1:
			ts = int64(rapid.IntRange(-30, 10).Draw(t, "t0"))
		case 2:
			ts = int64(rapid.IntRange(-200, -120).Draw(t, "t0")) // stays negative
		case 3:
			ts = int64(rapid.IntRange(1, 50).Draw(t, "t0"))
		case 4:
			ts = math.MinInt64 + 2 + int64(rapid.IntRange(0, 3).Draw(t, "t0")) // models.MinNanoTime region
		default:
			ts = math.MaxInt64 - 1 - 130 + int64(rapid.IntRange(0, 3).Draw(t, "t0")) // ends below models.MaxNanoTime
		}
		for b := 0; b < nb; b++ {
			nv := rapid.IntRange(1, 6).Draw(t, "nvals")
			var blk block
			for v := 0; v < nv; v++ {
				id++
				blk.vals = append(blk.vals, mkValue(kd.typ, ts, id))
				ts += int64(rapid.IntRange(1, 3).Draw(t, "dt"))
			}
			blk.min, blk.max = blk.vals[0].UnixNano(), blk.vals[len(blk.vals)-1].UnixNano()
			enc, err := tsm1.Values(blk.vals).Encode(nil)
			if err != nil {
				t.Fatalf("harness: encode: %v", err)
			}
			blk.enc = enc
			kd.blocks = append(kd.blocks, blk)
			ts += int64(rapid.IntRange(0, 4).Draw(t, "gap"))
		}
		c.keys = append(c.keys, kd)
	}
	sort.Slice(c.keys, func(i, j int) bool { return bytes.Compare(c.keys[i].key, c.keys[j].key) < 0 })
	return c
}

// probeKeys returns absent keys around the stored ones (just after, proper prefix, between
// neighbours, before the first, after the last) plus a few random ones.
func probeKeys(t *rapid.T, c *content) [][]byte {
	var out [][]byte
	add := func(k []byte) {
		if len(k) > 0 && len(k) <= maxKeyLen && c.find(k) == nil {
			out = append(out, k)
		}
	}
	for _, k := range c.keys {
		if len(k.key) > 64 {
			add(k.key[:len(k.key)-1])
			continue
		}
		add(append(append([]byte(nil), k.key...), 0x00))
		add(append(append([]byte(nil), k.key...), 0xff))
		add(k.key[:len(k.key)-1])
		if last := k.key[len(k.key)-1]; last > 0 {
			p := append([]byte(nil), k.key...)
			p[len(p)-1] = last - 1
			add(append(p, 0xff))
		}
	}
	add([]byte{0x00})
	add([]byte{0xff, 0xff, 0xff, 0xff, 0xff, 0xff, 0xff})
	for i := 0; i < 3; i++ {
		add(genKey(t, "probe"))
	}
	return out
}

type writerVariant struct {
	DiskIndex  bool `json:"disk_index"`
	WriteBlock bool `json:"write_block"`
}

// writeFile writes the content to <dir>/000000001-000000001.tsm with the chosen writer and
// returns the path.
func writeFile(dir string, c *content, v writerVariant) (string, error) {
	final := filepath.Join(dir, "000000001-000000001.tsm")
	tmp := final + ".tmp"
	f, err := os.OpenFile(tmp, os.O_CREATE|os.O_RDWR|os.O_EXCL, 0o666)
	if err != nil {
		return "", err
	}
	var w tsm1.TSMWriter
	if v.DiskIndex {
		w, err = tsm1.NewTSMWriterWithDiskBuffer(f)
	} else {
		w, err = tsm1.NewTSMWriter(f)
	}
	if err != nil {
		return "", err
	}
	for _, k := range c.keys {
		for _, b := range k.blocks {
			if v.WriteBlock {
				err = w.WriteBlock(k.key, b.min, b.max, b.enc)
			} else {
				err = w.Write(k.key, b.vals)
			}
			if err != nil {
				return "", fmt.Errorf("write %x: %w", k.key[:min(len(k.key), 16)], err)
			}
		}
	}
	if err := w.WriteIndex(); err != nil {
		return "", fmt.Errorf("WriteIndex: %w", err)
	}
	if err := w.Close(); err != nil {
		return "", fmt.Errorf("Close: %w", err)
	}
	if err := os.Rename(tmp, final); err != nil {
		return "", err
	}
	return final, nil
}

func openReader(path string) (*tsm1.TSMReader, error) {
	f, err := os.Open(path)
	if err != nil {
		return nil, err
	}
	r, err := tsm1.NewTSMReader(f)
	if err != nil {
		f.Close()
		return nil, err
	}
	return r, nil
}

// ---------------------------------------------------------------------------------------------
// tombstone model

type trange struct{ Min, Max int64 }

func (r trange) covers(t int64) bool { return r.Min <= t && t <= r.Max }

// tombModel is what has been recorded (committed) so far.
type tombModel struct {
	ranges map[string][]trange // key -> committed ranges
	// keys for which a single committed call covered everything the key holds (Delete, or a
	// range covering first..last timestamp): those must be gone from the index
	gone map[string]bool
}

func newTombModel() *tombModel {
	return &tombModel{ranges: map[string][]trange{}, gone: map[string]bool{}}
}

func (m *tombModel) clone() *tombModel {
	n := newTombModel()
	for k, v := range m.ranges {
		n.ranges[k] = append([]trange(nil), v...)
	}
	for k := range m.gone {
		n.gone[k] = true
	}
	return n
}

func (m *tombModel) add(c *content, keys [][]byte, min, max int64) {
	for _, k := range keys {
		kd := c.find(k)
		if kd == nil {
			continue // nothing of this key in the file: nothing to hide
		}
		m.ranges[string(k)] = append(m.ranges[string(k)], trange{min, max})
		if min <= kd.blocks[0].min && max >= kd.blocks[len(kd.blocks)-1].max {
			m.gone[string(k)] = true
		}
	}
}

func (m *tombModel) hidden(key []byte, t int64) bool {
	for _, r := range m.ranges[string(key)] {
		if r.covers(t) {
			return true
		}
	}
	return false
}

func (m *tombModel) visible(kd *keyData) []tsm1.Value {
	var out []tsm1.Value
	for _, v := range kd.all() {
		if !m.hidden(kd.key, v.UnixNano()) {
			out = append(out, v)
		}
	}
	return out
}

func (m *tombModel) anyHidden(c *content) bool {
	for _, kd := range c.keys {
		if len(m.visible(kd)) != len(kd.all()) {
			return true
		}
	}
	return false
}
