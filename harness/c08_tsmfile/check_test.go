package c08_tsmfile

import (
	"bytes"
	"fmt"
	"hash/crc32"
	"math"
	"reflect"
	"sort"

	"github.com/influxdata/influxdb/v2/tsdb/engine/tsm1"

	"verifharness/internal/ev"
)

const (
	knownTimeRange = "timerange-max-zero-for-negative-times"
	knownSeekLast  = "seek-past-last-key-returns-last"
)

// knownHits collects the open known findings whose exact signature was met while checking the
// current case; flushKnown counts each once per case.
var knownHits = map[string]bool{}

func flushKnown() {
	for k := range knownHits {
		rec.ExcludedKnown(k)
		delete(knownHits, k)
	}
}

// seekOK compares Seek's result with the insertion position. While the known finding is open,
// exactly its signature (probe beyond the last listed key, result = position of the last key)
// is counted instead of failed.
func seekOK(got, want, n int) bool {
	if got == want {
		return true
	}
	if want == n && n >= 1 && got == n-1 && ev.KnownOpen("C08", knownSeekLast) {
		knownHits[knownSeekLast] = true
		return true
	}
	return false
}

// mismatch is the first disagreement between the reader and the model ("" key = none).
type mismatch struct{ key, detail string }

func (m mismatch) ok() bool { return m.key == "" }

func mm(key, format string, a ...any) mismatch { return mismatch{key, fmt.Sprintf(format, a...)} }

func kstr(k []byte) string {
	if len(k) > 24 {
		return fmt.Sprintf("%q..(%d bytes)", k[:24], len(k))
	}
	return fmt.Sprintf("%q", k)
}

func sameValue(a, b tsm1.Value) bool {
	if a.UnixNano() != b.UnixNano() {
		return false
	}
	av, bv := a.Value(), b.Value()
	if af, ok := av.(float64); ok {
		bf, ok2 := bv.(float64)
		return ok2 && math.Float64bits(af) == math.Float64bits(bf)
	}
	return reflect.DeepEqual(av, bv)
}

func sameValues(a, b []tsm1.Value) bool {
	if len(a) != len(b) {
		return false
	}
	for i := range a {
		if !sameValue(a[i], b[i]) {
			return false
		}
	}
	return true
}

func lowerBound(keys [][]byte, k []byte) int {
	return sort.Search(len(keys), func(i int) bool { return bytes.Compare(keys[i], k) >= 0 })
}

// checkFresh compares a reader without tombstones with the written content: every index
// lookup and every read path.
func checkFresh(r *tsm1.TSMReader, c *content, probes [][]byte) mismatch {
	n := len(c.keys)
	if got := r.KeyCount(); got != n {
		return mm("keycount", "KeyCount() = %d, want %d", got, n)
	}
	all := make([][]byte, n)
	for i, kd := range c.keys {
		all[i] = kd.key
	}
	offset := int64(5) // magic + version
	var ebuf []tsm1.IndexEntry
	for i, kd := range c.keys {
		k, typ := r.KeyAt(i)
		if !bytes.Equal(k, kd.key) || typ != kd.typ {
			return mm("keyat", "KeyAt(%d) = %s type %d, want %s type %d", i, kstr(k), typ, kstr(kd.key), kd.typ)
		}
		k2, typ2, entries := r.Key(i, nil)
		if !bytes.Equal(k2, kd.key) || typ2 != kd.typ {
			return mm("key", "Key(%d) = %s type %d, want %s type %d", i, kstr(k2), typ2, kstr(kd.key), kd.typ)
		}
		if len(entries) != len(kd.blocks) {
			return mm("entries-count", "Key(%d) has %d index entries, want %d blocks", i, len(entries), len(kd.blocks))
		}
		e1 := r.Entries(kd.key)
		e2 := r.ReadEntries(kd.key, &ebuf)
		if !reflect.DeepEqual(e1, entries) || !reflect.DeepEqual(append([]tsm1.IndexEntry(nil), e2...), entries) {
			return mm("entries-disagree", "Entries/ReadEntries/Key disagree for %s: %v / %v / %v", kstr(kd.key), e1, e2, entries)
		}
		for j, e := range entries {
			b := kd.blocks[j]
			if e.MinTime != b.min || e.MaxTime != b.max {
				return mm("entry-times", "%s block %d: index entry [%d,%d], block holds [%d,%d]", kstr(kd.key), j, e.MinTime, e.MaxTime, b.min, b.max)
			}
			if e.Offset != offset || int(e.Size) != 4+len(b.enc) {
				return mm("entry-location", "%s block %d: index entry offset %d size %d, want offset %d size %d", kstr(kd.key), j, e.Offset, e.Size, offset, 4+len(b.enc))
			}
			offset += int64(e.Size)
			ee := e
			vals, err := r.ReadAt(&ee, nil)
			if err != nil || !sameValues(vals, b.vals) {
				return mm("readat", "%s block %d: ReadAt = %v, %v; want %v", kstr(kd.key), j, vals, err, b.vals)
			}
			crc, raw, err := r.ReadBytes(&ee, nil)
			if err != nil || !bytes.Equal(raw, b.enc) || crc != crc32.ChecksumIEEE(b.enc) {
				return mm("readbytes", "%s block %d: ReadBytes returns other bytes/checksum than written (err %v)", kstr(kd.key), j, err)
			}
			// Read(key, t): any timestamp inside the block's range finds the block
			for _, ts := range []int64{b.min, b.max, b.min + (b.max-b.min)/2} {
				vals, err := r.Read(kd.key, ts)
				if err != nil || !sameValues(vals, b.vals) {
					return mm("read", "Read(%s, %d) = %v, %v; want block %d %v", kstr(kd.key), ts, vals, err, j, b.vals)
				}
				if !r.ContainsValue(kd.key, ts) && (ts == b.min || ts == b.max) {
					return mm("containsvalue-false-negative", "ContainsValue(%s, %d) = false for a stored point", kstr(kd.key), ts)
				}
			}
		}
		// timestamps outside every block
		first, last := kd.blocks[0].min, kd.blocks[len(kd.blocks)-1].max
		outside := []int64{}
		if first > math.MinInt64 {
			outside = append(outside, first-1)
		}
		if last < math.MaxInt64 {
			outside = append(outside, last+1)
		}
		for j := 1; j < len(kd.blocks); j++ {
			if g := kd.blocks[j-1].max + 1; g < kd.blocks[j].min {
				outside = append(outside, g)
			}
		}
		for _, ts := range outside {
			if r.ContainsValue(kd.key, ts) {
				return mm("containsvalue-outside", "ContainsValue(%s, %d) = true but no block of the key spans %d", kstr(kd.key), ts, ts)
			}
			if vals, err := r.Read(kd.key, ts); err != nil || len(vals) != 0 {
				return mm("read-outside", "Read(%s, %d) = %v, %v; no block spans that time", kstr(kd.key), ts, vals, err)
			}
		}
		vals, err := r.ReadAll(kd.key)
		if err != nil || !sameValues(vals, kd.all()) {
			return mm("readall", "ReadAll(%s) = %v, %v; want %v", kstr(kd.key), vals, err, kd.all())
		}
		if !r.Contains(kd.key) {
			return mm("contains", "Contains(%s) = false for a stored key", kstr(kd.key))
		}
		if typ, err := r.Type(kd.key); err != nil || typ != kd.typ {
			return mm("type", "Type(%s) = %d, %v; want %d", kstr(kd.key), typ, err, kd.typ)
		}
		if got := r.Seek(kd.key); got != i {
			return mm("seek-present", "Seek(%s) = %d, want its position %d", kstr(kd.key), got, i)
		}
		if tr := r.TombstoneRange(kd.key); len(tr) != 0 {
			return mm("tombstones-on-fresh-file", "TombstoneRange(%s) = %v on a file without tombstones", kstr(kd.key), tr)
		}
	}
	if k, _ := r.KeyAt(n); k != nil {
		return mm("keyat-past-end", "KeyAt(%d) = %s past the last key", n, kstr(k))
	}
	for _, p := range probes {
		if r.Contains(p) {
			return mm("contains-absent", "Contains(%s) = true for a key that was not written", kstr(p))
		}
		if want, got := lowerBound(all, p), r.Seek(p); !seekOK(got, want, n) {
			return mm("seek-absent", "Seek(%s) = %d, want insertion position %d of %d keys", kstr(p), got, want, n)
		}
		if e := r.Entries(p); len(e) != 0 {
			return mm("entries-absent", "Entries(%s) = %v for a key that was not written", kstr(p), e)
		}
		if vals, err := r.ReadAll(p); err != nil || len(vals) != 0 {
			return mm("readall-absent", "ReadAll(%s) = %v, %v", kstr(p), vals, err)
		}
		if r.ContainsValue(p, 0) {
			return mm("containsvalue-absent", "ContainsValue(%s, 0) = true for a key that was not written", kstr(p))
		}
		if _, err := r.Type(p); err == nil {
			return mm("type-absent", "Type(%s) returned no error for a key that was not written", kstr(p))
		}
	}
	// file level ranges
	wantMin, wantMax := c.timeRange()
	gotMin, gotMax := r.TimeRange()
	if gotMin != wantMin || gotMax != wantMax {
		if gotMin == wantMin && wantMax < 0 && gotMax == 0 && ev.KnownOpen("C08", knownTimeRange) {
			knownHits[knownTimeRange] = true
			wantMax = 0 // the overlap queries below are checked against what the reader believes
		} else {
			return mm("timerange", "TimeRange() = [%d,%d], the content spans [%d,%d]", gotMin, gotMax, wantMin, wantMax)
		}
	}
	for _, q := range [][2]int64{{wantMin, wantMin}, {wantMax, wantMax}, {math.MinInt64, wantMin}, {wantMax, math.MaxInt64}, {wantMin + 1, wantMax - 1}} {
		if q[0] > q[1] {
			continue
		}
		if !r.OverlapsTimeRange(q[0], q[1]) {
			return mm("overlapstimerange", "OverlapsTimeRange(%d,%d) = false, the file spans [%d,%d]", q[0], q[1], wantMin, wantMax)
		}
	}
	if wantMin > math.MinInt64 && r.OverlapsTimeRange(math.MinInt64, wantMin-1) {
		return mm("overlapstimerange", "OverlapsTimeRange(MinInt64,%d) = true, the file starts at %d", wantMin-1, wantMin)
	}
	if wantMax < math.MaxInt64 && r.OverlapsTimeRange(wantMax+1, math.MaxInt64) {
		return mm("overlapstimerange", "OverlapsTimeRange(%d,MaxInt64) = true, the file ends at %d", wantMax+1, wantMax)
	}
	kmin, kmax := r.KeyRange()
	if !bytes.Equal(kmin, all[0]) || !bytes.Equal(kmax, all[n-1]) {
		return mm("keyrange", "KeyRange() = %s..%s, want %s..%s", kstr(kmin), kstr(kmax), kstr(all[0]), kstr(all[n-1]))
	}
	for _, p := range probes {
		want := bytes.Compare(all[0], p) <= 0 && bytes.Compare(all[n-1], p) >= 0
		if got := r.OverlapsKeyRange(p, p); got != want {
			return mm("overlapskeyrange", "OverlapsKeyRange(%s,%s) = %v, keys span %s..%s", kstr(p), kstr(p), got, kstr(all[0]), kstr(all[n-1]))
		}
	}
	if r.HasTombstones() {
		return mm("hastombstones-fresh", "HasTombstones() = true on a freshly written file")
	}
	// block iterator: every block once, in key then time order
	it := r.BlockIterator()
	for _, kd := range c.keys {
		for j, b := range kd.blocks {
			if !it.Next() {
				return mm("blockiterator-short", "BlockIterator ended before %s block %d (err %v)", kstr(kd.key), j, it.Err())
			}
			key, bmin, bmax, typ, crc, raw, err := it.Read()
			if err != nil || !bytes.Equal(key, kd.key) || bmin != b.min || bmax != b.max || typ != kd.typ || crc != crc32.ChecksumIEEE(b.enc) || !bytes.Equal(raw, b.enc) {
				return mm("blockiterator", "BlockIterator at %s block %d returned key %s [%d,%d] type %d (err %v)", kstr(kd.key), j, kstr(key), bmin, bmax, typ, err)
			}
		}
	}
	if it.Next() {
		return mm("blockiterator-long", "BlockIterator yields more blocks than were written")
	}
	return mismatch{}
}

// checkTombstoned compares a reader with the content minus the committed tombstones.
func checkTombstoned(r *tsm1.TSMReader, c *content, m *tombModel, probes [][]byte) mismatch {
	// the keys the index still lists
	n := r.KeyCount()
	var listed [][]byte
	for i := 0; i < n; i++ {
		k, typ := r.KeyAt(i)
		kd := c.find(k)
		if kd == nil {
			return mm("keyat-unknown", "KeyAt(%d) = %s which was never written", i, kstr(k))
		}
		if typ != kd.typ {
			return mm("keyat-type", "KeyAt(%d) = %s type %d, want %d", i, kstr(k), typ, kd.typ)
		}
		if len(listed) > 0 && bytes.Compare(listed[len(listed)-1], k) >= 0 {
			return mm("keyat-order", "KeyAt(%d) = %s is not after KeyAt(%d) = %s", i, kstr(k), i-1, kstr(listed[len(listed)-1]))
		}
		listed = append(listed, append([]byte(nil), k...))
	}
	isListed := func(k []byte) bool {
		i := lowerBound(listed, k)
		return i < len(listed) && bytes.Equal(listed[i], k)
	}
	hiddenAny := false
	for _, kd := range c.keys {
		vis := m.visible(kd)
		if len(vis) != len(kd.all()) {
			hiddenAny = true
		}
		in := isListed(kd.key)
		if len(vis) > 0 && !in {
			return mm("visible-key-dropped", "%s still has %d values outside every recorded range but the index no longer lists it", kstr(kd.key), len(vis))
		}
		if m.gone[string(kd.key)] && in {
			return mm("deleted-key-listed", "%s was deleted over its whole time span but the index still lists it", kstr(kd.key))
		}
		if got := r.Contains(kd.key); got != in {
			return mm("contains-vs-keyat", "Contains(%s) = %v but KeyAt lists it: %v", kstr(kd.key), got, in)
		}
		vals, err := r.ReadAll(kd.key)
		if err != nil || !sameValues(vals, vis) {
			return mm("readall-tombstoned", "ReadAll(%s) = %v, %v; want the values outside the recorded ranges %v: %v", kstr(kd.key), vals, err, m.ranges[string(kd.key)], vis)
		}
		// ContainsValue: stored and not hidden => true; hidden => false
		for _, v := range kd.all() {
			ts := v.UnixNano()
			got := r.ContainsValue(kd.key, ts)
			if m.hidden(kd.key, ts) {
				if got {
					return mm("containsvalue-hidden", "ContainsValue(%s, %d) = true, but %d lies in a recorded range %v", kstr(kd.key), ts, ts, m.ranges[string(kd.key)])
				}
			} else if !got {
				return mm("containsvalue-false-negative", "ContainsValue(%s, %d) = false for a stored point outside every recorded range %v", kstr(kd.key), ts, m.ranges[string(kd.key)])
			}
		}
		if in {
			// the ranges the reader reports must be recorded ones and hide exactly what the model hides
			trs := r.TombstoneRange(kd.key)
			for _, tr := range trs {
				found := false
				for _, want := range m.ranges[string(kd.key)] {
					if want.Min == tr.Min && want.Max == tr.Max {
						found = true
					}
				}
				if !found {
					return mm("tombstonerange-unrecorded", "TombstoneRange(%s) reports [%d,%d] which was never recorded for that key (recorded %v)", kstr(kd.key), tr.Min, tr.Max, m.ranges[string(kd.key)])
				}
			}
			for _, v := range kd.all() {
				ts := v.UnixNano()
				cov := false
				for _, tr := range trs {
					if tr.Min <= ts && ts <= tr.Max {
						cov = true
					}
				}
				if cov != m.hidden(kd.key, ts) {
					return mm("tombstonerange-coverage", "TombstoneRange(%s) = %v covers %d: %v, recorded ranges %v cover it: %v", kstr(kd.key), trs, ts, cov, m.ranges[string(kd.key)], !cov)
				}
			}
			if got, want := r.Seek(kd.key), lowerBound(listed, kd.key); got != want {
				return mm("seek-present", "Seek(%s) = %d, want %d", kstr(kd.key), got, want)
			}
			if typ, err := r.Type(kd.key); err != nil || typ != kd.typ {
				return mm("type", "Type(%s) = %d, %v; want %d", kstr(kd.key), typ, err, kd.typ)
			}
		}
	}
	for _, p := range probes {
		if r.Contains(p) {
			return mm("contains-absent", "Contains(%s) = true for a key that was not written", kstr(p))
		}
		if want, got := lowerBound(listed, p), r.Seek(p); !seekOK(got, want, len(listed)) {
			return mm("seek-absent", "Seek(%s) = %d, want insertion position %d among the %d listed keys", kstr(p), got, want, len(listed))
		}
	}
	if hiddenAny && !r.HasTombstones() {
		return mm("hastombstones", "HasTombstones() = false although recorded ranges hide stored values")
	}
	return mismatch{}
}
