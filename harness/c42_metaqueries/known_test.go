package c42_metaqueries

import (
	"fmt"
	"testing"

	"verifharness/internal/gen"
	"verifharness/internal/model"
)

// openAuthDeadNamesKey: with an open (or nil) authorizer and no series filter, Store.TagKeys /
// Store.TagValues (and the tag clauses of Store.MeasurementNames) take the tag keys / values of
// a measurement straight from the index' key and value lists and skip every series lookup
// (IndexSet.TagKeyHasAuthorizedSeries returns true at once, MeasurementTagKeyValuesByExpr appends
// every value of tagValueIterator). The tsi1 index keeps a key/value entry after its last series
// was dropped (only DropMeasurement tombstones them), so names carried only by deleted series
// are still listed — also after a reopen.
const openAuthDeadNamesKey = "open-authorizer-lists-names-of-deleted-series"

// staleCacheKey: tsi1.Index.DropSeries(id, key, cascade=false) — the call the engine makes when a
// delete empties a series in a shard — returns before the tag-value series-id cache is updated
// (the invalidation sits behind "if !cascade { return nil }"). A (measurement, key, value) set
// cached before the delete keeps the dropped series until the shard is reopened, so queries that
// go through TagValueSeriesIDIterator (fine-grained authorizers, tag = 'v' filters) still see it
// in that shard while it exists anywhere else in the bucket.
const staleCacheKey = "tagvalue-cache-not-invalidated-on-series-delete"

// prefixKeptKey: tsm1.Engine.deleteSeriesRange decides whether an emptied series may be dropped
// from the index by scanning the cache keys of the delete batch with
// bytes.HasPrefix(deleteKeys[i], seriesKey): that also matches the keys of OTHER series whose key
// merely starts with the same bytes ("m,host=a" is a prefix of "m,host=a,region=y" and of
// "m,host=ab"). If such a series still has values in the cache, the emptied series is treated as
// "has cache values" and stays in the shard's index (and series file) without any data.
// Same root cause as the finding the C17 package registered under this key.
const prefixKeptKey = "delete-index-prefix-series-kept"

func knownDataset() *dataset {
	fl := func(v float64) map[string]model.Val { return map[string]model.Val{"ff": {K: model.Float, F: v}} }
	d := &dataset{T0: 0, NShards: 2, Series: []string{"m0,host=a", "m0,region=x"}}
	d.Ops = []op{
		{Kind: "write", Points: []gen.WPoint{
			{Series: "m0,host=a", T: 10, Fields: fl(1)},
			{Series: "m0,region=x", T: 20, Fields: fl(2)},
			{Series: "m0,region=x", T: hour + 20, Fields: fl(3)},
		}},
		// DELETE WHERE region = 'x' AND time in window 0: m0,region=x is emptied in shard 0 only
		{Kind: "delete", Tag: "region", Val: "x", Min: 0, Max: hour - 1, Span: "whole-windows"},
	}
	return d
}

func TestKnown_open_authorizer_lists_names_of_deleted_series(t *testing.T) {
	d := knownDataset()
	d.Ops = append(d.Ops, op{Kind: "reopen"}) // rules out the cache finding
	b, err := buildDataset(d)
	if err != nil {
		t.Fatalf("building dataset: %v", err)
	}
	defer b.close()
	shard0 := []uint64{b.shardForHour(0)}
	qk := &mquery{Kind: "tagkeys", Shards: []int{0}, Auth: authSpec{Mode: "open"}, Exact: true}
	gotK, rawK, err := b.run(qk, shard0)
	if err != nil {
		t.Fatalf("TagKeys: %v", err)
	}
	qv := &mquery{Kind: "tagvalues", Shards: []int{0}, Auth: authSpec{Mode: "open"}, Exact: true, TagKey: leafOf("_tagKey", "=", "region")}
	gotV, rawV, err := b.run(qv, shard0)
	if err != nil {
		t.Fatalf("TagValues: %v", err)
	}
	// control: the same listing with a fine-grained authorizer that allows everything is right
	qf := &mquery{Kind: "tagkeys", Shards: []int{0}, Auth: authSpec{Mode: "deny-measurement", M: "none"}, Exact: true}
	_, rawF, err := b.run(qf, shard0)
	if err != nil {
		t.Fatalf("TagKeys(fine): %v", err)
	}
	has := func(got [][3]string, want [3]string) bool {
		for _, g := range got {
			if g == want {
				return true
			}
		}
		return false
	}
	reproduced := has(gotK, [3]string{"m0", "region"}) || has(gotV, [3]string{"m0", "region", "x"})
	rec.Known(t, "TestKnown_open_authorizer_lists_names_of_deleted_series", openAuthDeadNamesKey, reproduced,
		fmt.Sprintf("after DELETE WHERE region='x' emptied series m0,region=x in shard 0 (and a reopen), Store.TagKeys(OpenAuthorizer, [shard 0], nil) = %s and Store.TagValues(OpenAuthorizer, [shard 0], _tagKey = 'region') = %s still list region / x, carried only by the deleted series; with an allow-all fine-grained authorizer TagKeys = %s", rawK, rawV, rawF),
		caseJSON{Dataset: d, Query: qk})
}

func TestKnown_tagvalue_cache_not_invalidated_on_series_delete(t *testing.T) {
	d := knownDataset() // the delete's own "region = 'x'" lookup fills the cache before the drop
	b, err := buildDataset(d)
	if err != nil {
		t.Fatalf("building dataset: %v", err)
	}
	defer b.close()
	shard0 := []uint64{b.shardForHour(0)}
	// fine-grained authorizer (allows everything): values are listed only if a series carries them
	q := &mquery{Kind: "tagvalues", Shards: []int{0}, Auth: authSpec{Mode: "deny-measurement", M: "none"}, Exact: true, TagKey: leafOf("_tagKey", "=", "region")}
	got, raw, err := b.run(q, shard0)
	if err != nil {
		t.Fatalf("TagValues: %v", err)
	}
	reproduced := len(got) == 1 && got[0] == [3]string{"m0", "region", "x"}
	// control: after a reopen the same call is right
	if err := b.s.Reopen(); err != nil {
		t.Fatalf("reopen: %v", err)
	}
	got2, raw2, err := b.run(q, []uint64{b.shardForHour(0)})
	if err != nil {
		t.Fatalf("TagValues after reopen: %v", err)
	}
	if len(got2) != 0 {
		reproduced = false // not the cache
	}
	rec.Known(t, "TestKnown_tagvalue_cache_not_invalidated_on_series_delete", staleCacheKey, reproduced,
		fmt.Sprintf("after DELETE WHERE region='x' emptied series m0,region=x in shard 0 (still live in shard 1), Store.TagValues(fine-grained allow-all authorizer, [shard 0], _tagKey = 'region') = %s: the dropped series is still found through the tag-value series-id cache; after a reopen the same call returns %s", raw, raw2),
		caseJSON{Dataset: d, Query: q})
}

func TestKnown_delete_index_prefix_series_kept(t *testing.T) {
	fl := func(v float64) map[string]model.Val { return map[string]model.Val{"ff": {K: model.Float, F: v}} }
	d := &dataset{T0: 0, NShards: 2, Series: []string{"m2,host=a", "m2,host=a,region=y"}}
	d.Ops = []op{
		{Kind: "write", Points: []gen.WPoint{
			{Series: "m2,host=a", T: 10, Fields: fl(1)},
			{Series: "m2,host=a,region=y", T: 20, Fields: fl(2)},
			{Series: "m2,host=a,region=y", T: 40, Fields: fl(3)},
		}},
		// DELETE WHERE time <= 30: empties m2,host=a; m2,host=a,region=y keeps the point at 40 (cache)
		{Kind: "delete", Min: 0, Max: 30, Span: "arbitrary"},
	}
	b, err := buildDataset(d)
	if err != nil {
		t.Fatalf("building dataset: %v", err)
	}
	defer b.close()
	if !b.kept["m2,host=a"][0] {
		t.Fatalf("harness: the model does not flag the signature")
	}
	// a fine-grained authorizer that hides the surviving series: host may only be listed through
	// the deleted series m2,host=a
	q := &mquery{Kind: "tagkeys", Auth: authSpec{Mode: "deny-tagpair", K: "region", V: "y"}, Exact: true}
	_, ids := b.windowsWithShard()
	got, raw, err := b.run(q, ids)
	if err != nil {
		t.Fatalf("TagKeys: %v", err)
	}
	reproduced := false
	for _, g := range got {
		if g == [3]string{"m2", "host"} {
			reproduced = true
		}
	}
	// control: the same history with the survivor renamed so that no key is a prefix of another
	d2 := &dataset{T0: 0, NShards: 2, Series: []string{"m2,host=a", "m2,host=b,region=y"}}
	d2.Ops = []op{
		{Kind: "write", Points: []gen.WPoint{
			{Series: "m2,host=a", T: 10, Fields: fl(1)},
			{Series: "m2,host=b,region=y", T: 20, Fields: fl(2)},
			{Series: "m2,host=b,region=y", T: 40, Fields: fl(3)},
		}},
		{Kind: "delete", Min: 0, Max: 30, Span: "arbitrary"},
	}
	b2, err := buildDataset(d2)
	if err != nil {
		t.Fatalf("building control dataset: %v", err)
	}
	defer b2.close()
	_, ids2 := b2.windowsWithShard()
	got2, raw2, err := b2.run(q, ids2)
	if err != nil {
		t.Fatalf("TagKeys(control): %v", err)
	}
	if len(got2) != 0 && !(len(got2) == 1 && got2[0][1] == "\x00empty") {
		reproduced = false // something else
	}
	rec.Known(t, "TestKnown_delete_index_prefix_series_kept", prefixKeptKey, reproduced,
		fmt.Sprintf("write m2,host=a@10 and m2,host=a,region=y@20,40 (cache), DELETE WHERE time <= 30: series m2,host=a has no points left but stays in the index, so Store.TagKeys with an authorizer hiding region=y series returns %s (host is carried only by the deleted series); with the survivor named m2,host=b,region=y the same call returns %s", raw, raw2),
		caseJSON{Dataset: d, Applied: len(d.Ops), Query: q})
}
