package c42_metaqueries

import (
	"context"
	"fmt"
	"os"
	"sort"
	"strings"
	"time"

	"github.com/influxdata/influxdb/v2/models"
	"github.com/influxdata/influxql"
	"pgregory.net/rapid"

	"verifharness/internal/fix"
	"verifharness/internal/gen"
	"verifharness/internal/model"
	"verifharness/internal/scratch"
)

const hour = int64(time.Hour)

var t0Pool = []int64{0, 1_699_999_200 * int64(time.Second)}

var (
	measurements = []string{"m0", "m1", "m2"}
	hostVals     = []string{"", "a", "ab", "b"} // "" = series lacks the tag
	regionVals   = []string{"", "x", "y"}
)

func seriesDomain() []string {
	var out []string
	for _, m := range measurements {
		for _, h := range hostVals {
			for _, r := range regionVals {
				tags := map[string]string{}
				if h != "" {
					tags["host"] = h
				}
				if r != "" {
					tags["region"] = r
				}
				out = append(out, string(models.MakeKey([]byte(m), models.NewTags(tags))))
			}
		}
	}
	return out
}

// tagsOf parses a series key into measurement + tag map.
func tagsOf(series string) (string, map[string]string) {
	name, tags := models.ParseKeyBytes([]byte(series))
	m := map[string]string{}
	for _, t := range tags {
		m[string(t.Key)] = string(t.Value)
	}
	return string(name), m
}

// op is one step of the dataset history.
type op struct {
	Kind   string       `json:"kind"` // "write" | "snap" | "delete" | "reopen"
	Points []gen.WPoint `json:"points,omitempty"`
	Hour   int          `json:"hour,omitempty"` // snap: window index
	// delete: optional measurement (FROM), optional tag condition, closed time range
	From string `json:"from,omitempty"`
	Tag  string `json:"tag,omitempty"` // tag key of the condition ("" = none)
	Val  string `json:"val,omitempty"`
	Neq  bool   `json:"neq,omitempty"`
	Min  int64  `json:"min,omitempty"`
	Max  int64  `json:"max,omitempty"`
	Span string `json:"span,omitempty"` // how the range was chosen
}

type dataset struct {
	T0      int64    `json:"t0"`
	NShards int      `json:"nshards"`
	Shape   string   `json:"shape,omitempty"`
	Series  []string `json:"series"`
	Ops     []op     `json:"ops"`
}

func (d *dataset) render() string {
	var sb strings.Builder
	fmt.Fprintf(&sb, "t0=%d n=%d;", d.T0, d.NShards)
	for _, o := range d.Ops {
		switch o.Kind {
		case "snap":
			fmt.Fprintf(&sb, "snap%d;", o.Hour)
		case "reopen":
			sb.WriteString("reopen;")
		case "delete":
			fmt.Fprintf(&sb, "del(from=%s %s)[%d,%d];", o.From, o.tagCond(), o.Min-d.T0, o.Max-d.T0)
		default:
			sb.WriteString("w")
			for _, p := range o.Points {
				fmt.Fprintf(&sb, "[%s@%d]", p.Series, p.T-d.T0)
			}
			sb.WriteString(";")
		}
	}
	return sb.String()
}

func (o op) tagCond() string {
	if o.Tag == "" {
		return ""
	}
	opn := "="
	if o.Neq {
		opn = "!="
	}
	return fmt.Sprintf("%s %s '%s'", o.Tag, opn, o.Val)
}

// matches reports whether the delete's measurement/tag condition selects the series.
func (o op) matches(series string) bool {
	name, tags := tagsOf(series)
	if o.From != "" && name != o.From {
		return false
	}
	if o.Tag == "" {
		return true
	}
	if o.Neq {
		return tags[o.Tag] != o.Val
	}
	return tags[o.Tag] == o.Val
}

func genTs(t *rapid.T, label string, t0 int64, h int) int64 {
	base := t0 + int64(h)*hour
	switch rapid.IntRange(0, 7).Draw(t, label+"k") {
	case 0:
		return base
	case 1:
		return base + hour - 1
	default:
		return base + int64(rapid.IntRange(0, 11).Draw(t, label+"m"))*5*int64(time.Minute)
	}
}

func genWrite(t *rapid.T, label string, d *dataset, seq *int, lo, hi int) op {
	n := rapid.IntRange(lo, hi).Draw(t, label+"n")
	var pts []gen.WPoint
	for i := 0; i < n; i++ {
		lbl := fmt.Sprintf("%sp%d", label, i)
		p := gen.WPoint{Series: rapid.SampledFrom(d.Series).Draw(t, lbl+"s"), Fields: map[string]model.Val{}}
		h := rapid.IntRange(0, d.NShards-1).Draw(t, lbl+"h")
		p.T = genTs(t, lbl+"t", d.T0, h)
		fn := rapid.SampledFrom([]string{"ff", "fi"}).Draw(t, lbl+"f")
		*seq++
		if fn == "ff" {
			p.Fields[fn] = model.Val{K: model.Float, F: float64(*seq)}
		} else {
			p.Fields[fn] = model.Val{K: model.Integer, I: int64(*seq)}
		}
		pts = append(pts, p)
	}
	return op{Kind: "write", Points: pts}
}

func genDelete(t *rapid.T, label string, d *dataset) op {
	o := op{Kind: "delete"}
	switch rapid.IntRange(0, 5).Draw(t, label+"sel") {
	case 0, 1:
		// every series
	case 2:
		o.From = rapid.SampledFrom(measurements).Draw(t, label+"from")
	case 3, 4:
		o.Tag = rapid.SampledFrom([]string{"host", "host", "region"}).Draw(t, label+"tag")
		if o.Tag == "host" {
			o.Val = rapid.SampledFrom([]string{"a", "ab", "b"}).Draw(t, label+"val")
		} else {
			o.Val = rapid.SampledFrom([]string{"x", "y"}).Draw(t, label+"val")
		}
		o.Neq = rapid.IntRange(0, 4).Draw(t, label+"neq") == 0
	default:
		o.From = rapid.SampledFrom(measurements).Draw(t, label+"from")
		o.Tag = "host"
		o.Val = rapid.SampledFrom([]string{"a", "ab", "b"}).Draw(t, label+"val")
	}
	n := d.NShards
	switch rapid.IntRange(0, 6).Draw(t, label+"span") {
	case 0:
		o.Min, o.Max, o.Span = influxql.MinTime, influxql.MaxTime, "all-time"
	case 1, 2, 3:
		a := rapid.IntRange(0, n-1).Draw(t, label+"a")
		b := rapid.IntRange(a+1, min(n, a+2)).Draw(t, label+"b")
		o.Min, o.Max, o.Span = d.T0+int64(a)*hour, d.T0+int64(b)*hour-1, "whole-windows"
	case 4:
		a := rapid.IntRange(0, n-1).Draw(t, label+"a")
		o.Min, o.Max, o.Span = influxql.MinTime, d.T0+int64(a+1)*hour-1, "up-to-window-end"
	default:
		a := genTs(t, label+"ta", d.T0, rapid.IntRange(0, n-1).Draw(t, label+"ha"))
		b := genTs(t, label+"tb", d.T0, rapid.IntRange(0, n-1).Draw(t, label+"hb"))
		if a > b {
			a, b = b, a
		}
		o.Min, o.Max, o.Span = a, b, "arbitrary"
	}
	return o
}

func genDataset(t *rapid.T) *dataset {
	d := &dataset{}
	d.T0 = rapid.SampledFrom(t0Pool).Draw(t, "t0")
	d.NShards = rapid.IntRange(2, 4).Draw(t, "nshards")
	dom := seriesDomain()
	// shape: "spread" = 3..9 series anywhere in the domain (about two per measurement, a tag key
	// seldom has several values inside one measurement); "dense" = the same number of series
	// inside one or two measurements, so that a measurement has several values per tag key and
	// several series per value (what value-by-value scans with per-series authorization need)
	d.Shape = rapid.SampledFrom([]string{"spread", "dense", "dense"}).Draw(t, "shape")
	if d.Shape == "dense" {
		ms := rapid.SliceOfNDistinct(rapid.SampledFrom(measurements), 1, 2, rapid.ID[string]).Draw(t, "densem")
		var sub []string
		for _, sk := range dom {
			if name, _ := tagsOf(sk); inList(ms, name) {
				sub = append(sub, sk)
			}
		}
		dom = sub
	}
	idx := rapid.SliceOfNDistinct(rapid.IntRange(0, len(dom)-1), 3, 9, rapid.ID[int]).Draw(t, "series")
	sort.Ints(idx)
	for _, i := range idx {
		d.Series = append(d.Series, dom[i])
	}
	seq := 0
	d.Ops = append(d.Ops, genWrite(t, "w0", d, &seq, 6, 30))
	nops := rapid.IntRange(1, 7).Draw(t, "nops")
	for i := 0; i < nops; i++ {
		lbl := fmt.Sprintf("o%d", i)
		switch rapid.IntRange(0, 9).Draw(t, lbl+"kind") {
		case 0, 1:
			d.Ops = append(d.Ops, genWrite(t, lbl, d, &seq, 1, 10))
		case 2, 3:
			d.Ops = append(d.Ops, op{Kind: "snap", Hour: rapid.IntRange(0, d.NShards-1).Draw(t, lbl+"h")})
		case 4:
			d.Ops = append(d.Ops, op{Kind: "reopen"})
		default:
			d.Ops = append(d.Ops, genDelete(t, lbl, d))
		}
	}
	return d
}

// liveness of a series inside one shard
type lstate int

const (
	dead    lstate = iota // never written there, or emptied by a delete that covered everything written
	live                  // has >=1 point there
	unknown               // emptied by an accumulation of partial deletes: index entry may or may not remain
)

type built struct {
	d   *dataset
	s   *fix.Stack
	m   *model.Store
	dir string
	// state[series][window], written[series][window] = timestamps written since the last dead state
	state   map[string][]lstate
	written map[string][]map[int64]bool
	// wasLive[series][window]: the series had points there at some time
	wasLive map[string][]bool
	// dropped[series][window]: a delete emptied the series there since the engine was last opened
	dropped map[string][]bool
	// cachePts[series][window]: "field|ts" of the points written since the window's shard was last
	// snapshotted (= what the shard's cache holds)
	cachePts map[string][]map[string]bool
	// kept[series][window]: the series was emptied there, but with the signature of the open
	// finding prefixKeptKey (the engine keeps its index entry)
	kept    map[string][]bool
	deletes int
	applied int // number of history ops applied so far
}

func (b *built) close() {
	if b.s != nil {
		b.s.Close()
	}
	os.RemoveAll(b.dir)
}

func (b *built) window(ts int64) int { return int((ts - b.d.T0) / hour) }

// shardForHour maps a window index to its shard id (0 = no shard group was created for it).
func (b *built) shardForHour(h int) uint64 {
	start := time.Unix(0, b.d.T0+int64(h)*hour)
	di := b.s.Meta.Database(b.s.DB())
	if di == nil {
		return 0
	}
	for _, rp := range di.RetentionPolicies {
		for _, sg := range rp.ShardGroups {
			if !sg.Deleted() && sg.StartTime.Equal(start) && len(sg.Shards) > 0 {
				return sg.Shards[0].ID
			}
		}
	}
	return 0
}

func (b *built) countIn(series string, w int) int {
	lo := b.d.T0 + int64(w)*hour
	n := 0
	for _, f := range b.m.Fields(series) {
		n += len(b.m.Range(series, f, lo, lo+hour-1, true))
	}
	return n
}

func (b *built) applyWrite(o op) error {
	var pts []models.Point
	for _, wp := range o.Points {
		p, err := wp.ToModelsPoint()
		if err != nil {
			return err
		}
		pts = append(pts, p)
	}
	if err := b.s.Write(pts); err != nil {
		return err
	}
	for _, wp := range o.Points {
		for n, v := range wp.Fields {
			b.m.Write(wp.Series, n, wp.T, v)
		}
		w := b.window(wp.T)
		b.state[wp.Series][w] = live
		b.kept[wp.Series][w] = false
		b.wasLive[wp.Series][w] = true
		b.written[wp.Series][w][wp.T] = true
		for n := range wp.Fields {
			b.cachePts[wp.Series][w][fmt.Sprintf("%s|%d", n, wp.T)] = true
		}
	}
	return nil
}

func (b *built) applyDelete(o op) error {
	var sources influxql.Sources
	if o.From != "" {
		sources = influxql.Sources{&influxql.Measurement{Name: o.From}}
	}
	var parts []string
	if c := o.tagCond(); c != "" {
		parts = append(parts, c)
	}
	if o.Min != influxql.MinTime {
		parts = append(parts, fmt.Sprintf("time >= %d", o.Min))
	}
	if o.Max != influxql.MaxTime {
		parts = append(parts, fmt.Sprintf("time <= %d", o.Max))
	}
	var cond influxql.Expr
	if len(parts) > 0 {
		var err error
		if cond, err = influxql.ParseExpr(strings.Join(parts, " AND ")); err != nil {
			return fmt.Errorf("parse delete condition: %w", err)
		}
	}
	// the path of the InfluxQL DELETE statement (v1/coordinator statement executor)
	err := b.s.Store.DeleteSeries(context.Background(), b.s.DB(), sources, cond)
	b.s.Quiesce()
	if err != nil {
		return err
	}
	b.deletes++
	var matched []string
	for _, sk := range b.d.Series {
		if !o.matches(sk) {
			continue
		}
		matched = append(matched, sk)
		b.m.DeleteRange(sk, o.Min, o.Max)
		for w := 0; w < b.d.NShards; w++ {
			for k := range b.cachePts[sk][w] {
				var ts int64
				fmt.Sscanf(k[strings.IndexByte(k, '|')+1:], "%d", &ts)
				if ts >= o.Min && ts <= o.Max {
					delete(b.cachePts[sk][w], k)
				}
			}
		}
	}
	for _, sk := range matched {
		for w := 0; w < b.d.NShards; w++ {
			if b.state[sk][w] == dead && !b.kept[sk][w] {
				continue
			}
			if b.countIn(sk, w) > 0 {
				continue // still has points: stays live
			}
			covered := true
			for ts := range b.written[sk][w] {
				if ts < o.Min || ts > o.Max {
					covered = false
					break
				}
			}
			if !covered {
				b.state[sk][w] = unknown
				continue
			}
			b.state[sk][w] = dead
			b.dropped[sk][w] = true
			b.written[sk][w] = map[int64]bool{}
			// signature of prefixKeptKey: another series of the same delete whose key starts with
			// this series' key still has values in the shard's cache
			b.kept[sk][w] = false
			for _, o2 := range matched {
				if o2 != sk && strings.HasPrefix(o2, sk) && len(b.cachePts[o2][w]) > 0 {
					b.kept[sk][w] = true
				}
			}
		}
	}
	return nil
}

// newBuilt opens an empty stack for the dataset; the history is applied with step.
func newBuilt(d *dataset) (*built, error) {
	dir, err := scratch.Dir("c42-")
	if err != nil {
		return nil, err
	}
	b := &built{d: d, m: model.NewStore(), dir: dir, state: map[string][]lstate{}, written: map[string][]map[int64]bool{}, wasLive: map[string][]bool{}, dropped: map[string][]bool{}, cachePts: map[string][]map[string]bool{}, kept: map[string][]bool{}}
	for _, sk := range d.Series {
		b.state[sk] = make([]lstate, d.NShards)
		b.wasLive[sk] = make([]bool, d.NShards)
		b.dropped[sk] = make([]bool, d.NShards)
		b.kept[sk] = make([]bool, d.NShards)
		b.written[sk] = make([]map[int64]bool, d.NShards)
		b.cachePts[sk] = make([]map[string]bool, d.NShards)
		for w := range b.written[sk] {
			b.written[sk][w] = map[int64]bool{}
			b.cachePts[sk][w] = map[string]bool{}
		}
	}
	s, err := fix.NewStack(dir, time.Hour)
	if err != nil {
		b.close()
		return nil, fmt.Errorf("new stack: %w", err)
	}
	b.s = s
	return b, nil
}

// step applies history op i to the real stack and to the model.
func (b *built) step(i int) error {
	o := b.d.Ops[i]
	var err error
	switch o.Kind {
	case "write":
		err = b.applyWrite(o)
	case "snap":
		if id := b.shardForHour(o.Hour); id != 0 {
			err = b.s.SnapshotShard(id)
			for _, sk := range b.d.Series {
				b.cachePts[sk][o.Hour] = map[string]bool{}
			}
		}
	case "reopen":
		err = b.s.Reopen()
		for _, sk := range b.d.Series {
			b.dropped[sk] = make([]bool, b.d.NShards)
		}
	case "delete":
		err = b.applyDelete(o)
	}
	if err != nil {
		return fmt.Errorf("op %d (%s): %w", i, o.Kind, err)
	}
	b.applied = i + 1
	return nil
}

func buildDataset(d *dataset) (*built, error) {
	b, err := newBuilt(d)
	if err != nil {
		return nil, err
	}
	for i := range d.Ops {
		if err := b.step(i); err != nil {
			b.close()
			return nil, err
		}
	}
	return b, nil
}

// windowsWithShard lists the window indexes for which a shard exists, with their shard ids.
func (b *built) windowsWithShard() ([]int, []uint64) {
	var ws []int
	var ids []uint64
	for w := 0; w < b.d.NShards; w++ {
		if id := b.shardForHour(w); id != 0 {
			ws = append(ws, w)
			ids = append(ids, id)
		}
	}
	return ws, ids
}
