// C42 — Metadata queries list exactly the live names, sorted and authorized.
//
// Generator: a bucket built through the full storage stack (fix.Stack, 2..4 hourly shards, 3..9
// series over 3 measurements with tags host/region, some series lacking a tag), a history of
// writes, TSM snapshots, reopen and series-range deletes through tsdb.Store.DeleteSeries (whole
// shard windows, all time, arbitrary sub-ranges; all series / one measurement / a tag condition),
// so that series, tag values and measurements are live in one shard and emptied in another; then
// tsdb.Store.MeasurementNames / TagKeys / TagValues with a condition from the grammar the
// InfluxQL statement rewriter produces (_name clauses, _tagKey clauses, tag comparisons incl.
// regex and ”, AND/OR), all shards or a subset, and an authorizer: open, nil, or a fine-grained
// query.Authorizer denying by measurement, by tag pair, by a set of values of a tag key, by an
// explicit subset of the dataset's series, by a hash of the series, or everything. Two thirds of
// the datasets are "dense" (all series inside one or two measurements: several values per tag
// key, several series per value). Every dataset additionally gets measurement listings built
// from the data (genScanQuery): a regex tag clause that matches >= 2 live values of one
// measurement with an authorizer hiding a non-empty proper subset of those series / values, so
// that value-by-value and series-by-series scans under authorization meet hidden and visible
// series in every order (classes "mnames:...").
//
// Oracle: the model keeps, per series and shard, whether the series is live (has points), dead
// (never written / emptied by one delete covering everything written), or undetermined (emptied
// by several partial deletes: the engine may or may not have dropped the index entry). A name
// must be returned when a live, authorized, matching series carries it in a selected shard and
// must not be returned unless a live-or-undetermined, authorized, matching series does; results
// sorted, each name once, grouped by measurement in ascending order.
package c42_metaqueries

import (
	"context"
	"fmt"
	"sort"
	"strings"
	"testing"

	"pgregory.net/rapid"

	"verifharness/internal/ev"
)

var rec = ev.For("C42", "exploration",
	"case = (multi-shard dataset history with deletes, one MeasurementNames/TagKeys/TagValues call with condition, shard subset and authorizer); non-trivial = the selected shards disagree about the liveness of some series (live in one, emptied by a delete in another), the authorizer hides some but not all live series of a measurement, and the condition is not empty; distinct by the rendered history + query")

func init() {
	rec.Assume("reference model: point model + per (series, shard) liveness; a series emptied by several partial deletes is 'undetermined' (the engine documents that the index entry may remain) and is accepted either way")
	rec.Assume("conditions of TagKeys/TagValues are evaluated per series with a missing tag comparing as ''; for MeasurementNames only _name clauses, positive tag clauses, ORs of those and '_name-clause AND such-an-expression' are checked exactly; negative or empty-matching tag clauses and ANDs of two tag clauses are only checked for 'no dead or hidden name, sorted, once'")
	rec.Assume("result entries with an empty key/value list are ignored; background compactions (TSM and index) are off")
}

type mquery struct {
	Kind   string   `json:"kind"` // "measurements" | "tagkeys" | "tagvalues"
	MCond  *cexpr   `json:"mcond,omitempty"`
	Exact  bool     `json:"exact,omitempty"`
	Name   *cexpr   `json:"name,omitempty"`
	TagKey *cexpr   `json:"tagkey,omitempty"`
	Filter *cexpr   `json:"filter,omitempty"`
	Shards []int    `json:"shards,omitempty"` // window indexes; nil = every shard of the bucket
	Auth   authSpec `json:"auth"`
	Front  string   `json:"front,omitempty"` // "" = tsdb.Store API, "influxql" = SHOW statement through the statement executor
}

// cond assembles the condition the way the statement rewriter does: (sources) AND (where AND key).
func (q *mquery) cond() *cexpr {
	if q.Kind == "measurements" {
		return q.MCond
	}
	var parts []*cexpr
	if q.Name != nil {
		parts = append(parts, q.Name)
	}
	if q.Filter != nil {
		parts = append(parts, paren(q.Filter))
	}
	if q.TagKey != nil {
		parts = append(parts, paren(q.TagKey))
	}
	switch len(parts) {
	case 0:
		return nil
	case 1:
		return parts[0]
	}
	return &cexpr{Kind: "and", Kids: parts}
}

func (q *mquery) render() string {
	return fmt.Sprintf("%s%s cond=[%s] exact=%v shards=%v auth=%+v", q.Front, q.Kind, q.cond().text(), q.Exact, q.Shards, q.Auth)
}

// genScanQuery draws a measurement listing whose condition has a positive tag clause and whose
// authorizer is fine-grained: the implementation answers it by scanning, per measurement, the
// tag values that match the clause and, per value, the series until an authorized one is found.
// The clause and the authorizer are built from the data (construction, not rejection): when some
// measurement has live series with two or more values of a tag key, the clause is a regex
// matching at least two of those values and the authorizer (mostly) hides a non-empty proper
// subset of exactly those series or of those values, so that hidden and visible series meet
// inside one scan in every order.
func genScanQuery(t *rapid.T, b *built) *mquery {
	q := &mquery{Kind: "measurements", Exact: true}
	windows, _ := b.windowsWithShard()
	type cand struct {
		m, k   string
		vals   []string // distinct live values, sorted
		series []string // live series of m carrying k
	}
	var cands []cand
	for _, m := range measurements {
		for _, k := range []string{"host", "region"} {
			c := cand{m: m, k: k}
			for _, sk := range b.d.Series {
				name, tags := tagsOf(sk)
				v, ok := tags[k]
				if name != m || !ok || !b.present(sk, windows, false) {
					continue
				}
				c.series = append(c.series, sk)
				if !inList(c.vals, v) {
					c.vals = append(c.vals, v)
				}
			}
			if len(c.vals) >= 2 {
				sort.Strings(c.vals)
				cands = append(cands, c)
			}
		}
	}
	var leaf *cexpr
	if len(cands) > 0 && rapid.IntRange(0, 4).Draw(t, "scdirected") != 0 {
		c := cands[rapid.IntRange(0, len(cands)-1).Draw(t, "sccand")]
		var res []string
		for _, re := range positiveTagRegexes {
			n := 0
			for _, v := range c.vals {
				if matchLeaf("=~", re, v) {
					n++
				}
			}
			if n >= 2 {
				res = append(res, re)
			}
		}
		leaf = leafOf(c.k, "=~", rapid.SampledFrom(res).Draw(t, "scre")) // "." always qualifies
		switch rapid.IntRange(0, 9).Draw(t, "scauth") {
		case 0, 1, 2, 3, 4:
			hid := rapid.SliceOfNDistinct(rapid.SampledFrom(c.series), 1, len(c.series)-1, rapid.ID[string]).Draw(t, "schidden")
			sort.Strings(hid)
			q.Auth = authSpec{Mode: "deny-series", Hidden: hid}
		case 5, 6:
			vs := rapid.SliceOfNDistinct(rapid.SampledFrom(c.vals), 1, len(c.vals)-1, rapid.ID[string]).Draw(t, "scvs")
			sort.Strings(vs)
			q.Auth = authSpec{Mode: "deny-values", K: c.k, Vs: vs}
		default:
			q.Auth = genAuthFrom(t, b.d.Series, 4)
		}
	} else {
		leaf = genTagLeaf(t, "sct", true)
		q.Auth = genAuthFrom(t, b.d.Series, 4)
	}
	switch rapid.IntRange(0, 5).Draw(t, "sc") {
	case 0, 1, 2:
		q.MCond = leaf
	case 3:
		kids := []*cexpr{leaf, genTagLeaf(t, "scb", true)}
		if rapid.Bool().Draw(t, "scswap") {
			kids[0], kids[1] = kids[1], kids[0]
		}
		q.MCond = &cexpr{Kind: "or", Kids: kids}
	default:
		q.MCond = &cexpr{Kind: "and", Kids: []*cexpr{paren(genNameExpr(t, "scn")), paren(leaf)}}
	}
	return q
}

// positiveTagLeaves lists the tag clauses with = or =~ of a condition.
func (c *cexpr) positiveTagLeaves() []*cexpr {
	if c == nil {
		return nil
	}
	if c.Kind == "leaf" {
		if c.Key != "_name" && c.Key != "_tagKey" && (c.Op == "=" || c.Op == "=~") {
			return []*cexpr{c}
		}
		return nil
	}
	var out []*cexpr
	for _, k := range c.Kids {
		out = append(out, k.positiveTagLeaves()...)
	}
	return out
}

// valueScanShape describes what a value-by-value scan of a measurement listing meets: multi =
// some positive tag clause matches two or more values that live series of one measurement carry;
// firstHidden = additionally the authorizer hides every live series carrying the first matching
// value (in sorted value order) while a live series carrying a later matching value is visible,
// so the measurement has to be listed because of a value that is not the first match.
func (b *built) valueScanShape(q *mquery, windows []int) (multi, firstHidden bool) {
	for _, l := range q.MCond.positiveTagLeaves() {
		// measurement -> value -> [visible, hidden] live series
		per := map[string]map[string]*[2]int{}
		for _, sk := range b.d.Series {
			name, tags := tagsOf(sk)
			v, ok := tags[l.Key]
			if !ok || !matchLeaf(l.Op, l.Lit, v) || !b.present(sk, windows, false) {
				continue
			}
			if per[name] == nil {
				per[name] = map[string]*[2]int{}
			}
			if per[name][v] == nil {
				per[name][v] = &[2]int{}
			}
			if q.Auth.allowed(name, tags) {
				per[name][v][0]++
			} else {
				per[name][v][1]++
			}
		}
		for _, vals := range per {
			if len(vals) < 2 {
				continue
			}
			multi = true
			var vs []string
			for v := range vals {
				vs = append(vs, v)
			}
			sort.Strings(vs)
			if vals[vs[0]][0] > 0 {
				continue
			}
			for _, v := range vs[1:] {
				if vals[v][0] > 0 {
					firstHidden = true
				}
			}
		}
	}
	return multi, firstHidden
}

func genQuery(t *rapid.T, b *built) *mquery {
	q := &mquery{Auth: genAuth(t, b.d.Series)}
	q.Kind = rapid.SampledFrom([]string{"measurements", "tagkeys", "tagkeys", "tagvalues", "tagvalues"}).Draw(t, "qkind")
	if q.Kind == "measurements" {
		q.MCond, q.Exact = genMeasurementCond(t)
		return q
	}
	q.Exact = true
	if rapid.IntRange(0, 2).Draw(t, "qname?") == 0 {
		q.Name = genNameExpr(t, "qn")
	}
	if q.Kind == "tagvalues" || rapid.IntRange(0, 2).Draw(t, "qkey?") == 0 {
		q.TagKey = genTagKeyExpr(t, "qk")
	}
	if rapid.IntRange(0, 1).Draw(t, "qfilter?") == 0 {
		q.Filter = genFilter(t, "qf", 2)
	}
	ws, _ := b.windowsWithShard()
	if len(ws) > 1 && rapid.IntRange(0, 1).Draw(t, "qsub?") == 0 {
		sub := rapid.SliceOfNDistinct(rapid.SampledFrom(ws), 1, len(ws)-1, rapid.ID[int]).Draw(t, "qshards")
		sort.Ints(sub)
		q.Shards = sub
	}
	return q
}

// present reports whether the series counts as present in the selected windows: definitely
// (live somewhere) or possibly (live or undetermined somewhere).
func (b *built) present(series string, windows []int, possibly bool) bool {
	for _, w := range windows {
		switch b.state[series][w] {
		case live:
			return true
		case unknown:
			if possibly {
				return true
			}
		}
	}
	return false
}

// nameSet: measurement -> key -> value -> struct{} (keys/values empty for measurement listings)
type nameSet map[string]map[string]map[string]bool

func (n nameSet) add(m, k, v string) {
	if n[m] == nil {
		n[m] = map[string]map[string]bool{}
	}
	if n[m][k] == nil {
		n[m][k] = map[string]bool{}
	}
	n[m][k][v] = true
}

func (n nameSet) has(m, k, v string) bool { return n[m] != nil && n[m][k] != nil && n[m][k][v] }

func (n nameSet) triples() [][3]string {
	var out [][3]string
	for m, ks := range n {
		for k, vs := range ks {
			for v := range vs {
				out = append(out, [3]string{m, k, v})
			}
		}
	}
	sort.Slice(out, func(i, j int) bool { return less3(out[i], out[j]) })
	return out
}

func (n nameSet) flat() []string {
	var out []string
	for m, ks := range n {
		for k, vs := range ks {
			for v := range vs {
				out = append(out, strings.TrimRight(m+"/"+k+"/"+v, "/"))
			}
		}
	}
	sort.Strings(out)
	return out
}

// expected computes the names carried by the series that pres accepts and that are authorized
// and match the condition. ignoreCond: drop the condition (upper bound for conditions of
// ambiguous meaning).
func (b *built) expected(q *mquery, pres func(series string) bool, ignoreCond bool) nameSet {
	out := nameSet{}
	for _, sk := range b.d.Series {
		name, tags := tagsOf(sk)
		if !pres(sk) || !q.Auth.allowed(name, tags) {
			continue
		}
		switch q.Kind {
		case "measurements":
			if q.MCond == nil || ignoreCond || q.MCond.eval(name, tags, "") {
				out.add(name, "", "")
			}
		default:
			if q.Name != nil && !q.Name.eval(name, tags, "") {
				continue
			}
			if q.Filter != nil && !q.Filter.eval(name, tags, "") {
				continue
			}
			for k, v := range tags {
				if q.TagKey != nil && !q.TagKey.eval(name, tags, k) {
					continue
				}
				if q.Kind == "tagkeys" {
					out.add(name, k, "")
				} else {
					out.add(name, k, v)
				}
			}
		}
	}
	return out
}

// ---- signatures of the open findings ----------------------------------------------------------

func (c *cexpr) hasTagLeaf() bool {
	if c == nil {
		return false
	}
	if c.Kind == "leaf" {
		return c.Key != "_name" && c.Key != "_tagKey"
	}
	for _, k := range c.Kids {
		if k.hasTagLeaf() {
			return true
		}
	}
	return false
}

// noSeriesCheckShape: with an open authorizer and no series filter the store lists keys/values
// (or matches tag clauses of a measurement listing) straight from the index' key/value lists
// without looking at any series (signature of openAuthDeadNamesKey).
func (q *mquery) noSeriesCheckShape() bool {
	if q.Auth.fine() {
		return false
	}
	if q.Kind == "measurements" {
		return q.MCond.hasTagLeaf()
	}
	// an OR list of _name clauses is not split off by the store and acts as a series filter
	return q.Filter == nil && (q.Name == nil || q.Name.Kind == "leaf")
}

// presDeadName: presence as seen by a listing that never looks at series: the series carried
// the name in a selected shard at some time, and its measurement still has an entry there.
func (b *built) presDeadName(windows []int) func(string) bool {
	return func(sk string) bool {
		was := false
		for _, w := range windows {
			if b.wasLive[sk][w] {
				was = true
			}
		}
		if !was {
			return false
		}
		name, _ := tagsOf(sk)
		for _, o := range b.d.Series {
			if on, _ := tagsOf(o); on == name && b.present(o, windows, true) {
				return true
			}
		}
		return false
	}
}

// presKept: presence including series whose index entry the engine keeps although a delete
// emptied them (signature of prefixKeptKey, computed when the delete is applied).
func (b *built) presKept(windows []int) func(string) bool {
	return func(sk string) bool {
		if b.present(sk, windows, true) {
			return true
		}
		for _, w := range windows {
			if b.kept[sk][w] {
				return true
			}
		}
		return false
	}
}

// presStaleCache: presence as seen through the tag-value series-id cache that a series drop does
// not invalidate: the series was emptied in a selected shard since the engine was opened and
// still exists in the bucket (so the series file has not tombstoned it).
func (b *built) presStaleCache(windows, all []int) func(string) bool {
	return func(sk string) bool {
		if b.present(sk, windows, true) {
			return true
		}
		if !b.present(sk, all, true) {
			return false
		}
		for _, w := range windows {
			if b.dropped[sk][w] {
				return true
			}
		}
		return false
	}
}

type caseJSON struct {
	Dataset *dataset `json:"dataset"`
	Applied int      `json:"ops_applied"` // the query ran after this many history ops
	Query   *mquery  `json:"query"`
	Got     any      `json:"got,omitempty"`
}

// run executes the query against the real store and returns the names in the returned order as
// measurement / key / value triples, plus a rendering of the raw result.
func (b *built) run(q *mquery, shardIDs []uint64) ([][3]string, string, error) {
	if q.Front == "influxql" {
		return b.runShow(q)
	}
	cond, err := parseCond(q.cond())
	if err != nil {
		return nil, "", fmt.Errorf("harness: condition %q does not parse: %w", q.cond().text(), err)
	}
	ctx := context.Background()
	st := b.s.Store
	var out [][3]string
	switch q.Kind {
	case "measurements":
		names, err := st.MeasurementNames(ctx, q.Auth.authorizer(), b.s.DB(), cond)
		if err != nil {
			return nil, "", err
		}
		for _, n := range names {
			out = append(out, [3]string{string(n)})
		}
		return out, fmt.Sprintf("%q", names), nil
	case "tagkeys":
		res, err := st.TagKeys(ctx, q.Auth.authorizer(), shardIDs, cond)
		if err != nil {
			return nil, "", err
		}
		for _, tk := range res {
			if len(tk.Keys) == 0 {
				out = append(out, [3]string{tk.Measurement, "\x00empty"})
			}
			for _, k := range tk.Keys {
				out = append(out, [3]string{tk.Measurement, k})
			}
		}
		return out, fmt.Sprintf("%+v", res), nil
	default:
		res, err := st.TagValues(ctx, q.Auth.authorizer(), shardIDs, cond)
		if err != nil {
			return nil, "", err
		}
		for _, tv := range res {
			if len(tv.Values) == 0 {
				out = append(out, [3]string{tv.Measurement, "\x00empty"})
			}
			for _, kv := range tv.Values {
				out = append(out, [3]string{tv.Measurement, kv.Key, kv.Value})
			}
		}
		return out, fmt.Sprintf("%+v", res), nil
	}
}

func less3(a, b [3]string) bool {
	for i := 0; i < 3; i++ {
		if a[i] != b[i] {
			return a[i] < b[i]
		}
	}
	return false
}

func (b *built) checkQuery(t *rapid.T, test string, q *mquery) {
	c := caseJSON{Dataset: b.d, Applied: b.applied, Query: q}
	qctx := fmt.Sprintf("%s [after %d ops of %s]", q.render(), b.applied, b.d.render())
	allW, allIDs := b.windowsWithShard()
	windows, shardIDs := allW, allIDs
	if q.Shards != nil && q.Kind != "measurements" {
		windows, shardIDs = nil, nil
		for _, w := range q.Shards {
			if id := b.shardForHour(w); id != 0 {
				windows = append(windows, w)
				shardIDs = append(shardIDs, id)
			}
		}
	}
	got, raw, err := b.run(q, shardIDs)
	if err != nil {
		rec.Fail(t, test, "query-error", fmt.Sprintf("%s: %v", qctx, err), c)
	}
	c.Got = raw
	rec.Eval()

	// sorted, each name once, grouped by measurement
	for i := 1; i < len(got); i++ {
		if !less3(got[i-1], got[i]) {
			key := "result-unsorted"
			if got[i-1] == got[i] {
				key = "name-duplicated"
			} else if got[i-1][0] == got[i][0] && got[i][1] == "\x00empty" {
				key = "measurement-repeated"
			}
			rec.Fail(t, test, key, fmt.Sprintf("%s: entry %d %q is not strictly after entry %d %q\n result %s", qctx, i, got[i], i-1, got[i-1], raw), c)
		}
	}
	lower := b.expected(q, func(sk string) bool { return b.present(sk, windows, false) }, !q.Exact)
	upper := b.expected(q, func(sk string) bool { return b.present(sk, windows, true) }, !q.Exact)
	// what the open findings can add (only consulted for names outside upper)
	type via struct {
		key  string
		pres func(string) bool
	}
	var vias []via
	if q.noSeriesCheckShape() && ev.KnownOpen("C42", openAuthDeadNamesKey) {
		vias = append(vias, via{openAuthDeadNamesKey, b.presDeadName(windows)})
	}
	if ev.KnownOpen("C42", staleCacheKey) {
		vias = append(vias, via{staleCacheKey, b.presStaleCache(windows, allW)})
	}
	if ev.KnownOpen("C42", prefixKeptKey) {
		vias = append(vias, via{prefixKeptKey, b.presKept(windows)})
	}
	viaSets := make([]nameSet, len(vias))
	for i, v := range vias {
		viaSets[i] = b.expected(q, v.pres, !q.Exact)
	}
	var viaAll nameSet
	if len(vias) > 1 {
		viaAll = b.expected(q, func(sk string) bool {
			for _, v := range vias {
				if v.pres(sk) {
					return true
				}
			}
			return false
		}, !q.Exact)
	}
	gotSet := nameSet{}
	for _, g := range got {
		if g[1] == "\x00empty" {
			continue
		}
		gotSet.add(g[0], g[1], g[2])
		if !upper.has(g[0], g[1], g[2]) {
			excluded := false
			for i, v := range vias {
				if viaSets[i].has(g[0], g[1], g[2]) {
					rec.ExcludedKnown(v.key)
					excluded = true
					break
				}
			}
			if !excluded && viaAll.has(g[0], g[1], g[2]) {
				rec.ExcludedKnown(vias[0].key + "+combined")
				excluded = true
			}
			if excluded {
				continue
			}
			why := b.explainExtra(q, windows, g)
			rec.Fail(t, test, "name-not-live-authorized-matching:"+why, fmt.Sprintf("%s: returned %q, but no present, authorized, matching series carries it (%s)\n result   %s\n expected at most %q", qctx, g, why, raw, upper.flat()), c)
		}
	}
	if q.Exact {
		for _, p := range lower.triples() {
			if !gotSet.has(p[0], p[1], p[2]) {
				rec.Fail(t, test, "name-missing", fmt.Sprintf("%s: %q is carried by a live, authorized, matching series in the selected shards but was not returned\n result   %s\n expected at least %q", qctx, p, raw, lower.flat()), c)
			}
		}
	}

	// classes and the non-trivial rule
	rec.Class("query:" + q.Front + q.Kind)
	rec.Class("auth:" + q.Auth.Mode)
	if q.cond() == nil {
		rec.Class("cond:none")
	} else {
		rec.Class("cond:present")
		if q.Filter != nil {
			rec.Class("cond:tag-filter")
		}
	}
	if !q.Exact {
		rec.Class("cond:ambiguous-meaning(upper-bound-only)")
	}
	if q.Kind == "measurements" {
		if multi, firstHidden := b.valueScanShape(q, windows); multi {
			rec.Class("mnames:tag-clause-matches->=2-live-values-of-a-measurement")
			if q.Auth.fine() {
				rec.Class("mnames:tag-clause-matches->=2-live-values-of-a-measurement+fine-authorizer")
			}
			if firstHidden && q.Exact {
				rec.Class("mnames:first-matching-value-has-only-hidden-series,later-value-visible(exact)")
			}
		}
	}
	if q.Shards != nil {
		rec.Class("shards:subset")
	} else {
		rec.Class("shards:all")
	}
	if len(got) == 0 {
		rec.Class("result:empty")
	} else {
		rec.Class("result:nonempty")
	}
	disagree, undetermined := false, false
	for _, sk := range b.d.Series {
		var nLive, nDeadAfterLife int
		for _, w := range windows {
			switch b.state[sk][w] {
			case live:
				nLive++
			case dead:
				if b.wasLive[sk][w] {
					nDeadAfterLife++
				}
			case unknown:
				undetermined = true
			}
		}
		if nLive > 0 && nDeadAfterLife > 0 {
			disagree = true
		}
	}
	partial := false
	if q.Auth.fine() {
		per := map[string][2]int{}
		for _, sk := range b.d.Series {
			if !b.present(sk, windows, false) {
				continue
			}
			name, tags := tagsOf(sk)
			c := per[name]
			if q.Auth.allowed(name, tags) {
				c[0]++
			} else {
				c[1]++
			}
			per[name] = c
		}
		for _, c := range per {
			if c[0] > 0 && c[1] > 0 {
				partial = true
			}
		}
	}
	if disagree {
		rec.Class("data:shards-disagree-about-liveness")
	}
	if undetermined {
		rec.Class("data:undetermined-liveness-present")
	}
	if b.deletes > 0 {
		rec.Class("data:history-has-deletes")
	}
	if partial {
		rec.Class("auth:hides-some-not-all-series-of-a-measurement")
	}
	if disagree && partial && q.cond() != nil {
		rec.NonTrivial(fmt.Sprintf("%s|after %d ops|%s", b.d.render(), b.applied, q.render()))
		if rec.WantSample() {
			rec.Sample(map[string]any{"history": b.d.render(), "after_ops": b.applied, "query": q.render(), "result": raw})
		}
	}
}

// explainExtra classifies an unexpected name: is it carried only by dead series, only by
// series the authorizer hides, or only by series the condition excludes?
func (b *built) explainExtra(q *mquery, windows []int, g [3]string) string {
	carried, presentAny, allowedAny := false, false, false
	for _, sk := range b.d.Series {
		name, tags := tagsOf(sk)
		if name != g[0] {
			continue
		}
		if g[1] != "" {
			v, ok := tags[g[1]]
			if !ok || (q.Kind == "tagvalues" && v != g[2]) {
				continue
			}
		}
		carried = true
		if b.present(sk, windows, true) {
			presentAny = true
			if q.Auth.allowed(name, tags) {
				allowedAny = true
			}
		}
	}
	switch {
	case !carried:
		return "never-written"
	case !presentAny:
		return "only-deleted-series"
	case !allowedAny:
		return "only-hidden-series"
	}
	return "condition-excludes"
}

func TestPropMetaQueries(t *testing.T) {
	rec.Check(t, 300, 4000, func(t *rapid.T) {
		d := genDataset(t)
		b, err := newBuilt(d)
		if err != nil {
			t.Fatalf("opening stack: %v", err)
		}
		defer b.close()
		// queries run in the middle of the history too (they warm the index caches that later
		// deletes have to keep right), the rest after the last op: 8 per dataset
		nq := 0
		for i := range d.Ops {
			if err := b.step(i); err != nil {
				t.Fatalf("building dataset: %v", err)
			}
			if i+1 < len(d.Ops) && nq < 4 && rapid.IntRange(0, 2).Draw(t, fmt.Sprintf("midq%d", i)) == 0 {
				b.checkQuery(t, "TestPropMetaQueries", genQuery(t, b))
				rec.Class("query:mid-history")
				nq++
			}
		}
		for ; nq < 8; nq++ {
			b.checkQuery(t, "TestPropMetaQueries", genQuery(t, b))
		}
		// plus two measurement listings that make the index scan tag values and series under a
		// fine-grained authorizer
		for i := 0; i < 2; i++ {
			b.checkQuery(t, "TestPropMetaQueries", genScanQuery(t, b))
			rec.Class("query:measurements-tag-clause+fine-authorizer(targeted)")
		}
	})
}
