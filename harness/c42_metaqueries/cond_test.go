package c42_metaqueries

import (
	"fmt"
	"hash/fnv"
	"regexp"
	"sort"
	"strings"

	"github.com/influxdata/influxdb/v2/influxql/query"
	"github.com/influxdata/influxdb/v2/models"
	"github.com/influxdata/influxql"
	"pgregory.net/rapid"
)

// cexpr is a condition tree of the bounded grammar. Leaves compare one of
//   - "_name"   (measurement name),
//   - "_tagKey" (tag key, SHOW TAG KEYS/VALUES ... WITH KEY),
//   - a tag key (host, region, zz) with a string or regex literal.
type cexpr struct {
	Kind string   `json:"kind"` // "leaf" | "and" | "or" | "paren"
	Kids []*cexpr `json:"kids,omitempty"`
	Key  string   `json:"key,omitempty"`
	Op   string   `json:"op,omitempty"` // = != =~ !~
	Lit  string   `json:"lit,omitempty"`
}

func (c *cexpr) text() string {
	if c == nil {
		return ""
	}
	switch c.Kind {
	case "and", "or":
		parts := make([]string, len(c.Kids))
		for i, k := range c.Kids {
			parts[i] = k.text()
		}
		return strings.Join(parts, " "+strings.ToUpper(c.Kind)+" ")
	case "paren":
		return "(" + c.Kids[0].text() + ")"
	}
	if c.Op == "=~" || c.Op == "!~" {
		return fmt.Sprintf("%s %s /%s/", c.Key, c.Op, c.Lit)
	}
	return fmt.Sprintf("%s %s '%s'", c.Key, c.Op, c.Lit)
}

func matchLeaf(op, lit, v string) bool {
	switch op {
	case "=":
		return v == lit
	case "!=":
		return v != lit
	case "=~":
		return regexp.MustCompile(lit).MatchString(v)
	default:
		return !regexp.MustCompile(lit).MatchString(v)
	}
}

// eval evaluates the tree for a series (name, tags) and, for _tagKey leaves, a tag key.
// A tag the series lacks compares as "".
func (c *cexpr) eval(name string, tags map[string]string, tagKey string) bool {
	switch c.Kind {
	case "and":
		for _, k := range c.Kids {
			if !k.eval(name, tags, tagKey) {
				return false
			}
		}
		return true
	case "or":
		for _, k := range c.Kids {
			if k.eval(name, tags, tagKey) {
				return true
			}
		}
		return false
	case "paren":
		return c.Kids[0].eval(name, tags, tagKey)
	}
	switch c.Key {
	case "_name":
		return matchLeaf(c.Op, c.Lit, name)
	case "_tagKey":
		return matchLeaf(c.Op, c.Lit, tagKey)
	}
	return matchLeaf(c.Op, c.Lit, tags[c.Key])
}

func leafOf(key, op, lit string) *cexpr { return &cexpr{Kind: "leaf", Key: key, Op: op, Lit: lit} }
func paren(c *cexpr) *cexpr             { return &cexpr{Kind: "paren", Kids: []*cexpr{c}} }

// positiveNonEmpty: a tag leaf whose meaning for "list the measurements WHERE ..." is not in
// doubt: = or =~ with a literal/regex that does not match the empty string.
func (c *cexpr) positiveNonEmpty() bool {
	if c.Kind != "leaf" {
		return false
	}
	switch c.Op {
	case "=":
		return c.Lit != ""
	case "=~":
		return !regexp.MustCompile(c.Lit).MatchString("")
	}
	return false
}

// ---- generators ---------------------------------------------------------------------------

func genNameLeaf(t *rapid.T, label string) *cexpr {
	op := rapid.SampledFrom([]string{"=", "=", "!=", "=~", "!~"}).Draw(t, label+"op")
	if op == "=~" || op == "!~" {
		return leafOf("_name", op, rapid.SampledFrom([]string{"^m", "0$", "m[12]", "^x"}).Draw(t, label+"re"))
	}
	return leafOf("_name", op, rapid.SampledFrom([]string{"m0", "m1", "m2", "m9"}).Draw(t, label+"v"))
}

// genNameExpr: a single _name clause or the OR list the FROM clause of a statement turns into.
func genNameExpr(t *rapid.T, label string) *cexpr {
	if rapid.IntRange(0, 3).Draw(t, label+"list") == 0 {
		a := leafOf("_name", "=", rapid.SampledFrom(measurements).Draw(t, label+"a"))
		b := leafOf("_name", rapid.SampledFrom([]string{"=", "=~"}).Draw(t, label+"bop"), "")
		if b.Op == "=" {
			b.Lit = rapid.SampledFrom(measurements).Draw(t, label+"b")
		} else {
			b.Lit = rapid.SampledFrom([]string{"2$", "^m1"}).Draw(t, label+"bre")
		}
		return paren(&cexpr{Kind: "or", Kids: []*cexpr{a, b}})
	}
	return genNameLeaf(t, label)
}

func genTagKeyExpr(t *rapid.T, label string) *cexpr {
	switch rapid.IntRange(0, 5).Draw(t, label+"k") {
	case 0, 1:
		return leafOf("_tagKey", "=", rapid.SampledFrom([]string{"host", "region", "zz"}).Draw(t, label+"v"))
	case 2:
		return leafOf("_tagKey", "!=", rapid.SampledFrom([]string{"host", "region", "zz"}).Draw(t, label+"v"))
	case 3:
		return leafOf("_tagKey", rapid.SampledFrom([]string{"=~", "!~"}).Draw(t, label+"op"), rapid.SampledFrom([]string{"^h", "o", "n$", "^z"}).Draw(t, label+"re"))
	default:
		// WITH KEY IN (host, region)
		return paren(&cexpr{Kind: "or", Kids: []*cexpr{leafOf("_tagKey", "=", "host"), leafOf("_tagKey", "=", rapid.SampledFrom([]string{"region", "zz"}).Draw(t, label+"v2"))}})
	}
}

// "." matches every value a series can carry, "^.$" the one-letter values (a and b but not ab:
// matching values that are not adjacent in the index' sorted value list), "x|y" both regions.
var tagRegexes = []string{"^a", "a|x", "^$", ".*", "b$", "^(ab|y)$", "^a$", ".", "^.$", "x|y"}

// regexes that do not match the empty string
var positiveTagRegexes = []string{"^a", "a|x", "b$", "^(ab|y)$", "^a$", ".", "^.$", "x|y"}

func genTagLeaf(t *rapid.T, label string, positiveOnly bool) *cexpr {
	key := rapid.SampledFrom([]string{"host", "host", "region", "region", "zz"}).Draw(t, label+"key")
	ops := []string{"=", "=", "!=", "=~", "!~"}
	if positiveOnly {
		ops = []string{"=", "=", "=~"}
	}
	op := rapid.SampledFrom(ops).Draw(t, label+"op")
	if op == "=~" || op == "!~" {
		res := tagRegexes
		if positiveOnly {
			res = positiveTagRegexes
		}
		return leafOf(key, op, rapid.SampledFrom(res).Draw(t, label+"re"))
	}
	var vals []string
	switch key {
	case "host":
		vals = []string{"a", "ab", "b", "c", ""}
	case "region":
		vals = []string{"x", "y", "z", ""}
	default:
		vals = []string{"q", ""}
	}
	if positiveOnly {
		vals = vals[:len(vals)-1]
	}
	return leafOf(key, op, rapid.SampledFrom(vals).Draw(t, label+"v"))
}

// genFilter: a WHERE clause over tags for SHOW TAG KEYS / TAG VALUES (series-level semantics).
func genFilter(t *rapid.T, label string, depth int) *cexpr {
	if depth <= 0 || rapid.IntRange(0, 2).Draw(t, label+"leaf?") != 0 {
		return genTagLeaf(t, label, false)
	}
	kind := rapid.SampledFrom([]string{"and", "or"}).Draw(t, label+"kind")
	n := &cexpr{Kind: kind}
	for i := 0; i < 2; i++ {
		k := genFilter(t, fmt.Sprintf("%s.%d", label, i), depth-1)
		if k.Kind == "and" || k.Kind == "or" {
			k = paren(k)
		}
		n.Kids = append(n.Kids, k)
	}
	return n
}

// genMeasurementCond draws the condition of a "list measurements" call and reports whether its
// meaning is unambiguous (exact): _name clauses, positive tag clauses, ORs of those, and a _name
// clause ANDed with such an expression. Negative / empty-matching tag clauses and ANDs of two tag
// clauses are evaluated per measurement, not per series, by the long-standing implementation and
// the statement does not say which is meant: for those only "never a dead or hidden name,
// sorted, once" is asserted.
func genMeasurementCond(t *rapid.T) (*cexpr, bool) {
	switch rapid.IntRange(0, 9).Draw(t, "mc") {
	case 0, 1:
		return nil, true
	case 2:
		return genNameExpr(t, "mcn"), true
	case 3, 4:
		return genTagLeaf(t, "mct", true), true
	case 5:
		a, b := genTagLeaf(t, "mca", true), genTagLeaf(t, "mcb", true)
		if rapid.Bool().Draw(t, "mcmix") {
			a = genNameLeaf(t, "mcan")
		}
		return &cexpr{Kind: "or", Kids: []*cexpr{a, b}}, true
	case 6, 7:
		return &cexpr{Kind: "and", Kids: []*cexpr{paren(genNameExpr(t, "mcn")), paren(genTagLeaf(t, "mct", true))}}, true
	case 8:
		return genTagLeaf(t, "mct", false), false
	default:
		return &cexpr{Kind: "and", Kids: []*cexpr{genTagLeaf(t, "mca", false), genTagLeaf(t, "mcb", false)}}, false
	}
}

func parseCond(c *cexpr) (influxql.Expr, error) {
	if c == nil {
		return nil, nil
	}
	return influxql.ParseExpr(c.text())
}

// ---- authorizers ----------------------------------------------------------------------------

// authSpec describes a generated authorizer.
type authSpec struct {
	Mode string `json:"mode"` // open | nil | deny-measurement | deny-tagpair | allow-tagpair | deny-values | deny-series | deny-hash | deny-all
	M    string `json:"m,omitempty"`
	K    string `json:"k,omitempty"`
	V    string `json:"v,omitempty"`
	Salt int    `json:"salt,omitempty"`
	// deny-values: the series whose tag K has one of these values are hidden
	Vs []string `json:"vs,omitempty"`
	// deny-series: exactly these series (keys) are hidden
	Hidden []string `json:"hidden,omitempty"`
}

func inList(l []string, v string) bool {
	for _, x := range l {
		if x == v {
			return true
		}
	}
	return false
}

func (a authSpec) fine() bool { return a.Mode != "open" && a.Mode != "nil" }

func (a authSpec) allowed(name string, tags map[string]string) bool {
	switch a.Mode {
	case "deny-measurement":
		return name != a.M
	case "deny-tagpair":
		return tags[a.K] != a.V
	case "allow-tagpair":
		return tags[a.K] == a.V
	case "deny-values":
		v, ok := tags[a.K]
		return !ok || !inList(a.Vs, v)
	case "deny-series":
		return !inList(a.Hidden, string(models.MakeKey([]byte(name), models.NewTags(tags))))
	case "deny-hash":
		h := fnv.New32a()
		fmt.Fprintf(h, "%d|%s", a.Salt, name)
		for _, k := range []string{"host", "region"} {
			fmt.Fprintf(h, "|%s=%s", k, tags[k])
		}
		return h.Sum32()%2 == 0
	case "deny-all":
		return false
	}
	return true
}

// fineAuthorizer is a fine-grained query.Authorizer deciding per series.
type fineAuthorizer struct{ spec authSpec }

func (f fineAuthorizer) AuthorizeDatabase(influxql.Privilege, string) bool     { return true }
func (f fineAuthorizer) AuthorizeQuery(string, *influxql.Query) error          { return nil }
func (f fineAuthorizer) AuthorizeSeriesWrite(string, []byte, models.Tags) bool { return true }
func (f fineAuthorizer) AuthorizeSeriesRead(database string, measurement []byte, tags models.Tags) bool {
	m := map[string]string{}
	for _, t := range tags {
		m[string(t.Key)] = string(t.Value)
	}
	return f.spec.allowed(string(measurement), m)
}

func (a authSpec) authorizer() query.Authorizer {
	switch a.Mode {
	case "open":
		return query.OpenAuthorizer
	case "nil":
		return nil
	}
	return fineAuthorizer{spec: a}
}

// genAuth draws an authorizer; series are the series of the dataset (deny-series hides an
// arbitrary subset of them, so that any combination of hidden / visible series inside one
// measurement or one tag value can occur).
func genAuth(t *rapid.T, series []string) authSpec { return genAuthFrom(t, series, 0) }

// genAuthFrom: lo = 0 for every mode, 4 for the fine-grained modes only.
func genAuthFrom(t *rapid.T, series []string, lo int) authSpec {
	tagPair := func() (string, string) {
		k := rapid.SampledFrom([]string{"host", "region"}).Draw(t, "authk")
		if k == "host" {
			return k, rapid.SampledFrom([]string{"a", "ab", "b"}).Draw(t, "authv")
		}
		return k, rapid.SampledFrom([]string{"x", "y"}).Draw(t, "authv")
	}
	switch rapid.IntRange(lo, 18).Draw(t, "auth") {
	case 14, 15, 16:
		n := len(series)
		hid := rapid.SliceOfNDistinct(rapid.SampledFrom(series), 1, max(1, n-1), rapid.ID[string]).Draw(t, "authhidden")
		sort.Strings(hid)
		return authSpec{Mode: "deny-series", Hidden: hid}
	case 17, 18:
		k := rapid.SampledFrom([]string{"host", "host", "region"}).Draw(t, "authk")
		dom := []string{"a", "ab", "b"}
		if k == "region" {
			dom = []string{"x", "y"}
		}
		vs := rapid.SliceOfNDistinct(rapid.SampledFrom(dom), 1, len(dom), rapid.ID[string]).Draw(t, "authvs")
		sort.Strings(vs)
		return authSpec{Mode: "deny-values", K: k, Vs: vs}
	case 0, 1, 2:
		return authSpec{Mode: "open"}
	case 3:
		return authSpec{Mode: "nil"}
	case 4:
		return authSpec{Mode: "deny-measurement", M: rapid.SampledFrom(measurements).Draw(t, "authm")}
	case 5, 6, 7:
		k, v := tagPair()
		if rapid.IntRange(0, 4).Draw(t, "authnone") == 0 {
			v = "" // deny the series that lack the tag
		}
		return authSpec{Mode: "deny-tagpair", K: k, V: v}
	case 8, 9:
		k, v := tagPair()
		return authSpec{Mode: "allow-tagpair", K: k, V: v}
	case 10, 11, 12:
		return authSpec{Mode: "deny-hash", Salt: rapid.IntRange(0, 50).Draw(t, "authsalt")}
	default:
		return authSpec{Mode: "deny-all"}
	}
}
