package c42_metaqueries

import (
	"testing"

	"verifharness/internal/ev"
)

func TestMain(m *testing.M) { ev.Main(m) }
