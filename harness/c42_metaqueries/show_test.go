package c42_metaqueries

import (
	"context"
	"fmt"
	"strings"
	"testing"
	"time"

	"github.com/influxdata/influxdb/v2"
	"github.com/influxdata/influxdb/v2/influxql/query"
	"github.com/influxdata/influxdb/v2/kit/platform"
	"github.com/influxdata/influxdb/v2/v1/coordinator"
	"github.com/influxdata/influxql"
	"pgregory.net/rapid"

	"verifharness/internal/fix"
)

// The InfluxQL front end: SHOW MEASUREMENTS / SHOW TAG KEYS / SHOW TAG VALUES parsed by the real
// parser, rewritten by query.RewriteStatement and executed by coordinator.StatementExecutor on
// the same fixture; the emitted rows are compared with the same model.

type fakeDBRP struct{ s *fix.Stack }

func (d fakeDBRP) FindByID(context.Context, platform.ID, platform.ID) (*influxdb.DBRPMapping, error) {
	return nil, fmt.Errorf("not used")
}
func (d fakeDBRP) Create(context.Context, *influxdb.DBRPMapping) error { return fmt.Errorf("not used") }
func (d fakeDBRP) Update(context.Context, *influxdb.DBRPMapping) error { return fmt.Errorf("not used") }
func (d fakeDBRP) Delete(context.Context, platform.ID, platform.ID) error {
	return fmt.Errorf("not used")
}
func (d fakeDBRP) FindMany(ctx context.Context, f influxdb.DBRPMappingFilter, opts ...influxdb.FindOptions) ([]*influxdb.DBRPMapping, int, error) {
	return []*influxdb.DBRPMapping{{ID: 1, Database: "db", RetentionPolicy: "autogen", Default: true, OrganizationID: d.s.Org, BucketID: d.s.Bucket}}, 1, nil
}

// showText renders the query as an InfluxQL statement. The time clause (tag keys / values only)
// restricts the statement to the shards of the selected windows.
func (b *built) showText(q *mquery) string {
	var sb strings.Builder
	quoteName := func(c *cexpr) string {
		if c.Op == "=~" {
			return "/" + c.Lit + "/"
		}
		return `"` + c.Lit + `"`
	}
	var where []string
	switch q.Kind {
	case "measurements":
		sb.WriteString("SHOW MEASUREMENTS ON db")
		if q.Name != nil {
			fmt.Fprintf(&sb, " WITH MEASUREMENT %s %s", q.Name.Op, quoteName(q.Name))
		}
	case "tagkeys":
		sb.WriteString("SHOW TAG KEYS ON db")
	default:
		sb.WriteString("SHOW TAG VALUES ON db")
	}
	if q.Kind != "measurements" && q.Name != nil {
		leaves := []*cexpr{q.Name}
		if q.Name.Kind == "paren" {
			leaves = q.Name.Kids[0].Kids
		}
		var src []string
		for _, l := range leaves {
			src = append(src, quoteName(l))
		}
		sb.WriteString(" FROM " + strings.Join(src, ", "))
	}
	if q.Kind == "tagvalues" {
		tk := q.TagKey
		if tk.Kind == "paren" { // IN list
			var ks []string
			for _, l := range tk.Kids[0].Kids {
				ks = append(ks, `"`+l.Lit+`"`)
			}
			sb.WriteString(" WITH KEY IN (" + strings.Join(ks, ", ") + ")")
		} else if tk.Op == "=~" || tk.Op == "!~" {
			fmt.Fprintf(&sb, " WITH KEY %s /%s/", tk.Op, tk.Lit)
		} else {
			fmt.Fprintf(&sb, " WITH KEY %s \"%s\"", tk.Op, tk.Lit)
		}
	}
	if q.Filter != nil {
		where = append(where, "("+q.Filter.text()+")")
	}
	if q.Kind != "measurements" && q.Shards != nil {
		lo := b.d.T0 + int64(q.Shards[0])*hour
		hi := b.d.T0 + int64(q.Shards[len(q.Shards)-1]+1)*hour
		where = append(where, fmt.Sprintf("time >= %d AND time < %d", lo, hi))
	}
	if len(where) > 0 {
		sb.WriteString(" WHERE " + strings.Join(where, " AND "))
	}
	return sb.String()
}

// genShowQuery draws a query expressible as a SHOW statement.
func genShowQuery(t *rapid.T, b *built) *mquery {
	q := &mquery{Auth: genAuth(t, b.d.Series), Front: "influxql", Exact: true}
	q.Kind = rapid.SampledFrom([]string{"measurements", "tagkeys", "tagvalues", "tagvalues"}).Draw(t, "skind")
	nameLeaf := func(label string) *cexpr {
		if rapid.Bool().Draw(t, label+"re") {
			return leafOf("_name", "=~", rapid.SampledFrom([]string{"^m", "0$", "m[12]", "^x"}).Draw(t, label+"rev"))
		}
		return leafOf("_name", "=", rapid.SampledFrom([]string{"m0", "m1", "m2", "m9"}).Draw(t, label+"v"))
	}
	if q.Kind == "measurements" {
		if rapid.IntRange(0, 2).Draw(t, "sname?") == 0 {
			q.Name = nameLeaf("sn")
		}
		switch rapid.IntRange(0, 5).Draw(t, "swhere") {
		case 0, 1:
		case 2, 3:
			q.Filter = genTagLeaf(t, "sw", true)
		case 4:
			q.Filter = &cexpr{Kind: "or", Kids: []*cexpr{genTagLeaf(t, "swa", true), genTagLeaf(t, "swb", true)}}
		default:
			q.Filter = genFilter(t, "sw", 1)
			q.Exact = false
		}
		// the measurement-listing condition the rewriter builds: (_name clause) AND (where)
		switch {
		case q.Name != nil && q.Filter != nil:
			q.MCond = &cexpr{Kind: "and", Kids: []*cexpr{paren(q.Name), paren(q.Filter)}}
		case q.Name != nil:
			q.MCond = q.Name
		default:
			q.MCond = q.Filter
		}
		return q
	}
	switch rapid.IntRange(0, 3).Draw(t, "sfrom") {
	case 0:
		q.Name = nameLeaf("sn")
	case 1:
		q.Name = paren(&cexpr{Kind: "or", Kids: []*cexpr{nameLeaf("sna"), nameLeaf("snb")}})
	}
	if q.Kind == "tagvalues" {
		q.TagKey = genTagKeyExpr(t, "sk")
	}
	if rapid.IntRange(0, 1).Draw(t, "sfilter?") == 0 {
		q.Filter = genFilter(t, "sf", 2)
	}
	ws, _ := b.windowsWithShard()
	if len(ws) > 1 && rapid.IntRange(0, 1).Draw(t, "ssub?") == 0 {
		// a time clause selects a contiguous run of windows
		lo := rapid.IntRange(0, b.d.NShards-1).Draw(t, "slo")
		hi := rapid.IntRange(lo, b.d.NShards-1).Draw(t, "shi")
		for w := lo; w <= hi; w++ {
			q.Shards = append(q.Shards, w)
		}
	}
	return q
}

// runShow executes the statement and converts the emitted rows into name triples.
func (b *built) runShow(q *mquery) ([][3]string, string, error) {
	text := b.showText(q)
	stmt, err := influxql.ParseStatement(text)
	if err != nil {
		return nil, text, fmt.Errorf("harness: statement %q does not parse: %w", text, err)
	}
	stmt, err = query.RewriteStatement(stmt)
	if err != nil {
		return nil, text, fmt.Errorf("rewrite %q: %w", text, err)
	}
	ex := &coordinator.StatementExecutor{MetaClient: b.s.Meta, TSDBStore: coordinator.LocalTSDBStore{Store: b.s.Store}, DBRP: fakeDBRP{s: b.s}}
	ctx, cancel := context.WithTimeout(context.Background(), 30*time.Second)
	defer cancel()
	ectx := &query.ExecutionContext{Results: make(chan *query.Result, 64),
		ExecutionOptions: query.ExecutionOptions{OrgID: b.s.Org, Database: "db", Authorizer: q.Auth.authorizer()}}
	if err := ex.ExecuteStatement(ctx, stmt, ectx); err != nil {
		return nil, text, fmt.Errorf("execute %q: %w", text, err)
	}
	close(ectx.Results)
	var out [][3]string
	var raw strings.Builder
	raw.WriteString(text + " => ")
	for res := range ectx.Results {
		if res.Err != nil {
			return nil, text, fmt.Errorf("result of %q: %w", text, res.Err)
		}
		for _, row := range res.Series {
			fmt.Fprintf(&raw, "%s%v ", row.Name, row.Values)
			for _, vals := range row.Values {
				var s []string
				for _, v := range vals {
					s = append(s, fmt.Sprint(v))
				}
				switch q.Kind {
				case "measurements":
					out = append(out, [3]string{s[0]})
				case "tagkeys":
					out = append(out, [3]string{row.Name, s[0]})
				default:
					out = append(out, [3]string{row.Name, s[0], s[1]})
				}
			}
		}
	}
	return out, raw.String(), nil
}

func TestPropShowStatements(t *testing.T) {
	rec.Check(t, 60, 1500, func(t *rapid.T) {
		d := genDataset(t)
		b, err := newBuilt(d)
		if err != nil {
			t.Fatalf("opening stack: %v", err)
		}
		defer b.close()
		for i := range d.Ops {
			if err := b.step(i); err != nil {
				t.Fatalf("building dataset: %v", err)
			}
		}
		for i := 0; i < 6; i++ {
			b.checkQuery(t, "TestPropShowStatements", genShowQuery(t, b))
		}
		// one SHOW MEASUREMENTS WHERE <tag clause> under a fine-grained authorizer built from the data
		q := genScanQuery(t, b)
		if q.MCond.Kind == "and" { // (_name list) AND (clause): keep the clause
			q.MCond = q.MCond.Kids[1].Kids[0]
		}
		q.Front, q.Filter = "influxql", q.MCond
		b.checkQuery(t, "TestPropShowStatements", q)
		rec.Class("query:measurements-tag-clause+fine-authorizer(targeted)")
	})
}
