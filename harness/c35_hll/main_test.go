package c35_hll

import (
	"testing"

	"verifharness/internal/ev"
)

func TestMain(m *testing.M) { ev.Main(m) }
