// C35 — Cardinality sketches merge correctly and stay within their error bound.
//
// Generator: a precision p, 2..6 leaf sketches whose key multisets are unions of index ranges
// over one shared domain (so leaves overlap, repeat keys, and land in the sparse regime, at the
// sparse->dense transition, or in the dense regime; a leaf may also be forced dense half-way and
// then keep receiving keys; a run may re-add the keys of an earlier run of the same leaf, and a
// Count() / MarshalBinary() / marshal-unmarshal-continue step may sit between two runs, so that
// keys are re-added after the sparse sketch flushed its pending set), and two different merge
// trees over the same leaves.
// Oracle:
//   - commutative + associative: both trees yield byte-identical sketches (MarshalBinary) with equal Count();
//   - union: the merged sketch is byte-identical to the dense form of ONE sketch that was fed every
//     key of every leaf (merge = register-wise maximum = union of the key sets);
//   - idempotent: merging the result with itself, or with a leaf again (two leaves per case),
//     changes nothing; leaf.Merge(leaf) equals the dense form of the leaf;
//   - error bound (p=16, the precision all production callers use): |Count(merged) - |union|| <=
//     4 * 1.04/sqrt(2^p) * |union| + 3, re-drawn with three fresh key sets of the same structure
//     before a breach counts;
//   - marshal round-trip (merged result and two leaves, sparse or dense):
//     UnmarshalBinary(MarshalBinary(s)) has the same Count() and merges identically;
//   - Clone is independent of the original (one leaf per case, both directions);
//   - Count() is an observation (every leaf exactly as its Add history left it, pending set
//     included, and every mid-history step): asking twice gives the same number, the clone answers
//     the same, and Count() taken BEFORE MarshalBinary equals Count() of the unmarshalled sketch;
//     at p=16 a leaf's own estimate is within the error bound of its distinct keys (same re-draw rule).
package c35_hll

import (
	"bytes"
	"encoding/binary"
	"fmt"
	"math"
	"runtime/debug"
	"testing"

	"github.com/influxdata/influxdb/v2/pkg/estimator/hll"
	"pgregory.net/rapid"

	"verifharness/internal/ev"
)

var rec = ev.For("C35", "exploration",
	"case = (precision, 2..6 leaf key multisets as index ranges over a shared domain, two merge trees); non-trivial = the leaves' key sets overlap, or a sparse leaf is merged with a dense one; distinct by (precision, leaf range lists, both trees)")

const (
	boundK     = 4.0
	boundSlack = 3.0
	// The error bound is asserted at the precision every production caller uses
	// (hll.NewDefaultPlus, p=16) and for which beta() holds the fitted LogLog-Beta coefficients.
	// Observation, not asserted: at p=14 / p=10 the dense estimate is biased low by ~5 % / ~14 %.
	boundPrecision = 16
)

func init() {
	debug.SetGCPercent(400) // the p=16 cases allocate 64 KiB per clone/marshal; fewer collections, same results
	rec.Assume(fmt.Sprintf("Error bound used: |estimate - truth| <= %.0f * 1.04/sqrt(2^p) * truth + %.0f (a %.0f-sigma probabilistic bound on the standard HyperLogLog error); a breach is re-drawn with 3 fresh key sets of identical structure and only a breach of all 4 draws is reported.", boundK, boundSlack, boundK))
	rec.Assume("The error bound is asserted for precision 16 only (hll.NewDefaultPlus, the only precision production code uses; beta() holds the LogLog-Beta coefficients fitted for p=16). Merge laws, union equality, marshal round-trip and Clone independence are asserted for p in {4,10,14,16}.")
	rec.Assume("Keys are hashed by the sketch's own xxhash; the harness trusts its exact union cardinality computed with a Go map over (salt, index) pairs.")
}

// run is a range of key indices start, start+stride, ... (count of them), modulo the domain.
type run struct {
	Start, Count, Stride int
	DenseBefore          bool // force the sketch into its dense representation before this run
	// Pre is a step executed on the sketch before this run's keys are added: "" (nothing),
	// "count" (Count()), "marshal" (MarshalBinary(), result dropped) or "reload" (the sketch is
	// replaced by UnmarshalBinary(MarshalBinary(sketch)) and the history continues on the copy).
	// None of them may change what the sketch estimates.
	Pre string
	// Repeat: this run re-adds keys of an earlier run of the same leaf (same Start and Stride).
	Repeat bool
}

type leafSpec struct{ Runs []run }

type caseSpec struct {
	P      uint8
	Domain int
	Leaves []leafSpec
	Tree1  treeSpec
	Tree2  treeSpec
}

// treeSpec: a permutation of the leaves and the sequence of adjacent-pair indices to merge.
type treeSpec struct {
	Perm  []int
	Picks []int
}

func pct(t *rapid.T, label string) int {
	v := 0
	for _, b := range rapid.SliceOfN(rapid.Bool(), 7, 7).Draw(t, label) {
		v <<= 1
		if b {
			v |= 1
		}
	}
	return v
}

func keyOf(salt uint64, idx int) []byte {
	var b [16]byte
	binary.BigEndian.PutUint64(b[:8], salt)
	binary.BigEndian.PutUint64(b[8:], uint64(idx))
	return b[:]
}

func genCase(t *rapid.T) caseSpec {
	var cs caseSpec
	switch c := pct(t, "precision"); {
	case c < 64:
		cs.P = 16
	case c < 90:
		cs.P = 14
	case c < 112:
		cs.P = 10
	default:
		cs.P = 4
	}
	// size regime of the case
	regime := pct(t, "regime")
	var maxCount int
	switch {
	case regime < 30:
		maxCount = 8
	case regime < 70:
		maxCount = 300
	case regime < 110:
		maxCount = 4000
	default:
		maxCount = 50000 // reaches the sparse->dense transition of p=16 (~30k entries)
	}
	cs.Domain = rapid.IntRange(maxCount, 3*maxCount+10).Draw(t, "domain")
	k := rapid.IntRange(2, 6).Draw(t, "leaves")
	for i := 0; i < k; i++ {
		var ls leafSpec
		nr := rapid.IntRange(0, 3).Draw(t, "runs")
		for j := 0; j < nr; j++ {
			r := run{
				Start:  rapid.IntRange(0, cs.Domain-1).Draw(t, "start"),
				Stride: rapid.SampledFrom([]int{1, 1, 3, 7}).Draw(t, "stride"),
			}
			if pct(t, "countClass") < 40 {
				r.Count = rapid.IntRange(0, min(maxCount, 12)).Draw(t, "count")
			} else {
				r.Count = rapid.IntRange(maxCount/2, maxCount).Draw(t, "count")
			}
			r.DenseBefore = pct(t, "denseBefore") < 20
			if j > 0 && pct(t, "repeat") < 45 {
				// re-add (a prefix of) the keys of an earlier run: duplicates across a flush of the
				// sparse sketch's pending set, not only inside one flush window
				prev := ls.Runs[rapid.IntRange(0, j-1).Draw(t, "repeatOf")]
				r.Repeat, r.Start, r.Stride = true, prev.Start, prev.Stride
				if prev.Count > 0 && pct(t, "repeatAll") < 64 {
					r.Count = prev.Count
				} else {
					r.Count = rapid.IntRange(0, prev.Count).Draw(t, "repeatCount")
				}
			}
			switch c := pct(t, "pre"); {
			case c < 16:
				r.Pre = "count"
			case c < 32:
				r.Pre = "marshal"
			case c < 42:
				r.Pre = "reload"
			}
			ls.Runs = append(ls.Runs, r)
		}
		cs.Leaves = append(cs.Leaves, ls)
	}
	cs.Tree1 = genTree(t, k, "t1")
	cs.Tree2 = genTree(t, k, "t2")
	if k == 2 {
		// make sure the two orders differ: (a,b) and (b,a)
		cs.Tree2.Perm = []int{cs.Tree1.Perm[1], cs.Tree1.Perm[0]}
	}
	return cs
}

func genTree(t *rapid.T, k int, label string) treeSpec {
	idx := make([]int, k)
	for i := range idx {
		idx[i] = i
	}
	ts := treeSpec{Perm: rapid.Permutation(idx).Draw(t, label+"_perm")}
	for n := k; n > 1; n-- {
		ts.Picks = append(ts.Picks, rapid.IntRange(0, n-2).Draw(t, label+"_pick"))
	}
	return ts
}

func newSketch(p uint8) *hll.Plus {
	s, err := hll.NewPlus(p)
	if err != nil {
		panic(fmt.Sprintf("NewPlus(%d): %v", p, err))
	}
	return s
}

// buildLeaf adds the leaf's keys (with the given salt) and records them in truth. Before every
// mid-history step (run.Pre) obs, when not nil, is shown the sketch.
func buildLeaf(p uint8, ls leafSpec, domain int, salt uint64, truth map[int]struct{}, obs func(stage string, s *hll.Plus)) *hll.Plus {
	s := newSketch(p)
	for ri, r := range ls.Runs {
		if r.DenseBefore {
			_ = s.Merge(newSketch(p)) // Merge converts the receiver to the dense representation
		}
		if r.Pre != "" && obs != nil {
			obs(fmt.Sprintf("before the %q step ahead of run %d", r.Pre, ri), s)
		}
		switch r.Pre {
		case "count":
			_ = s.Count()
		case "marshal":
			_ = marshal(s)
		case "reload":
			u := &hll.Plus{}
			if err := u.UnmarshalBinary(marshal(s)); err != nil {
				panic(fmt.Sprintf("UnmarshalBinary(MarshalBinary()) in a leaf history: %v", err))
			}
			s = u
		}
		for j := 0; j < r.Count; j++ {
			idx := (r.Start + j*r.Stride) % domain
			s.Add(keyOf(salt, idx))
			if truth != nil {
				truth[idx] = struct{}{}
			}
		}
	}
	return s
}

// pendingDupOfFlushed models the sparse sketch's pending set over the leaf's history (flushed when
// it holds more than m/100 entries, and by Count / MarshalBinary) and reports whether, at the end
// of the history, a key is pending that was already flushed into the sorted list earlier, and
// whether any flush happened at all. It is used for the class histogram only (it ignores hash
// collisions and the switch to the dense form, which the caller knows from the sketch itself).
func pendingDupOfFlushed(p uint8, ls leafSpec, domain int) (dup, flushed bool) {
	m := 1 << p
	pending, list := map[int]struct{}{}, map[int]struct{}{}
	flush := func() {
		if len(pending) == 0 {
			return
		}
		flushed = true
		for k := range pending {
			list[k] = struct{}{}
		}
		pending = map[int]struct{}{}
	}
	for _, r := range ls.Runs {
		if r.Pre != "" || r.DenseBefore {
			flush()
		}
		for j := 0; j < r.Count; j++ {
			pending[(r.Start+j*r.Stride)%domain] = struct{}{}
			if len(pending)*100 > m {
				flush()
			}
		}
	}
	for k := range pending {
		if _, ok := list[k]; ok {
			return true, flushed
		}
	}
	return false, flushed
}

// countIsObservation checks, without touching s, that Count() of the sketch exactly as it is
// (a sparse sketch may hold a pending set) is stable (asked twice; asked of a second clone) and
// survives MarshalBinary -> UnmarshalBinary, where the reference Count() is taken BEFORE the
// sketch is marshalled. It returns the estimate.
func countIsObservation(s *hll.Plus) (cnt uint64, key, msg string) {
	a := s.Clone().(*hll.Plus)
	c0 := a.Count()
	if c1 := a.Count(); c1 != c0 {
		return c0, "count-not-stable", fmt.Sprintf("Count() gives %d, asked again %d", c0, c1)
	}
	b := s.Clone().(*hll.Plus)
	data := marshal(b) // marshalled first, counted afterwards
	if c2 := b.Count(); c2 != c0 {
		return c0, "marshal-changes-count", fmt.Sprintf("Count() is %d on the sketch as built, but %d on an identical clone after its MarshalBinary()", c0, c2)
	}
	u := &hll.Plus{}
	if err := u.UnmarshalBinary(data); err != nil {
		return c0, "unmarshal-error", fmt.Sprintf("UnmarshalBinary(MarshalBinary()) fails: %v (%d bytes)", err, len(data))
	}
	if cu := u.Count(); cu != c0 {
		return c0, "marshal-changes-count", fmt.Sprintf("Count %d before MarshalBinary, %d after UnmarshalBinary", c0, cu)
	}
	return c0, "", ""
}

// evalTree merges clones of the leaves in the order the tree prescribes. The right-hand
// argument of a merge is the shared leaf itself whenever it is a leaf (Merge must not modify its
// argument; if it did, the second tree or the bound check would notice).
func evalTree(leaves []*hll.Plus, ts treeSpec) (*hll.Plus, error) {
	type node struct {
		s    *hll.Plus
		leaf bool
	}
	nodes := make([]node, len(ts.Perm))
	for i, li := range ts.Perm {
		nodes[i] = node{leaves[li], true}
	}
	for _, pk := range ts.Picks {
		l, r := nodes[pk], nodes[pk+1]
		recv := l.s
		if l.leaf {
			recv = l.s.Clone().(*hll.Plus)
		}
		if err := recv.Merge(r.s); err != nil {
			return nil, err
		}
		nodes[pk] = node{recv, false}
		nodes = append(nodes[:pk+1], nodes[pk+2:]...)
	}
	return nodes[0].s, nil
}

func marshal(s *hll.Plus) []byte {
	b, err := s.MarshalBinary()
	if err != nil {
		panic(fmt.Sprintf("MarshalBinary: %v", err))
	}
	return b
}

// denseOf returns the dense form of s without touching s: fresh.Merge(s).
func denseOf(p uint8, s *hll.Plus) *hll.Plus {
	d := newSketch(p)
	if err := d.Merge(s); err != nil {
		panic(err)
	}
	return d
}

func isSparse(s *hll.Plus) bool {
	b := marshal(s.Clone().(*hll.Plus))
	return len(b) > 2 && b[2] == 1
}

func tolerance(p uint8, truth int) float64 {
	return boundK*1.04/math.Sqrt(float64(uint64(1)<<p))*float64(truth) + boundSlack
}

// mergedEstimate builds all leaves with the given salt, evaluates tree 1 and returns the
// estimate and the exact union cardinality.
func mergedEstimate(cs caseSpec, salt uint64) (est uint64, truth int) {
	tr := map[int]struct{}{}
	leaves := make([]*hll.Plus, len(cs.Leaves))
	for i, ls := range cs.Leaves {
		leaves[i] = buildLeaf(cs.P, ls, cs.Domain, salt, tr, nil)
	}
	m, err := evalTree(leaves, cs.Tree1)
	if err != nil {
		panic(err)
	}
	return m.Count(), len(tr)
}

func safely(f func()) (err error) {
	defer func() {
		if r := recover(); r != nil {
			err = fmt.Errorf("panic: %v", r)
		}
	}()
	f()
	return nil
}

func TestPropMergeLaws(t *testing.T) {
	rec.Check(t, 2400, 40000, func(t *rapid.T) {
		cs := genCase(t)
		salt := rapid.Uint64().Draw(t, "salt")
		fail := func(key, format string, a ...any) {
			rec.Fail(t, "TestPropMergeLaws", key, fmt.Sprintf("p=%d leaves=%d: ", cs.P, len(cs.Leaves))+fmt.Sprintf(format, a...), map[string]any{"case": cs, "salt": salt})
		}
		var verdictKey, verdictMsg string
		perr := safely(func() { verdictKey, verdictMsg = checkCase(cs, salt) })
		rec.Eval()
		if perr != nil {
			fail("panic", "%v", perr)
		}
		if verdictKey != "" {
			fail(verdictKey, "%s", verdictMsg)
		}
		if rec.WantSample() && len(cs.Leaves) <= 3 {
			rec.Sample(map[string]any{"case": cs, "salt": salt})
		}
	})
}

// checkCase runs every oracle on one case; it returns ("", "") when all hold.
func checkCase(cs caseSpec, salt uint64) (string, string) {
	p := cs.P
	truth := map[int]struct{}{}
	leaves := make([]*hll.Plus, len(cs.Leaves))
	perLeaf := make([]map[int]struct{}, len(cs.Leaves))
	var obsKey, obsMsg string
	for i, ls := range cs.Leaves {
		perLeaf[i] = map[int]struct{}{}
		leaves[i] = buildLeaf(p, ls, cs.Domain, salt, perLeaf[i], func(stage string, s *hll.Plus) {
			// ---- a mid-history sketch: Count() is an observation and survives a marshal round-trip
			if obsKey != "" {
				return
			}
			if _, k, m := countIsObservation(s); k != "" {
				obsKey, obsMsg = k, fmt.Sprintf("leaf %d, %s: %s", i, stage, m)
			}
		})
		for k := range perLeaf[i] {
			truth[k] = struct{}{}
		}
	}
	if obsKey != "" {
		return obsKey, obsMsg
	}
	// classification (on clones: MarshalBinary/Count flush the pending set of a sparse sketch,
	// and the merges below should see the leaves exactly as Add left them)
	nSparse, nDense, sumSizes := 0, 0, 0
	for i, l := range leaves {
		if isSparse(l) {
			nSparse++
		} else {
			nDense++
		}
		sumSizes += len(perLeaf[i])
	}
	overlap := sumSizes > len(truth)
	rec.Class(fmt.Sprintf("precision:%d", p))
	switch {
	case nSparse > 0 && nDense > 0:
		rec.Class("leaves:sparse+dense")
	case nDense > 0:
		rec.Class("leaves:all-dense")
	default:
		rec.Class("leaves:all-sparse")
	}
	if overlap {
		rec.Class("keys:overlapping")
	} else {
		rec.Class("keys:disjoint")
	}
	switch n := len(truth); {
	case n == 0:
		rec.Class("union:0")
	case n <= 20:
		rec.Class("union:1..20")
	case n <= 1000:
		rec.Class("union:21..1000")
	case n <= 20000:
		rec.Class("union:1001..20000")
	default:
		rec.Class("union:>20000")
	}
	if overlap || (nSparse > 0 && nDense > 0) {
		rec.NonTrivial(fmt.Sprintf("%+v", cs))
	}

	// ---- every leaf exactly as its Add history left it (a sparse leaf may hold a pending set whose
	// keys are already in its sorted list): Count() is an observation, it survives the marshal
	// round-trip (reference taken BEFORE MarshalBinary), and at p=16 it is within the error bound
	// of the leaf's distinct keys. Runs on clones; the merges below see the leaves untouched.
	{
		histRepeat, histStep, anyDup, anyFlushedSparse := false, false, false, false
		for i, l := range leaves {
			sparse := isSparse(l)
			dup, flushed := pendingDupOfFlushed(p, cs.Leaves[i], cs.Domain)
			if sparse && dup {
				anyDup = true
			}
			if sparse && flushed {
				anyFlushedSparse = true
			}
			for _, r := range cs.Leaves[i].Runs {
				histRepeat = histRepeat || (r.Repeat && r.Count > 0)
				histStep = histStep || r.Pre != ""
			}
			cnt, k, m := countIsObservation(l)
			if k != "" {
				return k, fmt.Sprintf("leaf %d (sparse=%v, pending duplicates of flushed keys=%v): %s", i, sparse, dup, m)
			}
			if p == boundPrecision {
				breach := func(est uint64, tr int) bool { return math.Abs(float64(est)-float64(tr)) > tolerance(p, tr) }
				if breach(cnt, len(perLeaf[i])) {
					rec.Class("leaf-bound:redrawn")
					persistent := true
					detail := fmt.Sprintf("leaf %d (sparse=%v): estimate %d vs %d distinct keys (tolerance %.1f)", i, sparse, cnt, len(perLeaf[i]), tolerance(p, len(perLeaf[i])))
					for r := uint64(1); r <= 3; r++ {
						tr := map[int]struct{}{}
						est := buildLeaf(p, cs.Leaves[i], cs.Domain, salt+r*0x9E3779B97F4A7C15, tr, nil).Count()
						detail += fmt.Sprintf("; redraw %d: %d vs %d", r, est, len(tr))
						if !breach(est, len(tr)) {
							persistent = false
							break
						}
					}
					if persistent {
						return "error-bound-breached", detail
					}
				}
			}
		}
		if anyDup {
			rec.Class("history:sparse-leaf-with-pending-duplicates-of-flushed-keys")
		} else if anyFlushedSparse {
			rec.Class("history:sparse-leaf-flushed,no-pending-duplicate")
		} else {
			rec.Class("history:no-sparse-leaf-flushed")
		}
		if histRepeat {
			rec.Class("history:run-repeats-earlier-run")
		}
		if histStep {
			rec.Class("history:count/marshal/reload-between-runs")
		}
	}

	// ---- commutative + associative: two trees, one result
	m1, err := evalTree(leaves, cs.Tree1)
	if err != nil {
		return "merge-error", err.Error()
	}
	m2, err := evalTree(leaves, cs.Tree2)
	if err != nil {
		return "merge-error", err.Error()
	}
	b1, b2 := marshal(m1), marshal(m2)
	c1, c2 := m1.Count(), m2.Count()
	if !bytes.Equal(b1, b2) || c1 != c2 {
		return "merge-order-dependent", fmt.Sprintf("tree1 %+v gives Count=%d, tree2 %+v gives Count=%d, marshalled sketches equal=%v (|union|=%d)", cs.Tree1, c1, cs.Tree2, c2, bytes.Equal(b1, b2), len(truth))
	}

	// ---- merged sketch == sketch of the union: HLL registers are a function of the key SET
	// (merge is the register-wise maximum), so adding every key of every leaf to ONE sketch must
	// give, in dense form, exactly the merged sketch. This is what makes the merged estimate an
	// estimate of the union; it also covers the Add-driven sparse->dense transition, which the
	// union sketch crosses while the leaves may not.
	{
		u := newSketch(p)
		for _, ls := range cs.Leaves {
			for _, r := range ls.Runs {
				for j := 0; j < r.Count; j++ {
					u.Add(keyOf(salt, (r.Start+j*r.Stride)%cs.Domain))
				}
			}
		}
		du := denseOf(p, u)
		if !bytes.Equal(marshal(du), b1) {
			return "merge-differs-from-union-sketch", fmt.Sprintf("the merged sketch (Count %d) differs from one sketch fed all %d distinct keys directly (Count %d)", c1, len(truth), du.Count())
		}
	}

	// ---- idempotent
	self := m1.Clone().(*hll.Plus)
	if err := self.Merge(m1); err != nil {
		return "merge-error", err.Error()
	}
	if !bytes.Equal(marshal(self), b1) || self.Count() != c1 {
		return "merge-not-idempotent", fmt.Sprintf("m.Merge(m) changed the sketch: Count %d -> %d", c1, self.Count())
	}
	// per-leaf checks run on at most two leaves (first and last of tree 1's order): at p=16 every
	// dense clone / marshal moves 64 KiB
	picked := []int{cs.Tree1.Perm[0]}
	if last := cs.Tree1.Perm[len(cs.Tree1.Perm)-1]; last != picked[0] {
		picked = append(picked, last)
	}
	for _, i := range picked {
		l := leaves[i]
		again := m1.Clone().(*hll.Plus)
		if err := again.Merge(l); err != nil {
			return "merge-error", err.Error()
		}
		if !bytes.Equal(marshal(again), b1) {
			return "merge-not-idempotent", fmt.Sprintf("merging leaf %d a second time changed the result: Count %d -> %d", i, c1, again.Count())
		}
		ll := l.Clone().(*hll.Plus)
		if err := ll.Merge(l); err != nil {
			return "merge-error", err.Error()
		}
		if d := denseOf(p, l); !bytes.Equal(marshal(ll), marshal(d)) {
			return "merge-not-idempotent", fmt.Sprintf("leaf %d: l.Merge(l) (Count %d) differs from the dense form of l (Count %d)", i, ll.Count(), d.Count())
		}
	}

	// ---- error bound of the merged sketch
	if p != boundPrecision {
		rec.Class("bound:not-asserted(p!=16)")
	} else {
		breach := func(est uint64, tr int) bool { return math.Abs(float64(est)-float64(tr)) > tolerance(p, tr) }
		if breach(c1, len(truth)) {
			rec.Class("bound:redrawn")
			persistent := true
			detail := fmt.Sprintf("estimate %d vs |union| %d (tolerance %.1f)", c1, len(truth), tolerance(p, len(truth)))
			for r := uint64(1); r <= 3; r++ {
				est, tr := mergedEstimate(cs, salt+r*0x9E3779B97F4A7C15)
				detail += fmt.Sprintf("; redraw %d: %d vs %d", r, est, tr)
				if !breach(est, tr) {
					persistent = false
					break
				}
			}
			if persistent {
				return "error-bound-breached", detail
			}
		} else {
			rec.Class("bound:held-first-draw")
		}
	}

	// ---- marshal round-trip (merged result and every leaf, sparse or dense)
	subjects := []*hll.Plus{m1}
	for _, i := range picked {
		subjects = append(subjects, leaves[i])
	}
	for i, s := range subjects {
		name := "merged"
		if i > 0 {
			name = fmt.Sprintf("leaf %d", picked[i-1])
		}
		cnt := s.Count() // before MarshalBinary: the estimate of the sketch as it is
		b := marshal(s)
		if c := s.Count(); c != cnt {
			return "marshal-changes-count", fmt.Sprintf("%s: Count %d before its MarshalBinary, %d after", name, cnt, c)
		}
		u := &hll.Plus{}
		if err := u.UnmarshalBinary(b); err != nil {
			return "unmarshal-error", fmt.Sprintf("%s: UnmarshalBinary(MarshalBinary()) fails: %v (%d bytes)", name, err, len(b))
		}
		if uc := u.Count(); uc != cnt {
			return "marshal-changes-count", fmt.Sprintf("%s: Count %d before, %d after MarshalBinary/UnmarshalBinary", name, cnt, uc)
		}
		if !bytes.Equal(marshal(denseOf(p, u)), marshal(denseOf(p, s))) {
			return "marshal-changes-merge", fmt.Sprintf("%s: the unmarshalled sketch merges differently from the original", name)
		}
		// the decoded sketch owns its state: neither re-using the input buffer nor changing a
		// second sketch decoded from the same bytes may change its estimate
		keep := append([]byte(nil), b...)
		u2 := &hll.Plus{}
		if err := u2.UnmarshalBinary(b); err != nil {
			return "unmarshal-error", fmt.Sprintf("%s: second UnmarshalBinary of the same bytes fails: %v", name, err)
		}
		for j := 0; j < 60; j++ {
			u2.Add(keyOf(salt^0x5EED5EED, cs.Domain+500+j))
		}
		if uc := u.Count(); uc != cnt {
			return "unmarshal-aliases-input", fmt.Sprintf("%s: Count %d -> %d after adding keys to ANOTHER sketch decoded from the same bytes", name, cnt, uc)
		}
		if !bytes.Equal(b, keep) {
			return "unmarshal-aliases-input", fmt.Sprintf("%s: adding keys to a decoded sketch rewrote the caller's serialized bytes", name)
		}
		for j := range b {
			b[j] = 0xFF
		}
		if uc := u.Count(); uc != cnt {
			return "unmarshal-aliases-input", fmt.Sprintf("%s: Count %d -> %d after the caller overwrote the buffer it had passed to UnmarshalBinary", name, cnt, uc)
		}
		copy(b, keep)
		if i > 0 {
			if b[2] == 1 {
				rec.Class("marshal:sparse")
			} else {
				rec.Class("marshal:dense")
			}
		}
	}

	// ---- Clone independence
	for _, i := range picked[:1] {
		l := leaves[i]
		before := marshal(denseOf(p, l))
		cl := l.Clone().(*hll.Plus)
		for j := 0; j < 40; j++ {
			cl.Add(keyOf(salt^0xABCDEF, cs.Domain+j))
		}
		if !bytes.Equal(marshal(denseOf(p, l)), before) {
			return "clone-aliases-original", fmt.Sprintf("leaf %d: adding to the clone changed the original", i)
		}
		clBefore := marshal(denseOf(p, cl))
		for j := 0; j < 40; j++ {
			l.Add(keyOf(salt^0x123457, cs.Domain+100+j))
		}
		if !bytes.Equal(marshal(denseOf(p, cl)), clBefore) {
			return "clone-aliases-original", fmt.Sprintf("leaf %d: adding to the original changed the clone", i)
		}
	}
	return "", ""
}
