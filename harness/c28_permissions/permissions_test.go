// C28 — Permissions grant exactly what they name.
//
// The contract (properties.jsonl) written as a formula over a permission p and a request r:
//
//	match(p, r)  ⇔  p.action = r.action ∧
//	                ( p.type = instance
//	                ∨ ( p.type = r.type ∧ ( p.org = nil ∧ p.id = nil                              (type-wide)
//	                                      ∨ p.id = nil ∧ p.org ≠ nil ∧ r.org ≠ nil ∧ p.org = r.org (organization-scoped)
//	                                      ∨ p.id ≠ nil ∧ r.id ≠ nil ∧ p.id = r.id ) ) )           (names the resource)
//	Allowed(set, r)  ⇔  ∃ p ∈ set : match(p, r)
//
// The "only if" direction is the statement itself; the "if" direction is what the constructors
// and helpers document (NewGlobalPermission: "capable of accessing any resource of type rt";
// AuthorizeRead: "authorization will pass even if the user only has permissions for the resource
// type and organization ID only"; AuthorizeReadResource: "will pass only if the user has a
// specific permission for the given resource").
//
// TestPropExhaustivePairs enumerates a finite space of (permission, request) pairs completely;
// TestPropPermissionSets draws permission sets, requests and 64-bit ids from rapid.
package c28_permissions

import (
	"context"
	"fmt"
	"os"
	"strings"
	"testing"

	"github.com/influxdata/influxdb/v2"
	"github.com/influxdata/influxdb/v2/authorizer"
	icontext "github.com/influxdata/influxdb/v2/context"
	"github.com/influxdata/influxdb/v2/kit/platform"
	"pgregory.net/rapid"

	"verifharness/internal/ev"
)

var rec = ev.For("C28", "exploration",
	"exhaustive part: every (permission, request) pair over actions {read,write} x every ResourceType in AllResourceTypes plus one invalid type x OrgID in {nil,a,b} x ID in {nil,a,b} on both sides (432 x 432 pairs), each checked through Permission.Matches, PermissionSet.Allowed (singleton set and sets with a never-matching decoy before/after), PermissionAllowed and the authorizer.IsAllowed*/Authorize* helper of the request's shape; "+
		"a pair is NON-TRIVIAL when exactly one conjunct of the rule decides it: it is granted (changing the request's action alone revokes it) or it is denied but copying exactly one coordinate (action, type, org or id) of the permission into the request would grant it (single-difference pair); distinct by canonical rendering of the pair. "+
		"random part: rapid-drawn permission sets (0-10 permissions from a per-case palette of types and a pool of 64-bit ids containing near-equal ids, plus the real Oper/Owner/Member/Me/ReadAll constructors) and requests (half of them single-field mutations of a set member); non-trivial when the set has >= 2 permissions and either exactly one permission matches or none matches but one is a single-field near miss; distinct by canonical rendering of (set, request)")

// ---- the statement as a formula -------------------------------------------------------------

func idEq(a, b *platform.ID) bool { return a != nil && b != nil && *a == *b }

// wantMatch is the contract; it is deliberately one boolean expression mirroring the statement.
func wantMatch(p, r influxdb.Permission) bool {
	instanceWide := p.Resource.Type == influxdb.InstanceResourceType
	sameType := p.Resource.Type == r.Resource.Type
	typeWide := p.Resource.OrgID == nil && p.Resource.ID == nil
	orgScoped := p.Resource.ID == nil && idEq(p.Resource.OrgID, r.Resource.OrgID)
	namesResource := idEq(p.Resource.ID, r.Resource.ID)
	return p.Action == r.Action && (instanceWide || (sameType && (typeWide || orgScoped || namesResource)))
}

func wantAllowed(set []influxdb.Permission, r influxdb.Permission) bool {
	for _, p := range set {
		if wantMatch(p, r) {
			return true
		}
	}
	return false
}

// reason names the clause of the rule that decides a pair (for the class histogram).
func reason(p, r influxdb.Permission) string {
	switch {
	case p.Action != r.Action:
		return "deny:action-differs"
	case p.Resource.Type == influxdb.InstanceResourceType:
		return "grant:instance-wide"
	case p.Resource.Type != r.Resource.Type:
		return "deny:type-differs"
	case p.Resource.OrgID == nil && p.Resource.ID == nil:
		return "grant:type-wide"
	case p.Resource.ID == nil && idEq(p.Resource.OrgID, r.Resource.OrgID):
		return "grant:org-scoped"
	case idEq(p.Resource.ID, r.Resource.ID):
		return "grant:names-resource"
	case p.Resource.ID == nil:
		return "deny:other-or-no-org"
	default:
		return "deny:other-or-no-id"
	}
}

// ---- rendering ------------------------------------------------------------------------------

func idStr(id *platform.ID) string {
	if id == nil {
		return "-"
	}
	return fmt.Sprintf("%x", uint64(*id))
}

func permStr(p influxdb.Permission) string {
	return fmt.Sprintf("%s:%s/org=%s/id=%s", p.Action, p.Resource.Type, idStr(p.Resource.OrgID), idStr(p.Resource.ID))
}

func setStr(ps []influxdb.Permission) string {
	var sb strings.Builder
	for i, p := range ps {
		if i > 0 {
			sb.WriteString(" ; ")
		}
		sb.WriteString(permStr(p))
	}
	return sb.String()
}

func permJSON(p influxdb.Permission) map[string]any {
	return map[string]any{"action": string(p.Action), "type": string(p.Resource.Type), "org": idStr(p.Resource.OrgID), "id": idStr(p.Resource.ID)}
}

// quiet silences the diagnostic fmt.Printf in Permission.matchesV1 ("v1: old match used", printed
// for permission-at-id pairs whose orgs differ) so that logs stay readable. The testing package
// captured the real stdout before the tests started, so failure output is unaffected.
func quiet() func() {
	old := os.Stdout
	devnull, err := os.OpenFile(os.DevNull, os.O_WRONLY, 0)
	if err != nil {
		return func() {}
	}
	os.Stdout = devnull
	return func() { os.Stdout = old; devnull.Close() }
}

// ---- authorizers ----------------------------------------------------------------------------

// stubAuthorizer returns its permission set verbatim.
type stubAuthorizer struct{ ps []influxdb.Permission }

func (s *stubAuthorizer) PermissionSet() (influxdb.PermissionSet, error) { return s.ps, nil }
func (s *stubAuthorizer) Identifier() platform.ID                        { return 1 }
func (s *stubAuthorizer) GetUserID() platform.ID                         { return 2 }
func (s *stubAuthorizer) Kind() string                                   { return "verif-stub" }

func ctxFor(set []influxdb.Permission, realAuthorization bool) context.Context {
	if realAuthorization {
		return icontext.SetAuthorizer(context.Background(), &influxdb.Authorization{Status: influxdb.Active, Permissions: set})
	}
	return icontext.SetAuthorizer(context.Background(), &stubAuthorizer{ps: set})
}

// shapeHelper calls the Authorize* helper whose documented meaning is exactly request r (the
// helper is chosen by which of id / org the request names). ok=false when no helper applies
// (the helpers validate their arguments: unknown type, unknown action or a zero id are rejected
// before any authorization decision, which the statement does not talk about).
func shapeHelper(ctx context.Context, r influxdb.Permission) (name string, err error, ok bool) {
	pp := r
	if pp.Valid() != nil {
		return "", nil, false
	}
	rt := r.Resource.Type
	id, org := r.Resource.ID, r.Resource.OrgID
	read := r.Action == influxdb.ReadAction
	switch {
	case id != nil && org != nil:
		if read {
			_, _, err = authorizer.AuthorizeRead(ctx, rt, *id, *org)
			return "AuthorizeRead", err, true
		}
		_, _, err = authorizer.AuthorizeWrite(ctx, rt, *id, *org)
		return "AuthorizeWrite", err, true
	case id != nil:
		if read {
			_, _, err = authorizer.AuthorizeReadResource(ctx, rt, *id)
			return "AuthorizeReadResource", err, true
		}
		_, _, err = authorizer.AuthorizeWriteResource(ctx, rt, *id)
		return "AuthorizeWriteResource", err, true
	case org != nil:
		if read {
			_, _, err = authorizer.AuthorizeOrgReadResource(ctx, rt, *org)
			return "AuthorizeOrgReadResource", err, true
		}
		_, _, err = authorizer.AuthorizeOrgWriteResource(ctx, rt, *org)
		return "AuthorizeOrgWriteResource", err, true
	default:
		if read {
			_, _, err = authorizer.AuthorizeReadGlobal(ctx, rt)
			return "AuthorizeReadGlobal", err, true
		}
		_, _, err = authorizer.AuthorizeWriteGlobal(ctx, rt)
		return "AuthorizeWriteGlobal", err, true
	}
}

// extraHelpers: helpers that fix part of the request themselves. Returns (name, request the
// helper is documented to authorize, error) triples for a given (type, id, org) of valid values.
func extraHelpers(ctx context.Context, rt influxdb.ResourceType, id, org platform.ID) []struct {
	name string
	req  influxdb.Permission
	err  error
} {
	type out = struct {
		name string
		req  influxdb.Permission
		err  error
	}
	var res []out
	_, _, e := authorizer.AuthorizeCreate(ctx, rt, org)
	res = append(res, out{"AuthorizeCreate", influxdb.Permission{Action: influxdb.WriteAction, Resource: influxdb.Resource{Type: rt, OrgID: &org}}, e})
	_, _, e = authorizer.AuthorizeReadOrg(ctx, org)
	res = append(res, out{"AuthorizeReadOrg", influxdb.Permission{Action: influxdb.ReadAction, Resource: influxdb.Resource{Type: influxdb.OrgsResourceType, ID: &org}}, e})
	_, _, e = authorizer.AuthorizeWriteOrg(ctx, org)
	res = append(res, out{"AuthorizeWriteOrg", influxdb.Permission{Action: influxdb.WriteAction, Resource: influxdb.Resource{Type: influxdb.OrgsResourceType, ID: &org}}, e})
	_, _, e = authorizer.AuthorizeReadBucket(ctx, influxdb.BucketTypeUser, id, org)
	res = append(res, out{"AuthorizeReadBucket(user)", influxdb.Permission{Action: influxdb.ReadAction, Resource: influxdb.Resource{Type: influxdb.BucketsResourceType, ID: &id, OrgID: &org}}, e})
	return res
}

// ---- exhaustive enumeration -----------------------------------------------------------------

const bogusType = influxdb.ResourceType("verif-bogus")

type coord struct{ a, t, o, i int } // indexes into the four coordinate domains

func TestPropExhaustivePairs(t *testing.T) {
	defer quiet()()

	acts := []influxdb.Action{influxdb.ReadAction, influxdb.WriteAction}
	types := append(append([]influxdb.ResourceType{}, influxdb.AllResourceTypes...), bogusType)
	// org ids and resource ids deliberately share the values a, b: a permission check that
	// confuses the two fields is then visible.
	opt := []uint64{0, 0x0a, 0x0b} // 0 = nil

	mk := func(c coord) influxdb.Permission {
		p := influxdb.Permission{Action: acts[c.a], Resource: influxdb.Resource{Type: types[c.t]}}
		if opt[c.o] != 0 {
			v := platform.ID(opt[c.o])
			p.Resource.OrgID = &v
		}
		if opt[c.i] != 0 {
			v := platform.ID(opt[c.i])
			p.Resource.ID = &v
		}
		return p
	}
	var coords []coord
	for a := range acts {
		for ty := range types {
			for o := range opt {
				for i := range opt {
					coords = append(coords, coord{a, ty, o, i})
				}
			}
		}
	}
	n := len(coords)
	perms := make([]influxdb.Permission, n)
	reqs := make([]influxdb.Permission, n) // separately allocated (no pointer sharing with perms)
	for k, c := range coords {
		perms[k], reqs[k] = mk(c), mk(c)
	}
	want := make([][]bool, n)
	for i := range perms {
		want[i] = make([]bool, n)
		for j := range reqs {
			want[i][j] = wantMatch(perms[i], reqs[j])
		}
	}

	fail := func(key, what string, p, r influxdb.Permission, got, w bool) {
		rec.Fail(t, "TestPropExhaustivePairs", key,
			fmt.Sprintf("%s: permission %s, request %s: got %v, the statement says %v", what, permStr(p), permStr(r), got, w),
			map[string]any{"permission": permJSON(p), "request": permJSON(r), "got": got, "want": w, "via": what})
	}

	pairs, boundary, helperCalls, exhaustiveSamples := 0, 0, 0, 0
	classes := map[string]int{}
	for i, p := range perms {
		ctx := ctxFor([]influxdb.Permission{p}, i%2 == 0)
		for j, r := range reqs {
			w := want[i][j]
			got := p.Matches(r)
			pairs++
			classes["pair:"+reason(p, r)]++

			// decision boundary: a grant (flipping the request's action alone revokes it), or a
			// denial that copying exactly one coordinate of p into r would turn into a grant
			isBoundary := w || nearMiss(p, r)
			if isBoundary {
				boundary++
				rec.NonTrivial("pair|" + permStr(p) + "|" + permStr(r))
				if w {
					classes["boundary:granted"]++
				} else {
					classes["boundary:denied"]++
				}
				if (i*n+j)%30011 == 7 && exhaustiveSamples < 3 {
					exhaustiveSamples++
					rec.Sample(map[string]any{"kind": "exhaustive pair", "permission": permStr(p), "request": permStr(r), "granted": got, "decided_by": reason(p, r)})
				}
			} else {
				classes["interior"]++
			}

			// corollaries of the statement, reported under their own keys
			if got && p.Action != r.Action {
				fail("action-not-compared", "Permission.Matches (read must never imply write, nor write read)", p, r, got, w)
			}
			if got && p.Resource.Type != influxdb.InstanceResourceType && p.Resource.ID == nil && p.Resource.OrgID != nil &&
				r.Resource.OrgID != nil && *r.Resource.OrgID != *p.Resource.OrgID {
				fail("cross-org-grant", "Permission.Matches (organization-scoped permission granted another organization's resource)", p, r, got, w)
			}
			if got != w {
				fail("matches-differs-from-statement", "Permission.Matches", p, r, got, w)
			}

			// PermissionSet.Allowed / PermissionAllowed: singleton, and with a decoy that can
			// never match r (other action, ordinary type) placed before / after p.
			decoy := influxdb.Permission{Action: acts[1-coords[j].a], Resource: influxdb.Resource{Type: influxdb.BucketsResourceType}}
			if g := (influxdb.PermissionSet{p}).Allowed(r); g != w {
				fail("allowed-singleton", "PermissionSet{p}.Allowed", p, r, g, w)
			}
			if g := (influxdb.PermissionSet{decoy, p}).Allowed(r); g != w {
				fail("allowed-decoy-first", "PermissionSet{decoy,p}.Allowed", p, r, g, w)
			}
			if g := (influxdb.PermissionSet{p, decoy}).Allowed(r); g != w {
				fail("allowed-decoy-last", "PermissionSet{p,decoy}.Allowed", p, r, g, w)
			}
			if g := influxdb.PermissionAllowed(r, []influxdb.Permission{decoy, p, decoy}); g != w {
				fail("permission-allowed", "PermissionAllowed(r,{decoy,p,decoy})", p, r, g, w)
			}

			// authorizer helpers on the same data
			if g := authorizer.IsAllowed(ctx, r) == nil; g != w {
				fail("helper-IsAllowed", "authorizer.IsAllowed", p, r, g, w)
			}
			if g := authorizer.IsAllowedAll(ctx, []influxdb.Permission{r, r}) == nil; g != w {
				fail("helper-IsAllowedAll", "authorizer.IsAllowedAll({r,r})", p, r, g, w)
			}
			if g := authorizer.IsAllowedAny(ctx, []influxdb.Permission{decoyRequest(p), r}) == nil; g != w {
				fail("helper-IsAllowedAny", "authorizer.IsAllowedAny({never-granted,r})", p, r, g, w)
			}
			if name, err, ok := shapeHelper(ctx, r); ok {
				helperCalls++
				if g := err == nil; g != w {
					fail("helper-"+name, "authorizer."+name, p, r, g, w)
				}
			}
		}
	}
	rec.EvalN(pairs)
	for k, v := range classes {
		rec.ClassN(k, v)
	}
	rec.ClassN("helper:shape-helper-calls", helperCalls)
	if pairs != n*n {
		rec.Inconclusive(fmt.Sprintf("exhaustive enumeration visited %d of %d pairs", pairs, n*n))
		return
	}
	// Only reached when every pair of the space was evaluated without a violation.
	rec.Extra("exhaustive", true)
	rec.Extra("exhaustive_space", fmt.Sprintf("(permission, request) pairs over %d actions x %d resource types (AllResourceTypes + 1 invalid) x org in {nil,a,b} x id in {nil,a,b} on each side: %d x %d = %d pairs, of which %d on a decision boundary; the random part (TestPropPermissionSets) is sampled, not exhaustive", len(acts), len(types), n, n, pairs, boundary))
	rec.Extra("exhaustive_pairs", pairs)
	rec.Assume("the oracle is the property statement transcribed as a boolean formula (wantMatch, 8 lines); 'organization-scoped' is read as: the permission has an org and no resource id (a permission that names a resource id grants that id whatever org it carries, as the statement's last disjunct says)")
	rec.Assume("the converse direction (the rule's right-hand side implies a grant) is taken from the documentation of NewGlobalPermission / AuthorizeRead / AuthorizeReadResource, not from the 'only if' of the statement")
}

// decoyRequest returns a request that p alone can never grant (the other action).
func decoyRequest(p influxdb.Permission) influxdb.Permission {
	a := influxdb.ReadAction
	if p.Action == influxdb.ReadAction {
		a = influxdb.WriteAction
	}
	return influxdb.Permission{Action: a, Resource: influxdb.Resource{Type: influxdb.BucketsResourceType}}
}

// ---- random permission sets -----------------------------------------------------------------

type gen struct {
	t     *rapid.T
	ids   []uint64
	types []influxdb.ResourceType
}

func newGen(t *rapid.T) *gen {
	g := &gen{t: t}
	base := rapid.Uint64().Draw(t, "idBase")
	if base == 0 {
		base = 1
	}
	bit := uint(rapid.IntRange(0, 63).Draw(t, "idBit"))
	// near-equal ids: one bit apart (any bit, so also only in the high half), off by one, and
	// the same low 32 bits with a different high half
	g.ids = []uint64{base, base ^ (1 << bit), base + 1, base ^ 0xffffffff00000000, rapid.Uint64().Draw(t, "idOther"), 1, ^uint64(0)}
	k := rapid.IntRange(1, 3).Draw(t, "nTypes")
	for i := 0; i < k; i++ {
		g.types = append(g.types, rapid.SampledFrom(influxdb.AllResourceTypes).Draw(t, fmt.Sprintf("type%d", i)))
	}
	return g
}

func (g *gen) optID(label string) *platform.ID {
	k := rapid.IntRange(-4, len(g.ids)-1).Draw(g.t, label) // shrinks towards nil
	if k < 0 {
		return nil
	}
	v := platform.ID(g.ids[k])
	return &v
}

func (g *gen) validID(label string) platform.ID {
	for {
		v := g.ids[rapid.IntRange(0, len(g.ids)-1).Draw(g.t, label)]
		if v != 0 {
			return platform.ID(v)
		}
	}
}

func (g *gen) typ(label string) influxdb.ResourceType {
	k := rapid.IntRange(0, 19).Draw(g.t, label) // shrinks towards the first palette type
	switch {
	case k == 17:
		return influxdb.InstanceResourceType
	case k == 18:
		return bogusType
	case k == 19:
		return rapid.SampledFrom(influxdb.AllResourceTypes).Draw(g.t, label+"_any")
	default:
		return g.types[k%len(g.types)]
	}
}

func (g *gen) action(label string) influxdb.Action {
	switch k := rapid.IntRange(0, 20).Draw(g.t, label); {
	case k == 19:
		return influxdb.Action("")
	case k == 20:
		return influxdb.Action("verif-bogus")
	case k%2 == 1:
		return influxdb.WriteAction
	default:
		return influxdb.ReadAction
	}
}

func (g *gen) perm(label string) influxdb.Permission {
	return influxdb.Permission{Action: g.action(label + "_a"), Resource: influxdb.Resource{
		Type: g.typ(label + "_t"), OrgID: g.optID(label + "_o"), ID: g.optID(label + "_i")}}
}

// mutate returns p with exactly one field replaced by another drawn value (may be equal).
func (g *gen) mutate(p influxdb.Permission, label string) influxdb.Permission {
	q := p
	switch rapid.IntRange(0, 4).Draw(g.t, label+"_f") {
	case 0:
		q.Action = g.action(label + "_a")
	case 1:
		q.Resource.Type = g.typ(label + "_t")
	case 2:
		q.Resource.OrgID = g.optID(label + "_o")
	case 3:
		q.Resource.ID = g.optID(label + "_i")
	default: // unchanged apart from fresh pointers
	}
	// never share id pointers between a permission and a request
	if q.Resource.OrgID != nil {
		v := *q.Resource.OrgID
		q.Resource.OrgID = &v
	}
	if q.Resource.ID != nil {
		v := *q.Resource.ID
		q.Resource.ID = &v
	}
	return q
}

// nearMiss: p does not grant r, but would after copying exactly one field of p into r.
func nearMiss(p, r influxdb.Permission) bool {
	if wantMatch(p, r) {
		return false
	}
	r1 := r
	r1.Action = p.Action
	r2 := r
	r2.Resource.Type = p.Resource.Type
	r3 := r
	r3.Resource.OrgID = p.Resource.OrgID
	r4 := r
	r4.Resource.ID = p.Resource.ID
	return wantMatch(p, r1) || wantMatch(p, r2) || wantMatch(p, r3) || wantMatch(p, r4)
}

func TestPropPermissionSets(t *testing.T) {
	defer quiet()()
	rec.Check(t, 400000, 2000000, func(t *rapid.T) {
		g := newGen(t)
		var set []influxdb.Permission
		n := rapid.IntRange(0, 10).Draw(t, "setSize")
		for i := 0; i < n; i++ {
			set = append(set, g.perm(fmt.Sprintf("p%d", i)))
		}
		ctor := "none"
		switch rapid.IntRange(0, 11).Draw(t, "ctor") {
		case 6:
			ctor = "OwnerPermissions"
			set = append(set, influxdb.OwnerPermissions(g.validID("ownerOrg"))...)
		case 7:
			ctor = "MemberPermissions"
			set = append(set, influxdb.MemberPermissions(g.validID("memberOrg"))...)
		case 8:
			ctor = "MePermissions"
			set = append(set, influxdb.MePermissions(g.validID("me"))...)
		case 9:
			ctor = "ReadAllPermissions"
			set = append(set, influxdb.ReadAllPermissions()...)
		case 10:
			ctor = "OperPermissions"
			set = append(set, influxdb.OperPermissions()...)
		case 11:
			ctor = "MemberBucketPermission"
			set = append(set, influxdb.MemberBucketPermission(g.validID("bucket")))
		}
		if len(set) > 1 && rapid.Bool().Draw(t, "rotate") {
			k := rapid.IntRange(0, len(set)-1).Draw(t, "rotateBy")
			set = append(append([]influxdb.Permission{}, set[k:]...), set[:k]...)
		}
		nr := rapid.IntRange(1, 4).Draw(t, "nReq")
		var reqs []influxdb.Permission
		for i := 0; i < nr; i++ {
			if len(set) > 0 && rapid.Bool().Draw(t, fmt.Sprintf("r%d_derived", i)) {
				src := set[rapid.IntRange(0, len(set)-1).Draw(t, fmt.Sprintf("r%d_src", i))]
				reqs = append(reqs, g.mutate(src, fmt.Sprintf("r%d", i)))
			} else {
				reqs = append(reqs, g.perm(fmt.Sprintf("r%d", i)))
			}
		}
		realAuth := rapid.Bool().Draw(t, "realAuthorization")
		ctx := ctxFor(set, realAuth)
		pset := influxdb.PermissionSet(set)

		failSet := func(key, what string, r influxdb.Permission, got, w bool) {
			rec.Fail(t, "TestPropPermissionSets", key,
				fmt.Sprintf("%s: set {%s}, request %s: got %v, the statement says %v", what, setStr(set), permStr(r), got, w),
				map[string]any{"set": setStr(set), "request": permJSON(r), "got": got, "want": w, "via": what})
		}

		allOK, anyOK := true, false
		for _, r := range reqs {
			w := wantAllowed(set, r)
			allOK, anyOK = allOK && w, anyOK || w
			rec.Eval()
			matching, firstMatch, near := 0, -1, false
			for i, p := range set {
				if wantMatch(p, r) {
					if matching == 0 {
						firstMatch = i
					}
					matching++
				} else if nearMiss(p, r) {
					near = true
				}
			}
			switch {
			case len(set) == 0:
				rec.Class("set:empty")
			case matching == 1 && firstMatch > 0:
				rec.Class("set:exactly-one-grants-not-first")
			case matching == 1:
				rec.Class("set:exactly-one-grants-first")
			case matching > 1:
				rec.Class("set:several-grant")
			case near:
				rec.Class("set:denied-with-near-miss")
			default:
				rec.Class("set:denied-far")
			}
			rec.Class("ctor:" + ctor)
			if len(set) >= 2 && (matching == 1 || (matching == 0 && near)) {
				rec.NonTrivial("set|" + setStr(set) + "|" + permStr(r))
				if rec.WantSample() {
					rec.Sample(map[string]any{"kind": "random set", "set": setStr(set), "request": permStr(r), "granted": w})
				}
			}

			got := pset.Allowed(r)
			if got && !w {
				for _, p := range set {
					if p.Matches(r) && p.Action != r.Action {
						failSet("action-not-compared", "PermissionSet.Allowed (read must never imply write, nor write read)", r, got, w)
					}
				}
			}
			if got != w {
				failSet("allowed-differs-from-statement", "PermissionSet.Allowed", r, got, w)
			}
			if g2 := influxdb.PermissionAllowed(r, set); g2 != w {
				failSet("permission-allowed", "PermissionAllowed", r, g2, w)
			}
			for i, p := range set {
				if g3, w3 := p.Matches(r), wantMatch(p, r); g3 != w3 {
					failSet("matches-differs-from-statement", fmt.Sprintf("set[%d].Matches", i), r, g3, w3)
				}
			}
			if g4 := authorizer.IsAllowed(ctx, r) == nil; g4 != w {
				failSet("helper-IsAllowed", "authorizer.IsAllowed", r, g4, w)
			}
			if name, err, ok := shapeHelper(ctx, r); ok {
				rec.Class("helper:shape-helper-called")
				if g5 := err == nil; g5 != w {
					failSet("helper-"+name, "authorizer."+name, r, g5, w)
				}
			}
		}
		if g6 := authorizer.IsAllowedAll(ctx, reqs) == nil; g6 != allOK {
			failSet("helper-IsAllowedAll", fmt.Sprintf("authorizer.IsAllowedAll(%d requests, last shown)", len(reqs)), reqs[len(reqs)-1], g6, allOK)
		}
		if g7 := authorizer.IsAllowedAny(ctx, reqs) == nil; g7 != anyOK {
			failSet("helper-IsAllowedAny", fmt.Sprintf("authorizer.IsAllowedAny(%d requests, last shown)", len(reqs)), reqs[len(reqs)-1], g7, anyOK)
		}
		// helpers that fix part of the request themselves
		rt, id, org := g.types[0], g.validID("hid"), g.validID("horg")
		for _, h := range extraHelpers(ctx, rt, id, org) {
			w := wantAllowed(set, h.req)
			rec.Eval()
			rec.Class("helper:fixed-shape")
			if got := h.err == nil; got != w {
				failSet("helper-"+h.name, "authorizer."+h.name, h.req, got, w)
			}
		}
	})
}
