package c28_permissions

import (
	"testing"

	"verifharness/internal/ev"
)

func TestMain(m *testing.M) { ev.Main(m) }
