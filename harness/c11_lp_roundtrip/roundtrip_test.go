// C11 — Line protocol and series keys round-trip.
//
// Generator (verifharness/internal/lpgen): a model point (measurement, sorted unique tags, 1..6 typed
// fields, timestamp that is a multiple of the drawn precision) over an alphabet heavy in ',' '=' ' '
// '"' '\' '#', 2..4-byte runes and combining marks; all five field types with extremes.
//
// Oracles:
//
//	TestPropNewPointText   model -> models.NewPoint -> String / AppendString / PrecisionString(prec) ->
//	                       ParsePointsWithPrecision -> same measurement, tags (sorted), fields (same Go
//	                       type, bit-identical), time; MarshalBinary -> NewPointFromBytes likewise.
//	TestPropRenderedText   model -> INDEPENDENT renderer (tags and fields shuffled, float forms f/e/E/g,
//	                       all boolean literals, extra blanks) -> ParsePointsWithPrecision -> same point
//	                       and Key() == MakeKey(name, sorted tags).
//	TestPropSeriesKey      MakeKey -> ParseKey/ParseKeyBytes/ParseName/ParseTags; tsdb.AppendSeriesKey ->
//	                       ParseSeriesKey (arbitrary bytes); pkg/escape Bytes/Unescape, String/UnescapeString.
//	TestPropRefusals       NewPoint refuses what its documentation says it refuses (NaN, +/-Inf, no
//	                       field, out-of-range time, over-long key) and accepts the exact key-length boundary.
//
// Documented limitations are excluded by construction and counted as classes "excluded_documented:*":
// trailing backslash in a name/key/value, measurement starting with '#' (both in lpgen), and — only
// where the measurement is an INPUT of MakeKey/NewPoint — a measurement containing the escape
// sequences `\,` or `\ ` (AppendMakeKey documents that it un-escapes the name first "to avoid double
// escaping", i.e. such a name is read as already escaped).
//
// Genuine defects found on the unchanged tree are listed in /verif/known_findings.json, reproduced by
// TestKnown_* and excluded by exact signature while (and only while) they are listed open.
package c11_lp_roundtrip

import (
	"bytes"
	"fmt"
	"math"
	"sort"
	"strings"
	"sync/atomic"
	"testing"
	"time"

	"github.com/influxdata/influxdb/v2/models"
	"github.com/influxdata/influxdb/v2/pkg/escape"
	"github.com/influxdata/influxdb/v2/tsdb"
	"pgregory.net/rapid"

	"verifharness/internal/ev"
	"verifharness/internal/lpgen"
)

var rec = ev.For("C11", "exploration",
	"case = (model point, precision, text form); NON-TRIVIAL = the point contains a byte that needs escaping in >= 2 different positions (measurement / tag key / tag value / field key / string value) or an extreme numeric value (Min/MaxInt64, MaxUint64, +-MaxFloat64, subnormal, -0.0), or for series-key cases >= 2 escaped positions; DISTINCT by canonical line + precision + check name")

const (
	kName     = "name-accessor-unescapes-eq-quote"
	kOrder    = "tag-order-escaped-bytes"
	kFieldKey = "fieldkey-backslash-before-delimiter"
	kScanLine = "scanline-backslash-space-in-key"
)

func init() {
	rec.Assume("names, tag keys/values and field keys are newline-free and free of control characters; a trailing backslash and a leading '#' of the measurement are documented limitations of the text format and excluded by construction (counted in classes excluded_documented:*)")
	rec.Assume("a measurement passed to MakeKey/NewPoint that contains `\\,` or `\\ ` is read as already escaped (documented on AppendMakeKey); such names are exercised only through the text->parse direction")
	rec.Assume("a point without timestamp gets the caller's default time reduced to the precision; only |t-default| < precision unit and t being a multiple of the unit are asserted (Truncate vs Round is not specified)")
}

// ---- model <-> models conversions ---------------------------------------------------------------

func mtags(tags []lpgen.Tag) models.Tags {
	out := make(models.Tags, 0, len(tags))
	for _, tg := range tags {
		out = append(out, models.NewTag([]byte(tg.K), []byte(tg.V)))
	}
	return out
}

func mfields(p lpgen.Point) models.Fields {
	out := models.Fields{}
	for _, f := range p.Fields {
		out[f.K] = f.V
	}
	return out
}

// sigs are the signatures of the open known findings for one model point.
type sigs struct{ name, order, fieldKey, scanLine bool }

func signatures(p lpgen.Point) sigs {
	s := sigs{
		name:     lpgen.BackslashBefore(p.Name, "=\""),
		order:    lpgen.TagOrderDiffers(p.Tags),
		scanLine: lpgen.KeySectionOddBackslashSpace(p) && lpgen.HasNewline(p),
	}
	for _, f := range p.Fields {
		if lpgen.OddBackslashRunBefore(f.K, ",= ") {
			s.fieldKey = true
		}
	}
	return s
}

// active reduces the signatures to those whose finding is listed open, counting the exclusions.
func (s sigs) active() sigs {
	chk := func(b bool, key string) bool {
		if b && ev.KnownOpen("C11", key) {
			rec.ExcludedKnown(key)
			return true
		}
		return false
	}
	return sigs{name: chk(s.name, kName), order: chk(s.order, kOrder), fieldKey: chk(s.fieldKey, kFieldKey), scanLine: chk(s.scanLine, kScanLine)}
}

// compare checks a models.Point against the model. skip.name: Name() is not compared (ParseName of
// the key is compared instead); skip.order: tags are compared as a set.
func compare(got models.Point, p lpgen.Point, skip sigs) (key, detail string) {
	if !skip.name {
		if string(got.Name()) != p.Name {
			return "measurement-differs", fmt.Sprintf("Name()=%q want %q", got.Name(), p.Name)
		}
	}
	if n := models.ParseName(got.Key()); string(n) != p.Name {
		return "measurement-differs", fmt.Sprintf("ParseName(Key())=%q want %q (key %q)", n, p.Name, got.Key())
	}
	tags := got.Tags()
	if len(tags) != len(p.Tags) {
		return "tags-differ", fmt.Sprintf("Tags()=%v want %v", tags, p.Tags)
	}
	if skip.order {
		m := map[string]string{}
		for _, tg := range tags {
			m[string(tg.Key)] = string(tg.Value)
		}
		for _, tg := range p.Tags {
			if v, ok := m[tg.K]; !ok || v != tg.V {
				return "tags-differ", fmt.Sprintf("Tags()=%v want (as set) %v", tags, p.Tags)
			}
		}
	} else {
		for i := range tags {
			if string(tags[i].Key) != p.Tags[i].K || string(tags[i].Value) != p.Tags[i].V {
				return "tags-differ", fmt.Sprintf("Tags()=%v want (sorted) %v", tags, p.Tags)
			}
		}
	}
	fs, err := got.Fields()
	if err != nil {
		return "fields-error", err.Error()
	}
	if len(fs) != len(p.Fields) {
		return "fields-differ", fmt.Sprintf("Fields()=%v want %v", fs, p.Fields)
	}
	for _, f := range p.Fields {
		v, ok := fs[f.K]
		if !ok {
			return "fields-differ", fmt.Sprintf("field %q missing: Fields()=%v", f.K, fs)
		}
		if !lpgen.ValueEqual(v, f.V) {
			return "field-value-differs", fmt.Sprintf("field %q = %T(%v) want %T(%v)", f.K, v, v, f.V, f.V)
		}
	}
	if p.HasTime {
		if got.Time().UnixNano() != p.Time || got.UnixNano() != p.Time {
			return "time-differs", fmt.Sprintf("time %d want %d", got.Time().UnixNano(), p.Time)
		}
	}
	return "", ""
}

// parseOne parses text that must contain exactly one point.
func parseOne(txt string, def time.Time, prec string) (pt models.Point, key, detail string) {
	defer func() {
		if r := recover(); r != nil {
			pt, key, detail = nil, "panic", fmt.Sprintf("panic while parsing %q: %v", txt, r)
		}
	}()
	pts, err := models.ParsePointsWithPrecision([]byte(txt), def, prec)
	if err != nil {
		return nil, "valid-line-rejected", fmt.Sprintf("%q (precision %s): %v", txt, prec, err)
	}
	if len(pts) != 1 {
		return nil, "valid-line-point-count", fmt.Sprintf("%q: %d points", txt, len(pts))
	}
	return pts[0], "", ""
}

func defaultTimeOK(got time.Time, def time.Time, prec string) bool {
	m := lpgen.Mult(prec)
	d := def.UnixNano() - got.UnixNano()
	if d < 0 {
		d = -d
	}
	return d < m && got.UnixNano()%m == 0
}

func caseJSON(p lpgen.Point, prec, txt string) map[string]any {
	fs := []string{}
	for _, f := range p.Fields {
		fs = append(fs, fmt.Sprintf("%q=%T(%v)", f.K, f.V, f.V))
	}
	return map[string]any{"name": p.Name, "tags": fmt.Sprintf("%q", p.Tags), "fields": fs, "time": p.Time, "has_time": p.HasTime, "precision": prec, "text": txt}
}

// genDefault draws the caller-supplied default time. Every production caller passes time.Now(); the
// harness stays within 1970..2200 (a default at the very edge of the representable range, reduced to a
// coarser precision, would leave the range — that is the caller's precondition, not the parser's).
func genDefault(t *rapid.T) time.Time {
	return time.Unix(0, rapid.Int64Range(0, 7258118400_000000000).Draw(t, "default")).UTC()
}

func clip(s string) string {
	if len(s) > 900 {
		return s[:900] + "...(clipped)"
	}
	return s
}

// nonTrivial records a distinct non-trivial case; per process only the first 400 000 are hashed (the
// thorough tier and the fuzz workers would otherwise hold tens of millions of hashes), the rest is counted.
var ntCount atomic.Int64

func nonTrivial(canon string) {
	if ntCount.Add(1) <= 400000 {
		rec.NonTrivial(canon)
	} else {
		rec.Class("nontrivial-beyond-hash-budget")
	}
}

func classify(test string, p lpgen.Point, prec string) {
	rec.Eval()
	pos := lpgen.EscapePositions(p)
	ext := lpgen.HasExtreme(p)
	rec.Class(fmt.Sprintf("%s:escape-positions=%d", test, pos))
	if ext {
		rec.Class(test + ":extreme-value")
	}
	rec.Class(test + ":precision=" + prec)
	for _, f := range p.Fields {
		rec.Class(fmt.Sprintf("%s:field-type=%T", test, f.V))
	}
	if !p.HasTime {
		rec.Class(test + ":no-timestamp")
	}
	if pos >= 2 || ext {
		nonTrivial(test + "|" + lpgen.Canon(p, prec))
	}
}

// fixMakeKeyName removes (and counts) the documented MakeKey-input limitation: `\,` / `\ ` in the name.
func fixMakeKeyName(name string) string {
	if !lpgen.BackslashBefore(name, ", ") {
		return name
	}
	rec.Class("excluded_documented:measurement-escape-sequence-as-MakeKey-input")
	var sb strings.Builder
	for i := 0; i < len(name); i++ {
		sb.WriteByte(name[i])
		if name[i] == '\\' && i+1 < len(name) && (name[i+1] == ',' || name[i+1] == ' ') {
			sb.WriteByte('x')
		}
	}
	return sb.String()
}

func countExcl(ex lpgen.Excl) {
	for k, n := range ex {
		rec.ClassN("excluded_documented:"+k, n)
	}
}

// ---- property: NewPoint -> text -> parse ------------------------------------------------------------

func propNewPointText(t *rapid.T) {
	const test = "TestPropNewPointText"
	prec := rapid.SampledFrom(lpgen.Precisions).Draw(t, "precision")
	ex := lpgen.Excl{}
	p := lpgen.GenPoint(t, "p", prec, ex)
	p.Name = fixMakeKeyName(p.Name)
	p.HasTime = rapid.IntRange(0, 9).Draw(t, "hasTime") != 0
	def := genDefault(t)
	countExcl(ex)
	classify(test, p, prec)
	sg := signatures(p).active()

	fail := func(key, detail, txt string) {
		rec.Fail(t, test, key, clip(detail), caseJSON(p, prec, clip(txt)))
	}

	ts := time.Time{}
	if p.HasTime {
		ts = time.Unix(0, p.Time)
	}
	mp, err := models.NewPoint(p.Name, mtags(p.Tags), mfields(p), ts)
	if err != nil {
		fail("newpoint-rejects-valid", "NewPoint: "+err.Error(), "")
	}
	if sg.fieldKey {
		// Fields() of such a point is part of the same finding (the field section cannot be re-scanned)
		return
	}
	if k, d := compare(mp, p, sigs{name: sg.name}); k != "" {
		fail("newpoint-accessors:"+k, d, mp.String())
	}
	full := mp.String()
	if ap := string(mp.AppendString([]byte("pre"))); ap != "pre"+full {
		fail("appendstring-differs", fmt.Sprintf("AppendString=%q String=%q", ap, full), full)
	}
	if mp.StringSize() != len(full) {
		fail("stringsize-differs", fmt.Sprintf("StringSize=%d len(String())=%d", mp.StringSize(), len(full)), full)
	}
	if rec.WantSample() && lpgen.EscapePositions(p) >= 3 {
		rec.Sample(map[string]any{"test": test, "line": full, "precision": prec})
	}

	// binary form
	b, err := mp.MarshalBinary()
	if err != nil {
		fail("marshalbinary-error", err.Error(), full)
	}
	bp, err := models.NewPointFromBytes(b)
	if err != nil {
		fail("newpointfrombytes-error", err.Error(), full)
	}
	if k, d := compare(bp, p, sigs{name: sg.name}); k != "" {
		fail("binary-roundtrip:"+k, d, full)
	}
	if !p.HasTime && !bp.Time().IsZero() {
		fail("binary-roundtrip:time-differs", fmt.Sprintf("zero time became %v", bp.Time()), full)
	}

	if sg.scanLine {
		return
	}
	check := func(txt, pr string) {
		got, k, d := parseOne(txt, def, pr)
		if k != "" {
			fail(k, d, txt)
		}
		if k, d := compare(got, p, sg); k != "" {
			fail(k, fmt.Sprintf("%q (precision %s): %s", txt, pr, d), txt)
		}
		if !sg.order && !bytes.Equal(got.Key(), mp.Key()) {
			fail("key-differs", fmt.Sprintf("%q: parsed Key()=%q, NewPoint Key()=%q", txt, got.Key(), mp.Key()), txt)
		}
		if !p.HasTime && !defaultTimeOK(got.Time(), def, pr) {
			fail("default-time", fmt.Sprintf("%q: default %d precision %s -> %d", txt, def.UnixNano(), pr, got.Time().UnixNano()), txt)
		}
	}
	check(full, "ns")
	check(mp.PrecisionString(prec), prec)
}

func TestPropNewPointText(t *testing.T) { rec.Check(t, 130000, 1800000, propNewPointText) }

// ---- property: independent renderer -> parse ----------------------------------------------------------

func propRenderedText(t *rapid.T) {
	const test = "TestPropRenderedText"
	prec := rapid.SampledFrom(lpgen.Precisions).Draw(t, "precision")
	ex := lpgen.Excl{}
	p := lpgen.GenPoint(t, "p", prec, ex)
	p.HasTime = rapid.IntRange(0, 9).Draw(t, "hasTime") != 0
	st := lpgen.GenStyle(t, "style", p)
	def := genDefault(t)
	countExcl(ex)
	classify(test, p, prec)
	shuffled := false
	for i, j := range st.TagPerm {
		if i != j {
			shuffled = true
		}
	}
	if shuffled {
		rec.Class(test + ":tags-unsorted-in-text")
	}
	if lpgen.BackslashBefore(p.Name, ", ") {
		rec.Class(test + ":measurement-with-backslash-before-delimiter")
	}
	sg := signatures(p).active()
	if sg.fieldKey || sg.scanLine {
		return
	}
	txt := lpgen.Render(p, st, prec)
	fail := func(key, detail string) { rec.Fail(t, test, key, clip(detail), caseJSON(p, prec, clip(txt))) }
	got, k, d := parseOne(txt, def, prec)
	if k != "" {
		fail(k, d)
	}
	if k, d := compare(got, p, sg); k != "" {
		fail(k, fmt.Sprintf("%q (precision %s): %s", txt, prec, d))
	}
	if !p.HasTime && !defaultTimeOK(got.Time(), def, prec) {
		fail("default-time", fmt.Sprintf("%q: default %d precision %s -> %d", txt, def.UnixNano(), prec, got.Time().UnixNano()))
	}
	if !sg.order && !lpgen.BackslashBefore(p.Name, ", ") {
		if want := models.MakeKey([]byte(p.Name), mtags(p.Tags)); !bytes.Equal(got.Key(), want) {
			fail("key-differs", fmt.Sprintf("%q: parsed Key()=%q, MakeKey(name, sorted tags)=%q", txt, got.Key(), want))
		}
	}
	if rec.WantSample() && shuffled && lpgen.EscapePositions(p) >= 3 {
		rec.Sample(map[string]any{"test": test, "line": txt, "precision": prec})
	}
}

func TestPropRenderedText(t *testing.T) { rec.Check(t, 160000, 2200000, propRenderedText) }

// ---- property: series keys ------------------------------------------------------------------------------

func TestPropSeriesKey(t *testing.T) {
	const test = "TestPropSeriesKey"
	rec.Check(t, 80000, 1200000, func(t *rapid.T) {
		ex := lpgen.Excl{}
		name := fixMakeKeyName(lpgen.Token(t, "name", ex)) // MakeKey does not care about '#'
		tags := lpgen.GenTags(t, "tags", ex)
		countExcl(ex)
		rec.Eval()
		pos := 0
		if strings.ContainsAny(name, ", \\") {
			pos++
		}
		tk, tv := false, false
		for _, tg := range tags {
			tk = tk || strings.ContainsAny(tg.K, ",= \\")
			tv = tv || strings.ContainsAny(tg.V, ",= \\")
		}
		if tk {
			pos++
		}
		if tv {
			pos++
		}
		rec.Class(fmt.Sprintf("%s:escape-positions=%d", test, pos))
		rec.Class(fmt.Sprintf("%s:tags=%d", test, len(tags)))
		c := map[string]any{"name": name, "tags": fmt.Sprintf("%q", tags)}
		if pos >= 2 {
			nonTrivial(fmt.Sprintf("%s|%q|%q", test, name, tags))
		}
		key := models.MakeKey([]byte(name), mtags(tags))
		cmpTags := func(what string, got models.Tags) {
			if len(got) != len(tags) {
				rec.Fail(t, test, "serieskey-tags-differ", fmt.Sprintf("%s(%q)=%v want %q", what, key, got, tags), c)
			}
			for i := range got {
				if string(got[i].Key) != tags[i].K || string(got[i].Value) != tags[i].V {
					rec.Fail(t, test, "serieskey-tags-differ", fmt.Sprintf("%s(%q)=%v want %q", what, key, got, tags), c)
				}
			}
		}
		n1, t1 := models.ParseKeyBytes(append([]byte(nil), key...))
		if string(n1) != name {
			rec.Fail(t, test, "serieskey-name-differs", fmt.Sprintf("ParseKeyBytes(%q) name=%q want %q", key, n1, name), c)
		}
		cmpTags("ParseKeyBytes", t1)
		n2, t2 := models.ParseKey(append([]byte(nil), key...))
		if n2 != name {
			rec.Fail(t, test, "serieskey-name-differs", fmt.Sprintf("ParseKey(%q) name=%q want %q", key, n2, name), c)
		}
		cmpTags("ParseKey", t2)
		if n3 := models.ParseName(append([]byte(nil), key...)); string(n3) != name {
			rec.Fail(t, test, "serieskey-name-differs", fmt.Sprintf("ParseName(%q)=%q want %q", key, n3, name), c)
		}
		cmpTags("ParseTags", models.ParseTags(append([]byte(nil), key...)))

		// the series-file key form carries lengths: arbitrary bytes, including empty ones
		bname := rapid.SliceOfN(rapid.Byte(), 0, 12).Draw(t, "bname")
		var btags models.Tags
		if rapid.Bool().Draw(t, "modelTags") {
			bname, btags = []byte(name), mtags(tags)
		} else {
			for i, n := 0, rapid.IntRange(0, 4).Draw(t, "nb"); i < n; i++ {
				btags = append(btags, models.NewTag(rapid.SliceOfN(rapid.Byte(), 0, 10).Draw(t, fmt.Sprintf("bk%d", i)), rapid.SliceOfN(rapid.Byte(), 0, 10).Draw(t, fmt.Sprintf("bv%d", i))))
			}
		}
		sk := tsdb.AppendSeriesKey(nil, bname, btags)
		gn, gt := tsdb.ParseSeriesKey(sk)
		if !bytes.Equal(gn, bname) || len(gt) != len(btags) {
			rec.Fail(t, test, "seriesfile-key-differs", fmt.Sprintf("AppendSeriesKey(%q,%v) -> ParseSeriesKey = %q,%v", bname, btags, gn, gt), c)
		}
		for i := range gt {
			if !bytes.Equal(gt[i].Key, btags[i].Key) || !bytes.Equal(gt[i].Value, btags[i].Value) {
				rec.Fail(t, test, "seriesfile-key-differs", fmt.Sprintf("AppendSeriesKey(%q,%v) -> ParseSeriesKey = %q,%v", bname, btags, gn, gt), c)
			}
		}

		// escaping primitives (field keys are written with escape.String and read with escape.Unescape)
		raw := []byte(name)
		if rapid.Bool().Draw(t, "rawBytes") {
			raw = rapid.SliceOfN(rapid.SampledFrom([]byte{'a', ',', '=', ' ', '"', '\\', 0xff, 'z'}), 0, 10).Draw(t, "raw")
		}
		if got := escape.Unescape(escape.Bytes(append([]byte(nil), raw...))); !bytes.Equal(got, raw) {
			rec.Fail(t, test, "escape-bytes-not-inverse", fmt.Sprintf("Unescape(Bytes(%q))=%q", raw, got), c)
		}
		if got := escape.UnescapeString(escape.String(string(raw))); got != string(raw) {
			rec.Fail(t, test, "escape-string-not-inverse", fmt.Sprintf("UnescapeString(String(%q))=%q", raw, got), c)
		}
		if got := escape.AppendUnescaped(nil, []byte(escape.String(string(raw)))); !bytes.Equal(got, raw) {
			rec.Fail(t, test, "escape-appendunescaped-not-inverse", fmt.Sprintf("AppendUnescaped(String(%q))=%q", raw, got), c)
		}
	})
}

// ---- property: documented refusals and the key-length boundary -------------------------------------------

func TestPropRefusals(t *testing.T) {
	const test = "TestPropRefusals"
	rec.Check(t, 2000, 30000, func(t *rapid.T) {
		prec := "ns"
		ex := lpgen.Excl{}
		p := lpgen.GenPoint(t, "p", prec, ex)
		p.Name = fixMakeKeyName(p.Name)
		countExcl(ex)
		rec.Eval()
		kind := rapid.SampledFrom([]string{"nan", "+inf", "-inf", "no-fields", "time-below", "time-above", "key-too-long", "key-at-limit"}).Draw(t, "kind")
		rec.Class(test + ":" + kind)
		nonTrivial(test + "|" + kind + "|" + lpgen.Canon(p, prec))
		ts := time.Unix(0, p.Time)
		wantErr := true
		special := any(nil)
		switch kind {
		case "nan":
			special = math.NaN()
		case "+inf":
			special = math.Inf(1)
		case "-inf":
			special = math.Inf(-1)
		case "no-fields":
		case "time-below":
			ts = time.Unix(0, lpgen.MinNanoTime).Add(-time.Duration(rapid.Int64Range(1, 1000).Draw(t, "below")))
		case "time-above":
			ts = time.Unix(0, lpgen.MaxNanoTime).Add(time.Duration(rapid.Int64Range(1, 1000).Draw(t, "above")))
		case "key-too-long", "key-at-limit":
			target := lpgen.MaxKeyLength
			if kind == "key-too-long" {
				target += rapid.IntRange(1, 3).Draw(t, "over")
			} else {
				wantErr = false
			}
			// a single plain field key: NewPoint measures the unescaped, the parser the escaped field key
			p.Fields = []lpgen.Field{{K: "fld", V: p.Fields[0].V}}
			pad := target - lpgen.KeySize(p) - len(",pad=")
			p.Tags = append(p.Tags, lpgen.Tag{K: "pad", V: strings.Repeat("v", pad)})
			sort.Slice(p.Tags, func(i, j int) bool { return p.Tags[i].K < p.Tags[j].K })
			if lpgen.KeySize(p) != target {
				t.Fatalf("harness bug: key size %d want %d", lpgen.KeySize(p), target)
			}
		}
		sg := signatures(p).active()
		fields := mfields(p)
		if special != nil {
			fields[p.Fields[0].K] = special
		}
		if kind == "no-fields" {
			fields = models.Fields{}
		}
		mp, err := models.NewPoint(p.Name, mtags(p.Tags), fields, ts)
		c := caseJSON(p, prec, "")
		c["kind"] = kind
		if wantErr {
			if err == nil {
				rec.Fail(t, test, "newpoint-accepts-"+kind, fmt.Sprintf("NewPoint accepted a point that its documentation says it refuses (%s): %q", kind, mp.String()[:min(200, len(mp.String()))]), c)
			}
			return
		}
		if err != nil {
			rec.Fail(t, test, "newpoint-rejects-valid", fmt.Sprintf("NewPoint refused a key of exactly %d bytes: %v", lpgen.MaxKeyLength, err), c)
		}
		if sg.fieldKey || sg.scanLine {
			return
		}
		got, k, d := parseOne(mp.String(), time.Unix(0, 0), "ns")
		if k != "" {
			rec.Fail(t, test, k, d[:min(300, len(d))], c)
		}
		if k, d := compare(got, p, sg); k != "" {
			rec.Fail(t, test, k, d[:min(300, len(d))], c)
		}
	})
}

// ---- native fuzz target (thorough tier): bytes -> rapid bit stream -> the same two properties -------------

func FuzzPointRoundTrip(f *testing.F) {
	f.Add(bytes.Repeat([]byte{0x00}, 512))
	f.Add(bytes.Repeat([]byte{0xff}, 512))
	f.Add(bytes.Repeat([]byte{0x5c, 0x2c, 0x3d, 0x20, 0x22, 0x01, 0x80, 0x7f}, 128))
	f.Add(bytes.Repeat([]byte("line protocol \\ , = \" round trip"), 24))
	f.Fuzz(rapid.MakeFuzz(func(t *rapid.T) {
		if rapid.Bool().Draw(t, "which") {
			propNewPointText(t)
		} else {
			propRenderedText(t)
		}
	}))
}
