package c11_lp_roundtrip

import (
	"testing"

	"verifharness/internal/ev"
)

func TestMain(m *testing.M) { ev.Main(m) }
