package c11_lp_roundtrip

import (
	"bytes"
	"fmt"
	"testing"
	"time"

	"github.com/influxdata/influxdb/v2/models"
)

// TestKnown_name_accessor_unescapes_eq_quote: the measurement `cpu\=load` (upstream's own test calls
// the backslash "literal") is reported by Point.Name() as `cpu=load`: Name() uses escape.Unescape,
// which also strips the backslash before '=' and '"' although measurement escaping only ever adds
// one before ',' and ' '. ParseName(Key()) returns `cpu\=load`; the two distinct series keys
// `cpu=load` and `cpu\=load` report the same measurement name.
func TestKnown_name_accessor_unescapes_eq_quote(t *testing.T) {
	const line = `cpu\=load value=1 1`
	pts, err := models.ParsePointsString(line)
	if err != nil || len(pts) != 1 {
		t.Fatalf("setup: %v %d", err, len(pts))
	}
	name, parsed := string(pts[0].Name()), string(models.ParseName(pts[0].Key()))
	np, err := models.NewPoint(`cpu\"load`, nil, models.Fields{"value": 1.0}, time.Unix(0, 1))
	if err != nil {
		t.Fatal(err)
	}
	reproduced := name != `cpu\=load` || string(np.Name()) != `cpu\"load`
	rec.Known(t, "TestKnown_name_accessor_unescapes_eq_quote", kName, reproduced,
		fmt.Sprintf("parsing %q: Point.Name()=%q but ParseName(Key())=%q; NewPoint(`cpu\\\"load`).Name()=%q (Name() unescapes \\= and \\\" which measurement escaping never produces)", line, name, parsed, np.Name()),
		map[string]any{"line": line})
}

// TestKnown_tag_order_escaped_bytes: the parser decides sortedness / sorts tags by the ESCAPED key
// bytes, models.Tags (NewPoint, MakeKey, Tags.Less) by the unescaped ones. For keys `a=` and `aZ`
// ('=' < 'Z' < '\') the parsed point has Tags() = [aZ, a=] (not sorted by key) and the series key
// `m,aZ=2,a\==1`, whereas MakeKey/NewPoint give `m,a\==1,aZ=2` for the same tag set.
func TestKnown_tag_order_escaped_bytes(t *testing.T) {
	tags := models.NewTags(map[string]string{"a=": "1", "aZ": "2"})
	mp, err := models.NewPoint("m", tags, models.Fields{"v": 1.0}, time.Unix(0, 1))
	if err != nil {
		t.Fatal(err)
	}
	pts, err := models.ParsePointsString(mp.String())
	if err != nil || len(pts) != 1 {
		t.Fatalf("setup: %v %d", err, len(pts))
	}
	got := pts[0].Tags()
	sorted := len(got) == 2 && bytes.Compare(got[0].Key, got[1].Key) < 0
	reproduced := !sorted || !bytes.Equal(pts[0].Key(), mp.Key())
	rec.Known(t, "TestKnown_tag_order_escaped_bytes", kOrder, reproduced,
		fmt.Sprintf("NewPoint(m,{a=:1,aZ:2}).String()=%q parses to Tags()=%v Key()=%q; NewPoint Key()=%q (parser orders tags by escaped key bytes)", mp.String(), got, pts[0].Key(), mp.Key()),
		map[string]any{"line": mp.String()})
}

// TestKnown_fieldkey_backslash_before_delimiter: a field key containing a backslash directly before
// '=', ',' or ' ' is accepted by NewPoint but its String() is rejected by the parser (scanFields
// skips `\\` as an escape pair, every other scanner treats a backslash as literal unless a delimiter
// follows). The same text is fine for a tag key (`m,a\\=b=1 v=1`), and tsdb/README.md says field keys
// "follow the same syntactical rules as described above for tag keys".
func TestKnown_fieldkey_backslash_before_delimiter(t *testing.T) {
	mp, err := models.NewPoint("m", nil, models.Fields{`a\=b`: 1.0}, time.Unix(0, 1))
	if err != nil {
		t.Fatal(err)
	}
	_, perr := models.ParsePointsString(mp.String())
	_, terr := models.ParsePointsString(`m,a\\=b=1 v=1 1`)
	reproduced := perr != nil && terr == nil
	rec.Known(t, "TestKnown_fieldkey_backslash_before_delimiter", kFieldKey, reproduced,
		fmt.Sprintf("NewPoint(m,{},{`a\\=b`:1}).String()=%q is rejected: %v (the same bytes as a tag key parse: %v)", mp.String(), perr, terr),
		map[string]any{"line": mp.String()})
}

// TestKnown_scanline_backslash_space_in_key: scanLine (the line splitter) skips `\\` as an escape
// pair, so in `m,a\\ b=1,...` (tag key `a\ b`, pinned as valid by upstream's "backslash literal
// followed by escaped space" tests) it takes the escaped space for the start of the field section,
// starts counting '=' / ',' and toggling on '"' inside the tag set, and then splits the line at a
// newline that is inside a string field value.
func TestKnown_scanline_backslash_space_in_key(t *testing.T) {
	tags := models.NewTags(map[string]string{`a\ b`: "1", "c": `"x`})
	mp, err := models.NewPoint("m", tags, models.Fields{"v": "p\nq"}, time.Unix(0, 1))
	if err != nil {
		t.Fatal(err)
	}
	pts, perr := models.ParsePointsString(mp.String())
	// control: the same point without the backslash parses
	cp, _ := models.NewPoint("m", models.NewTags(map[string]string{`a b`: "1", "c": `"x`}), models.Fields{"v": "p\nq"}, time.Unix(0, 1))
	cpts, cerr := models.ParsePointsString(cp.String())
	reproduced := (perr != nil || len(pts) != 1) && cerr == nil && len(cpts) == 1
	rec.Known(t, "TestKnown_scanline_backslash_space_in_key", kScanLine, reproduced,
		fmt.Sprintf("NewPoint(m,{`a\\ b`:1,c:`\"x`},{v:\"p\\nq\"}).String()=%q -> %d points, err=%v (without the backslash: %d point, err=%v)", mp.String(), len(pts), perr, len(cpts), cerr),
		map[string]any{"line": mp.String()})
}
