// C30, second family of cases: LARGE populations.
//
// The histories of tenant_test.go draw names from 3-6 element pools, so an organization never owns
// more than half a dozen buckets and no resource or user has more than a handful of memberships.
// The cascades of the service (DeleteOrganization -> its buckets -> their memberships, DeleteBucket
// -> its memberships, DeleteUser -> its memberships) and the option-less listings they are built on
// enumerate "everything"; whether "everything" is really everything only shows once the populations
// exceed the paging constants of the API (influxdb.DefaultPageSize = 20, influxdb.MaxPageSize = 100).
//
// A case therefore builds populations whose sizes are drawn around and beyond those two constants
// (organizations, buckets per organization, users, memberships on one hub resource, memberships of
// one hub user), verifies the complete observable state against the model (the same verify as the
// histories: listings, by-name lookup of every name ever used, by-id lookup of every id ever issued,
// raw name indexes, membership index), then runs a few cascading / colliding operations, verifying
// after each one.
package c30_tenant

import (
	"fmt"
	"strings"
	"testing"

	"github.com/influxdata/influxdb/v2"
	"github.com/influxdata/influxdb/v2/kit/platform"
	ierrors "github.com/influxdata/influxdb/v2/kit/platform/errors"
	"pgregory.net/rapid"
)

const largePropName = "TestPropTenantLargePopulations"

// sizeBand classifies a population size relative to the paging constants of the API.
func sizeBand(n int) string {
	switch {
	case n == 0:
		return "0"
	case n < influxdb.DefaultPageSize:
		return "1..19"
	case n == influxdb.DefaultPageSize:
		return "20"
	case n <= influxdb.MaxPageSize:
		if n == influxdb.MaxPageSize {
			return "100"
		}
		return "21..99"
	default:
		return ">100"
	}
}

// drawSize draws a population size: small, around DefaultPageSize, between the two constants,
// around MaxPageSize, beyond MaxPageSize. huge=false leaves out the sizes near and above MaxPageSize
// (used for the dimensions whose cost is quadratic).
func drawSize(t *rapid.T, label string, huge bool) int {
	k := uniform(t, label+"-band", 12)
	if !huge && k >= 10 {
		k -= 6
	}
	switch {
	case k < 3:
		return uniform(t, label, 5) // 0..4
	case k < 6:
		return influxdb.DefaultPageSize - 3 + uniform(t, label, 7) // 17..23
	case k < 10:
		return influxdb.DefaultPageSize + 1 + uniform(t, label, 45) // 21..65
	case k < 11:
		return influxdb.MaxPageSize - 2 + uniform(t, label, 5) // 98..102
	default:
		return influxdb.MaxPageSize + 1 + uniform(t, label, 30) // 101..130
	}
}

// ---- deterministic (non-drawing) operations that must succeed ----------------------------------

func (s *sys) addOrg(t *rapid.T, name string) *orgM {
	o := &influxdb.Organization{Name: name}
	if err := s.svc.CreateOrganization(s.ctx, o); err != nil {
		s.fail(t, "create-org-rejected", "CreateOrganization(%q) with a free name failed: %v", name, err)
	}
	if !o.ID.Valid() || s.idUsed(o.ID) {
		s.fail(t, "create-org-id", "created organization got id %v which is invalid or already used", o.ID)
	}
	m := &orgM{id: o.ID, name: name, live: true}
	s.everOrgKey[orgKey(name)] = true
	s.orgs = append(s.orgs, m)
	bs, _, err := s.svc.FindBuckets(s.ctx, influxdb.BucketFilter{OrganizationID: &o.ID})
	if err != nil {
		s.fail(t, "create-org-system-buckets", "listing the buckets of the new organization: %v", err)
	}
	got := map[string]bool{}
	for _, b := range bs {
		if b.Type != influxdb.BucketTypeSystem || s.idUsed(b.ID) || got[b.Name] {
			s.fail(t, "create-org-system-buckets", "new organization %q owns unexpected bucket %+v", name, *b)
		}
		got[b.Name] = true
		s.buckets = append(s.buckets, &bucketM{id: b.ID, org: o.ID, name: b.Name, desc: b.Description, typ: b.Type, live: true})
		s.everBktName[bktNameKey(o.ID, b.Name)] = true
	}
	if len(got) != 2 || !got[influxdb.TasksSystemBucketName] || !got[influxdb.MonitoringSystemBucketName] {
		s.fail(t, "create-org-system-buckets", "new organization owns buckets %v, want the two system buckets", got)
	}
	return m
}

func (s *sys) addBucket(t *rapid.T, o *orgM, name string) *bucketM {
	b := &influxdb.Bucket{OrgID: o.id, Name: name, Type: influxdb.BucketTypeUser}
	if err := s.svc.CreateBucket(s.ctx, b); err != nil {
		s.fail(t, "create-bucket-rejected", "CreateBucket(org %v, %q) with a free name failed: %v", o.id, name, err)
	}
	if !b.ID.Valid() || s.idUsed(b.ID) {
		s.fail(t, "create-bucket-id", "created bucket got id %v which is invalid or already used", b.ID)
	}
	m := &bucketM{id: b.ID, org: o.id, name: name, typ: influxdb.BucketTypeUser, live: true}
	s.everBktName[bktNameKey(o.id, name)] = true
	s.buckets = append(s.buckets, m)
	return m
}

func (s *sys) addUser(t *rapid.T, name string) *userM {
	u := &influxdb.User{Name: name, Status: influxdb.Active}
	if err := s.svc.CreateUser(s.ctx, u); err != nil {
		s.fail(t, "create-user-rejected", "CreateUser(%q) with a free name failed: %v", name, err)
	}
	if !u.ID.Valid() || s.idUsed(u.ID) {
		s.fail(t, "create-user-id", "created user got id %v which is invalid or already used", u.ID)
	}
	m := &userM{id: u.ID, name: name, live: true}
	s.everUser[name] = true
	s.users = append(s.users, m)
	return m
}

func (s *sys) addURM(t *rapid.T, res platform.ID, rt influxdb.ResourceType, u *userM, ut influxdb.UserType) {
	if _, ok := s.urms[urmKey{res, u.id}]; ok {
		return
	}
	err := s.svc.CreateUserResourceMapping(s.ctx, &influxdb.UserResourceMapping{
		UserID: u.id, UserType: ut, MappingType: influxdb.UserMappingType, ResourceType: rt, ResourceID: res})
	if err != nil {
		s.fail(t, "create-urm-rejected", "CreateUserResourceMapping(res %v, user %v) failed: %v", res, u.id, err)
	}
	s.urms[urmKey{res, u.id}] = urmM{ut, rt}
}

func (s *sys) liveBucketsOf(org platform.ID, typ influxdb.BucketType) []*bucketM {
	var out []*bucketM
	for _, b := range s.buckets {
		if b.live && b.org == org && b.typ == typ {
			out = append(out, b)
		}
	}
	return out
}

func (s *sys) membershipsOn(res platform.ID) int {
	n := 0
	for k := range s.urms {
		if k.res == res {
			n++
		}
	}
	return n
}

func (s *sys) membershipsOf(user platform.ID) int {
	n := 0
	for k := range s.urms {
		if k.user == user {
			n++
		}
	}
	return n
}

// ---- the property ------------------------------------------------------------------------------

func TestPropTenantLargePopulations(t *testing.T) {
	rec.Assume("large-population cases: an option-less listing (no FindOptions) returns every matching entity, whatever their number; DeleteOrganization / DeleteBucket / DeleteUser cascade over ALL owned buckets / memberships, whatever their number")
	rec.Check(t, 120, 1800, func(t *rapid.T) {
		s := newSys(t)
		s.test = largePropName

		// ---- populate
		nUsers := drawSize(t, "users", true)
		nOrgs := 1 + uniform(t, "orgs-few", 3)
		switch uniform(t, "orgs-band", 12) {
		case 0, 1:
			nOrgs = influxdb.DefaultPageSize - 1 + uniform(t, "orgs-many", 8) // 19..26
		case 2:
			nOrgs = influxdb.MaxPageSize - 1 + uniform(t, "orgs-many", 5) // 99..103
		}
		for i := 0; i < nUsers; i++ {
			s.addUser(t, fmt.Sprintf("usr%03d", i))
		}
		var perOrg []int
		for i := 0; i < nOrgs; i++ {
			o := s.addOrg(t, fmt.Sprintf("org%03d", i))
			if i >= 3 {
				continue // only the first three organizations get user buckets
			}
			n := drawSize(t, fmt.Sprintf("buckets-org%d", i), i == 0)
			perOrg = append(perOrg, n)
			for j := 0; j < n; j++ {
				s.addBucket(t, o, fmt.Sprintf("k%03d", j))
			}
		}
		big := s.orgs[0]
		// hub resource: the first organization or one of its user buckets gets many members
		hubRes, hubType := big.id, influxdb.OrgsResourceType
		var hubBucket *bucketM
		if ub := s.liveBucketsOf(big.id, influxdb.BucketTypeUser); len(ub) > 0 && uniform(t, "hub-is-bucket", 2) == 0 {
			hubBucket = ub[uniform(t, "hub-bucket", len(ub))]
			hubRes, hubType = hubBucket.id, influxdb.BucketsResourceType
		}
		nMembers := drawSize(t, "hub-members", true)
		if nMembers > nUsers {
			nMembers = nUsers
		}
		for i := 0; i < nMembers; i++ {
			ut := influxdb.Member
			if i%3 == 0 {
				ut = influxdb.Owner
			}
			s.addURM(t, hubRes, hubType, s.users[nUsers-1-i], ut) // from the end: the hub user (users[0]) comes last
		}
		// hub user: the first user is a member of many resources (buckets of the first organizations, then organizations)
		var hubUser *userM
		nOfUser := 0
		if nUsers > 0 {
			hubUser = s.users[0]
			nOfUser = drawSize(t, "hub-user-memberships", true)
			for _, b := range s.buckets {
				if s.membershipsOf(hubUser.id) >= nOfUser {
					break
				}
				s.addURM(t, b.id, influxdb.BucketsResourceType, hubUser, influxdb.Member)
			}
			for _, o := range s.orgs {
				if s.membershipsOf(hubUser.id) >= nOfUser {
					break
				}
				s.addURM(t, o.id, influxdb.OrgsResourceType, hubUser, influxdb.Owner)
			}
			nOfUser = s.membershipsOf(hubUser.id)
		}
		s.logf("populate(users=%d, orgs=%d, userBucketsPerOrg=%v, hub=%s#%v with %d members, hubUser memberships=%d)",
			nUsers, nOrgs, perOrg, hubType, hubRes, s.membershipsOn(hubRes), nOfUser)
		rec.Class("large:users:" + sizeBand(nUsers))
		rec.Class("large:orgs:" + sizeBand(nOrgs))
		rec.Class("large:buckets-of-first-org:" + sizeBand(len(s.liveBucketsOf(big.id, influxdb.BucketTypeUser))+2))
		rec.Class("large:members-of-hub-resource:" + sizeBand(s.membershipsOn(hubRes)))
		rec.Class("large:memberships-of-hub-user:" + sizeBand(nOfUser))
		s.verify(t)

		// ---- a few cascading / colliding operations, each followed by a full verify
		nonTrivial := false
		nOps := 2 + uniform(t, "n-ops", 4)
		for i := 0; i < nOps; i++ {
			switch op := uniform(t, "large-op", 10); {
			case op < 4: // delete one of the first three organizations (prefer a live one)
				n := 3
				if len(s.orgs) < n {
					n = len(s.orgs)
				}
				o := s.orgs[pick(t, "org", n, func(i int) bool { return s.orgs[i].live })]
				owned := len(s.liveBucketsOf(o.id, influxdb.BucketTypeUser)) + len(s.liveBucketsOf(o.id, influxdb.BucketTypeSystem))
				s.logf("deleteOrg(#%v live=%v, %d buckets)", o.id, o.live, owned)
				err := s.svc.DeleteOrganization(s.ctx, o.id)
				if !o.live {
					s.expect(t, "delete-org", err, ierrors.ENotFound)
					rec.Class("large:org-delete:deleted-org")
					break
				}
				s.expect(t, "delete-org", err)
				_, memberships := s.applyOrgDelete(o)
				rec.Class("large:org-delete:owned-buckets:" + sizeBand(owned))
				rec.Class("large:org-delete:cascaded-memberships:" + sizeBand(memberships))
				if owned > influxdb.DefaultPageSize {
					nonTrivial = true
				}
			case op < 5: // delete the hub user
				if hubUser == nil {
					rec.Class("large:op-skipped:no-user")
					break
				}
				n := s.membershipsOf(hubUser.id)
				s.logf("deleteUser(#%v live=%v, %d memberships)", hubUser.id, hubUser.live, n)
				err := s.svc.DeleteUser(s.ctx, hubUser.id)
				if !hubUser.live {
					s.expect(t, "delete-user", err, ierrors.ENotFound)
					rec.Class("large:user-delete:deleted-user")
					break
				}
				s.expect(t, "delete-user", err)
				hubUser.live = false
				for k := range s.urms {
					if k.user == hubUser.id {
						delete(s.urms, k)
					}
				}
				rec.Class("large:user-delete:memberships:" + sizeBand(n))
			case op < 6: // delete the hub bucket (or any user bucket of the first organization)
				b := hubBucket
				if b == nil {
					ub := s.liveBucketsOf(big.id, influxdb.BucketTypeUser)
					if len(ub) == 0 {
						rec.Class("large:op-skipped:no-user-bucket")
						break
					}
					b = ub[uniform(t, "bucket", len(ub))]
				}
				n := s.membershipsOn(b.id)
				s.logf("deleteBucket(#%v live=%v %q, %d members)", b.id, b.live, b.name, n)
				err := s.svc.DeleteBucket(s.ctx, b.id)
				if !b.live {
					s.expect(t, "delete-bucket", err, ierrors.ENotFound)
					rec.Class("large:bucket-delete:deleted-bucket")
					break
				}
				s.expect(t, "delete-bucket", err)
				b.live = false
				for k := range s.urms {
					if k.res == b.id {
						delete(s.urms, k)
					}
				}
				rec.Class("large:bucket-delete:members:" + sizeBand(n))
			case op < 8: // create / rename inside a (possibly large) organization: name taken <=> conflict
				o := s.orgs[uniform(t, "org3", min(3, len(s.orgs)))]
				name := fmt.Sprintf("k%03d", uniform(t, "name-index", 135))
				ub := s.liveBucketsOf(o.id, influxdb.BucketTypeUser)
				taken := s.liveBucket(o.id, name) != nil
				if o.live && len(ub) > 0 && uniform(t, "rename", 2) == 0 {
					b := ub[uniform(t, "bucket", len(ub))]
					s.logf("renameBucket(#%v %q -> %q)", b.id, b.name, name)
					_, err := s.svc.UpdateBucket(s.ctx, b.id, influxdb.BucketUpdate{Name: &name})
					switch {
					case name == b.name:
						s.expect(t, "update-bucket", err)
						rec.Class("large:bucket-rename:same-name")
					case taken:
						s.expect(t, "rename-bucket", err, ierrors.EConflict)
						rec.Class("large:bucket-rename:collision")
					default:
						s.expect(t, "rename-bucket", err)
						s.everBktName[bktNameKey(o.id, name)] = true
						b.name = name
						rec.Class("large:bucket-rename:free-name")
					}
					break
				}
				s.logf("createBucket(org#%v live=%v, %q)", o.id, o.live, name)
				b := &influxdb.Bucket{OrgID: o.id, Name: name, Type: influxdb.BucketTypeUser}
				err := s.svc.CreateBucket(s.ctx, b)
				switch {
				case !o.live:
					s.expect(t, "create-bucket", err, ierrors.ENotFound)
					rec.Class("large:bucket-create:deleted-org")
				case taken:
					s.expect(t, "create-bucket", err, ierrors.EConflict)
					rec.Class("large:bucket-create:name-taken")
				default:
					s.expect(t, "create-bucket", err)
					if !b.ID.Valid() || s.idUsed(b.ID) {
						s.fail(t, "create-bucket-id", "created bucket got id %v which is invalid or already used", b.ID)
					}
					s.everBktName[bktNameKey(o.id, name)] = true
					s.buckets = append(s.buckets, &bucketM{id: b.ID, org: o.id, name: name, typ: influxdb.BucketTypeUser, live: true})
					rec.Class("large:bucket-create:free-name")
				}
			default: // re-create an organization under the name of a deleted one, or collide with a live one
				o := s.orgs[uniform(t, "org-any", len(s.orgs))]
				if s.liveOrgByKey(orgKey(o.name)) != nil {
					s.logf("createOrg(%q) [taken]", o.name)
					err := s.svc.CreateOrganization(s.ctx, &influxdb.Organization{Name: o.name})
					s.expect(t, "create-org", err, ierrors.EConflict)
					rec.Class("large:org-create:name-taken")
					break
				}
				s.logf("createOrg(%q) [name of a deleted organization]", o.name)
				s.addOrg(t, o.name) // must succeed and own exactly the two fresh system buckets
				rec.Class("large:org-create:onto-freed-name")
			}
			s.verify(t)
		}
		rec.Eval()
		if nonTrivial {
			rec.Class("large:NON-TRIVIAL")
			rec.NonTrivial("large;" + strings.Join(s.hist, ";"))
			if rec.WantSample() {
				rec.Sample(map[string]any{"history": s.hist})
			}
		}
	})
}
