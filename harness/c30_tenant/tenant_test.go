// C30 — Tenant metadata stays unique and internally consistent.
//
// A rapid-generated history of organization / bucket / user / membership (URM) operations is run
// against the real tenant.Service (tenant.NewService(tenant.NewStore(inmem KV after all.Up))) and,
// step by step, against a plain in-memory model of the same entities. Names come from tiny pools so
// that collisions, renames onto freed names and re-creations are the norm.
//
// After EVERY step the whole observable state is compared with the model:
//   - listings (all orgs / all buckets / buckets per org / all users / all memberships / memberships
//     per resource and per user) contain every live entity exactly once and nothing else;
//   - for every name of the pools (so for all names ever used) the by-name lookup returns exactly the
//     record the model holds under that name (same id, same name) or "not found";
//   - for every id ever handed out the by-id lookup returns the record, or "not found" once deleted;
//   - the three name-index buckets hold exactly one entry per live entity, each pointing at a live
//     record (a stale or missing entry is an index <-> record disagreement), and kv.Index.Verify
//     reports no difference between the memberships and their by-user index.
//
// The outcome of every operation is predicted by the model: a create/rename must be rejected with
// a conflict error exactly when the name is taken (org names and user names globally, bucket names
// within the organization), deleting or renaming a system bucket must be rejected, deleting an
// organization removes its buckets and every membership on the organization or its buckets, and a
// rejected operation changes nothing.
package c30_tenant

import (
	"context"
	"fmt"
	"sort"
	"strings"
	"testing"

	"github.com/influxdata/influxdb/v2"
	icontext "github.com/influxdata/influxdb/v2/context"
	"github.com/influxdata/influxdb/v2/inmem"
	"github.com/influxdata/influxdb/v2/kit/platform"
	ierrors "github.com/influxdata/influxdb/v2/kit/platform/errors"
	"github.com/influxdata/influxdb/v2/kv"
	"github.com/influxdata/influxdb/v2/kv/migration/all"
	"github.com/influxdata/influxdb/v2/task/taskmodel"
	"github.com/influxdata/influxdb/v2/tenant"
	"github.com/influxdata/influxdb/v2/tenant/index"
	"go.uber.org/zap"
	"pgregory.net/rapid"

	"verifharness/internal/ev"
)

const propName = "TestPropTenantHistories"

// keyOrgDeleteIndex is the known finding: Store.DeleteOrg removes the name-index entry under the
// raw name while every other path uses the whitespace-trimmed name.
const keyOrgDeleteIndex = "org-delete-untrimmed-index-key"

var rec = ev.For("C30", "exploration",
	"case = one history (about 45 steps) of create/rename/update/delete operations on organizations, buckets, users and memberships with names from 3-6 element pools, checked against a model after every step; "+
		"NON-TRIVIAL when the history contains (a) a successful rename onto a name that was used before and had become free, (b) a rename rejected because the name is taken, and (c) the deletion of an organization that owned at least one user bucket and at least one membership; distinct by the executed operation list. "+
		"Second family (TestPropTenantLargePopulations): case = populations with sizes drawn around and beyond the paging constants 20 and 100 (organizations, buckets per organization, users, members of one resource, memberships of one user) followed by 2-5 cascading or colliding operations, the same full comparison after each; NON-TRIVIAL when an organization owning more than 20 buckets is deleted")

// ---- model ----------------------------------------------------------------------------------

type orgM struct {
	id         platform.ID
	name, desc string
	live       bool
}

type bucketM struct {
	id, org    platform.ID
	name, desc string
	typ        influxdb.BucketType
	live       bool
}

type userM struct {
	id   platform.ID
	name string
	live bool
}

type urmKey struct{ res, user platform.ID }

type urmM struct {
	userType influxdb.UserType
	resType  influxdb.ResourceType
}

// orgKey is the identity of an organization name: the store indexes organizations by the
// whitespace-trimmed name (tenant.organizationIndexKey), so " a" and "a" are the same name.
func orgKey(n string) string { return strings.TrimSpace(n) }

type seqGen struct{ next uint64 }

func (g *seqGen) ID() platform.ID { g.next++; return platform.ID(g.next) }

// noTasks is the task service handed to the tenant service (DeleteOrganization requires one):
// there are never any tasks.
type noTasks struct{ taskmodel.TaskService }

func (noTasks) FindTasks(context.Context, taskmodel.TaskFilter) ([]*taskmodel.Task, int, error) {
	return nil, 0, nil
}

type sys struct {
	ctx context.Context
	kv  *inmem.KVStore
	svc *tenant.Service

	orgs    []*orgM
	buckets []*bucketM
	users   []*userM
	urms    map[urmKey]urmM

	everOrgKey  map[string]bool
	everBktName map[string]bool // org id + "/" + name
	everUser    map[string]bool

	hist []string
	test string // name of the running property (propName when empty)

	renameOntoFreed, renameCollision, orgCascade bool
	createOntoFreed, sysProtected                bool
}

var (
	orgNames    = []string{"oa", "ob", "oc", "oa", "ob", "oc", "oa", "ob", "oc", " oa", "ob "}
	bucketNames = []string{"b1", "b2", "b3", "b1", "b2", "b3", "b1", "b2", influxdb.TasksSystemBucketName, influxdb.MonitoringSystemBucketName, "_x"}
	userNames   = []string{"u1", "u2", "u3", "u4"}
	descs       = []string{"", "d1", "d2"}
)

func uniq(in []string) []string {
	seen := map[string]bool{}
	var out []string
	for _, s := range in {
		if !seen[s] {
			seen[s] = true
			out = append(out, s)
		}
	}
	return out
}

func newSys(t *rapid.T) *sys {
	ctx := context.Background()
	store := inmem.NewKVStore()
	if err := all.Up(ctx, zap.NewNop(), store); err != nil {
		t.Fatalf("migrations: %v", err)
	}
	st := tenant.NewStore(store)
	// deterministic, pairwise distinct ids for all entity kinds (near-equal ids on purpose)
	g := &seqGen{next: uint64(rapid.SampledFrom([]uint64{0x10, 0xff, 0x0fffffffffffff00, 0x7ffffffffffffff0}).Draw(t, "idbase"))}
	st.IDGen, st.OrgIDGen, st.BucketIDGen = g, g, g
	svc := tenant.NewService(st)
	svc.Apply(tenant.WithTaskService(noTasks{}))
	return &sys{ctx: ctx, kv: store, svc: svc, urms: map[urmKey]urmM{},
		everOrgKey: map[string]bool{}, everBktName: map[string]bool{}, everUser: map[string]bool{}}
}

func (s *sys) logf(format string, a ...any) { s.hist = append(s.hist, fmt.Sprintf(format, a...)) }

func (s *sys) fail(t *rapid.T, key, format string, a ...any) {
	detail := fmt.Sprintf(format, a...)
	test := s.test
	if test == "" {
		test = propName
	}
	rec.Fail(t, test, key, detail+" | history: "+strings.Join(s.hist, " ; "), map[string]any{"history": s.hist})
}

func code(err error) string {
	if err == nil {
		return "ok"
	}
	return ierrors.ErrorCode(err)
}

// expect checks an operation's outcome: with no applicable rejection reason it must succeed,
// otherwise it must fail with one of the applicable codes.
func (s *sys) expect(t *rapid.T, op string, err error, reasons ...string) bool {
	if len(reasons) == 0 {
		if err != nil {
			s.fail(t, op+"-rejected", "%s must succeed according to the model but failed: %v", op, err)
		}
		return true
	}
	if err == nil {
		s.fail(t, op+"-accepted", "%s must be rejected (%v) but succeeded", op, reasons)
	}
	c := code(err)
	for _, r := range reasons {
		if r == c || r == "any" {
			return false
		}
	}
	s.fail(t, op+"-wrong-error", "%s must be rejected with %v, got %q: %v", op, reasons, c, err)
	return false
}

func (s *sys) liveOrgByKey(k string) *orgM {
	for _, o := range s.orgs {
		if o.live && orgKey(o.name) == k {
			return o
		}
	}
	return nil
}

func (s *sys) orgByID(id platform.ID) *orgM {
	for _, o := range s.orgs {
		if o.id == id {
			return o
		}
	}
	return nil
}

func (s *sys) liveBucket(org platform.ID, name string) *bucketM {
	for _, b := range s.buckets {
		if b.live && b.org == org && b.name == name {
			return b
		}
	}
	return nil
}

func (s *sys) liveUser(name string) *userM {
	for _, u := range s.users {
		if u.live && u.name == name {
			return u
		}
	}
	return nil
}

func (s *sys) idUsed(id platform.ID) bool {
	for _, o := range s.orgs {
		if o.id == id {
			return true
		}
	}
	for _, b := range s.buckets {
		if b.id == id {
			return true
		}
	}
	for _, u := range s.users {
		if u.id == id {
			return true
		}
	}
	return false
}

func bktNameKey(org platform.ID, name string) string { return org.String() + "/" + name }

// pick draws an index into a list of n entities, preferring live ones.
func pick(t *rapid.T, label string, n int, live func(int) bool) int {
	var lv []int
	for i := 0; i < n; i++ {
		if live(i) {
			lv = append(lv, i)
		}
	}
	if len(lv) > 0 && uniform(t, label+"-live", 10) < 8 {
		return lv[uniform(t, label, len(lv))]
	}
	return uniform(t, label, n)
}

func validBucketName(name string, typ influxdb.BucketType) bool {
	return !(strings.HasPrefix(name, "_") && typ != influxdb.BucketTypeSystem) && !strings.Contains(name, "\"")
}

// ---- operations -----------------------------------------------------------------------------

func (s *sys) createOrg(t *rapid.T) {
	name := orgNames[uniform(t, "org-name", len(orgNames))]
	desc := rapid.SampledFrom(descs).Draw(t, "org-desc")
	ctx := s.ctx
	owner := -1
	if len(s.users) > 0 && rapid.IntRange(0, 2).Draw(t, "org-with-owner") == 0 {
		i := rapid.IntRange(0, len(s.users)-1).Draw(t, "org-owner")
		if s.users[i].live { // the creating user must exist (it comes from an authenticated request)
			owner = i
			ctx = icontext.SetAuthorizer(ctx, &influxdb.Authorization{ID: 1, UserID: s.users[i].id, Status: influxdb.Active})
		}
	}
	s.logf("createOrg(%q,%q,owner=%d)", name, desc, owner)
	o := &influxdb.Organization{Name: name, Description: desc}
	err := s.svc.CreateOrganization(ctx, o)
	if s.liveOrgByKey(orgKey(name)) != nil {
		s.expect(t, "create-org", err, ierrors.EConflict)
		rec.Class("org-create:name-taken")
		return
	}
	s.expect(t, "create-org", err)
	if !o.ID.Valid() || s.idUsed(o.ID) {
		s.fail(t, "create-org-id", "created organization got id %v which is invalid or already used", o.ID)
	}
	if s.everOrgKey[orgKey(name)] {
		s.createOntoFreed = true
		rec.Class("org-create:onto-freed-name")
	} else {
		rec.Class("org-create:fresh-name")
	}
	s.everOrgKey[orgKey(name)] = true
	s.orgs = append(s.orgs, &orgM{id: o.ID, name: name, desc: desc, live: true})
	// a new organization owns exactly its two system buckets
	bs, _, err := s.svc.FindBuckets(s.ctx, influxdb.BucketFilter{OrganizationID: &o.ID})
	if err != nil {
		s.fail(t, "create-org-system-buckets", "listing the buckets of the new organization: %v", err)
	}
	got := map[string]bool{}
	for _, b := range bs {
		if b.Type != influxdb.BucketTypeSystem || s.idUsed(b.ID) || got[b.Name] {
			s.fail(t, "create-org-system-buckets", "new organization owns unexpected bucket %+v", *b)
		}
		got[b.Name] = true
		s.buckets = append(s.buckets, &bucketM{id: b.ID, org: o.ID, name: b.Name, desc: b.Description, typ: b.Type, live: true})
		s.everBktName[bktNameKey(o.ID, b.Name)] = true
	}
	if len(got) != 2 || !got[influxdb.TasksSystemBucketName] || !got[influxdb.MonitoringSystemBucketName] {
		s.fail(t, "create-org-system-buckets", "new organization owns buckets %v, want the two system buckets", got)
	}
	if owner >= 0 {
		s.urms[urmKey{o.ID, s.users[owner].id}] = urmM{influxdb.Owner, influxdb.OrgsResourceType}
	}
}

func (s *sys) updateOrg(t *rapid.T) {
	if len(s.orgs) == 0 {
		s.createOrg(t)
		return
	}
	o := s.orgs[pick(t, "org", len(s.orgs), func(i int) bool { return s.orgs[i].live })]
	var upd influxdb.OrganizationUpdate
	mode := rapid.IntRange(0, 5).Draw(t, "org-upd-mode")
	if mode != 0 {
		n := orgNames[uniform(t, "org-newname", len(orgNames))]
		upd.Name = &n
	}
	if mode == 0 || mode == 1 {
		d := rapid.SampledFrom(descs).Draw(t, "org-newdesc")
		upd.Description = &d
	}
	s.logf("updateOrg(#%v live=%v,name=%s,desc=%s)", o.id, o.live, optStr(upd.Name), optStr(upd.Description))
	_, err := s.svc.UpdateOrganization(s.ctx, o.id, upd)
	if !o.live {
		s.expect(t, "update-org", err, ierrors.ENotFound)
		rec.Class("org-update:deleted-org")
		return
	}
	if upd.Name != nil && *upd.Name != o.name {
		other := s.liveOrgByKey(orgKey(*upd.Name))
		switch {
		case other == o:
			// renaming to a whitespace variant of the own name: the statement does not say whether
			// this is a collision; accept either outcome
			rec.Class("org-rename:whitespace-variant-of-own-name")
			if err != nil {
				if code(err) != ierrors.EConflict {
					s.fail(t, "update-org-wrong-error", "rename to variant of own name failed with %v", err)
				}
				return
			}
		case other != nil:
			s.expect(t, "rename-org", err, ierrors.EConflict)
			s.renameCollision = true
			rec.Class("org-rename:collision")
			return
		default:
			s.expect(t, "rename-org", err)
			if s.everOrgKey[orgKey(*upd.Name)] {
				s.renameOntoFreed = true
				rec.Class("org-rename:onto-freed-name")
			} else {
				rec.Class("org-rename:fresh-name")
			}
		}
		s.everOrgKey[orgKey(*upd.Name)] = true
		o.name = *upd.Name
	} else {
		s.expect(t, "update-org", err)
		rec.Class("org-update:no-rename")
	}
	if upd.Description != nil {
		o.desc = *upd.Description
	}
}

func (s *sys) deleteOrg(t *rapid.T) {
	if len(s.orgs) == 0 {
		s.createOrg(t)
		return
	}
	o := s.orgs[pick(t, "org", len(s.orgs), func(i int) bool { return s.orgs[i].live })]
	if o.live && o.name != orgKey(o.name) && ev.KnownOpen("C30", keyOrgDeleteIndex) {
		// exactly the signature of the open finding: deleting an organization whose stored name has
		// surrounding white space leaves its name-index entry behind
		rec.ExcludedKnown(keyOrgDeleteIndex)
		s.logf("deleteOrg(#%v) skipped: open finding", o.id)
		return
	}
	s.logf("deleteOrg(#%v live=%v)", o.id, o.live)
	err := s.svc.DeleteOrganization(s.ctx, o.id)
	if !o.live {
		s.expect(t, "delete-org", err, ierrors.ENotFound)
		rec.Class("org-delete:deleted-org")
		return
	}
	s.expect(t, "delete-org", err)
	userBuckets, memberships := s.applyOrgDelete(o)
	if userBuckets > 0 && memberships > 0 {
		s.orgCascade = true
		rec.Class("org-delete:with-user-buckets-and-memberships")
	} else {
		rec.Class("org-delete:bare")
	}
}

// applyOrgDelete is the model of a successful DeleteOrganization: the organization, ALL its buckets
// (however many there are) and every membership on the organization or one of its buckets are gone.
func (s *sys) applyOrgDelete(o *orgM) (userBuckets, memberships int) {
	o.live = false
	gone := map[platform.ID]bool{o.id: true}
	for _, b := range s.buckets {
		if b.live && b.org == o.id {
			b.live = false
			gone[b.id] = true
			if b.typ == influxdb.BucketTypeUser {
				userBuckets++
			}
		}
	}
	for k := range s.urms {
		if gone[k.res] {
			delete(s.urms, k)
			memberships++
		}
	}
	return userBuckets, memberships
}

func (s *sys) createBucket(t *rapid.T) {
	if len(s.orgs) == 0 {
		s.createOrg(t)
		return
	}
	o := s.orgs[pick(t, "org", len(s.orgs), func(i int) bool { return s.orgs[i].live })]
	name := bucketNames[uniform(t, "bucket-name", len(bucketNames))]
	desc := rapid.SampledFrom(descs).Draw(t, "bucket-desc")
	typ := influxdb.BucketTypeUser
	if rapid.IntRange(0, 9).Draw(t, "bucket-system-type") == 0 {
		typ = influxdb.BucketTypeSystem
	}
	s.logf("createBucket(org#%v live=%v,%q,%v,%q)", o.id, o.live, name, typ, desc)
	b := &influxdb.Bucket{OrgID: o.id, Name: name, Description: desc, Type: typ}
	err := s.svc.CreateBucket(s.ctx, b)
	var reasons []string
	if !validBucketName(name, typ) {
		reasons = append(reasons, ierrors.EInvalid)
	}
	if !o.live {
		reasons = append(reasons, ierrors.ENotFound)
	} else if s.liveBucket(o.id, name) != nil {
		reasons = append(reasons, ierrors.EConflict)
	}
	if !s.expect(t, "create-bucket", err, reasons...) {
		rec.Class("bucket-create:rejected-" + strings.Join(reasons, "+"))
		return
	}
	if !b.ID.Valid() || s.idUsed(b.ID) {
		s.fail(t, "create-bucket-id", "created bucket got id %v which is invalid or already used", b.ID)
	}
	k := bktNameKey(o.id, name)
	if s.everBktName[k] {
		s.createOntoFreed = true
		rec.Class("bucket-create:onto-freed-name")
	} else {
		rec.Class("bucket-create:fresh-name")
	}
	s.everBktName[k] = true
	s.buckets = append(s.buckets, &bucketM{id: b.ID, org: o.id, name: name, desc: desc, typ: typ, live: true})
}

// pickBucket prefers live user buckets (two thirds), else any live bucket, else any bucket.
func (s *sys) pickBucket(t *rapid.T) int {
	userOnly := uniform(t, "bucket-prefer-user", 3) < 2
	return pick(t, "bucket", len(s.buckets), func(i int) bool {
		return s.buckets[i].live && (!userOnly || s.buckets[i].typ == influxdb.BucketTypeUser)
	})
}

func optStr(p *string) string {
	if p == nil {
		return "-"
	}
	return fmt.Sprintf("%q", *p)
}

func (s *sys) updateBucket(t *rapid.T) {
	if len(s.buckets) == 0 {
		s.createOrg(t)
		return
	}
	b := s.buckets[s.pickBucket(t)]
	var upd influxdb.BucketUpdate
	mode := rapid.IntRange(0, 5).Draw(t, "bucket-upd-mode")
	if mode != 0 {
		n := bucketNames[uniform(t, "bucket-newname", len(bucketNames))]
		upd.Name = &n
	}
	if mode == 0 || mode == 1 {
		d := rapid.SampledFrom(descs).Draw(t, "bucket-newdesc")
		upd.Description = &d
	}
	s.logf("updateBucket(#%v live=%v %v %q,name=%s,desc=%s)", b.id, b.live, b.typ, b.name, optStr(upd.Name), optStr(upd.Description))
	_, err := s.svc.UpdateBucket(s.ctx, b.id, upd)
	if !b.live {
		s.expect(t, "update-bucket", err, ierrors.ENotFound)
		rec.Class("bucket-update:deleted-bucket")
		return
	}
	rename := upd.Name != nil && *upd.Name != b.name
	if rename {
		var reasons []string
		if b.typ == influxdb.BucketTypeSystem {
			reasons = append(reasons, ierrors.EInvalid)
			s.sysProtected = true
			rec.Class("bucket-rename:system-bucket")
		} else {
			if !validBucketName(*upd.Name, b.typ) {
				reasons = append(reasons, ierrors.EInvalid)
			}
			if s.liveBucket(b.org, *upd.Name) != nil {
				reasons = append(reasons, ierrors.EConflict)
				s.renameCollision = true
				rec.Class("bucket-rename:collision")
			}
		}
		if !s.expect(t, "rename-bucket", err, reasons...) {
			return
		}
		k := bktNameKey(b.org, *upd.Name)
		if s.everBktName[k] {
			s.renameOntoFreed = true
			rec.Class("bucket-rename:onto-freed-name")
		} else {
			rec.Class("bucket-rename:fresh-name")
		}
		s.everBktName[k] = true
		b.name = *upd.Name
	} else {
		s.expect(t, "update-bucket", err)
		rec.Class("bucket-update:no-rename")
	}
	if upd.Description != nil {
		b.desc = *upd.Description
	}
}

func (s *sys) deleteBucket(t *rapid.T) {
	if len(s.buckets) == 0 {
		s.createOrg(t)
		return
	}
	b := s.buckets[s.pickBucket(t)]
	s.logf("deleteBucket(#%v live=%v %v %q)", b.id, b.live, b.typ, b.name)
	err := s.svc.DeleteBucket(s.ctx, b.id)
	switch {
	case !b.live:
		s.expect(t, "delete-bucket", err, ierrors.ENotFound)
		rec.Class("bucket-delete:deleted-bucket")
	case b.typ == influxdb.BucketTypeSystem:
		s.expect(t, "delete-system-bucket", err, ierrors.EInvalid)
		s.sysProtected = true
		rec.Class("bucket-delete:system-bucket")
	default:
		s.expect(t, "delete-bucket", err)
		b.live = false
		for k := range s.urms {
			if k.res == b.id {
				delete(s.urms, k)
			}
		}
		rec.Class("bucket-delete:user-bucket")
	}
}

func (s *sys) createUser(t *rapid.T) {
	name := userNames[uniform(t, "user-name", len(userNames))]
	s.logf("createUser(%q)", name)
	u := &influxdb.User{Name: name, Status: influxdb.Active}
	err := s.svc.CreateUser(s.ctx, u)
	if s.liveUser(name) != nil {
		s.expect(t, "create-user", err, ierrors.EConflict)
		rec.Class("user-create:name-taken")
		return
	}
	s.expect(t, "create-user", err)
	if !u.ID.Valid() || s.idUsed(u.ID) {
		s.fail(t, "create-user-id", "created user got id %v which is invalid or already used", u.ID)
	}
	if s.everUser[name] {
		s.createOntoFreed = true
		rec.Class("user-create:onto-freed-name")
	} else {
		rec.Class("user-create:fresh-name")
	}
	s.everUser[name] = true
	s.users = append(s.users, &userM{id: u.ID, name: name, live: true})
}

func (s *sys) renameUser(t *rapid.T) {
	if len(s.users) == 0 {
		s.createUser(t)
		return
	}
	u := s.users[pick(t, "user", len(s.users), func(i int) bool { return s.users[i].live })]
	name := userNames[uniform(t, "user-newname", len(userNames))]
	s.logf("renameUser(#%v live=%v %q -> %q)", u.id, u.live, u.name, name)
	_, err := s.svc.UpdateUser(s.ctx, u.id, influxdb.UserUpdate{Name: &name})
	switch {
	case !u.live:
		s.expect(t, "rename-user", err, ierrors.ENotFound)
		rec.Class("user-rename:deleted-user")
	case name == u.name:
		s.expect(t, "rename-user", err)
		rec.Class("user-rename:same-name")
	case s.liveUser(name) != nil:
		s.expect(t, "rename-user", err, ierrors.EConflict)
		s.renameCollision = true
		rec.Class("user-rename:collision")
	default:
		s.expect(t, "rename-user", err)
		if s.everUser[name] {
			s.renameOntoFreed = true
			rec.Class("user-rename:onto-freed-name")
		} else {
			rec.Class("user-rename:fresh-name")
		}
		s.everUser[name] = true
		u.name = name
	}
}

func (s *sys) deleteUser(t *rapid.T) {
	if len(s.users) == 0 {
		s.createUser(t)
		return
	}
	u := s.users[pick(t, "user", len(s.users), func(i int) bool { return s.users[i].live })]
	s.logf("deleteUser(#%v live=%v)", u.id, u.live)
	err := s.svc.DeleteUser(s.ctx, u.id)
	if !u.live {
		s.expect(t, "delete-user", err, ierrors.ENotFound)
		rec.Class("user-delete:deleted-user")
		return
	}
	s.expect(t, "delete-user", err)
	u.live = false
	// storage_user.go DeleteUser: "Clean up user URMs."
	for k := range s.urms {
		if k.user == u.id {
			delete(s.urms, k)
		}
	}
	rec.Class("user-delete:live-user")
}

// resource picks a live organization or bucket as the target of a membership.
func (s *sys) resource(t *rapid.T) (platform.ID, influxdb.ResourceType, bool) {
	var ids []platform.ID
	var types []influxdb.ResourceType
	for _, o := range s.orgs {
		if o.live {
			ids = append(ids, o.id, o.id) // organizations twice as likely
			types = append(types, influxdb.OrgsResourceType, influxdb.OrgsResourceType)
		}
	}
	for _, b := range s.buckets {
		if b.live {
			ids = append(ids, b.id)
			types = append(types, influxdb.BucketsResourceType)
		}
	}
	if len(ids) == 0 {
		return 0, "", false
	}
	i := rapid.IntRange(0, len(ids)-1).Draw(t, "resource")
	return ids[i], types[i], true
}

func (s *sys) createURM(t *rapid.T) {
	res, rt, ok := s.resource(t)
	if !ok || len(s.users) == 0 {
		s.createUser(t)
		return
	}
	u := s.users[pick(t, "user", len(s.users), func(i int) bool { return s.users[i].live })]
	ut := rapid.SampledFrom([]influxdb.UserType{influxdb.Owner, influxdb.Member}).Draw(t, "user-type")
	s.logf("createURM(res#%v %s,user#%v live=%v,%s)", res, rt, u.id, u.live, ut)
	err := s.svc.CreateUserResourceMapping(s.ctx, &influxdb.UserResourceMapping{
		UserID: u.id, UserType: ut, MappingType: influxdb.UserMappingType, ResourceType: rt, ResourceID: res})
	_, exists := s.urms[urmKey{res, u.id}]
	switch {
	case !u.live:
		// storage_urm.go: "On URM creation, we check that the user exists."
		s.expect(t, "create-urm", err, ierrors.ENotFound)
		rec.Class("urm-create:deleted-user")
	case exists:
		s.expect(t, "create-urm", err, "any")
		rec.Class("urm-create:duplicate")
	default:
		s.expect(t, "create-urm", err)
		s.urms[urmKey{res, u.id}] = urmM{ut, rt}
		rec.Class("urm-create:new")
	}
}

func (s *sys) deleteURM(t *rapid.T) {
	keys := s.sortedURMs()
	var k urmKey
	if len(keys) > 0 && rapid.IntRange(0, 9).Draw(t, "urm-existing") < 8 {
		k = keys[rapid.IntRange(0, len(keys)-1).Draw(t, "urm")]
	} else {
		res, _, ok := s.resource(t)
		if !ok || len(s.users) == 0 {
			s.createUser(t)
			return
		}
		k = urmKey{res, s.users[rapid.IntRange(0, len(s.users)-1).Draw(t, "urm-user")].id}
	}
	s.logf("deleteURM(res#%v,user#%v)", k.res, k.user)
	err := s.svc.DeleteUserResourceMapping(s.ctx, k.res, k.user)
	if _, ok := s.urms[k]; !ok {
		s.expect(t, "delete-urm", err, ierrors.ENotFound)
		rec.Class("urm-delete:absent")
		return
	}
	s.expect(t, "delete-urm", err)
	delete(s.urms, k)
	rec.Class("urm-delete:existing")
}

func (s *sys) sortedURMs() []urmKey {
	keys := make([]urmKey, 0, len(s.urms))
	for k := range s.urms {
		keys = append(keys, k)
	}
	sort.Slice(keys, func(i, j int) bool {
		if keys[i].res != keys[j].res {
			return keys[i].res < keys[j].res
		}
		return keys[i].user < keys[j].user
	})
	return keys
}

// ---- the invariant: full comparison of the observable state with the model -------------------

func orgStr(id platform.ID, name, desc string) string { return fmt.Sprintf("%v|%q|%q", id, name, desc) }
func bktStr(id, org platform.ID, name, desc string, typ influxdb.BucketType) string {
	return fmt.Sprintf("%v|org=%v|%q|%v|%q", id, org, name, typ, desc)
}
func userStr(id platform.ID, name string) string { return fmt.Sprintf("%v|%q", id, name) }
func urmStr(res, user platform.ID, ut influxdb.UserType, rt influxdb.ResourceType) string {
	return fmt.Sprintf("res=%v|user=%v|%s|%s", res, user, ut, rt)
}

func (s *sys) sameSet(t *rapid.T, key, what string, got, want []string) {
	sort.Strings(got)
	sort.Strings(want)
	if len(got) != len(want) {
		s.fail(t, key, "%s: got %v, model has %v", what, got, want)
	}
	for i := range got {
		if got[i] != want[i] {
			s.fail(t, key, "%s: got %v, model has %v", what, got, want)
		}
	}
}

// The names probed by the by-name lookups: the whole pool plus every name the model has ever held
// (live or deleted), so that histories with names outside the pools are covered in the same way.
func (s *sys) orgNamesToProbe() []string {
	names := append([]string{}, orgNames...)
	for _, o := range s.orgs {
		names = append(names, o.name)
	}
	return uniq(names)
}

func (s *sys) bucketNamesToProbe(org platform.ID) []string {
	names := append([]string{}, bucketNames...)
	for _, b := range s.buckets {
		if b.org == org {
			names = append(names, b.name)
		}
	}
	return uniq(names)
}

func (s *sys) userNamesToProbe() []string {
	names := append([]string{}, userNames...)
	for _, u := range s.users {
		names = append(names, u.name)
	}
	return uniq(names)
}

func notFound(err error) bool { return err != nil && ierrors.ErrorCode(err) == ierrors.ENotFound }

func (s *sys) verify(t *rapid.T) {
	ctx := s.ctx

	// ---- organizations
	orgs, n, err := s.svc.FindOrganizations(ctx, influxdb.OrganizationFilter{})
	if err != nil || n != len(orgs) {
		s.fail(t, "list-orgs", "FindOrganizations: n=%d len=%d err=%v", n, len(orgs), err)
	}
	var got, want []string
	seenKey := map[string]bool{}
	for _, o := range orgs {
		got = append(got, orgStr(o.ID, o.Name, o.Description))
		if seenKey[orgKey(o.Name)] {
			s.fail(t, "org-name-not-unique", "two organizations are named %q", orgKey(o.Name))
		}
		seenKey[orgKey(o.Name)] = true
	}
	for _, o := range s.orgs {
		if o.live {
			want = append(want, orgStr(o.id, o.name, o.desc))
		}
	}
	s.sameSet(t, "list-orgs", "organization listing", got, want)
	for _, name := range s.orgNamesToProbe() {
		name := name
		o, err := s.svc.FindOrganization(ctx, influxdb.OrganizationFilter{Name: &name})
		m := s.liveOrgByKey(orgKey(name))
		switch {
		case m == nil && !notFound(err):
			s.fail(t, "org-name-lookup", "lookup of free organization name %q returned %+v, %v (want not found)", name, o, err)
		case m != nil && (err != nil || o.ID != m.id || o.Name != m.name || o.Description != m.desc):
			s.fail(t, "org-name-lookup", "lookup of organization name %q returned %+v, %v; model: %s", name, o, err, orgStr(m.id, m.name, m.desc))
		}
	}
	for _, m := range s.orgs {
		o, err := s.svc.FindOrganizationByID(ctx, m.id)
		switch {
		case !m.live && !notFound(err):
			s.fail(t, "org-id-lookup", "lookup of deleted organization %v returned %+v, %v", m.id, o, err)
		case m.live && (err != nil || o.ID != m.id || o.Name != m.name || o.Description != m.desc):
			s.fail(t, "org-id-lookup", "lookup of organization %v returned %+v, %v; model: %s", m.id, o, err, orgStr(m.id, m.name, m.desc))
		}
	}

	// ---- buckets
	bs, n, err := s.svc.FindBuckets(ctx, influxdb.BucketFilter{})
	if err != nil || n != len(bs) {
		s.fail(t, "list-buckets", "FindBuckets: n=%d len=%d err=%v", n, len(bs), err)
	}
	got, want = nil, nil
	seenKey = map[string]bool{}
	for _, b := range bs {
		got = append(got, bktStr(b.ID, b.OrgID, b.Name, b.Description, b.Type))
		if seenKey[bktNameKey(b.OrgID, b.Name)] {
			s.fail(t, "bucket-name-not-unique", "two buckets of organization %v are named %q", b.OrgID, b.Name)
		}
		seenKey[bktNameKey(b.OrgID, b.Name)] = true
	}
	for _, b := range s.buckets {
		if b.live {
			want = append(want, bktStr(b.id, b.org, b.name, b.desc, b.typ))
		}
	}
	s.sameSet(t, "list-buckets", "bucket listing", got, want)
	for _, o := range s.orgs {
		oid := o.id
		bs, _, err := s.svc.FindBuckets(ctx, influxdb.BucketFilter{OrganizationID: &oid})
		if err != nil && !(notFound(err) && !o.live) {
			s.fail(t, "list-org-buckets", "FindBuckets(org %v live=%v): %v", o.id, o.live, err)
		}
		got, want = nil, nil
		for _, b := range bs {
			got = append(got, bktStr(b.ID, b.OrgID, b.Name, b.Description, b.Type))
		}
		for _, b := range s.buckets {
			if b.live && b.org == o.id {
				want = append(want, bktStr(b.id, b.org, b.name, b.desc, b.typ))
			}
		}
		s.sameSet(t, "list-org-buckets", fmt.Sprintf("buckets of organization %v (live=%v)", o.id, o.live), got, want)
		for _, name := range s.bucketNamesToProbe(o.id) {
			name := name
			b, err := s.svc.FindBucket(ctx, influxdb.BucketFilter{OrganizationID: &oid, Name: &name})
			m := s.liveBucket(o.id, name)
			switch {
			case m == nil && !notFound(err):
				s.fail(t, "bucket-name-lookup", "lookup of free bucket name %q in organization %v returned %+v, %v (want not found)", name, o.id, b, err)
			case m != nil && (err != nil || bktStr(b.ID, b.OrgID, b.Name, b.Description, b.Type) != bktStr(m.id, m.org, m.name, m.desc, m.typ)):
				s.fail(t, "bucket-name-lookup", "lookup of bucket name %q in organization %v returned %+v, %v; model: %s", name, o.id, b, err, bktStr(m.id, m.org, m.name, m.desc, m.typ))
			}
		}
	}
	for _, m := range s.buckets {
		b, err := s.svc.FindBucketByID(ctx, m.id)
		switch {
		case !m.live && !notFound(err):
			s.fail(t, "bucket-id-lookup", "lookup of deleted bucket %v returned %+v, %v", m.id, b, err)
		case m.live && (err != nil || bktStr(b.ID, b.OrgID, b.Name, b.Description, b.Type) != bktStr(m.id, m.org, m.name, m.desc, m.typ)):
			s.fail(t, "bucket-id-lookup", "lookup of bucket %v returned %+v, %v; model: %s", m.id, b, err, bktStr(m.id, m.org, m.name, m.desc, m.typ))
		}
	}

	// ---- users
	us, n, err := s.svc.FindUsers(ctx, influxdb.UserFilter{})
	if err != nil || n != len(us) {
		s.fail(t, "list-users", "FindUsers: n=%d len=%d err=%v", n, len(us), err)
	}
	got, want = nil, nil
	seenKey = map[string]bool{}
	for _, u := range us {
		got = append(got, userStr(u.ID, u.Name))
		if seenKey[u.Name] {
			s.fail(t, "user-name-not-unique", "two users are named %q", u.Name)
		}
		seenKey[u.Name] = true
	}
	for _, u := range s.users {
		if u.live {
			want = append(want, userStr(u.id, u.name))
		}
	}
	s.sameSet(t, "list-users", "user listing", got, want)
	for _, name := range s.userNamesToProbe() {
		name := name
		u, err := s.svc.FindUser(ctx, influxdb.UserFilter{Name: &name})
		m := s.liveUser(name)
		switch {
		case m == nil && !notFound(err):
			s.fail(t, "user-name-lookup", "lookup of free user name %q returned %+v, %v (want not found)", name, u, err)
		case m != nil && (err != nil || u.ID != m.id || u.Name != m.name):
			s.fail(t, "user-name-lookup", "lookup of user name %q returned %+v, %v; model: %s", name, u, err, userStr(m.id, m.name))
		}
	}
	for _, m := range s.users {
		u, err := s.svc.FindUserByID(ctx, m.id)
		switch {
		case !m.live && !notFound(err):
			s.fail(t, "user-id-lookup", "lookup of deleted user %v returned %+v, %v", m.id, u, err)
		case m.live && (err != nil || u.ID != m.id || u.Name != m.name):
			s.fail(t, "user-id-lookup", "lookup of user %v returned %+v, %v; model: %s", m.id, u, err, userStr(m.id, m.name))
		}
	}

	// ---- memberships
	listURMs := func(f influxdb.UserResourceMappingFilter, what string, keep func(urmKey) bool) {
		ms, n, err := s.svc.FindUserResourceMappings(ctx, f)
		if err != nil || n != len(ms) {
			s.fail(t, "list-urms", "FindUserResourceMappings(%s): n=%d len=%d err=%v", what, n, len(ms), err)
		}
		var got, want []string
		for _, m := range ms {
			got = append(got, urmStr(m.ResourceID, m.UserID, m.UserType, m.ResourceType))
		}
		for k, v := range s.urms {
			if keep(k) {
				want = append(want, urmStr(k.res, k.user, v.userType, v.resType))
			}
		}
		s.sameSet(t, "list-urms", "memberships ("+what+")", got, want)
	}
	listURMs(influxdb.UserResourceMappingFilter{}, "all", func(urmKey) bool { return true })
	for _, o := range s.orgs {
		id := o.id
		listURMs(influxdb.UserResourceMappingFilter{ResourceID: id}, fmt.Sprintf("organization %v live=%v", id, o.live), func(k urmKey) bool { return k.res == id })
	}
	for _, b := range s.buckets {
		id := b.id
		listURMs(influxdb.UserResourceMappingFilter{ResourceID: id}, fmt.Sprintf("bucket %v live=%v", id, b.live), func(k urmKey) bool { return k.res == id })
	}
	for _, u := range s.users {
		id := u.id
		listURMs(influxdb.UserResourceMappingFilter{UserID: id}, fmt.Sprintf("user %v live=%v", id, u.live), func(k urmKey) bool { return k.user == id })
	}

	// ---- name indexes: exactly one entry per live entity, each pointing at a live record
	s.indexTargets(t, "organizationindexv1", func() []platform.ID {
		var ids []platform.ID
		for _, o := range s.orgs {
			if o.live {
				ids = append(ids, o.id)
			}
		}
		return ids
	}())
	s.indexTargets(t, "bucketindexv1", func() []platform.ID {
		var ids []platform.ID
		for _, b := range s.buckets {
			if b.live {
				ids = append(ids, b.id)
			}
		}
		return ids
	}())
	s.indexTargets(t, "userindexv1", func() []platform.ID {
		var ids []platform.ID
		for _, u := range s.users {
			if u.live {
				ids = append(ids, u.id)
			}
		}
		return ids
	}())
	diff, err := kv.NewIndex(index.URMByUserIndexMapping).Verify(ctx, s.kv)
	if err != nil || len(diff.MissingFromIndex) != 0 || len(diff.MissingFromSource) != 0 {
		s.fail(t, "urm-by-user-index", "kv.Index.Verify of the membership by-user index: missing from index %v, missing from source %v, err %v", diff.MissingFromIndex, diff.MissingFromSource, err)
	}
}

// indexTargets reads a name-index bucket (name -> encoded id) and compares the multiset of ids it
// points at with the live ids of the model: a surplus entry is a stale name, a missing one an
// entity that cannot be found by name. The key layout itself is checked through the by-name lookups.
func (s *sys) indexTargets(t *rapid.T, bucket string, live []platform.ID) {
	var got []string
	err := s.kv.View(s.ctx, func(tx kv.Tx) error {
		b, err := tx.Bucket([]byte(bucket))
		if err != nil {
			return err
		}
		cur, err := b.ForwardCursor(nil)
		if err != nil {
			return err
		}
		defer cur.Close()
		for k, v := cur.Next(); k != nil; k, v = cur.Next() {
			var id platform.ID
			if err := id.Decode(v); err != nil {
				return fmt.Errorf("entry %q: %w", k, err)
			}
			got = append(got, fmt.Sprintf("%v", id))
		}
		return cur.Err()
	})
	if err != nil {
		s.fail(t, "name-index-read", "reading %s: %v", bucket, err)
	}
	var want []string
	for _, id := range live {
		want = append(want, fmt.Sprintf("%v", id))
	}
	s.sameSet(t, "name-index-stale-or-missing", "ids referenced by the name index "+bucket, got, want)
}

// ---- the property ---------------------------------------------------------------------------

var ops = func() []string {
	w := []struct {
		name string
		n    int
	}{{"createOrg", 9}, {"updateOrg", 11}, {"deleteOrg", 5}, {"createBucket", 16}, {"updateBucket", 16}, {"deleteBucket", 8},
		{"createUser", 8}, {"renameUser", 8}, {"deleteUser", 3}, {"createURM", 12}, {"deleteURM", 4}}
	var out []string
	for _, x := range w {
		for i := 0; i < x.n; i++ {
			out = append(out, x.name)
		}
	}
	return out
}()

// uniform draws an index in [0,n) without rapid's bias towards small indices (SampledFrom and
// IntRange favour the first elements): a full-range draw is mixed (splitmix64) before reduction.
func uniform(t *rapid.T, label string, n int) int {
	x := rapid.Uint64().Draw(t, label) + 0x9e3779b97f4a7c15
	x = (x ^ (x >> 30)) * 0xbf58476d1ce4e5b9
	x = (x ^ (x >> 27)) * 0x94d049bb133111eb
	x ^= x >> 31
	return int(x % uint64(n))
}

func (s *sys) step(t *rapid.T) {
	switch ops[uniform(t, "op", len(ops))] {
	case "createOrg":
		s.createOrg(t)
	case "updateOrg":
		s.updateOrg(t)
	case "deleteOrg":
		s.deleteOrg(t)
	case "createBucket":
		s.createBucket(t)
	case "updateBucket":
		s.updateBucket(t)
	case "deleteBucket":
		s.deleteBucket(t)
	case "createUser":
		s.createUser(t)
	case "renameUser":
		s.renameUser(t)
	case "deleteUser":
		s.deleteUser(t)
	case "createURM":
		s.createURM(t)
	case "deleteURM":
		s.deleteURM(t)
	}
}

func TestPropTenantHistories(t *testing.T) {
	rec.Assume("organization names are compared after trimming surrounding white space (tenant.organizationIndexKey); renaming an organization to a white-space variant of its own name may succeed or be rejected")
	rec.Assume("single goroutine; in-memory KV store (inmem.KVStore is not transactional: a failing operation that had already written would not be rolled back, bolt would)")
	rec.Assume("ids come from one sequential generator shared by organizations, buckets and users (pairwise distinct, near-equal)")
	rec.CheckSteps(t, 1000, 14000, 45, func(t *rapid.T) {
		s := newSys(t)
		t.Repeat(map[string]func(*rapid.T){
			"op": s.step,
			"":   s.verify,
		})
		s.verify(t)
		rec.Eval()
		rec.ClassN("steps", len(s.hist))
		flag := func(b bool, name string) {
			if b {
				rec.Class("history:" + name)
			}
		}
		flag(s.renameOntoFreed, "rename-onto-freed-name")
		flag(s.renameCollision, "rename-collision")
		flag(s.orgCascade, "org-delete-cascade")
		flag(s.createOntoFreed, "create-onto-freed-name")
		flag(s.sysProtected, "system-bucket-delete-or-rename-attempt")
		if s.renameOntoFreed && s.renameCollision && s.orgCascade {
			rec.Class("history:NON-TRIVIAL")
			rec.NonTrivial(strings.Join(s.hist, ";"))
		}
		if rec.WantSample() && s.renameOntoFreed && s.renameCollision && s.orgCascade {
			rec.Sample(map[string]any{"history": s.hist})
		}
	})
}
