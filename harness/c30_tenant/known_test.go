package c30_tenant

import (
	"context"
	"fmt"
	"testing"

	"github.com/influxdata/influxdb/v2"
	"github.com/influxdata/influxdb/v2/inmem"
	ierrors "github.com/influxdata/influxdb/v2/kit/platform/errors"
	"github.com/influxdata/influxdb/v2/kv/migration/all"
	"github.com/influxdata/influxdb/v2/tenant"
	"go.uber.org/zap"
)

// TestKnown_org_delete_untrimmed_index_key: an organization is indexed under its white-space-trimmed
// name (organizationIndexKey) on create, rename and lookup, but Store.DeleteOrg removes the index
// entry under the raw name. Deleting an organization named " oa" therefore leaves the entry "oa"
// behind: no organization exists any more, yet the name lookup still resolves the name to the
// deleted record and the name can never be used again (create and rename are rejected as conflicts).
func TestKnown_org_delete_untrimmed_index_key(t *testing.T) {
	ctx := context.Background()
	store := inmem.NewKVStore()
	if err := all.Up(ctx, zap.NewNop(), store); err != nil {
		t.Fatal(err)
	}
	svc := tenant.NewService(tenant.NewStore(store))
	svc.Apply(tenant.WithTaskService(noTasks{}))

	o := &influxdb.Organization{Name: " oa"}
	if err := svc.CreateOrganization(ctx, o); err != nil {
		t.Fatalf("create: %v", err)
	}
	if err := svc.DeleteOrganization(ctx, o.ID); err != nil {
		t.Fatalf("delete: %v", err)
	}
	orgs, _, err := svc.FindOrganizations(ctx, influxdb.OrganizationFilter{})
	if err != nil || len(orgs) != 0 {
		t.Fatalf("after the delete the listing must be empty: %v %v", orgs, err)
	}
	again := &influxdb.Organization{Name: "oa"}
	err = svc.CreateOrganization(ctx, again)
	rec.Eval()
	reproduced := err != nil && ierrors.ErrorCode(err) == ierrors.EConflict
	rec.Known(t, "TestKnown_org_delete_untrimmed_index_key", keyOrgDeleteIndex, reproduced,
		fmt.Sprintf("create org %q, delete it, create org %q: rejected with %v although no organization exists (stale name-index entry: DeleteOrg deletes the index key []byte(u.Name) instead of organizationIndexKey(u.Name))", " oa", "oa", err),
		map[string]any{"ops": []string{`CreateOrganization(" oa")`, "DeleteOrganization(id)", `CreateOrganization("oa")`}})
}
