package c30_tenant

import (
	"runtime/debug"
	"testing"

	"verifharness/internal/ev"
)

func TestMain(m *testing.M) {
	// the per-step full-state comparison allocates many short-lived records; collect less often
	debug.SetGCPercent(800)
	ev.Main(m)
}
