package c21_reads

import (
	"testing"

	"verifharness/internal/ev"
)

func TestMain(m *testing.M) { ev.Main(m) }
