package c21_reads

import (
	"fmt"
	"testing"

	"verifharness/internal/gen"
	"verifharness/internal/model"
)

// staleFilterKey: the per-type multi-shard array cursor (storage/reads/array_cursor.gen.go,
// <type>MultiShardArrayCursor.reset) keeps the value-filter cursor of an earlier series when the
// next series has no value condition of its own (cond == nil leaves c.filter set); the first
// shard's cursor of that series is read unfiltered, but nextArrayCursor wraps every later
// shard's cursor in the stale filter, so points of later shards that do not satisfy the OTHER
// series' value condition are dropped.
const staleFilterKey = "multishard-cursor-stale-value-filter"

// staleFilterDataset: two shard groups; m0,host=b gets a value condition of its own under the
// predicate below, m1,host=a does not (host = 'a' already decides it) and has points in both.
func staleFilterDataset() (*dataset, *request) {
	fl := func(v float64) map[string]model.Val { return map[string]model.Val{"ff": {K: model.Float, F: v}} }
	d := &dataset{T0: 0, NShards: 2, Series: []string{"m0,host=b", "m1,host=a"}, Fields: []string{"ff"}}
	d.Ops = []op{{Kind: "write", Points: []gen.WPoint{
		{Series: "m0,host=b", T: 10, Fields: fl(1)},
		{Series: "m0,host=b", T: hour + 10, Fields: fl(200)},
		{Series: "m1,host=a", T: 20, Fields: fl(2)},
		{Series: "m1,host=a", T: hour + 20, Fields: fl(3)},
		{Series: "m1,host=a", T: hour + 30, Fields: fl(300)},
	}}}
	pred := &pnode{Kind: "or", Kids: []*pnode{
		{Kind: "cmp", Ref: "host", Op: "=", Lit: &lit{K: "s", S: "a"}},
		{Kind: "cmp", Ref: "$", Op: ">", Lit: &lit{K: "f", F: 100}},
	}}
	return d, &request{Kind: "filter", Start: 0, End: 2 * hour, RangeKind: "aligned", Pred: pred}
}

func TestKnown_multishard_cursor_stale_value_filter(t *testing.T) {
	d, r := staleFilterDataset()
	b, err := buildDataset(d)
	if err != nil {
		t.Fatalf("building dataset: %v", err)
	}
	defer b.close()
	rows, err := b.s.ReadFilter(r.Start, r.End, r.Pred.predicate())
	if err != nil {
		t.Fatalf("ReadFilter: %v", err)
	}
	exp := b.expectations(r)
	reproduced := false
	var detail string
	for _, row := range rows {
		sk, f := row.Key()
		e := exp[sfKey{sk, f}]
		if e == nil {
			t.Fatalf("unexpected series %s#%s", sk, f)
		}
		if !model.EqualPoints(row.Points, e.pts) {
			if sk == "m1,host=a" && subsetInOrder(row.Points, e.pts) {
				reproduced = true
				detail = fmt.Sprintf("ReadFilter [0,2h) with predicate %s over two shards: series m1,host=a#ff (host = 'a' holds, so every point matches) returned %s, stored %s: the point of the second shard with value <= 100 is filtered by the value condition left over from series m0,host=b", r.Pred, model.Render(row.Points), model.Render(e.pts))
			} else {
				t.Fatalf("different failure: series %s#%s got %s want %s", sk, f, model.Render(row.Points), model.Render(e.pts))
			}
		}
	}
	rec.Known(t, "TestKnown_multishard_cursor_stale_value_filter", staleFilterKey, reproduced, detail, caseJSON{Dataset: d, Request: r})
}
