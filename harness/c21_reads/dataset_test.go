package c21_reads

import (
	"fmt"
	"os"
	"sort"
	"strings"
	"time"

	"github.com/influxdata/influxdb/v2/models"
	"pgregory.net/rapid"

	"verifharness/internal/fix"
	"verifharness/internal/gen"
	"verifharness/internal/model"
	"verifharness/internal/scratch"
)

const hour = int64(time.Hour)

// t0Pool holds the hour-aligned origins of the generated shard-group windows.
var t0Pool = []int64{0, 1_699_999_200 * int64(time.Second), 3600 * int64(time.Second)}

var (
	measurements = []string{"m0", "m1"}
	hostVals     = []string{"", "a", "ab", "b"} // "" = series lacks the tag; "a"/"ab" share a prefix
	regionVals   = []string{"", "x", "y"}
)

// seriesDomain lists all candidate series keys (canonical form, tags sorted).
func seriesDomain() []string {
	var out []string
	for _, m := range measurements {
		for _, h := range hostVals {
			for _, r := range regionVals {
				tags := map[string]string{}
				if h != "" {
					tags["host"] = h
				}
				if r != "" {
					tags["region"] = r
				}
				out = append(out, string(models.MakeKey([]byte(m), models.NewTags(tags))))
			}
		}
	}
	return out
}

// op is one step of the dataset construction.
type op struct {
	Kind   string       `json:"kind"` // "write" | "snap" | "wide" (writes the series of dataset.Wide, see wide_test.go)
	Points []gen.WPoint `json:"points,omitempty"`
	Hour   int          `json:"hour,omitempty"` // snap: index of the shard-group window
}

// dataset is a generated multi-shard bucket content.
type dataset struct {
	T0      int64    `json:"t0"`
	NShards int      `json:"nshards"`
	Series  []string `json:"series"`
	Fields  []string `json:"fields"`
	Ops     []op     `json:"ops"`
	// Wide, when set, describes several hundred additional series (compact, expanded by
	// wideSpec.points); they are written by the op of kind "wide".
	Wide *wideSpec `json:"wide,omitempty"`
}

func (d *dataset) render() string {
	var sb strings.Builder
	fmt.Fprintf(&sb, "t0=%d n=%d;", d.T0, d.NShards)
	for _, o := range d.Ops {
		if o.Kind == "snap" {
			fmt.Fprintf(&sb, "snap%d;", o.Hour)
			continue
		}
		if o.Kind == "wide" {
			sb.WriteString(d.Wide.render() + ";")
			continue
		}
		sb.WriteString("w")
		for _, p := range o.Points {
			fmt.Fprintf(&sb, "[%s@%d", p.Series, p.T-d.T0)
			names := make([]string, 0, len(p.Fields))
			for n := range p.Fields {
				names = append(names, n)
			}
			sort.Strings(names)
			for _, n := range names {
				fmt.Fprintf(&sb, " %s=%s", n, p.Fields[n])
			}
			sb.WriteString("]")
		}
		sb.WriteString(";")
	}
	return sb.String()
}

// genTs draws a timestamp inside window h: window edges (first/last nanosecond), or a minute grid.
func genTs(t *rapid.T, label string, t0 int64, h int) int64 {
	base := t0 + int64(h)*hour
	switch rapid.IntRange(0, 7).Draw(t, label+"k") {
	case 0:
		return base
	case 1:
		return base + hour - 1
	case 2:
		return base + 1
	default:
		return base + int64(rapid.IntRange(0, 59).Draw(t, label+"m"))*int64(time.Minute)
	}
}

func genDataset(t *rapid.T) *dataset {
	d := &dataset{}
	d.T0 = rapid.SampledFrom(t0Pool).Draw(t, "t0")
	d.NShards = rapid.IntRange(2, 5).Draw(t, "nshards")
	dom := seriesDomain()
	idx := rapid.SliceOfNDistinct(rapid.IntRange(0, len(dom)-1), 3, 8, rapid.ID[int]).Draw(t, "series")
	sort.Ints(idx)
	for _, i := range idx {
		d.Series = append(d.Series, dom[i])
	}
	fidx := rapid.SliceOfNDistinct(rapid.IntRange(0, len(gen.Fields)-1), 2, 3, rapid.ID[int]).Draw(t, "fields")
	sort.Ints(fidx)
	for _, i := range fidx {
		d.Fields = append(d.Fields, gen.Fields[i].Name)
	}
	seq := 0
	nb := rapid.IntRange(1, 4).Draw(t, "batches")
	for b := 0; b < nb; b++ {
		n := rapid.IntRange(4, 30).Draw(t, fmt.Sprintf("b%dn", b))
		var pts []gen.WPoint
		for i := 0; i < n; i++ {
			lbl := fmt.Sprintf("b%dp%d", b, i)
			p := gen.WPoint{Series: rapid.SampledFrom(d.Series).Draw(t, lbl+"s"), Fields: map[string]model.Val{}}
			h := rapid.IntRange(0, d.NShards-1).Draw(t, lbl+"h")
			p.T = genTs(t, lbl+"t", d.T0, h)
			nf := rapid.IntRange(1, 2).Draw(t, lbl+"nf")
			for j := 0; j < nf; j++ {
				fn := rapid.SampledFrom(d.Fields).Draw(t, fmt.Sprintf("%sf%d", lbl, j))
				seq++
				p.Fields[fn] = gen.Value(t, fmt.Sprintf("%sv%d", lbl, j), gen.FieldKind(fn), seq)
			}
			pts = append(pts, p)
		}
		d.Ops = append(d.Ops, op{Kind: "write", Points: pts})
		// snapshot some windows to TSM; the rest stays in the cache/WAL (at most 4 snapshots per shard)
		for h := 0; h < d.NShards; h++ {
			if rapid.IntRange(0, 2).Draw(t, fmt.Sprintf("b%dsnap%d", b, h)) == 0 {
				d.Ops = append(d.Ops, op{Kind: "snap", Hour: h})
			}
		}
	}
	return d
}

// built is a dataset materialised in a real storage stack plus its point model.
type built struct {
	d *dataset
	s *fix.Stack
	m *model.Store
	// per (series, field): set of window indexes holding >=1 point
	dir string
}

func (b *built) close() {
	if b.s != nil {
		b.s.Close()
	}
	os.RemoveAll(b.dir)
}

// shardForHour maps a window index to the shard id of its shard group (0 = not created).
func (b *built) shardForHour(h int) uint64 {
	start := time.Unix(0, b.d.T0+int64(h)*hour)
	di := b.s.Meta.Database(b.s.DB())
	if di == nil {
		return 0
	}
	for _, rp := range di.RetentionPolicies {
		for _, sg := range rp.ShardGroups {
			if sg.Deleted() {
				continue
			}
			if sg.StartTime.Equal(start) && len(sg.Shards) > 0 {
				return sg.Shards[0].ID
			}
		}
	}
	return 0
}

func buildDataset(d *dataset) (*built, error) {
	dir, err := scratch.Dir("c21-")
	if err != nil {
		return nil, err
	}
	b := &built{d: d, m: model.NewStore(), dir: dir}
	s, err := fix.NewStack(dir, time.Hour)
	if err != nil {
		b.close()
		return nil, fmt.Errorf("new stack: %w", err)
	}
	b.s = s
	for i, o := range d.Ops {
		if o.Kind == "wide" {
			o = op{Kind: "write", Points: d.Wide.points(d)}
		}
		switch o.Kind {
		case "write":
			var pts []models.Point
			for _, wp := range o.Points {
				p, err := wp.ToModelsPoint()
				if err != nil {
					b.close()
					return nil, fmt.Errorf("op %d: point: %w", i, err)
				}
				pts = append(pts, p)
			}
			if err := s.Write(pts); err != nil {
				b.close()
				return nil, fmt.Errorf("op %d: write: %w", i, err)
			}
			for _, wp := range o.Points {
				names := make([]string, 0, len(wp.Fields))
				for n := range wp.Fields {
					names = append(names, n)
				}
				sort.Strings(names)
				for _, n := range names {
					b.m.Write(wp.Series, n, wp.T, wp.Fields[n])
				}
			}
		case "snap":
			if id := b.shardForHour(o.Hour); id != 0 {
				if err := s.SnapshotShard(id); err != nil {
					b.close()
					return nil, fmt.Errorf("op %d: snapshot shard %d: %w", i, id, err)
				}
			}
		}
	}
	return b, nil
}

// sfKey identifies one result series: series key + field.
type sfKey struct{ Series, Field string }

func (k sfKey) String() string { return k.Series + "#" + k.Field }

// allSeriesFields lists every (series, field-of-its-measurement) combination, sorted: the read
// service enumerates a series once per field of its measurement, also for fields the series
// itself never received (those have no points).
func (b *built) allSeriesFields() []sfKey {
	mf := map[string]map[string]bool{}
	for _, sk := range b.m.SeriesKeys() {
		name, _ := tagsOf(sk)
		if mf[name] == nil {
			mf[name] = map[string]bool{}
		}
		for _, f := range b.m.Fields(sk) {
			mf[name][f] = true
		}
	}
	var out []sfKey
	for _, sk := range b.m.SeriesKeys() {
		name, _ := tagsOf(sk)
		fs := make([]string, 0, len(mf[name]))
		for f := range mf[name] {
			fs = append(fs, f)
		}
		sort.Strings(fs)
		for _, f := range fs {
			out = append(out, sfKey{sk, f})
		}
	}
	return out
}

// tagsOf parses a series key into measurement + tag map.
func tagsOf(series string) (string, map[string]string) {
	name, tags := models.ParseKeyBytes([]byte(series))
	m := map[string]string{}
	for _, t := range tags {
		m[string(t.Key)] = string(t.Value)
	}
	return string(name), m
}

// windowsOf returns the number of distinct shard-group windows in which the points lie.
func (b *built) windowsOf(pts []model.Point) int {
	seen := map[int64]bool{}
	for _, p := range pts {
		seen[(p.T-b.d.T0)/hour] = true
	}
	return len(seen)
}
