package c21_reads

import (
	"fmt"
	"regexp"
	"strings"

	"github.com/influxdata/influxdb/v2/storage/reads/datatypes"
	"pgregory.net/rapid"

	"verifharness/internal/model"
)

// lit is a predicate literal.
type lit struct {
	K string  `json:"k"` // "s" string, "re" regex, "i" integer, "f" float, "b" bool
	S string  `json:"s,omitempty"`
	I int64   `json:"i,omitempty"`
	F float64 `json:"f,omitempty"`
	B bool    `json:"b,omitempty"`
}

// pnode is a node of the generated predicate tree.
type pnode struct {
	Kind string   `json:"kind"` // "and" | "or" | "paren" | "cmp"
	Kids []*pnode `json:"kids,omitempty"`
	Ref  string   `json:"ref,omitempty"` // tag key, "_measurement", "_field", "\x00", "\xff", or "$" (field value)
	Op   string   `json:"op,omitempty"`  // = != =~ !~ < <= > >=
	Lit  *lit     `json:"lit,omitempty"`
}

func (n *pnode) String() string {
	if n == nil {
		return "<none>"
	}
	switch n.Kind {
	case "and", "or":
		parts := make([]string, len(n.Kids))
		for i, k := range n.Kids {
			parts[i] = k.String()
		}
		return strings.Join(parts, " "+strings.ToUpper(n.Kind)+" ")
	case "paren":
		return "(" + n.Kids[0].String() + ")"
	}
	var l string
	switch n.Lit.K {
	case "s":
		l = fmt.Sprintf("%q", n.Lit.S)
	case "re":
		l = "/" + n.Lit.S + "/"
	case "i":
		l = fmt.Sprintf("%di", n.Lit.I)
	case "f":
		l = fmt.Sprintf("%v", n.Lit.F)
	default:
		l = fmt.Sprintf("%v", n.Lit.B)
	}
	return fmt.Sprintf("%q %s %s", n.Ref, n.Op, l)
}

func (n *pnode) hasValueRef() bool {
	if n == nil {
		return false
	}
	if n.Kind == "cmp" {
		return n.Ref == "$"
	}
	for _, k := range n.Kids {
		if k.hasValueRef() {
			return true
		}
	}
	return false
}

func (n *pnode) hasOr() bool {
	if n == nil {
		return false
	}
	if n.Kind == "or" {
		return true
	}
	for _, k := range n.Kids {
		if k.hasOr() {
			return true
		}
	}
	return false
}

var cmpOps = map[string]datatypes.Node_Comparison{
	"=": datatypes.Node_ComparisonEqual, "!=": datatypes.Node_ComparisonNotEqual,
	"=~": datatypes.Node_ComparisonRegex, "!~": datatypes.Node_ComparisonNotRegex,
	"<": datatypes.Node_ComparisonLess, "<=": datatypes.Node_ComparisonLessEqual,
	">": datatypes.Node_ComparisonGreater, ">=": datatypes.Node_ComparisonGreaterEqual,
}

// toProto renders the tree as the protobuf predicate the read service accepts.
func (n *pnode) toProto() *datatypes.Node {
	switch n.Kind {
	case "and", "or":
		lg := datatypes.Node_LogicalAnd
		if n.Kind == "or" {
			lg = datatypes.Node_LogicalOr
		}
		out := &datatypes.Node{NodeType: datatypes.Node_TypeLogicalExpression, Value: &datatypes.Node_Logical_{Logical: lg}}
		for _, k := range n.Kids {
			out.Children = append(out.Children, k.toProto())
		}
		return out
	case "paren":
		return &datatypes.Node{NodeType: datatypes.Node_TypeParenExpression, Children: []*datatypes.Node{n.Kids[0].toProto()}}
	}
	var ref *datatypes.Node
	if n.Ref == "$" {
		ref = &datatypes.Node{NodeType: datatypes.Node_TypeFieldRef, Value: &datatypes.Node_FieldRefValue{FieldRefValue: "_value"}}
	} else {
		ref = &datatypes.Node{NodeType: datatypes.Node_TypeTagRef, Value: &datatypes.Node_TagRefValue{TagRefValue: n.Ref}}
	}
	l := &datatypes.Node{NodeType: datatypes.Node_TypeLiteral}
	switch n.Lit.K {
	case "s":
		l.Value = &datatypes.Node_StringValue{StringValue: n.Lit.S}
	case "re":
		l.Value = &datatypes.Node_RegexValue{RegexValue: n.Lit.S}
	case "i":
		l.Value = &datatypes.Node_IntegerValue{IntegerValue: n.Lit.I}
	case "f":
		l.Value = &datatypes.Node_FloatValue{FloatValue: n.Lit.F}
	default:
		l.Value = &datatypes.Node_BooleanValue{BooleanValue: n.Lit.B}
	}
	return &datatypes.Node{NodeType: datatypes.Node_TypeComparisonExpression,
		Value: &datatypes.Node_Comparison_{Comparison: cmpOps[n.Op]}, Children: []*datatypes.Node{ref, l}}
}

func (n *pnode) predicate() *datatypes.Predicate {
	if n == nil {
		return nil
	}
	return &datatypes.Predicate{Root: n.toProto()}
}

// ---------------------------------------------------------------------------------------------
// evaluation (Kleene three-valued: comparisons the contract does not define are Unknown)

type tri int

const (
	triFalse tri = iota
	triTrue
	triUnknown
)

func triOf(b bool) tri {
	if b {
		return triTrue
	}
	return triFalse
}

// row is what a predicate is evaluated against: the series identity and, for value
// comparisons, one point value (hasVal=false: series-level evaluation, value leaves Unknown).
type row struct {
	name   string
	tags   map[string]string
	field  string
	val    model.Val
	hasVal bool
}

func cmpOrdered[T int64 | float64](a, b T, op string) bool {
	switch op {
	case "=":
		return a == b
	case "!=":
		return a != b
	case "<":
		return a < b
	case "<=":
		return a <= b
	case ">":
		return a > b
	default:
		return a >= b
	}
}

func (n *pnode) eval(r row) tri {
	switch n.Kind {
	case "and":
		res := triTrue
		for _, k := range n.Kids {
			switch k.eval(r) {
			case triFalse:
				return triFalse
			case triUnknown:
				res = triUnknown
			}
		}
		return res
	case "or":
		res := triFalse
		for _, k := range n.Kids {
			switch k.eval(r) {
			case triTrue:
				return triTrue
			case triUnknown:
				res = triUnknown
			}
		}
		return res
	case "paren":
		return n.Kids[0].eval(r)
	}
	if n.Ref != "$" {
		// tag / _measurement / _field comparison; a tag the series lacks compares as ""
		var v string
		switch n.Ref {
		case "_measurement", "\x00":
			v = r.name
		case "_field", "\xff":
			v = r.field
		default:
			v = r.tags[n.Ref]
		}
		switch n.Op {
		case "=":
			return triOf(v == n.Lit.S)
		case "!=":
			return triOf(v != n.Lit.S)
		case "=~":
			return triOf(regexp.MustCompile(n.Lit.S).MatchString(v))
		case "!~":
			return triOf(!regexp.MustCompile(n.Lit.S).MatchString(v))
		}
		return triUnknown
	}
	if !r.hasVal {
		return triUnknown
	}
	switch r.val.K {
	case model.Float:
		switch n.Lit.K {
		case "f":
			return triOf(cmpOrdered(r.val.F, n.Lit.F, n.Op))
		case "i":
			return triOf(cmpOrdered(r.val.F, float64(n.Lit.I), n.Op))
		}
	case model.Integer:
		switch n.Lit.K {
		case "i":
			return triOf(cmpOrdered(r.val.I, n.Lit.I, n.Op))
		case "f":
			// only unambiguous when the conversion is exact or far from the literal
			f := float64(r.val.I)
			if f > 1e15 || f < -1e15 || int64(f) == r.val.I {
				return triOf(cmpOrdered(f, n.Lit.F, n.Op))
			}
		}
	case model.String:
		if n.Lit.K == "s" {
			switch n.Op {
			case "=":
				return triOf(r.val.S == n.Lit.S)
			case "!=":
				return triOf(r.val.S != n.Lit.S)
			}
		}
		if n.Lit.K == "re" {
			switch n.Op {
			case "=~":
				return triOf(regexp.MustCompile(n.Lit.S).MatchString(r.val.S))
			case "!~":
				return triOf(!regexp.MustCompile(n.Lit.S).MatchString(r.val.S))
			}
		}
	case model.Boolean:
		if n.Lit.K == "b" {
			switch n.Op {
			case "=":
				return triOf(r.val.B == n.Lit.B)
			case "!=":
				return triOf(r.val.B != n.Lit.B)
			}
		}
	}
	// unsigned fields and cross-type comparisons: not defined by the contract
	return triUnknown
}

// ---------------------------------------------------------------------------------------------
// generation

var tagRegexes = []string{"^a", "a|x", "^$", ".*", "b$", "^(ab|y)$", "^a$"}

func genTagLeaf(t *rapid.T, label string, d *dataset) *pnode {
	n := &pnode{Kind: "cmp", Lit: &lit{K: "s"}}
	if d.Wide != nil && rapid.IntRange(0, 3).Draw(t, label+"wide?") == 0 {
		return genWideTagLeaf(t, label, n)
	}
	switch rapid.IntRange(0, 9).Draw(t, label+"ref") {
	case 0, 1, 2:
		n.Ref = "host"
	case 3, 4:
		n.Ref = "region"
	case 5:
		n.Ref = "_measurement"
	case 6:
		n.Ref = "\x00"
	case 7:
		n.Ref = "_field"
	case 8:
		n.Ref = "\xff"
	default:
		n.Ref = "zz" // a tag key no series has
	}
	n.Op = rapid.SampledFrom([]string{"=", "=", "!=", "=~", "!~"}).Draw(t, label+"op")
	regex := n.Op == "=~" || n.Op == "!~"
	if regex {
		n.Lit.K = "re"
	}
	switch n.Ref {
	case "host":
		if regex {
			n.Lit.S = rapid.SampledFrom(tagRegexes).Draw(t, label+"re")
		} else {
			n.Lit.S = rapid.SampledFrom([]string{"a", "ab", "b", "", "c"}).Draw(t, label+"v")
		}
	case "region":
		if regex {
			n.Lit.S = rapid.SampledFrom(tagRegexes).Draw(t, label+"re")
		} else {
			n.Lit.S = rapid.SampledFrom([]string{"x", "y", "", "z"}).Draw(t, label+"v")
		}
	case "_measurement", "\x00":
		if regex {
			n.Lit.S = rapid.SampledFrom([]string{"^m", "0$", "m1", "^x"}).Draw(t, label+"re")
		} else {
			n.Lit.S = rapid.SampledFrom([]string{"m0", "m1", "m2"}).Draw(t, label+"v")
		}
	case "_field", "\xff":
		if regex {
			n.Lit.S = rapid.SampledFrom([]string{"^f[fi]$", "s$", "^f", "u|b"}).Draw(t, label+"re")
		} else {
			n.Lit.S = rapid.SampledFrom(append([]string{"nope"}, d.Fields...)).Draw(t, label+"v")
		}
	default:
		if regex {
			n.Lit.S = rapid.SampledFrom([]string{"^$", "q", ".*"}).Draw(t, label+"re")
		} else {
			n.Lit.S = rapid.SampledFrom([]string{"q", ""}).Draw(t, label+"v")
		}
	}
	return n
}

func genValueLeaf(t *rapid.T, label string) *pnode {
	n := &pnode{Kind: "cmp", Ref: "$", Lit: &lit{}}
	switch rapid.IntRange(0, 7).Draw(t, label+"lk") {
	case 0, 1, 2:
		n.Lit.K = "i"
		n.Lit.I = int64(rapid.IntRange(-1, 70).Draw(t, label+"i"))
		n.Op = rapid.SampledFrom([]string{"=", "!=", "<", "<=", ">", ">="}).Draw(t, label+"op")
	case 3, 4, 5:
		n.Lit.K = "f"
		n.Lit.F = float64(rapid.IntRange(-2, 140).Draw(t, label+"f")) * 0.5
		if rapid.IntRange(0, 3).Draw(t, label+"q") == 0 {
			n.Lit.F += 0.25 // equals a generated float value seq+0.25
		}
		n.Op = rapid.SampledFrom([]string{"=", "!=", "<", "<=", ">", ">="}).Draw(t, label+"op")
	case 6:
		n.Lit.K = "s"
		n.Lit.S = rapid.SampledFrom([]string{"", "a", "v3", "v7", "hello world"}).Draw(t, label+"s")
		n.Op = rapid.SampledFrom([]string{"=", "!="}).Draw(t, label+"op")
	default:
		n.Lit.K = "b"
		n.Lit.B = rapid.Bool().Draw(t, label+"b")
		n.Op = rapid.SampledFrom([]string{"=", "!="}).Draw(t, label+"op")
	}
	return n
}

func genLeaf(t *rapid.T, label string, d *dataset, values bool) *pnode {
	if values && rapid.IntRange(0, 2).Draw(t, label+"val?") == 0 {
		return genValueLeaf(t, label)
	}
	return genTagLeaf(t, label, d)
}

func genTree(t *rapid.T, label string, d *dataset, depth int, values bool) *pnode {
	if depth <= 0 || rapid.IntRange(0, 2).Draw(t, label+"leaf?") == 0 {
		return genLeaf(t, label, d, values)
	}
	kind := rapid.SampledFrom([]string{"and", "or", "or", "paren"}).Draw(t, label+"kind")
	if kind == "paren" {
		return &pnode{Kind: "paren", Kids: []*pnode{genTree(t, label+"(", d, depth-1, values)}}
	}
	n := &pnode{Kind: kind}
	nk := rapid.IntRange(2, 3).Draw(t, label+"nk")
	for i := 0; i < nk; i++ {
		k := genTree(t, fmt.Sprintf("%s.%d", label, i), d, depth-1, values)
		// a logical node nested inside another one is sometimes wrapped in a paren node, as callers
		// that build predicates from source text do; the tree shape is explicit either way
		if (k.Kind == "and" || k.Kind == "or") && rapid.Bool().Draw(t, fmt.Sprintf("%s.%dparen", label, i)) {
			k = &pnode{Kind: "paren", Kids: []*pnode{k}}
		}
		n.Kids = append(n.Kids, k)
	}
	return n
}

// genPredicate draws nil (no predicate), a tag-only tree, or a tree with value comparisons.
func genPredicate(t *rapid.T, d *dataset) *pnode {
	switch rapid.IntRange(0, 9).Draw(t, "pred?") {
	case 0:
		return nil
	case 1, 2, 3, 4, 5:
		return genTree(t, "p", d, 2, false)
	default:
		return genTree(t, "p", d, 2, true)
	}
}
