// Wide datasets: the same generated bucket plus several hundred additional series (every one with
// a unique "id" tag, 0..5 further tags, host/region/measurement cycling through generated
// combinations, one or two points each, part of them spanning two shards). Reads over them return
// hundreds to a few thousand series rows, which is where the read service's per-request buffers
// (copied tag sets of the sorted group rows, series-key buffers, cursor re-use across hundreds of
// series) are refilled several times; the oracle is the one of the small datasets, unchanged.
package c21_reads

import (
	"fmt"
	"strings"
	"testing"

	"github.com/influxdata/influxdb/v2/models"
	"pgregory.net/rapid"

	"verifharness/internal/gen"
	"verifharness/internal/model"
)

type wideCombo struct {
	M      string `json:"m"`
	Host   string `json:"host,omitempty"`
	Region string `json:"region,omitempty"`
}

type widePt struct {
	Hour   int      `json:"hour"`
	Off    int64    `json:"off"` // offset inside the window
	Fields []string `json:"fields"`
}

// wideSpec describes N series compactly: series i is measurement/host/region of
// Combos[i%len(Combos)] plus id=k<i> and Pad further tags p<j>=v<i%(j+2)>; it gets the point
// pattern Pts[i%len(Pts)] and, when Second>0 and i%Second==0, a second point one window later.
type wideSpec struct {
	N      int         `json:"n"`
	Pad    int         `json:"pad"`
	Combos []wideCombo `json:"combos"`
	Pts    []widePt    `json:"pts"`
	Second int         `json:"second"`
}

func (w *wideSpec) render() string {
	var sb strings.Builder
	fmt.Fprintf(&sb, "wide{n=%d pad=%d second=%d combos=", w.N, w.Pad, w.Second)
	for _, c := range w.Combos {
		fmt.Fprintf(&sb, "(%s,%s,%s)", c.M, c.Host, c.Region)
	}
	sb.WriteString(" pts=")
	for _, p := range w.Pts {
		fmt.Fprintf(&sb, "(%d+%d %v)", p.Hour, p.Off, p.Fields)
	}
	sb.WriteString("}")
	return sb.String()
}

func (w *wideSpec) seriesKey(i int) string {
	c := w.Combos[i%len(w.Combos)]
	tags := map[string]string{"id": fmt.Sprintf("k%04d", i)}
	if c.Host != "" {
		tags["host"] = c.Host
	}
	if c.Region != "" {
		tags["region"] = c.Region
	}
	for j := 0; j < w.Pad; j++ {
		tags[fmt.Sprintf("p%d", j)] = fmt.Sprintf("v%d", i%(j+2))
	}
	return string(models.MakeKey([]byte(c.M), models.NewTags(tags)))
}

func wideVal(k model.Kind, seq int) model.Val {
	v := seq % 90 // inside the literal domain of the generated value comparisons
	switch k {
	case model.Float:
		return model.Val{K: k, F: float64(v) + 0.25}
	case model.Integer:
		return model.Val{K: k, I: int64(v)}
	case model.Unsigned:
		return model.Val{K: k, U: uint64(v)}
	case model.Boolean:
		return model.Val{K: k, B: v%2 == 0}
	default:
		return model.Val{K: k, S: fmt.Sprintf("v%d", v)}
	}
}

// points expands the spec into the batch that is written (deterministic).
func (w *wideSpec) points(d *dataset) []gen.WPoint {
	out := make([]gen.WPoint, 0, w.N*2)
	seq := 0
	mk := func(key string, p widePt, hourShift int) gen.WPoint {
		wp := gen.WPoint{Series: key, T: d.T0 + int64((p.Hour+hourShift)%d.NShards)*hour + p.Off, Fields: map[string]model.Val{}}
		for _, f := range p.Fields {
			seq++
			wp.Fields[f] = wideVal(gen.FieldKind(f), seq)
		}
		return wp
	}
	for i := 0; i < w.N; i++ {
		key := w.seriesKey(i)
		out = append(out, mk(key, w.Pts[i%len(w.Pts)], 0))
		if w.Second > 0 && i%w.Second == 0 {
			// another window (NShards >= 2), so the two points never collide
			out = append(out, mk(key, w.Pts[(i/w.Second+1)%len(w.Pts)], 1))
		}
	}
	return out
}

var wideGroupKeyDomain = []string{"host", "region", "_measurement", "_field", "zz", "id", "p0", "p1"}

// genWideTagLeaf: comparisons on the tags only the wide series carry (all other series lack them).
func genWideTagLeaf(t *rapid.T, label string, n *pnode) *pnode {
	n.Ref = rapid.SampledFrom([]string{"id", "id", "p0", "p1"}).Draw(t, label+"wref")
	n.Op = rapid.SampledFrom([]string{"=", "!=", "=~", "!~"}).Draw(t, label+"op")
	regex := n.Op == "=~" || n.Op == "!~"
	if regex {
		n.Lit.K = "re"
	}
	switch {
	case n.Ref == "id" && regex:
		n.Lit.S = rapid.SampledFrom([]string{"^k00", "[05]$", "^k0[0-2]", "^$", "^k0.*[13579]$"}).Draw(t, label+"re")
	case n.Ref == "id":
		n.Lit.S = rapid.SampledFrom([]string{"k0007", "k0300", "", "k9999"}).Draw(t, label+"v")
	case regex:
		n.Lit.S = rapid.SampledFrom([]string{"^v[01]$", "^$", "2"}).Draw(t, label+"re")
	default:
		n.Lit.S = rapid.SampledFrom([]string{"v0", "v1", "v2", ""}).Draw(t, label+"v")
	}
	return n
}

func genWideDataset(t *rapid.T) *dataset {
	d := genDataset(t)
	w := &wideSpec{}
	// sizes: mostly several hundred series, sometimes above a thousand
	switch rapid.IntRange(0, 5).Draw(t, "wsize") {
	case 0:
		w.N = rapid.IntRange(100, 299).Draw(t, "wn")
	case 1, 2:
		w.N = rapid.IntRange(300, 799).Draw(t, "wn")
	default:
		w.N = rapid.IntRange(800, 1600).Draw(t, "wn")
	}
	w.Pad = rapid.IntRange(0, 5).Draw(t, "wpad")
	nc := rapid.IntRange(2, 7).Draw(t, "wnc")
	for i := 0; i < nc; i++ {
		lbl := fmt.Sprintf("wc%d", i)
		w.Combos = append(w.Combos, wideCombo{
			M:      rapid.SampledFrom(measurements).Draw(t, lbl+"m"),
			Host:   rapid.SampledFrom(hostVals).Draw(t, lbl+"h"),
			Region: rapid.SampledFrom(regionVals).Draw(t, lbl+"r"),
		})
	}
	np := rapid.IntRange(2, 5).Draw(t, "wnp")
	for i := 0; i < np; i++ {
		lbl := fmt.Sprintf("wp%d", i)
		p := widePt{Hour: rapid.IntRange(0, d.NShards-1).Draw(t, lbl+"h"), Off: genTs(t, lbl+"t", 0, 0)}
		p.Fields = rapid.SliceOfNDistinct(rapid.SampledFrom(d.Fields), 1, len(d.Fields), rapid.ID[string]).Draw(t, lbl+"f")
		w.Pts = append(w.Pts, p)
	}
	w.Second = rapid.SampledFrom([]int{0, 2, 3, 5}).Draw(t, "wsecond")
	d.Wide = w
	// the wide batch goes somewhere between the generated batches; afterwards some windows are
	// snapshotted (<= 4 generated batches + 1, so still at most 5 small TSM files per shard)
	at := rapid.IntRange(0, len(d.Ops)).Draw(t, "wat")
	ins := []op{{Kind: "wide"}}
	for h := 0; h < d.NShards; h++ {
		if rapid.IntRange(0, 2).Draw(t, fmt.Sprintf("wsnap%d", h)) == 0 {
			ins = append(ins, op{Kind: "snap", Hour: h})
		}
	}
	d.Ops = append(d.Ops[:at:at], append(ins, d.Ops[at:]...)...)
	return d
}

func sizeBucket(n int) string {
	switch {
	case n == 0:
		return "0"
	case n < 32:
		return "1..31"
	case n < 256:
		return "32..255"
	case n < 1024:
		return "256..1023"
	default:
		return ">=1024"
	}
}

// classifyGroupSize reports how many series rows with points a group read returned and, for
// group-by reads, how many tag entries (series tags + tags incl. _measurement/_field) those rows
// carry in total: the read service keeps a private copy of them for the whole sorted row list.
func classifyGroupSize(r *request, groups []gotGroup, returned int) {
	rec.Class("group:series-with-points-returned:" + sizeBucket(returned))
	if r.GroupNone {
		return
	}
	entries := 0
	for _, g := range groups {
		for _, s := range g.Series {
			_, tags := tagsOf(s.Key.Series)
			entries += 2*len(tags) + 2
		}
	}
	switch {
	case entries > 3*4096:
		rec.Class("group:by:tag-entries-of-sorted-rows>12288")
	case entries > 4096:
		rec.Class("group:by:tag-entries-of-sorted-rows>4096")
	}
	if len(groups) >= 100 {
		rec.Class("group:>=100-groups")
	}
}

func TestPropReadManySeries(t *testing.T) {
	rec.Check(t, 40, 400, func(t *rapid.T) {
		d := genWideDataset(t)
		b, err := buildDataset(d)
		if err != nil {
			t.Fatalf("building dataset: %v", err)
		}
		defer b.close()
		rec.Class("wide:dataset")
		nreq := rapid.IntRange(3, 5).Draw(t, "nreq")
		for i := 0; i < nreq; i++ {
			if rapid.IntRange(0, 3).Draw(t, "kind") == 0 {
				b.checkFilter(t, "TestPropReadManySeries", genRequest(t, d, "filter"))
			} else {
				b.checkGroup(t, "TestPropReadManySeries", genRequest(t, d, "group"))
			}
		}
	})
}
