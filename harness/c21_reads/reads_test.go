// C21 — Storage read requests return exactly the stored series and points.
//
// Generator: a multi-shard bucket built through the full storage stack (fix.Stack: points writer,
// meta client, one shard per 1h shard group, 2..5 groups, some shards snapshotted to TSM and some
// data left in the cache), 3..8 series over 2 measurements with tags host/region (some series
// lack a tag), 2..3 typed fields; then ReadFilter / ReadGroup requests with a generated half-open
// range (all time, shard-aligned, boundary +-1, arbitrary), a generated predicate tree (tag,
// _measurement, _field comparisons incl. regex and "", AND/OR/paren, and field-value
// comparisons) and, for group reads, group keys out of {host, region, _measurement, _field, zz}.
//
// Oracle: the point model (last write wins). Filter read: every (series, field) whose predicate
// evaluation is defined is returned at most once, with exactly its points in range that satisfy
// the predicate, ascending; series without such points may only appear empty. Group read: the
// same series, each in exactly one group, the group's partition key equal to the series' tuple of
// group-key values (absent = nil), no tuple in two groups, groups in ascending order of the tuple
// with nil last.
package c21_reads

import (
	"bytes"
	"context"
	"fmt"
	"math"
	"sort"
	"strings"
	"testing"

	"github.com/influxdata/influxdb/v2/models"
	"github.com/influxdata/influxdb/v2/storage/reads/datatypes"
	"pgregory.net/rapid"

	"verifharness/internal/ev"
	"verifharness/internal/fix"
	"verifharness/internal/gen"
	"verifharness/internal/model"
)

var rec = ev.For("C21", "exploration",
	"case = (multi-shard dataset built through the full stack, one ReadFilter or ReadGroup request); non-trivial = filter read whose range spans >=2 shards with a returned series having points in >=2 shards and a predicate that excludes >=1 series that has points in range, or group read with >=2 groups and >=1 series lacking a group key; distinct by the rendered dataset + request")

func init() {
	rec.Assume("reference point model (last write wins per series/field/timestamp) and the harness' three-valued predicate evaluator are trusted")
	rec.Assume("a tag a series lacks compares as the empty string (InfluxQL tag semantics used by the read service); value comparisons between a field and a literal of another type, and any comparison on unsigned fields, are treated as undefined: such series are only checked for soundness (no invented / out-of-range / duplicated points)")
	rec.Assume("series returned with zero points are tolerated (consumers skip empty cursors); the order of series inside a group / inside a filter result is not asserted")
	rec.Assume("every shard has at most 5 TSM snapshots, so the open finding keycursor-cyclic-block-order (needs >12 blocks per key) cannot interfere")
}

// request is one generated read.
type request struct {
	Kind      string   `json:"kind"` // "filter" | "group"
	Start     int64    `json:"start"`
	End       int64    `json:"end"` // exclusive
	RangeKind string   `json:"range_kind"`
	Pred      *pnode   `json:"pred,omitempty"`
	GroupKeys []string `json:"group_keys,omitempty"`
	GroupNone bool     `json:"group_none,omitempty"`
	Agg       string   `json:"agg,omitempty"` // "", "count", "first", "last"
}

func (r *request) render(t0 int64) string {
	return fmt.Sprintf("%s[%d,%d)%s pred=%s keys=%q none=%v agg=%s", r.Kind, r.Start-t0, r.End-t0, r.RangeKind, r.Pred, r.GroupKeys, r.GroupNone, r.Agg)
}

func genRange(t *rapid.T, d *dataset) (int64, int64, string) {
	n := d.NShards
	switch rapid.IntRange(0, 9).Draw(t, "rkind") {
	case 0, 1:
		lo := rapid.SampledFrom([]int64{math.MinInt64, models.MinNanoTime, d.T0}).Draw(t, "rlo")
		hi := rapid.SampledFrom([]int64{math.MaxInt64, models.MaxNanoTime, d.T0 + int64(n)*hour}).Draw(t, "rhi")
		return lo, hi, "all"
	case 2, 3:
		a := rapid.IntRange(0, n-1).Draw(t, "ra")
		b := rapid.IntRange(a+1, n).Draw(t, "rb")
		return d.T0 + int64(a)*hour, d.T0 + int64(b)*hour, "aligned"
	case 4, 5, 6:
		a := rapid.IntRange(0, n).Draw(t, "ra")
		b := rapid.IntRange(a, n).Draw(t, "rb")
		lo := d.T0 + int64(a)*hour + int64(rapid.IntRange(-1, 1).Draw(t, "rja"))
		hi := d.T0 + int64(b)*hour + int64(rapid.IntRange(-1, 2).Draw(t, "rjb"))
		if hi < lo {
			hi = lo
		}
		return lo, hi, "boundary"
	case 7:
		a := genTs(t, "rx", d.T0, rapid.IntRange(0, n-1).Draw(t, "rxh"))
		return a, a, "empty"
	default:
		a := genTs(t, "ra", d.T0, rapid.IntRange(0, n-1).Draw(t, "rah"))
		b := genTs(t, "rb", d.T0, rapid.IntRange(0, n-1).Draw(t, "rbh"))
		if a > b {
			a, b = b, a
		}
		return a, b + int64(rapid.IntRange(0, 1).Draw(t, "rincl")), "arbitrary"
	}
}

var groupKeyDomain = []string{"host", "region", "_measurement", "_field", "zz"}

func genRequest(t *rapid.T, d *dataset, kind string) *request {
	r := &request{Kind: kind}
	r.Start, r.End, r.RangeKind = genRange(t, d)
	r.Pred = genPredicate(t, d)
	if kind == "group" {
		if rapid.IntRange(0, 5).Draw(t, "gnone") == 0 {
			r.GroupNone = true
		} else {
			dom := groupKeyDomain
			if d.Wide != nil {
				dom = wideGroupKeyDomain
			}
			r.GroupKeys = rapid.SliceOfNDistinct(rapid.SampledFrom(dom), 0, 3, rapid.ID[string]).Draw(t, "gkeys")
		}
		switch rapid.IntRange(0, 9).Draw(t, "agg") {
		case 0:
			r.Agg = "count"
		case 1:
			r.Agg = "first"
		case 2:
			r.Agg = "last"
		}
	}
	return r
}

// expectation for one (series, field)
type expect struct {
	key     sfKey
	pts     []model.Point // points in range that satisfy the predicate (defined evaluations only)
	inRange []model.Point // all model points in range
	unknown bool          // some point's predicate evaluation is undefined
}

func (b *built) expectations(r *request) map[sfKey]*expect {
	out := map[sfKey]*expect{}
	for _, sf := range b.allSeriesFields() {
		e := &expect{key: sf}
		if r.End > r.Start {
			e.inRange = b.m.Range(sf.Series, sf.Field, r.Start, r.End-1, true)
		}
		name, tags := tagsOf(sf.Series)
		for _, p := range e.inRange {
			res := triTrue
			if r.Pred != nil {
				res = r.Pred.eval(row{name: name, tags: tags, field: sf.Field, val: p.V, hasVal: true})
			}
			switch res {
			case triTrue:
				e.pts = append(e.pts, p)
			case triUnknown:
				e.unknown = true
			}
		}
		out[sf] = e
	}
	return out
}

type caseJSON struct {
	Dataset *dataset `json:"dataset"`
	Request *request `json:"request"`
	Got     any      `json:"got,omitempty"`
}

// subsetInOrder reports whether got is an ascending, duplicate-free sub-sequence of all.
func subsetInOrder(got, all []model.Point) bool {
	j := 0
	for _, g := range got {
		for j < len(all) && all[j].T < g.T {
			j++
		}
		if j >= len(all) || all[j].T != g.T || !all[j].V.Equal(g.V) {
			return false
		}
		j++
	}
	return true
}

// staleNote annotates a value mismatch that has the signature of the (unrelated) open finding.
func (b *built) staleNote(sf sfKey, r *request, got, want []model.Point) string {
	for _, id := range b.s.ShardIDs() {
		if ok, why := fix.StaleByCyclicOrder(b.s.DataDir(id), b.m, sf.Series, sf.Field, r.Start, r.End-1, true, got, want); ok {
			return " [signature of keycursor-cyclic-block-order in shard " + fmt.Sprint(id) + ": " + why + "]"
		}
	}
	return ""
}

// exposedToStaleFilter reports whether series sf can be hit by the open finding
// multishard-cursor-stale-value-filter under request r: the predicate has a field-value
// comparison, sf's own predicate is already decided true by its tags/field (so the read service
// installs no value condition for it), and some other (series, field) of the same field type is
// not decided by its tags (so it gets a value filter, which may be left behind).
func (b *built) exposedToStaleFilter(r *request, sf sfKey) bool {
	if r.Pred == nil || !r.Pred.hasValueRef() {
		return false
	}
	name, tags := tagsOf(sf.Series)
	if r.Pred.eval(row{name: name, tags: tags, field: sf.Field}) != triTrue {
		return false
	}
	for _, o := range b.allSeriesFields() {
		if o == sf || gen.FieldKind(o.Field) != gen.FieldKind(sf.Field) {
			continue
		}
		on, ot := tagsOf(o.Series)
		if r.Pred.eval(row{name: on, tags: ot, field: o.Field}) == triUnknown {
			return true
		}
	}
	return false
}

// checkSeriesPoints compares the points returned for one series with its expectation.
func (b *built) checkSeriesPoints(t *rapid.T, test string, c caseJSON, r *request, e *expect, got []model.Point, present bool) {
	if e.unknown {
		rec.Class("oracle:series-with-undefined-comparison(soundness-only)")
		if r.Agg == "count" {
			var sum int64
			for _, p := range got {
				sum += p.V.I
			}
			if sum < 0 || sum > int64(len(e.inRange)) {
				rec.Fail(t, test, "count-mismatch", fmt.Sprintf("%s: series %s: count=%d but only %d points stored in range", r.render(b.d.T0), e.key, sum, len(e.inRange)), c)
			}
			return
		}
		if !subsetInOrder(got, e.inRange) {
			rec.Fail(t, test, "points-not-from-model", fmt.Sprintf("%s: series %s returned points that are not an ordered subset of its stored points in range\n got  %s\n have %s", r.render(b.d.T0), e.key, model.Render(got), model.Render(e.inRange)), c)
		}
		return
	}
	want := e.pts
	switch r.Agg {
	case "count":
		var sum int64
		for _, p := range got {
			if p.V.K != model.Integer {
				rec.Fail(t, test, "count-type", fmt.Sprintf("%s: series %s: count returned a %s value", r.render(b.d.T0), e.key, p.V.K), c)
			}
			sum += p.V.I
		}
		if sum >= 0 && sum < int64(len(want)) && b.exposedToStaleFilter(r, e.key) && ev.KnownOpen("C21", staleFilterKey) {
			rec.ExcludedKnown(staleFilterKey)
			return
		}
		if sum != int64(len(want)) {
			rec.Fail(t, test, "count-mismatch", fmt.Sprintf("%s: series %s: count=%d, stored points in range matching the predicate=%d (%s)", r.render(b.d.T0), e.key, sum, len(want), model.Render(want)), c)
		}
		return
	case "first":
		if len(want) > 1 {
			want = want[:1]
		}
	case "last":
		if len(want) > 1 {
			want = want[len(want)-1:]
		}
	}
	if model.EqualPoints(got, want) {
		return
	}
	if b.exposedToStaleFilter(r, e.key) && ev.KnownOpen("C21", staleFilterKey) && len(got) < len(want) && subsetInOrder(got, e.pts) {
		// exactly the signature of the open finding: only drops, on a series without a value
		// condition of its own, while another series of the same field type has one
		rec.ExcludedKnown(staleFilterKey)
		return
	}
	key := "points-mismatch"
	switch {
	case len(got) < len(want) && subsetInOrder(got, want):
		key = "points-dropped"
	case len(got) > len(want):
		key = "points-extra-or-duplicated"
	}
	if !present {
		key = "series-missing"
	}
	rec.Fail(t, test, key, fmt.Sprintf("%s: series %s\n got  (%d) %s\n want (%d) %s%s", r.render(b.d.T0), e.key, len(got), model.Render(got), len(want), model.Render(want), b.staleNote(e.key, r, got, want)), c)
}

// ---------------------------------------------------------------------------------------------
// ReadFilter

func (b *built) checkFilter(t *rapid.T, test string, r *request) {
	c := caseJSON{Dataset: b.d, Request: r}
	rows, err := b.s.ReadFilter(r.Start, r.End, r.Pred.predicate())
	if err != nil {
		rec.Fail(t, test, "read-error", fmt.Sprintf("%s: ReadFilter: %v", r.render(b.d.T0), err), c)
	}
	exp := b.expectations(r)
	rec.Eval()

	got := map[sfKey][]model.Point{}
	for _, row := range rows {
		sk, f := row.Key()
		k := sfKey{sk, f}
		if _, known := exp[k]; !known {
			rec.Fail(t, test, "unknown-series", fmt.Sprintf("%s: returned series %q field %q (tags %v) was never written", r.render(b.d.T0), sk, f, row.Tags), c)
		}
		if _, dup := got[k]; dup {
			rec.Fail(t, test, "series-duplicated", fmt.Sprintf("%s: series %s returned more than once", r.render(b.d.T0), k), c)
		}
		if row.Points == nil {
			row.Points = []model.Point{}
		}
		got[k] = row.Points
	}
	keys := make([]sfKey, 0, len(exp))
	for k := range exp {
		keys = append(keys, k)
	}
	sort.Slice(keys, func(i, j int) bool { return keys[i].String() < keys[j].String() })
	multi, excluded, returned := false, false, 0
	for _, k := range keys {
		e := exp[k]
		g, present := got[k]
		b.checkSeriesPoints(t, test, c, r, e, g, present)
		if len(e.pts) > 0 {
			returned++
			if b.windowsOf(e.pts) >= 2 {
				multi = true
			}
		}
		if len(e.inRange) > 0 && len(e.pts) == 0 && !e.unknown {
			excluded = true
		}
	}
	classifyRequest(r, "filter")
	rec.Class("filter:series-with-points-returned:" + sizeBucket(returned))
	if returned == 0 {
		rec.Class("filter:result-empty")
	} else {
		rec.Class("filter:result-nonempty")
	}
	if multi {
		rec.Class("filter:series-spans>=2-shards")
	}
	if excluded {
		rec.Class("filter:predicate-excludes-series-with-points")
	}
	if multi && excluded {
		rec.NonTrivial(b.d.render() + "|" + r.render(b.d.T0))
	}
	if rec.WantSample() && multi && excluded {
		rec.Sample(map[string]any{"dataset": b.d.render(), "request": r.render(b.d.T0), "series_returned": returned})
	}
}

func classifyRequest(r *request, p string) {
	rec.Class(p + ":range:" + r.RangeKind)
	switch {
	case r.Pred == nil:
		rec.Class(p + ":pred:none")
	case r.Pred.hasValueRef():
		rec.Class(p + ":pred:with-value-comparison")
	default:
		rec.Class(p + ":pred:tags-only")
	}
	if r.Pred != nil && r.Pred.hasOr() {
		rec.Class(p + ":pred:has-or")
	}
}

func TestPropReadFilter(t *testing.T) {
	rec.Check(t, 300, 3000, func(t *rapid.T) {
		d := genDataset(t)
		b, err := buildDataset(d)
		if err != nil {
			t.Fatalf("building dataset: %v", err)
		}
		defer b.close()
		nreq := rapid.IntRange(3, 6).Draw(t, "nreq")
		for i := 0; i < nreq; i++ {
			r := genRequest(t, d, "filter")
			b.checkFilter(t, "TestPropReadFilter", r)
		}
	})
}

// ---------------------------------------------------------------------------------------------
// ReadGroup

type gotSeries struct {
	Key    sfKey
	Points []model.Point
}

type gotGroup struct {
	PK     [][]byte
	Keys   []string
	Series []gotSeries
}

func (g gotGroup) String() string {
	var sb strings.Builder
	fmt.Fprintf(&sb, "pk=%q keys=%q:", g.PK, g.Keys)
	for _, s := range g.Series {
		fmt.Fprintf(&sb, " %s(%d)", s.Key, len(s.Points))
	}
	return sb.String()
}

func (b *built) readGroup(r *request) ([]gotGroup, error) {
	src, err := b.s.Source()
	if err != nil {
		return nil, err
	}
	req := &datatypes.ReadGroupRequest{ReadSource: src, Range: &datatypes.TimestampRange{Start: r.Start, End: r.End},
		Predicate: r.Pred.predicate(), GroupKeys: r.GroupKeys, Group: datatypes.ReadGroupRequest_GroupBy}
	if r.GroupNone {
		req.Group = datatypes.ReadGroupRequest_GroupNone
	}
	switch r.Agg {
	case "count":
		req.Aggregate = &datatypes.Aggregate{Type: datatypes.Aggregate_AggregateTypeCount}
	case "first":
		req.Aggregate = &datatypes.Aggregate{Type: datatypes.Aggregate_AggregateTypeFirst}
	case "last":
		req.Aggregate = &datatypes.Aggregate{Type: datatypes.Aggregate_AggregateTypeLast}
	}
	rs, err := b.s.Reads.ReadGroup(context.Background(), req)
	if err != nil {
		return nil, err
	}
	if rs == nil {
		return nil, nil
	}
	defer rs.Close()
	var out []gotGroup
	// iterate exactly as the flux reader does: one cursor at a time, drained before the next
	for gc := rs.Next(); gc != nil; gc = rs.Next() {
		g := gotGroup{}
		for _, v := range gc.PartitionKeyVals() {
			if v == nil {
				g.PK = append(g.PK, nil)
			} else {
				g.PK = append(g.PK, append([]byte{}, v...))
			}
		}
		for gc.Next() {
			row := fix.SeriesRows{Tags: gc.Tags().Clone()}
			pts, err := fix.DrainCursor(gc.Cursor())
			if err != nil {
				gc.Close()
				return out, err
			}
			sk, f := row.Key()
			if pts == nil {
				pts = []model.Point{}
			}
			g.Series = append(g.Series, gotSeries{Key: sfKey{sk, f}, Points: pts})
		}
		if err := gc.Err(); err != nil {
			gc.Close()
			return out, err
		}
		for _, k := range gc.Keys() {
			g.Keys = append(g.Keys, string(k))
		}
		gc.Close()
		out = append(out, g)
	}
	return out, rs.Err()
}

// tupleOf is the series' tuple of group-key values (nil = the series lacks the key).
func tupleOf(sf sfKey, keys []string) [][]byte {
	name, tags := tagsOf(sf.Series)
	out := make([][]byte, len(keys))
	for i, k := range keys {
		switch k {
		case "_measurement":
			out[i] = []byte(name)
		case "_field":
			out[i] = []byte(sf.Field)
		default:
			if v, ok := tags[k]; ok {
				out[i] = []byte(v)
			}
		}
	}
	return out
}

// cmpTuple orders tuples component-wise by bytes with nil (absent) after every value.
func cmpTuple(a, b [][]byte) int {
	for i := range a {
		an, bn := len(a[i]) == 0, len(b[i]) == 0
		switch {
		case an && bn:
			continue
		case an:
			return 1
		case bn:
			return -1
		}
		if c := bytes.Compare(a[i], b[i]); c != 0 {
			return c
		}
	}
	return 0
}

func (b *built) checkGroup(t *rapid.T, test string, r *request) {
	c := caseJSON{Dataset: b.d, Request: r}
	groups, err := b.readGroup(r)
	if err != nil {
		rec.Fail(t, test, "read-error", fmt.Sprintf("%s: ReadGroup: %v", r.render(b.d.T0), err), c)
	}
	exp := b.expectations(r)
	rec.Eval()
	var rendered []string
	for _, g := range groups {
		rendered = append(rendered, g.String())
	}
	c.Got = rendered

	if r.GroupNone && len(groups) > 1 {
		rec.Fail(t, test, "group-none-several-groups", fmt.Sprintf("%s: group mode none returned %d groups", r.render(b.d.T0), len(groups)), c)
	}
	seen := map[sfKey]int{}
	got := map[sfKey][]model.Point{}
	lacksKey := false
	for gi, g := range groups {
		if r.GroupNone {
			if len(g.PK) != 0 {
				rec.Fail(t, test, "group-none-partition-key", fmt.Sprintf("%s: group mode none has partition key %q", r.render(b.d.T0), g.PK), c)
			}
		} else if len(g.PK) != len(r.GroupKeys) {
			rec.Fail(t, test, "partition-key-length", fmt.Sprintf("%s: group %d has %d partition key values for %d group keys", r.render(b.d.T0), gi, len(g.PK), len(r.GroupKeys)), c)
		}
		if gi > 0 && !r.GroupNone {
			if cmp := cmpTuple(groups[gi-1].PK, g.PK); cmp == 0 {
				rec.Fail(t, test, "group-key-repeated", fmt.Sprintf("%s: groups %d and %d have the same partition key %q", r.render(b.d.T0), gi-1, gi, g.PK), c)
			} else if cmp > 0 {
				rec.Fail(t, test, "groups-out-of-order", fmt.Sprintf("%s: group %d key %q sorts after group %d key %q (nil last)", r.render(b.d.T0), gi-1, groups[gi-1].PK, gi, g.PK), c)
			}
		}
		withPts, all := map[string]bool{}, map[string]bool{}
		for _, s := range g.Series {
			if _, known := exp[s.Key]; !known {
				rec.Fail(t, test, "unknown-series", fmt.Sprintf("%s: returned series %s was never written", r.render(b.d.T0), s.Key), c)
			}
			if prev, dup := seen[s.Key]; dup {
				rec.Fail(t, test, "series-in-two-groups", fmt.Sprintf("%s: series %s returned in group %d and again in group %d", r.render(b.d.T0), s.Key, prev, gi), c)
			}
			seen[s.Key] = gi
			got[s.Key] = s.Points
			if !r.GroupNone {
				tup := tupleOf(s.Key, r.GroupKeys)
				if cmpTuple(tup, g.PK) != 0 {
					rec.Fail(t, test, "series-in-wrong-group", fmt.Sprintf("%s: series %s has group-key values %q but is in the group with partition key %q", r.render(b.d.T0), s.Key, tup, g.PK), c)
				}
				for _, v := range tup {
					if v == nil {
						lacksKey = true
					}
				}
			}
			_, tags := tagsOf(s.Key.Series)
			add := func(m map[string]bool) {
				m["_measurement"], m["_field"] = true, true
				for k := range tags {
					m[k] = true
				}
			}
			add(all)
			if len(s.Points) > 0 {
				add(withPts)
			}
		}
		// Keys(): documented as the union of the tag keys of the series the group produces
		if len(g.Series) > 0 {
			kset := map[string]bool{}
			for i, k := range g.Keys {
				if i > 0 && g.Keys[i-1] >= k {
					rec.Fail(t, test, "group-keys-unsorted", fmt.Sprintf("%s: group %d Keys() %q not strictly ascending", r.render(b.d.T0), gi, g.Keys), c)
				}
				kset[k] = true
			}
			for k := range kset {
				if !all[k] {
					rec.Fail(t, test, "group-keys-extra", fmt.Sprintf("%s: group %d Keys() %q contains %q which no series of the group has", r.render(b.d.T0), gi, g.Keys, k), c)
				}
			}
			for k := range withPts {
				if !kset[k] {
					rec.Fail(t, test, "group-keys-missing", fmt.Sprintf("%s: group %d Keys() %q lacks %q carried by a series with points", r.render(b.d.T0), gi, g.Keys, k), c)
				}
			}
		}
	}
	keys := make([]sfKey, 0, len(exp))
	for k := range exp {
		keys = append(keys, k)
	}
	sort.Slice(keys, func(i, j int) bool { return keys[i].String() < keys[j].String() })
	multi, returned := false, 0
	for _, k := range keys {
		e := exp[k]
		g, present := got[k]
		if g == nil {
			g = []model.Point{}
		}
		b.checkSeriesPoints(t, test, c, r, e, g, present)
		if len(e.pts) > 0 {
			returned++
			if b.windowsOf(e.pts) >= 2 {
				multi = true
			}
		}
	}
	classifyRequest(r, "group")
	classifyGroupSize(r, groups, returned)
	switch {
	case r.GroupNone:
		rec.Class("group:mode-none")
	default:
		rec.Class(fmt.Sprintf("group:by-%d-keys", len(r.GroupKeys)))
	}
	if r.Agg != "" {
		rec.Class("group:agg:" + r.Agg)
	} else {
		rec.Class("group:agg:none")
	}
	if len(groups) >= 2 {
		rec.Class("group:>=2-groups")
	}
	if lacksKey {
		rec.Class("group:series-lacking-a-group-key")
	}
	if multi {
		rec.Class("group:series-spans>=2-shards")
	}
	if len(groups) >= 2 && lacksKey {
		rec.NonTrivial(b.d.render() + "|" + r.render(b.d.T0))
		if rec.WantSample() {
			rec.Sample(map[string]any{"dataset": b.d.render(), "request": r.render(b.d.T0), "groups": rendered})
		}
	}
}

func TestPropReadGroup(t *testing.T) {
	rec.Check(t, 300, 3000, func(t *rapid.T) {
		d := genDataset(t)
		b, err := buildDataset(d)
		if err != nil {
			t.Fatalf("building dataset: %v", err)
		}
		defer b.close()
		nreq := rapid.IntRange(3, 6).Draw(t, "nreq")
		for i := 0; i < nreq; i++ {
			r := genRequest(t, d, "group")
			b.checkGroup(t, "TestPropReadGroup", r)
		}
	})
}
