package c14_tsi

import (
	"fmt"
	"os"
	"path/filepath"
	"regexp"
	"testing"
	"time"

	"github.com/influxdata/influxdb/v2/models"
	"github.com/influxdata/influxdb/v2/tsdb"
	"github.com/influxdata/influxdb/v2/tsdb/index/tsi1"

	"verifharness/internal/scratch"
)

// knownFix is a minimal index + series file for the deterministic reproducers.
type knownFix struct {
	root string
	sf   *tsdb.SeriesFile
	idx  *tsi1.Index
}

func newKnownFix(opts ...tsi1.IndexOption) (*knownFix, error) {
	root, err := scratch.Dir("c14-known-")
	if err != nil {
		return nil, err
	}
	f := &knownFix{root: root}
	f.sf = tsdb.NewSeriesFile(filepath.Join(root, "db", "_series"))
	if err := f.sf.Open(); err != nil {
		os.RemoveAll(root)
		return nil, err
	}
	f.idx = tsi1.NewIndex(f.sf, "db", append([]tsi1.IndexOption{tsi1.WithPath(filepath.Join(root, "db", "rp", "1", "index"))}, opts...)...)
	f.idx.PartitionN = 1
	if err := f.idx.Open(); err != nil {
		f.sf.Close()
		os.RemoveAll(root)
		return nil, err
	}
	return f, nil
}

func (f *knownFix) close() {
	f.idx.Close()
	f.sf.Close()
	os.RemoveAll(f.root)
}

func (f *knownFix) create(name string, kv ...string) (uint64, []byte, error) {
	mm := map[string]string{}
	for i := 0; i+1 < len(kv); i += 2 {
		mm[kv[i]] = kv[i+1]
	}
	tags := models.NewTags(mm)
	key := models.MakeKey([]byte(name), tags)
	if err := f.idx.CreateSeriesListIfNotExists([][]byte{key}, [][]byte{[]byte(name)}, []models.Tags{tags}); err != nil {
		return 0, nil, err
	}
	return f.sf.SeriesID([]byte(name), tags, nil), key, nil
}

// dropLikeEngine is the index part of Engine.deleteSeriesRange for one series.
func (f *knownFix) dropLikeEngine(id uint64, key []byte, name string) error {
	if err := f.idx.DropSeries(id, key, false); err != nil {
		return err
	}
	_, err := f.idx.DropMeasurementIfSeriesNotExist([]byte(name))
	return err
}

func (f *knownFix) settle() {
	deadline := time.Now().Add(10 * time.Second)
	for time.Now().Before(deadline) {
		f.idx.Wait()
		p := f.idx.PartitionAt(0)
		if p.CurrentCompactionN() == 0 && !p.NeedsCompaction(false) {
			return
		}
		time.Sleep(time.Millisecond)
	}
}

func ids(itr tsdb.SeriesIDIterator, err error) ([]uint64, error) {
	if err != nil || itr == nil {
		return nil, err
	}
	defer itr.Close()
	var out []uint64
	for {
		e, err := itr.Next()
		if err != nil {
			return out, err
		}
		if e.SeriesID == 0 {
			return out, nil
		}
		out = append(out, e.SeriesID)
	}
}

func contains(a []uint64, x uint64) bool {
	for _, v := range a {
		if v == x {
			return true
		}
	}
	return false
}

func list(next func() ([]byte, error)) []string {
	var out []string
	for {
		b, err := next()
		if err != nil || b == nil {
			return out
		}
		out = append(out, string(b))
	}
}

// TestKnown_tag_keys_values_outlive_their_series: series m0 and m0,a=x exist; m0,a=x is dropped
// the way the engine drops a series. No live series carries tag key a any more, yet the index
// keeps answering HasTagKey(m0,a), lists a in TagKeyIterator(m0) and x in TagValueIterator(m0,a).
func TestKnown_tag_keys_values_outlive_their_series(t *testing.T) {
	f, err := newKnownFix()
	if err != nil {
		t.Fatalf("harness: %v", err)
	}
	defer f.close()
	if _, _, err := f.create("m0"); err != nil {
		t.Fatalf("harness: %v", err)
	}
	id, key, err := f.create("m0", "a", "x")
	if err != nil {
		t.Fatalf("harness: %v", err)
	}
	if err := f.dropLikeEngine(id, key, "m0"); err != nil {
		t.Fatalf("harness: %v", err)
	}
	hasKey, _ := f.idx.HasTagKey([]byte("m0"), []byte("a"))
	hasVal, _ := f.idx.HasTagValue([]byte("m0"), []byte("a"), []byte("x"))
	var keys, vals []string
	if itr, _ := f.idx.TagKeyIterator([]byte("m0")); itr != nil {
		keys = list(itr.Next)
		itr.Close()
	}
	if itr, _ := f.idx.TagValueIterator([]byte("m0"), []byte("a")); itr != nil {
		vals = list(itr.Next)
		itr.Close()
	}
	repro := hasKey || hasVal || len(keys) > 0 || len(vals) > 0
	rec.Known(t, "TestKnown_tag_keys_values_outlive_their_series", knownStaleTags, repro,
		fmt.Sprintf("series m0 and m0,a=x created; m0,a=x dropped (DropSeries(id,key,false) + DropMeasurementIfSeriesNotExist(m0)); only m0 (no tags) is live, but HasTagKey(m0,a)=%v HasTagValue(m0,a,x)=%v TagKeyIterator(m0)=%v TagValueIterator(m0,a)=%v (user-visible through SHOW TAG KEYS / SHOW TAG VALUES without a WHERE clause)", hasKey, hasVal, keys, vals),
		map[string]any{"HasTagKey": hasKey, "HasTagValue": hasVal, "TagKeyIterator": keys, "TagValueIterator": vals})
}

// TestKnown_tagvalue_cache_not_updated_by_noncascade_drop: the TagValueSeriesIDIterator result
// for (m0,a,x) is cached; DropSeries(id,key,false) — the only form the engine uses — returns
// before the cache is told, so the dropped series keeps being returned (the series file entry
// stays because another shard still holds the series).
func TestKnown_tagvalue_cache_not_updated_by_noncascade_drop(t *testing.T) {
	f, err := newKnownFix()
	if err != nil {
		t.Fatalf("harness: %v", err)
	}
	defer f.close()
	if _, _, err := f.create("m0", "a", "y"); err != nil {
		t.Fatalf("harness: %v", err)
	}
	id, key, err := f.create("m0", "a", "x")
	if err != nil {
		t.Fatalf("harness: %v", err)
	}
	before, err := ids(f.idx.TagValueSeriesIDIterator([]byte("m0"), []byte("a"), []byte("x")))
	if err != nil || !contains(before, id) {
		t.Fatalf("harness: before the drop the iterator returned %v, %v", before, err)
	}
	if err := f.dropLikeEngine(id, key, "m0"); err != nil {
		t.Fatalf("harness: %v", err)
	}
	after, err := ids(f.idx.TagValueSeriesIDIterator([]byte("m0"), []byte("a"), []byte("x")))
	if err != nil {
		t.Fatalf("harness: %v", err)
	}
	rec.Known(t, "TestKnown_tagvalue_cache_not_updated_by_noncascade_drop", knownCache, contains(after, id) && !f.sf.IsDeleted(id),
		fmt.Sprintf("series m0,a=y and m0,a=x (id %d) created; TagValueSeriesIDIterator(m0,a,x) read once (fills the series-id cache); m0,a=x dropped with DropSeries(id,key,false); TagValueSeriesIDIterator(m0,a,x) still returns %v", id, after),
		map[string]any{"id": id, "after": after})
}

// TestKnown_series_iterators_ignore_tombstones_in_newer_files: the insert of m0,a=x sits in a
// compacted index file, its tombstone in a newer file. MeasurementSeriesIDIterator and
// TagKeySeriesIDIterator merge the per-file id lists without applying tombstones at all;
// TagValueSeriesIDIterator applies the tombstones of every file except the newest one (the active
// log), so it is wrong exactly while the tombstone is still in the active log.
func TestKnown_series_iterators_ignore_tombstones_in_newer_files(t *testing.T) {
	f, err := newKnownFix(tsi1.WithMaximumLogFileSize(1), tsi1.WithSeriesIDCacheSize(0))
	if err != nil {
		t.Fatalf("harness: %v", err)
	}
	defer f.close()
	if _, _, err := f.create("m0"); err != nil {
		t.Fatalf("harness: %v", err)
	}
	id, key, err := f.create("m0", "a", "x")
	if err != nil {
		t.Fatalf("harness: %v", err)
	}
	f.settle()
	// reopen with the default log size so that the tombstone stays in the active log
	if err := f.idx.Close(); err != nil {
		t.Fatalf("harness: %v", err)
	}
	f.idx = tsi1.NewIndex(f.sf, "db", tsi1.WithPath(filepath.Join(f.root, "db", "rp", "1", "index")), tsi1.WithSeriesIDCacheSize(0))
	f.idx.PartitionN = 1
	if err := f.idx.Open(); err != nil {
		t.Fatalf("harness: %v", err)
	}
	f.settle()
	if err := f.dropLikeEngine(id, key, "m0"); err != nil {
		t.Fatalf("harness: %v", err)
	}
	f.settle()
	mIDs, err1 := ids(f.idx.MeasurementSeriesIDIterator([]byte("m0")))
	kIDs, err2 := ids(f.idx.TagKeySeriesIDIterator([]byte("m0"), []byte("a")))
	vIDs, err3 := ids(f.idx.TagValueSeriesIDIterator([]byte("m0"), []byte("a"), []byte("x")))
	if err1 != nil || err2 != nil || err3 != nil {
		t.Fatalf("harness: %v %v %v", err1, err2, err3)
	}
	rec.Known(t, "TestKnown_series_iterators_ignore_tombstones_in_newer_files", knownTombstones,
		(contains(mIDs, id) || contains(kIDs, id) || contains(vIDs, id)) && !f.sf.IsDeleted(id),
		fmt.Sprintf("series m0 and m0,a=x (id %d) created and compacted into index files (MaxLogFileSize 1), index reopened with the default log size, m0,a=x dropped (DropSeries(id,key,false): tombstone in the active log); SeriesN=%d, but MeasurementSeriesIDIterator(m0)=%v, TagKeySeriesIDIterator(m0,a)=%v and TagValueSeriesIDIterator(m0,a,x)=%v still contain the dropped id", id, f.idx.SeriesN(), mIDs, kIDs, vIDs),
		map[string]any{"id": id, "measurement": mIDs, "tagkey": kIDs, "tagvalue": vIDs})
}

// TestKnown_regex_lists_dropped_measurements: Partition.MeasurementNamesByRegex does not look at
// the deleted flag of the merged measurement element.
func TestKnown_regex_lists_dropped_measurements(t *testing.T) {
	f, err := newKnownFix()
	if err != nil {
		t.Fatalf("harness: %v", err)
	}
	defer f.close()
	id, key, err := f.create("m0", "a", "x")
	if err != nil {
		t.Fatalf("harness: %v", err)
	}
	if err := f.dropLikeEngine(id, key, "m0"); err != nil {
		t.Fatalf("harness: %v", err)
	}
	exists, _ := f.idx.MeasurementExists([]byte("m0"))
	names, err := f.idx.MeasurementNamesByRegex(regexp.MustCompile(`^m0$`))
	if err != nil {
		t.Fatalf("harness: %v", err)
	}
	var got []string
	for _, n := range names {
		got = append(got, string(n))
	}
	rec.Known(t, "TestKnown_regex_lists_dropped_measurements", knownRegex, !exists && len(got) > 0,
		fmt.Sprintf("series m0,a=x created and dropped like the engine does (the measurement is dropped with its last series): MeasurementExists(m0)=%v but MeasurementNamesByRegex(^m0$)=%v", exists, got),
		map[string]any{"exists": exists, "regex": got})
}
