package c14_tsi

import (
	"fmt"
	"io"
	"os"
	"path/filepath"
	"sort"
	"strconv"
	"strings"
)

// Index log truncation.
//
// Every index operation appends checksummed entries to the active log file (L0-*.tsl) of one or
// more partitions and flushes. The harness records the size of every log file before and after
// one operation (compactions disabled meanwhile, so the files stay), copies series file + index,
// and cuts ONE of the byte ranges the operation appended at a generated offset (optionally
// refilling the cut-off bytes with zeros: a file whose length was extended before its data
// arrived); every other range of the operation is kept whole or removed whole. The copy is opened
// with fresh objects. Expected: everything the interrupted operation did not touch is exactly as
// the model says; every element (a series in a set, a name in a list, a boolean) the operation
// does touch may be in its before- or in its after-state. The operation is then repeated on the
// image (what a client does after a crash) and the result must be exactly the after-state.

type logRange struct {
	part     int
	rel      string // path relative to the index directory
	from, to int64
}

func (m *machine) logSizes() map[string]int64 {
	out := map[string]int64{}
	for p := 0; p < int(m.cfg.partitionN); p++ {
		dir := filepath.Join(m.idxPath(), strconv.Itoa(p))
		des, err := os.ReadDir(dir)
		if err != nil {
			continue
		}
		for _, de := range des {
			if strings.HasSuffix(de.Name(), ".tsl") {
				if fi, err := de.Info(); err == nil {
					out[filepath.Join(strconv.Itoa(p), de.Name())] = fi.Size()
				}
			}
		}
	}
	return out
}

func copyFile(src, dst string) error {
	in, err := os.Open(src)
	if err != nil {
		return err
	}
	defer in.Close()
	st, err := in.Stat()
	if err != nil {
		return err
	}
	out, err := os.Create(dst)
	if err != nil {
		return err
	}
	defer out.Close()
	size := st.Size()
	if size > 1<<20 {
		// pre-allocated series segment: copy data extents only
		const seekData, seekHole = 3, 4
		buf := make([]byte, 64<<10)
		off := int64(0)
		for off < size {
			d, err := in.Seek(off, seekData)
			if err != nil {
				break
			}
			h, err := in.Seek(d, seekHole)
			if err != nil {
				h = size
			}
			for p := d; p < h; {
				n := int64(len(buf))
				if h-p < n {
					n = h - p
				}
				if _, err := in.ReadAt(buf[:n], p); err != nil && err != io.EOF {
					return err
				}
				if _, err := out.WriteAt(buf[:n], p); err != nil {
					return err
				}
				p += n
			}
			off = h
		}
		return out.Truncate(size)
	}
	_, err = io.Copy(out, in)
	return err
}

func copyTree(src, dst string) error {
	if err := os.MkdirAll(dst, 0o777); err != nil {
		return err
	}
	des, err := os.ReadDir(src)
	if err != nil {
		return err
	}
	for _, de := range des {
		s, d := filepath.Join(src, de.Name()), filepath.Join(dst, de.Name())
		if de.IsDir() {
			if err := copyTree(s, d); err != nil {
				return err
			}
		} else if err := copyFile(s, d); err != nil {
			return err
		}
	}
	return nil
}

// join combines the expectations of the before- and after-state elementwise.
func join(a, b bounds) bounds {
	out := bounds{}
	for item, x := range a {
		y := b[item]
		if item == "SeriesN" {
			lo, _ := strconv.Atoi(x.lo[0])
			hi, _ := strconv.Atoi(y.lo[0])
			if lo > hi {
				lo, hi = hi, lo
			}
			var all []string
			for n := lo; n <= hi; n++ {
				all = append(all, strconv.Itoa(n))
			}
			out[item] = bound{lo: nil, hi: all}
			continue
		}
		var lo []string
		for _, e := range x.lo {
			if subset([]string{e}, y.lo) {
				lo = append(lo, e)
			}
		}
		hi := append(append([]string{}, x.hi...), y.hi...)
		sort.Strings(hi)
		hi = uniq(hi)
		known := x.known
		if known == "" {
			known = y.known
		} else if y.known != "" && !strings.Contains(known, y.known) {
			known += "+" + y.known
		}
		out[item] = bound{lo: lo, hi: hi, known: known}
	}
	return out
}

// tornSpec is one operation to interrupt.
type tornSpec struct {
	desc  string
	apply func() bool // performs the index part of the operation on m (model included)
	after func()      // what follows the index part in the engine (series file deletion), if any
}

type cutChooser func(label string, lo, hi int) int

// tornOp performs spec with crash images taken in the middle of its log appends.
func (m *machine) tornOp(spec tornSpec, nImages int, choose cutChooser) {
	m.logf("torn:")
	liveBefore := map[int]bool{}
	for k := range m.live {
		liveBefore[k] = true
	}
	tolBefore := m.tol.clone()
	m.idx.DisableCompactions()
	sizes0 := m.logSizes()
	ok := spec.apply()
	sizes1 := m.logSizes()
	if !ok {
		m.idx.EnableCompactions()
		return
	}
	var ranges []logRange
	for rel, to := range sizes1 {
		from := sizes0[rel]
		if to > from {
			p, _ := strconv.Atoi(filepath.Dir(rel))
			ranges = append(ranges, logRange{part: p, rel: rel, from: from, to: to})
		}
	}
	sort.Slice(ranges, func(i, j int) bool { return ranges[i].rel < ranges[j].rel })
	if len(ranges) == 0 {
		rec.Class("torn:operation-appended-nothing")
	} else {
		rec.Class("torn:operations")
		adopt := -1
		if choose("adopt", 0, 2) == 0 {
			adopt = nImages - 1
		}
		for i := 0; i < nImages; i++ {
			if m.tornImage(ranges, liveBefore, tolBefore, spec, i == adopt, choose, i) {
				// adopted: the history continues on the image, the operation was repeated there
				if spec.after != nil {
					spec.after()
				}
				m.quiesce()
				m.noteFiles()
				return
			}
		}
	}
	m.idx.EnableCompactions()
	if spec.after != nil {
		spec.after()
	}
	m.quiesce()
	m.noteFiles()
}

// tornImage builds one image and checks it; with adopt it switches the history over to it.
func (m *machine) tornImage(ranges []logRange, liveBefore map[int]bool, tolBefore *tolerance, spec tornSpec, adopt bool, choose cutChooser, n int) bool {
	m.gen++
	dst := filepath.Join(m.root, fmt.Sprintf("g%d", m.gen))
	if err := copyTree(m.dir, dst); err != nil {
		m.failf("harness-io", "copy: %v", err)
		return false
	}
	lbl := fmt.Sprintf("img%d-", n)
	ri := choose(lbl+"range", 0, len(ranges)-1)
	r := ranges[ri]
	var cut int64
	switch choose(lbl+"mode", 0, 3) {
	case 0:
		cut = r.from + int64(choose(lbl+"head", 0, int(min64(r.to-r.from, 12))))
	case 1:
		cut = r.to - int64(choose(lbl+"tail", 0, int(min64(r.to-r.from, 12))))
	default:
		cut = r.from + int64(choose(lbl+"any", 0, int(r.to-r.from)))
	}
	zeroFill := choose(lbl+"zerofill", 0, 3) == 0
	var desc []string
	for i, o := range ranges {
		path := filepath.Join(dst, "db", "rp", "1", "index", o.rel)
		switch {
		case i == ri:
			if err := os.Truncate(path, cut); err != nil {
				m.failf("harness-io", "truncate: %v", err)
				return false
			}
			if zeroFill && cut < o.to {
				if err := os.Truncate(path, o.to); err != nil {
					m.failf("harness-io", "extend: %v", err)
					return false
				}
			}
			desc = append(desc, fmt.Sprintf("%s[%d,%d) cut at %d zerofill=%v", o.rel, o.from, o.to, cut, zeroFill && cut < o.to))
		case choose(lbl+"other", 0, 1) == 0:
			if err := os.Truncate(path, o.from); err != nil {
				m.failf("harness-io", "truncate: %v", err)
				return false
			}
			desc = append(desc, fmt.Sprintf("%s[%d,%d) removed", o.rel, o.from, o.to))
		default:
			desc = append(desc, fmt.Sprintf("%s[%d,%d) whole", o.rel, o.from, o.to))
		}
	}
	what := fmt.Sprintf("image of a crash inside %s: %s", spec.desc, strings.Join(desc, "; "))

	img := &machine{root: m.root, gen: m.gen, dir: dst, cfg: m.cfg, live: m.live, tol: m.tol.clone(), fail: m.fail, ops: append(append([]string{}, m.ops...), "image{"+strings.Join(desc, "; ")+"}")}
	img.tol.droppedNoCascade = map[int]bool{}
	if err := img.open(); err != nil {
		m.failf("image-does-not-open", "%s: %v", what, err)
		return false
	}
	closeImg := func() {
		img.idx.Close()
		img.sf.Close()
		os.RemoveAll(dst)
	}
	rec.Eval()
	rec.Class("torn:images")
	if zeroFill && cut < r.to {
		rec.Class("torn:images-zero-filled")
	}
	if cut > r.from && cut < r.to {
		rec.Class("torn:cut-strictly-inside")
		rec.NonTrivial(m.render() + "|" + strings.Join(desc, ";"))
	}
	obs, errs := observe(img.idx, img.sf)
	if len(errs) > 0 {
		closeImg()
		m.failf("view-error", "%s: %v", what, errs)
		return false
	}
	// opening the image may have compacted its logs into index files
	img.noteFiles()
	tb := tolBefore.clone()
	tb.multiFile = tb.multiFile || img.tol.multiFile
	tb.droppedNoCascade = map[int]bool{}
	allowed := join(expected(liveBefore, tb), expected(m.live, img.tol))
	d, used := diff(obs, allowed)
	countUsed(used)
	if len(d) > 0 {
		closeImg()
		m.failf("image-"+classify(d), "%s: %d views are neither in the before- nor in the after-state of the interrupted operation: %s", what, len(d), strings.Join(d, "; "))
		return false
	}
	if !adopt {
		closeImg()
		return false
	}
	// adopt: close the original, continue on the image, repeat the operation
	rec.Class("torn:images-adopted")
	m.idx.Close()
	m.sf.Close()
	os.RemoveAll(m.dir)
	m.dir, m.sf, m.idx, m.ops = img.dir, img.sf, img.idx, img.ops
	m.tol.droppedNoCascade = map[int]bool{}
	m.tol.multiFile = m.tol.multiFile || img.tol.multiFile
	m.logf("retry")
	if !spec.apply() {
		return true
	}
	m.quiesce()
	m.noteFiles()
	m.check("after repeating the interrupted operation on the " + what)
	return true
}

func countUsed(used map[string]int) {
	for ks, n := range used {
		for _, k := range strings.Split(ks, "+") {
			for i := 0; i < n; i++ {
				rec.ExcludedKnown(k)
			}
		}
	}
}

func min64(a, b int64) int64 {
	if a < b {
		return a
	}
	return b
}
