// C14 — Index metadata queries stay correct across compaction and restart.
//
// A state machine over a real tsi1.Index (1 or 8 partitions) attached to a real series file:
// series creations (bulk and single), series drops and measurement drops following the protocol
// of the production caller (Engine.deleteSeriesRange: DropSeries(id, key, false) for each series,
// then DropMeasurementIfSeriesNotExist; or DropSeries(id, key, true)), index compactions
// (explicit and through a tiny MaxLogFileSize), reopen, and truncation of the index log (see
// trunc_test.go). The model is the set of live series; after every step all metadata views of the
// index are compared with it.
package c14_tsi

import (
	"fmt"
	"os"
	"path/filepath"
	"regexp"
	"sort"
	"strings"
	"time"

	"github.com/influxdata/influxdb/v2/models"
	"github.com/influxdata/influxdb/v2/tsdb"
	"github.com/influxdata/influxdb/v2/tsdb/index/tsi1"

	"verifharness/internal/ev"
	"verifharness/internal/scratch"
)

var rec = ev.For("C14", "fault_enumeration",
	"case = one generated history of series creations / series drops / measurement drops / compactions / reopens / log truncations on a real tsi1 index (1 or 8 partitions) over a 21-series domain (3 measurements x 7 tag sets), all metadata views compared with the live-series model after every step; or one truncated image (copy of index + series file with one partition's active log cut at a byte offset inside the last operation's append, or anywhere for 1 partition) reopened and compared; non-trivial history = at least one drop followed by a compaction that produced an index file and by a reopen, with a measurement that lost all its series and a tag value that lost all its series while its measurement stayed; non-trivial image = cut strictly inside the appended bytes; distinct by rendered history (+ cut)")

// ---- domain ----------------------------------------------------------------------------------

type seriesDef struct {
	label string
	name  []byte
	tags  models.Tags
	key   []byte // models.MakeKey(name, tags): what the engine passes as `key`
	skey  string
}

var (
	measurements = []string{"m0", "m1", "m2"}
	tagKeys      = []string{"a", "b"}
	tagValues    = map[string][]string{"a": {"x", "y"}, "b": {"w", "z"}}
	tagSets      = [][]string{nil, {"a", "x"}, {"a", "y"}, {"b", "z"}, {"a", "x", "b", "z"}, {"a", "y", "b", "z"}, {"a", "x", "b", "w"}}
	domain       []seriesDef
	byKey        = map[string]int{}
)

func init() {
	for _, m := range measurements {
		for ti, ts := range tagSets {
			mm := map[string]string{}
			for i := 0; i+1 < len(ts); i += 2 {
				mm[ts[i]] = ts[i+1]
			}
			s := seriesDef{label: fmt.Sprintf("%s/t%d", m, ti), name: []byte(m), tags: models.NewTags(mm)}
			s.key = models.MakeKey(s.name, s.tags)
			s.skey = string(s.key)
			byKey[s.skey] = len(domain)
			domain = append(domain, s)
		}
	}
}

// ---- views -----------------------------------------------------------------------------------

// views is a canonical rendering of everything the index says: item -> sorted list (booleans are
// rendered as the list ["true"] or the empty list, SeriesN as a one-element list).
type views struct {
	m map[string][]string
}

func newViews() *views { return &views{m: map[string][]string{}} }

func (v *views) set(item string, vals []string) {
	s := append([]string{}, vals...)
	sort.Strings(s)
	v.m[item] = s
}
func (v *views) flag(item string, b bool) {
	if b {
		v.m[item] = []string{"true"}
	} else {
		v.m[item] = []string{}
	}
}

// bound is the expectation for one item: lo must be contained in the observation, the
// observation must be contained in hi. hi is larger than lo only where a known finding (named in
// known) is tolerated.
type bound struct {
	lo, hi []string
	known  string
}

type bounds map[string]bound

func (b bounds) exact(item string, vals []string) {
	s := append([]string{}, vals...)
	sort.Strings(s)
	b[item] = bound{lo: s, hi: s}
}
func (b bounds) flag(item string, v bool) {
	if v {
		b.exact(item, []string{"true"})
	} else {
		b.exact(item, nil)
	}
}

// widen adds tolerated extras to an item's upper bound (only while the finding is listed open).
func (b bounds) widen(item, known string, extras []string) {
	if len(extras) == 0 || !ev.KnownOpen("C14", known) {
		return
	}
	cur := b[item]
	set := map[string]bool{}
	for _, x := range cur.hi {
		set[x] = true
	}
	hi := append([]string{}, cur.hi...)
	for _, x := range extras {
		if !set[x] {
			set[x] = true
			hi = append(hi, x)
		}
	}
	sort.Strings(hi)
	cur.hi = hi
	if cur.known == "" {
		cur.known = known
	} else if !strings.Contains(cur.known, known) {
		cur.known += "+" + known
	}
	b[item] = cur
}

func subset(a, b []string) bool {
	set := map[string]bool{}
	for _, x := range b {
		set[x] = true
	}
	for _, x := range a {
		if !set[x] {
			return false
		}
	}
	return true
}

func (bd bound) admits(obs []string) bool { return subset(bd.lo, obs) && subset(obs, bd.hi) }

var reM01 = regexp.MustCompile(`^m[01]$`)

// tolerance carries what the known findings need to know about the past of a history.
type tolerance struct {
	everKey  map[string]map[string]bool // measurement -> tag keys any created series carried
	everVal  map[string]map[string]bool // measurement|key -> values any created series carried
	everLive map[string]bool            // measurement ever had a series
	// droppedEver: series dropped from the index at some time (relevant once the partition holds
	// more than one file: a tombstone in a newer file does not hide the series in an older one
	// from MeasurementSeriesIDIterator / TagKeySeriesIDIterator)
	droppedEver map[int]bool
	multiFile   bool
	// droppedNoCascade: series dropped with DropSeries(id, key, false) since the index was opened
	// (the tag value series-id cache is not told about them)
	droppedNoCascade map[int]bool
	cacheOn          bool
}

func newTolerance(cacheOn bool) *tolerance {
	return &tolerance{everKey: map[string]map[string]bool{}, everVal: map[string]map[string]bool{}, everLive: map[string]bool{},
		droppedEver: map[int]bool{}, droppedNoCascade: map[int]bool{}, cacheOn: cacheOn}
}

func (t *tolerance) clone() *tolerance {
	c := newTolerance(t.cacheOn)
	c.multiFile = t.multiFile
	for m, ks := range t.everKey {
		c.everKey[m] = map[string]bool{}
		for k := range ks {
			c.everKey[m][k] = true
		}
	}
	for m, ks := range t.everVal {
		c.everVal[m] = map[string]bool{}
		for k := range ks {
			c.everVal[m][k] = true
		}
	}
	for m := range t.everLive {
		c.everLive[m] = true
	}
	for k := range t.droppedEver {
		c.droppedEver[k] = true
	}
	for k := range t.droppedNoCascade {
		c.droppedNoCascade[k] = true
	}
	return c
}

func (t *tolerance) noteCreate(k int) {
	s := domain[k]
	m := string(s.name)
	t.everLive[m] = true
	for _, tg := range s.tags {
		if t.everKey[m] == nil {
			t.everKey[m] = map[string]bool{}
		}
		t.everKey[m][string(tg.Key)] = true
		mk := m + "|" + string(tg.Key)
		if t.everVal[mk] == nil {
			t.everVal[mk] = map[string]bool{}
		}
		t.everVal[mk][string(tg.Value)] = true
	}
}

const (
	knownStaleTags  = "tag-keys-values-outlive-their-series"
	knownCache      = "tagvalue-cache-not-updated-by-noncascade-drop"
	knownTombstones = "series-iterators-ignore-tombstones-in-newer-files"
	knownRegex      = "regex-lists-dropped-measurements"
)

// expected derives the bounds of all views from a set of live series (and the tolerated past).
func expected(live map[int]bool, t *tolerance) bounds {
	b := bounds{}
	ms := map[string]bool{}
	mSeries := map[string][]string{}
	keys := map[string]map[string]bool{}
	kSeries := map[string][]string{}
	vals := map[string]map[string]bool{}
	vSeries := map[string][]string{}
	n := 0
	for i, s := range domain {
		if !live[i] {
			continue
		}
		n++
		m := string(s.name)
		ms[m] = true
		mSeries[m] = append(mSeries[m], s.skey)
		for _, tg := range s.tags {
			mk := m + "|" + string(tg.Key)
			if keys[m] == nil {
				keys[m] = map[string]bool{}
			}
			keys[m][string(tg.Key)] = true
			kSeries[mk] = append(kSeries[mk], s.skey)
			if vals[mk] == nil {
				vals[mk] = map[string]bool{}
			}
			vals[mk][string(tg.Value)] = true
			vSeries[mk+"|"+string(tg.Value)] = append(vSeries[mk+"|"+string(tg.Value)], s.skey)
		}
	}
	var names, re, reEver []string
	for _, m := range append(append([]string{}, measurements...), "nosuch") {
		b.flag("MeasurementExists("+m+")", ms[m])
		if ms[m] {
			names = append(names, m)
			if reM01.MatchString(m) {
				re = append(re, m)
			}
		} else if t.everLive[m] && reM01.MatchString(m) {
			reEver = append(reEver, m)
		}
	}
	b.exact("MeasurementIterator", names)
	b.exact("MeasurementNamesByRegex(^m[01]$)", re)
	b.widen("MeasurementNamesByRegex(^m[01]$)", knownRegex, reEver)
	b.exact("SeriesN", []string{fmt.Sprint(n)})
	for _, m := range measurements {
		var goneM []string
		goneK := map[string][]string{}
		goneV := map[string][]string{}
		goneT := map[string][]string{}
		for i, s := range domain {
			if live[i] || string(s.name) != m {
				continue
			}
			if t.droppedEver[i] && t.multiFile {
				goneM = append(goneM, s.skey)
				for _, tg := range s.tags {
					goneK[string(tg.Key)] = append(goneK[string(tg.Key)], s.skey)
					kv := string(tg.Key) + "|" + string(tg.Value)
					goneT[kv] = append(goneT[kv], s.skey)
				}
			}
			if t.droppedNoCascade[i] && t.cacheOn {
				for _, tg := range s.tags {
					kv := string(tg.Key) + "|" + string(tg.Value)
					goneV[kv] = append(goneV[kv], s.skey)
				}
			}
		}
		item := "MeasurementSeriesIDIterator(" + m + ")"
		b.exact(item, mSeries[m])
		b.widen(item, knownTombstones, goneM)
		var ks, staleKs []string
		for _, k := range append(append([]string{}, tagKeys...), "nokey") {
			item := "HasTagKey(" + m + "," + k + ")"
			b.flag(item, keys[m][k])
			if keys[m][k] {
				ks = append(ks, k)
			} else if t.everKey[m][k] {
				staleKs = append(staleKs, k)
				b.widen(item, knownStaleTags, []string{"true"})
			}
		}
		b.exact("TagKeyIterator("+m+")", ks)
		b.widen("TagKeyIterator("+m+")", knownStaleTags, staleKs)
		for _, k := range tagKeys {
			mk := m + "|" + k
			item := "TagKeySeriesIDIterator(" + m + "," + k + ")"
			b.exact(item, kSeries[mk])
			b.widen(item, knownTombstones, goneK[k])
			var vs, staleVs []string
			for _, val := range append(append([]string{}, tagValues[k]...), "noval") {
				item := "HasTagValue(" + m + "," + k + "," + val + ")"
				b.flag(item, vals[mk][val])
				if vals[mk][val] {
					vs = append(vs, val)
				} else if t.everVal[mk][val] {
					staleVs = append(staleVs, val)
					b.widen(item, knownStaleTags, []string{"true"})
				}
				if val != "noval" {
					item := "TagValueSeriesIDIterator(" + m + "," + k + "," + val + ")"
					b.exact(item, vSeries[mk+"|"+val])
					b.widen(item, knownCache, goneV[k+"|"+val])
					b.widen(item, knownTombstones, goneT[k+"|"+val])
				}
			}
			b.exact("TagValueIterator("+m+","+k+")", vs)
			b.widen("TagValueIterator("+m+","+k+")", knownStaleTags, staleVs)
		}
	}
	return b
}

// observe reads all views from the index. Any iterator error or duplicate is reported in errs.
func observe(idx *tsi1.Index, sf *tsdb.SeriesFile) (v *views, errs []string) {
	v = newViews()
	filtered := 0
	defer func() {
		if filtered > 0 {
			rec.ClassN("observe:ids-filtered-because-series-file-says-deleted", filtered)
		}
	}()
	bad := func(format string, a ...any) { errs = append(errs, fmt.Sprintf(format, a...)) }
	dup := func(item string, l []string) {
		seen := map[string]bool{}
		for _, s := range l {
			if seen[s] {
				bad("%s lists %q more than once (%v)", item, s, l)
			}
			seen[s] = true
		}
	}
	bytesList := func(item string, next func() ([]byte, error)) []string {
		var out []string
		for i := 0; i < 10000; i++ {
			b, err := next()
			if err != nil {
				bad("%s: %v", item, err)
				break
			}
			if b == nil {
				break
			}
			out = append(out, string(b))
		}
		dup(item, out)
		return out
	}
	idList := func(item string, itr tsdb.SeriesIDIterator, err error) []string {
		if err != nil {
			bad("%s: %v", item, err)
			return nil
		}
		if itr == nil {
			return nil
		}
		defer itr.Close()
		var out []string
		seen := map[uint64]bool{}
		for i := 0; i < 100000; i++ {
			e, err := itr.Next()
			if err != nil {
				bad("%s: %v", item, err)
				break
			}
			if e.SeriesID == 0 {
				break
			}
			if seen[e.SeriesID] {
				bad("%s lists series id %d more than once", item, e.SeriesID)
			}
			seen[e.SeriesID] = true
			// the callers' read protocol (tsdb.IndexSet: FilterUndeletedSeriesIDIterator): an id
			// that the series file reports deleted is not a series any more
			if sf.IsDeleted(e.SeriesID) {
				filtered++
				continue
			}
			kb := sf.SeriesKey(e.SeriesID)
			if kb == nil {
				out = append(out, fmt.Sprintf("<id %d unknown to the series file>", e.SeriesID))
				continue
			}
			name, tags := tsdb.ParseSeriesKey(kb)
			out = append(out, string(models.MakeKey(name, tags)))
		}
		dup(item, out)
		return out
	}

	// measurements
	mitr, err := idx.MeasurementIterator()
	if err != nil {
		bad("MeasurementIterator: %v", err)
	} else if mitr != nil {
		v.set("MeasurementIterator", bytesList("MeasurementIterator", mitr.Next))
		mitr.Close()
	} else {
		v.set("MeasurementIterator", nil)
	}
	for _, m := range append(append([]string{}, measurements...), "nosuch") {
		ok, err := idx.MeasurementExists([]byte(m))
		if err != nil {
			bad("MeasurementExists(%s): %v", m, err)
		}
		v.flag("MeasurementExists("+m+")", ok)
	}
	names, err := idx.MeasurementNamesByRegex(reM01)
	if err != nil {
		bad("MeasurementNamesByRegex: %v", err)
	}
	var re []string
	for _, n := range names {
		re = append(re, string(n))
	}
	dup("MeasurementNamesByRegex", re)
	v.set("MeasurementNamesByRegex(^m[01]$)", re)
	v.set("SeriesN", []string{fmt.Sprint(idx.SeriesN())})

	for _, m := range measurements {
		mb := []byte(m)
		itr, err := idx.MeasurementSeriesIDIterator(mb)
		v.set("MeasurementSeriesIDIterator("+m+")", idList("MeasurementSeriesIDIterator("+m+")", itr, err))
		kitr, err := idx.TagKeyIterator(mb)
		if err != nil {
			bad("TagKeyIterator(%s): %v", m, err)
		} else if kitr != nil {
			v.set("TagKeyIterator("+m+")", bytesList("TagKeyIterator("+m+")", kitr.Next))
			kitr.Close()
		} else {
			v.set("TagKeyIterator("+m+")", nil)
		}
		for _, k := range append(append([]string{}, tagKeys...), "nokey") {
			ok, err := idx.HasTagKey(mb, []byte(k))
			if err != nil {
				bad("HasTagKey(%s,%s): %v", m, k, err)
			}
			v.flag("HasTagKey("+m+","+k+")", ok)
		}
		for _, k := range tagKeys {
			kb := []byte(k)
			sitr, err := idx.TagKeySeriesIDIterator(mb, kb)
			v.set("TagKeySeriesIDIterator("+m+","+k+")", idList("TagKeySeriesIDIterator("+m+","+k+")", sitr, err))
			vitr, err := idx.TagValueIterator(mb, kb)
			item := "TagValueIterator(" + m + "," + k + ")"
			if err != nil {
				bad("%s: %v", item, err)
			} else if vitr != nil {
				v.set(item, bytesList(item, vitr.Next))
				vitr.Close()
			} else {
				v.set(item, nil)
			}
			for _, val := range append(append([]string{}, tagValues[k]...), "noval") {
				ok, err := idx.HasTagValue(mb, kb, []byte(val))
				if err != nil {
					bad("HasTagValue(%s,%s,%s): %v", m, k, val, err)
				}
				v.flag("HasTagValue("+m+","+k+","+val+")", ok)
				if val != "noval" {
					item := "TagValueSeriesIDIterator(" + m + "," + k + "," + val + ")"
					sitr, err := idx.TagValueSeriesIDIterator(mb, kb, []byte(val))
					v.set(item, idList(item, sitr, err))
				}
			}
		}
	}
	return v, errs
}

// diff lists the items whose observed value is admitted by none of the allowed expectations, and
// the known findings whose tolerance was needed.
func diff(obs *views, allowed ...bounds) (out []string, used map[string]int) {
	used = map[string]int{}
	var items []string
	for item := range allowed[0] {
		items = append(items, item)
	}
	sort.Strings(items)
	for _, item := range items {
		got, ok := obs.m[item]
		if !ok {
			out = append(out, item+": not observed")
			continue
		}
		match := false
		var wants []string
		for _, a := range allowed {
			bd := a[item]
			if bd.admits(got) {
				match = true
				if !subset(got, bd.lo) && bd.known != "" {
					used[bd.known]++
				}
				break
			}
			w := fmt.Sprintf("%v", bd.lo)
			if len(bd.hi) != len(bd.lo) {
				w += fmt.Sprintf(" (tolerated up to %v: known finding %s)", bd.hi, bd.known)
			}
			wants = append(wants, w)
		}
		if !match {
			out = append(out, fmt.Sprintf("%s = %v, want %s", item, got, strings.Join(uniq(wants), " or ")))
		}
	}
	return out, used
}

func uniq(a []string) []string {
	var out []string
	for i, s := range a {
		if i == 0 || s != a[i-1] {
			out = append(out, s)
		}
	}
	return out
}

// ---- machine ---------------------------------------------------------------------------------

type failFn func(key, detail string)

type config struct {
	partitionN uint64
	maxLog     int64 // 0 = default
	cacheSize  int   // -1 = default
}

type machine struct {
	root string
	gen  int
	dir  string // <root>/gN : holds db/_series and db/rp/1/index
	cfg  config
	sf   *tsdb.SeriesFile
	idx  *tsi1.Index
	live map[int]bool
	tol  *tolerance
	ops  []string
	fail failFn

	// classification
	hadDrop, hadIndexFile, hadReopenAfter bool
	measurementEmptied, valueEmptied      bool
	compactedAfterDrop                    bool
}

func (m *machine) sfPath() string  { return filepath.Join(m.dir, "db", "_series") }
func (m *machine) idxPath() string { return filepath.Join(m.dir, "db", "rp", "1", "index") }

func newMachine(cfg config, fail failFn) (*machine, error) {
	root, err := scratch.Dir("c14-")
	if err != nil {
		return nil, err
	}
	m := &machine{root: root, dir: filepath.Join(root, "g0"), cfg: cfg, live: map[int]bool{}, fail: fail, tol: newTolerance(cfg.cacheSize != 0)}
	if err := m.open(); err != nil {
		os.RemoveAll(root)
		return nil, err
	}
	return m, nil
}

func (m *machine) openSF() error {
	sf := tsdb.NewSeriesFile(m.sfPath())
	if err := sf.Open(); err != nil {
		return err
	}
	m.sf = sf
	return nil
}

func (m *machine) openIdx() error {
	opts := []tsi1.IndexOption{tsi1.WithPath(m.idxPath())}
	if m.cfg.maxLog > 0 {
		opts = append(opts, tsi1.WithMaximumLogFileSize(m.cfg.maxLog))
	}
	if m.cfg.cacheSize >= 0 {
		opts = append(opts, tsi1.WithSeriesIDCacheSize(m.cfg.cacheSize))
	}
	idx := tsi1.NewIndex(m.sf, "db", opts...)
	idx.PartitionN = m.cfg.partitionN
	if err := idx.Open(); err != nil {
		return err
	}
	m.idx = idx
	return nil
}

func (m *machine) open() error {
	if err := m.openSF(); err != nil {
		return err
	}
	if err := m.openIdx(); err != nil {
		m.sf.Close()
		m.sf = nil
		return err
	}
	m.quiesce()
	return nil
}

func (m *machine) closeAll() {
	done := make(chan struct{})
	go func() {
		if m.idx != nil {
			m.idx.Close()
		}
		if m.sf != nil {
			m.sf.Close()
		}
		close(done)
	}()
	select {
	case <-done:
	case <-time.After(10 * time.Second):
	}
	m.idx, m.sf = nil, nil
	os.RemoveAll(m.root)
}

func (m *machine) logf(format string, a ...any) { m.ops = append(m.ops, fmt.Sprintf(format, a...)) }
func (m *machine) render() string {
	return fmt.Sprintf("N=%d maxLog=%d cache=%d: %s", m.cfg.partitionN, m.cfg.maxLog, m.cfg.cacheSize, strings.Join(m.ops, ";"))
}
func (m *machine) failf(key, format string, a ...any) {
	m.fail(key, fmt.Sprintf(format, a...)+" | history: "+m.render())
}

// quiesce waits until no compaction is running or pending, so that every step starts from a
// settled file set (compactions are started from goroutines, also after Open). Bounded: if the
// index keeps wanting to compact, the history simply goes on.
func (m *machine) quiesce() {
	deadline := time.Now().Add(5 * time.Second)
	for i := 0; ; i++ {
		m.idx.Wait()
		pending := false
		for p := 0; p < int(m.cfg.partitionN); p++ {
			part := m.idx.PartitionAt(p)
			if part.CurrentCompactionN() > 0 || part.NeedsCompaction(false) {
				pending = true
			}
		}
		if !pending {
			return
		}
		if time.Now().After(deadline) {
			rec.Class("quiesce:gave-up-after-5s")
			return
		}
		if i%20 == 19 {
			// nothing is running but files could be compacted (e.g. compactions were disabled when
			// the log was rolled): ask, as the hourly check of the partition would
			m.idx.Compact()
		}
		time.Sleep(200 * time.Microsecond)
	}
}

func (m *machine) noteFiles() {
	for p := 0; p < int(m.cfg.partitionN); p++ {
		fs, err := m.idx.PartitionAt(p).RetainFileSet()
		if err != nil {
			continue
		}
		if len(fs.Files()) > 1 {
			m.tol.multiFile = true
		}
		for _, f := range fs.Files() {
			if f.Level() > 0 {
				m.tol.multiFile = true
				m.hadIndexFile = true
				if m.hadDrop {
					m.compactedAfterDrop = true
				}
			}
		}
		fs.Release()
	}
}

// ---- operations ------------------------------------------------------------------------------

// run performs an operation without interruption.
func (m *machine) run(spec tornSpec) {
	m.logf("%s", spec.desc)
	if !spec.apply() {
		return
	}
	if spec.after != nil {
		spec.after()
	}
	m.quiesce()
	m.noteFiles()
}

func (m *machine) createSpec(batch []int, single bool) tornSpec {
	if single {
		k := batch[0]
		s := domain[k]
		return tornSpec{desc: fmt.Sprintf("create1(%s)", s.label), apply: func() bool {
			if err := m.idx.CreateSeriesIfNotExists(s.key, s.name, s.tags.Clone()); err != nil {
				m.failf("create-error", "CreateSeriesIfNotExists(%s): %v", s.label, err)
				return false
			}
			m.live[k] = true
			m.tol.noteCreate(k)
			return true
		}}
	}
	return tornSpec{desc: fmt.Sprintf("create%v", batch), apply: func() bool {
		keys := make([][]byte, len(batch))
		names := make([][]byte, len(batch))
		tags := make([]models.Tags, len(batch))
		for i, k := range batch {
			keys[i], names[i], tags[i] = domain[k].key, domain[k].name, domain[k].tags.Clone()
		}
		if err := m.idx.CreateSeriesListIfNotExists(keys, names, tags); err != nil {
			m.failf("create-error", "CreateSeriesListIfNotExists(%v): %v", batch, err)
			return false
		}
		for _, k := range batch {
			m.live[k] = true
			m.tol.noteCreate(k)
		}
		return true
	}}
}

// noteEmptied updates the non-triviality flags for a drop of series k (called before the model
// is updated).
func (m *machine) noteEmptied(k int) {
	s := domain[k]
	othersInM := false
	for i, o := range domain {
		if i != k && m.live[i] && string(o.name) == string(s.name) {
			othersInM = true
		}
	}
	if !othersInM {
		m.measurementEmptied = true
		return
	}
	for _, t := range s.tags {
		shared := false
		for i, o := range domain {
			if i != k && m.live[i] && string(o.name) == string(s.name) && string(o.tags.Get(t.Key)) == string(t.Value) {
				shared = true
			}
		}
		if !shared {
			m.valueEmptied = true
		}
	}
}

// dropSpec: the index part of a series drop the way the engine does it (Engine.deleteSeriesRange:
// DropSeries(id,key,false) then DropMeasurementIfSeriesNotExist) or with cascade=true; lastShard:
// no other shard holds the series, so the engine afterwards deletes it from the series file.
func (m *machine) dropSpec(k int, cascade, lastShard bool) tornSpec {
	s := domain[k]
	var id uint64
	spec := tornSpec{desc: fmt.Sprintf("drop(%s,cascade=%v,sfileDelete=%v)", s.label, cascade, lastShard)}
	spec.apply = func() bool {
		if m.live[k] {
			m.noteEmptied(k)
		}
		id = m.sf.SeriesID(s.name, s.tags, nil)
		if id == 0 {
			m.failf("series-file-lost-series", "series file has no id for series %s which is being dropped", s.label)
			return false
		}
		if cascade {
			if err := m.idx.DropSeries(id, s.key, true); err != nil {
				m.failf("drop-error", "DropSeries(%d, %s, true): %v", id, s.label, err)
				return false
			}
		} else {
			if err := m.idx.DropSeries(id, s.key, false); err != nil {
				m.failf("drop-error", "DropSeries(%d, %s, false): %v", id, s.label, err)
				return false
			}
			if _, err := m.idx.DropMeasurementIfSeriesNotExist(s.name); err != nil {
				m.failf("drop-error", "DropMeasurementIfSeriesNotExist(%s): %v", s.name, err)
				return false
			}
		}
		delete(m.live, k)
		m.tol.droppedEver[k] = true
		if !cascade {
			m.tol.droppedNoCascade[k] = true
		}
		m.hadDrop, m.hadReopenAfter, m.compactedAfterDrop = true, false, false
		return true
	}
	if lastShard {
		spec.after = func() { m.deleteFromSeriesFile([]uint64{id}) }
	}
	return spec
}

func (m *machine) deleteFromSeriesFile(ids []uint64) {
	parts := map[int]struct{}{}
	for _, id := range ids {
		p, err := m.sf.DeleteSeriesID(id, tsdb.NoFlush)
		if err != nil {
			m.failf("series-file-error", "DeleteSeriesID(%d): %v", id, err)
			return
		}
		parts[p.ID()] = struct{}{}
	}
	if err := m.sf.FlushSegments(parts); err != nil {
		m.failf("series-file-error", "FlushSegments: %v", err)
	}
}

// dropMeasurementSpec: the engine's DeleteMeasurement = drop every series of the measurement
// (DropSeries(id,key,false) each), then DropMeasurementIfSeriesNotExist once.
func (m *machine) dropMeasurementSpec(name string, lastShard bool) tornSpec {
	var ks []int
	for k, s := range domain {
		if m.live[k] && string(s.name) == name {
			ks = append(ks, k)
		}
	}
	var ids []uint64
	spec := tornSpec{desc: fmt.Sprintf("dropMeasurement(%s,sfileDelete=%v)", name, lastShard)}
	spec.apply = func() bool {
		ids = ids[:0]
		for _, k := range ks {
			s := domain[k]
			id := m.sf.SeriesID(s.name, s.tags, nil)
			if id == 0 {
				m.failf("series-file-lost-series", "series file has no id for series %s which is being dropped", s.label)
				return false
			}
			if err := m.idx.DropSeries(id, s.key, false); err != nil {
				m.failf("drop-error", "DropSeries(%d, %s, false): %v", id, s.label, err)
				return false
			}
			ids = append(ids, id)
		}
		if _, err := m.idx.DropMeasurementIfSeriesNotExist([]byte(name)); err != nil {
			m.failf("drop-error", "DropMeasurementIfSeriesNotExist(%s): %v", name, err)
			return false
		}
		for _, k := range ks {
			delete(m.live, k)
			m.tol.droppedEver[k] = true
			m.tol.droppedNoCascade[k] = true
		}
		if len(ks) > 0 {
			m.measurementEmptied = true
			m.hadDrop, m.hadReopenAfter, m.compactedAfterDrop = true, false, false
		}
		return true
	}
	if lastShard {
		spec.after = func() {
			if len(ids) > 0 {
				m.deleteFromSeriesFile(ids)
			}
		}
	}
	return spec
}

func (m *machine) compact() {
	m.logf("compact")
	m.idx.Compact()
	m.quiesce()
	m.noteFiles()
}

func (m *machine) reopen(alsoSeriesFile bool) {
	m.logf("reopen(seriesFile=%v)", alsoSeriesFile)
	m.noteFiles()
	if err := m.idx.Close(); err != nil {
		m.failf("close-error", "Index.Close: %v", err)
		return
	}
	m.idx = nil
	if alsoSeriesFile {
		if err := m.sf.Close(); err != nil {
			m.failf("close-error", "SeriesFile.Close: %v", err)
			return
		}
		m.sf = nil
		if err := m.openSF(); err != nil {
			m.failf("open-error", "SeriesFile.Open: %v", err)
			return
		}
	}
	if err := m.openIdx(); err != nil {
		m.failf("open-error", "Index.Open after clean close: %v", err)
		return
	}
	m.tol.droppedNoCascade = map[int]bool{}
	m.quiesce()
	m.noteFiles()
	if m.hadDrop && m.compactedAfterDrop {
		m.hadReopenAfter = true
	}
}

// check compares all views with the model.
func (m *machine) check(what string) {
	if m.idx == nil {
		return
	}
	obs, errs := observe(m.idx, m.sf)
	if len(errs) > 0 {
		m.failf("view-error", "%s: %v", what, errs)
		return
	}
	d, used := diff(obs, expected(m.live, m.tol))
	for ks, n := range used {
		for _, k := range strings.Split(ks, "+") {
			for i := 0; i < n; i++ {
				rec.ExcludedKnown(k)
			}
		}
	}
	if len(d) > 0 {
		m.failf(classify(d), "%s: %d views differ from the live series %v: %s", what, len(d), m.liveLabels(), strings.Join(d, "; "))
	}
}

func (m *machine) liveLabels() []string {
	var out []string
	for i, s := range domain {
		if m.live[i] {
			out = append(out, s.label)
		}
	}
	return out
}

// classify derives a short root-cause key from the first differing view.
func classify(d []string) string {
	first := d[0]
	name := first
	if i := strings.IndexAny(first, "(: "); i > 0 {
		name = first[:i]
	}
	return "view-differs-" + name
}

func (m *machine) nonTrivial() bool {
	return m.hadDrop && m.hadReopenAfter && m.measurementEmptied && m.valueEmptied
}
