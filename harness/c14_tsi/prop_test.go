package c14_tsi

import (
	"strings"
	"testing"

	"pgregory.net/rapid"

	"verifharness/internal/ev"
)

func drawBatch(t *rapid.T, label string, max int) []int {
	n := rapid.IntRange(1, max).Draw(t, label+"-n")
	out := make([]int, n)
	for i := range out {
		out[i] = rapid.IntRange(0, len(domain)-1).Draw(t, label+"-k")
	}
	return out
}

func (m *machine) liveList() []int {
	var out []int
	for i := range domain {
		if m.live[i] {
			out = append(out, i)
		}
	}
	return out
}

var opKinds = []string{
	"create", "create", "create", "create",
	"create1",
	"drop", "drop", "drop", "drop",
	"dropMeasurement",
	"compact", "compact",
	"reopen", "reopen",
	"torn-create", "torn-create1", "torn-drop", "torn-drop", "torn-dropMeasurement",
}

func TestPropIndexViews(t *testing.T) {
	rec.Assume("crash model for the index log: a copy of series file + index in which one of the byte ranges appended by the interrupted operation is cut at a byte offset (optionally with the cut-off bytes present as zeros) and every other range of that operation is whole or absent; everything written by earlier, acknowledged operations is in the files (tmpfs: what reached write(2))")
	rec.Assume("for the interrupted operation every element it touches may be in its before- or after-state; the operation is then repeated and must reach the after-state")
	rec.Assume("series ids that the series file reports deleted are ignored in id iterators (the read protocol of tsdb.IndexSet)")
	nImages := 2
	if ev.Thorough() {
		nImages = 6
	}
	rec.CheckSteps(t, 130, 1000, 25, func(t *rapid.T) {
		cfg := config{
			partitionN: rapid.SampledFrom([]uint64{1, 8}).Draw(t, "partitionN"),
			maxLog:     rapid.SampledFrom([]int64{0, 0, 64, 200, 600}).Draw(t, "maxLog"),
			cacheSize:  rapid.SampledFrom([]int{-1, -1, 0, 0, 2}).Draw(t, "cache"),
		}
		var m *machine
		fail := func(key, detail string) {
			rec.Fail(t, "TestPropIndexViews", key, detail, map[string]any{"history": m.ops, "partitionN": cfg.partitionN, "maxLog": cfg.maxLog, "cache": cfg.cacheSize})
		}
		var err error
		m, err = newMachine(cfg, fail)
		if err != nil {
			t.Fatalf("harness: %v", err)
		}
		defer m.closeAll()
		t.Repeat(map[string]func(*rapid.T){
			"op": func(t *rapid.T) {
				kind := rapid.SampledFrom(opKinds).Draw(t, "kind")
				live := m.liveList()
				if strings.HasSuffix(kind, "drop") || strings.HasSuffix(kind, "dropMeasurement") {
					if len(live) == 0 {
						kind = strings.Replace(strings.Replace(kind, "dropMeasurement", "create", 1), "drop", "create", 1)
					}
				}
				torn := false
				if strings.HasPrefix(kind, "torn-") {
					torn, kind = true, strings.TrimPrefix(kind, "torn-")
				}
				var spec tornSpec
				switch kind {
				case "create":
					spec = m.createSpec(drawBatch(t, "c", 6), false)
				case "create1":
					spec = m.createSpec(drawBatch(t, "c1", 1), true)
				case "drop":
					k := live[rapid.IntRange(0, len(live)-1).Draw(t, "drop-k")]
					spec = m.dropSpec(k, rapid.Bool().Draw(t, "cascade"), rapid.Bool().Draw(t, "lastShard"))
				case "dropMeasurement":
					k := live[rapid.IntRange(0, len(live)-1).Draw(t, "dm-k")]
					spec = m.dropMeasurementSpec(string(domain[k].name), rapid.Bool().Draw(t, "lastShard"))
				}
				switch {
				case spec.apply != nil && torn:
					m.tornOp(spec, nImages, func(label string, lo, hi int) int { return rapid.IntRange(lo, hi).Draw(t, label) })
				case spec.apply != nil:
					m.run(spec)
				}
				switch kind {
				case "compact":
					m.compact()
				case "reopen":
					m.reopen(rapid.Bool().Draw(t, "alsoSeriesFile"))
				}
				m.check("after " + m.ops[len(m.ops)-1])
			},
		})
		m.reopen(true)
		m.check("after final reopen")
		rec.Eval()
		rec.Class("history:all")
		if m.hadIndexFile {
			rec.Class("history:with-index-file")
		}
		if m.measurementEmptied {
			rec.Class("history:measurement-emptied")
		}
		if m.valueEmptied {
			rec.Class("history:tag-value-emptied")
		}
		if m.cfg.partitionN == 8 {
			rec.Class("history:8-partitions")
		}
		if m.cfg.maxLog > 0 {
			rec.Class("history:tiny-max-log-file-size")
		}
		if m.nonTrivial() {
			rec.Class("history:non-trivial")
			rec.NonTrivial(m.render())
		}
	})
}
