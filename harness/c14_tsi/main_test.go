package c14_tsi

import (
	"testing"

	"verifharness/internal/ev"
)

func TestMain(m *testing.M) { ev.Main(m) }
