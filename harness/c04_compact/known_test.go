package c04_compact

import (
	"errors"
	"fmt"
	"testing"
)

// KeyUnstableBlockOrder is the known-finding key for the compactor's analogue of
// keycursor-cyclic-block-order: tsmBatchKeyIterator.merge* sorts one key's blocks with
// sort.Stable(k.blocks) where blocks.Less(a,b) = "a lies wholly before b". Overlapping blocks are
// "equal", but that equivalence is not transitive (a~b, b~c, a<c), so blocks.Less is not a strict
// weak order; beyond 20 blocks sort.Stable leaves insertion sort (which never moves a block
// across one it overlaps) for symMerge, and an older file's block can end up after a newer
// file's overlapping block. combine() merges in slice order, later wins: the older value is
// written to the compacted file and the newest one is gone for good.
const KeyUnstableBlockOrder = "compactor-unstable-block-order"

// knownUnstableLayout: 7 files (generations 1..7), 30 blocks of the integer key, value = 100*file.
// Timestamp -26 is held by files 1,3,4,5 and 6; file 6 is the newest holder.
func knownUnstableLayout() layout {
	raw := [][][]int64{
		{{-30}, {-29}, {-26}, {-24}},
		{{-29}, {-27}, {-25}, {-23}},
		{{-30}, {-28}, {-26}, {-25}, {-23}},
		{{-30}, {-27}, {-26}, {-24}, {-22}},
		{{-29}, {-27}, {-26}, {-24}},
		{{-30}, {-27, -26}, {-24}, {-22}},
		{{-29}, {-27}, {-24}, {-23}},
	}
	l := layout{Regime: "raw", Shape: "known"}
	for i, f := range raw {
		fs := fileSpec{Gen: i + 1, Seq: 1}
		kb := keyBlocks{Key: 2}
		for _, b := range f {
			var blk []pt
			for _, ts := range b {
				blk = append(blk, pt{T: ts, V: (i + 1) * 100})
			}
			kb.Blocks = append(kb.Blocks, blk)
		}
		fs.Keys = []keyBlocks{kb}
		l.Files = append(l.Files, fs)
	}
	return l
}

// TestKnown_compactor_unstable_block_order: CompactFull (and CompactFast) of the 7 files writes
// file 4's value at t=-26 although file 6 holds that timestamp too.
func TestKnown_compactor_unstable_block_order(t *testing.T) {
	l := knownUnstableLayout()
	reproduced := false
	var details []string
	var cj any
	for _, mode := range []string{"full", "fast"} {
		key, detail, c, err := runCompactionStrict(l, mode, 1000, 0, len(l.Files)-1)
		if errors.Is(err, errCompactionStuck) {
			rec.Inconclusive("TestKnown_compactor_unstable_block_order: compaction did not finish within the watchdog deadline")
			return
		}
		if err != nil {
			t.Fatal(err)
		}
		if key == KeyNoTermination {
			rec.Fail(t, "TestKnown_compactor_unstable_block_order", key, mode+": "+detail, c)
		}
		if key != "" {
			reproduced = true
			cj = c
			details = append(details, fmt.Sprintf("%s: %s: %s", mode, key, detail))
		}
	}
	what := fmt.Sprintf("7 TSM files (generations 1..7, no tombstones) holding 30 one/two-point blocks of key %q, value = 100*file-5000; timestamp -26 is held by files 1,3,4,5,6: "+
		"Compactor.CompactFull/CompactFast (pointsPerBlock 1000) write an older file's value at t=-26 instead of file 6's -4400 "+
		"(sort.Stable(k.blocks) with the non-transitive blocks.Less reorders overlapping blocks of different files once a key has more than 20 blocks) %v", keyDefs[2].Name, details)
	rec.Known(t, "TestKnown_compactor_unstable_block_order", KeyUnstableBlockOrder, reproduced, what, cj)
}
