package c04_compact

import (
	"fmt"
	"testing"
	"time"
)

func TestPerfScratch(t *testing.T) {
	for _, order := range []string{"ascending", "reverse"} {
		const nFiles, nBlocks = 10, 2000
		l := layout{Regime: "raw", Shape: "perf"}
		for f := 0; f < nFiles; f++ {
			slot := f
			if order == "reverse" {
				slot = nFiles - 1 - f
			}
			kb := keyBlocks{Key: 2}
			for b := 0; b < nBlocks; b++ {
				ts := int64(slot*nBlocks+b) * 10
				kb.Blocks = append(kb.Blocks, []pt{{T: ts, V: f}, {T: ts + 1, V: f}})
			}
			l.Files = append(l.Files, fileSpec{Gen: f + 1, Seq: 1, Keys: []keyBlocks{kb}})
		}
		st := time.Now()
		key, detail, _, _, err := runCompactionClassified(l, "full", 1000, 0, nFiles-1, false, 1)
		fmt.Printf("PERF compact order=%s blocks=%d total(incl. build+verify)=%v key=%q %s err=%v\n", order, nFiles*nBlocks, time.Since(st), key, detail, err)
	}
}
