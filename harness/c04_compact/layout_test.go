package c04_compact

import (
	"context"
	"fmt"
	"math"
	"math/bits"
	"os"
	"path/filepath"
	"sort"
	"strings"

	"github.com/influxdata/influxdb/v2/models"
	"github.com/influxdata/influxdb/v2/tsdb"
	"github.com/influxdata/influxdb/v2/tsdb/engine/tsm1"
	"pgregory.net/rapid"
)

// The input model: a directory of TSM files over a fixed set of five keys (one per value type,
// the key fixes the type as the engine's field-type check does). Within one file keys are
// sorted and a key's blocks are sorted and non-overlapping (what TSMWriter / compaction
// guarantee); across files anything goes. Each file carries its own tombstones.

type keyDef struct {
	Name string
	Typ  string
}

var keyDefs = []keyDef{
	{"cpu,host=A#!~#b", "boolean"},
	{"cpu,host=A#!~#f", "float"},
	{"cpu,host=A#!~#i", "integer"},
	{"cpu,host=B#!~#s", "string"},
	{"mem,host=A#!~#u", "unsigned"},
}

const domain = 60 // timestamp indexes 0..domain

type pt struct {
	T int64 `json:"t"`
	V int   `json:"v"`
}

type tomb struct {
	Min  int64  `json:"min"`
	Max  int64  `json:"max"`
	Keys []int  `json:"keys"` // indexes into keyDefs, ascending
	Kind string `json:"kind"`
	Via  string `json:"via"` // "range" | "delete"
}

func (x tomb) hits(key int, ts int64) bool {
	for _, k := range x.Keys {
		if k == key {
			return x.Min <= ts && ts <= x.Max
		}
	}
	return false
}

type keyBlocks struct {
	Key    int    `json:"key"`
	Blocks [][]pt `json:"blocks"`
}

type fileSpec struct {
	Gen   int         `json:"gen"`
	Seq   int         `json:"seq"`
	Keys  []keyBlocks `json:"keys"` // ascending key index
	Tombs []tomb      `json:"tombs,omitempty"`
}

func (f fileSpec) name() string { return fmt.Sprintf("%09d-%09d.tsm", f.Gen, f.Seq) }

type layout struct {
	Regime    string     `json:"regime"`
	Shape     string     `json:"shape"`
	LiveTombs bool       `json:"live_tombstones"`
	Files     []fileSpec `json:"files"`
}

func tsOf(regime string, i int) int64 {
	switch regime {
	case "spread":
		return 1_600_000_000_000_000_000 + int64(i)*1_000_000_007
	case "extreme":
		if i <= 0 {
			return models.MinNanoTime
		}
		if i >= domain {
			return models.MaxNanoTime
		}
		return int64(i-domain/2) * 1000
	default:
		return int64(i - domain/2)
	}
}

func typed(typ string, v int) any {
	switch typ {
	case "float":
		return float64(v) * 0.5
	case "integer":
		return int64(v) - 5000
	case "unsigned":
		return uint64(v)
	case "string":
		return fmt.Sprintf("s%d", v)
	default:
		return bits.OnesCount32(uint32(v)*2654435761)&1 == 1
	}
}

// ---- generator ------------------------------------------------------------------------------

// genBlocks draws up to nBlocks sorted, non-overlapping blocks starting at index start; block
// sizes are drawn from sizes.
func genBlocks(t *rapid.T, regime string, fileIdx, start, nBlocks int, sizes []int, maxGap, maxBlockGap int) [][]pt {
	var out [][]pt
	pos := start
	for b := 0; b < nBlocks && pos <= domain; b++ {
		n := rapid.SampledFrom(sizes).Draw(t, "npts")
		var blk []pt
		for k := 0; k < n && pos <= domain; k++ {
			blk = append(blk, pt{T: tsOf(regime, pos), V: (fileIdx+1)*100 + pos})
			pos += rapid.IntRange(1, maxGap).Draw(t, "gap")
		}
		out = append(out, blk)
		pos += rapid.IntRange(0, maxBlockGap).Draw(t, "blockgap")
	}
	return out
}

func genTomb(t *rapid.T, regime string, f fileSpec) tomb {
	x := tomb{Via: "range"}
	// keys: mostly one key of the file, sometimes several / all / one the file does not hold
	switch rapid.IntRange(0, 5).Draw(t, "tombkeysel") {
	case 0:
		x.Keys = []int{0, 1, 2, 3, 4}
	case 1:
		a := rapid.IntRange(0, 4).Draw(t, "tombkeya")
		b := rapid.IntRange(a, 4).Draw(t, "tombkeyb")
		for k := a; k <= b; k++ {
			x.Keys = append(x.Keys, k)
		}
	default:
		x.Keys = []int{f.Keys[rapid.IntRange(0, len(f.Keys)-1).Draw(t, "tombkey")].Key}
	}
	// ranges are derived from a block of one targeted key when the file holds it
	var blocks [][]pt
	for _, kb := range f.Keys {
		if kb.Key == x.Keys[0] {
			blocks = kb.Blocks
		}
	}
	kinds := []string{"arbitrary"}
	if len(blocks) > 0 {
		kinds = []string{"block-full", "first-point", "last-point", "half-low", "half-high", "interior", "span", "open-low", "open-high", "everything", "arbitrary", "half-low", "half-high", "interior"}
	}
	x.Kind = rapid.SampledFrom(kinds).Draw(t, "tombkind")
	var b []pt
	bi := 0
	if len(blocks) > 0 {
		bi = rapid.IntRange(0, len(blocks)-1).Draw(t, "tombblock")
		b = blocks[bi]
	}
	mid := func(b []pt) int64 { return b[len(b)/2].T }
	switch x.Kind {
	case "block-full":
		x.Min, x.Max = b[0].T, b[len(b)-1].T
	case "first-point":
		x.Min, x.Max = b[0].T, b[0].T
	case "last-point":
		x.Min, x.Max = b[len(b)-1].T, b[len(b)-1].T
	case "half-low":
		x.Min, x.Max = b[0].T, mid(b)
	case "half-high":
		x.Min, x.Max = mid(b), b[len(b)-1].T
	case "interior":
		if len(b) >= 3 {
			x.Min, x.Max = b[1].T, b[len(b)-2].T
		} else {
			x.Min, x.Max = b[0].T, b[0].T
		}
	case "span":
		nb := blocks[(bi+1)%len(blocks)]
		x.Min, x.Max = mid(b), mid(nb)
		if x.Min > x.Max {
			x.Min, x.Max = x.Max, x.Min
		}
	case "open-low":
		x.Min, x.Max = math.MinInt64, mid(b)
	case "open-high":
		x.Min, x.Max = mid(b), math.MaxInt64
	case "everything":
		x.Min, x.Max = math.MinInt64, math.MaxInt64
		x.Via = rapid.SampledFrom([]string{"range", "delete"}).Draw(t, "tombvia")
	default:
		i := rapid.IntRange(-1, domain+1).Draw(t, "tomblo")
		j := rapid.IntRange(i, min(i+rapid.IntRange(0, 15).Draw(t, "tomblen"), domain+1)).Draw(t, "tombhi")
		x.Min, x.Max = tsOf(regime, i), tsOf(regime, j)
	}
	return x
}

// blockSizes returns the block sizes to draw from for a points-per-block setting: 1..ppb (capped
// at 6) with the full size over-represented; with oversized=true also sizes above ppb.
func blockSizes(ppb int, oversized bool) []int {
	top := ppb
	if top > 6 {
		top = 6
	}
	var s []int
	for n := 1; n <= top; n++ {
		s = append(s, n)
	}
	s = append(s, top, top)
	if oversized {
		s = append(s, ppb+1, ppb+2, ppb+3)
	}
	return s
}

func genLayout(t *rapid.T, ppb int, oversized bool) layout {
	l := layout{
		Regime:    rapid.SampledFrom([]string{"small", "small", "spread", "extreme"}).Draw(t, "regime"),
		Shape:     rapid.SampledFrom([]string{"few", "few", "few", "hot-key"}).Draw(t, "shape"),
		LiveTombs: rapid.Bool().Draw(t, "livetombs"),
	}
	sizes := blockSizes(ppb, oversized)
	nFiles := rapid.SampledFrom([]int{1, 2, 2, 3, 3, 4, 4, 5, 6}).Draw(t, "nfiles")
	hot := -1
	var hotSizes []int
	for _, n := range []int{1, 1, 2, 2, 3} {
		if n <= ppb || oversized {
			hotSizes = append(hotSizes, n)
		}
	}
	if l.Shape == "hot-key" {
		// one key with 21..60+ blocks in total: beyond sort.Stable's insertion-sort block size (20)
		nFiles = rapid.IntRange(3, 8).Draw(t, "nfiles")
		hot = rapid.IntRange(0, 4).Draw(t, "hotkey")
	}
	gen, seq := 0, 0
	for i := 0; i < nFiles; i++ {
		if i > 0 && rapid.IntRange(0, 3).Draw(t, "samegen") == 0 {
			seq++
		} else {
			gen += rapid.IntRange(1, 2).Draw(t, "gengap")
			seq = rapid.IntRange(1, 3).Draw(t, "seq")
		}
		f := fileSpec{Gen: gen, Seq: seq}
		for k := range keyDefs {
			switch {
			case k == hot:
				nb := rapid.IntRange(4, 12).Draw(t, "hotblocks")
				f.Keys = append(f.Keys, keyBlocks{Key: k, Blocks: genBlocks(t, l.Regime, i, rapid.IntRange(0, 20).Draw(t, "start"), nb, hotSizes, 2, 3)})
			case rapid.IntRange(0, 9).Draw(t, "haskey") < 6:
				nb := rapid.SampledFrom([]int{1, 1, 2, 2, 3, 4}).Draw(t, "nblocks")
				if hot >= 0 {
					nb = 1
				}
				bs := genBlocks(t, l.Regime, i, rapid.IntRange(0, 30).Draw(t, "start"), nb, sizes, 3, 4)
				if len(bs) > 0 {
					f.Keys = append(f.Keys, keyBlocks{Key: k, Blocks: bs})
				}
			}
		}
		if len(f.Keys) == 0 {
			k := rapid.IntRange(0, 4).Draw(t, "forcedkey")
			f.Keys = []keyBlocks{{Key: k, Blocks: genBlocks(t, l.Regime, i, rapid.IntRange(0, 30).Draw(t, "start"), 1, sizes, 3, 4)}}
		}
		nt := rapid.SampledFrom([]int{0, 0, 0, 1, 1, 2, 3}).Draw(t, "ntombs")
		for k := 0; k < nt; k++ {
			f.Tombs = append(f.Tombs, genTomb(t, l.Regime, f))
		}
		l.Files = append(l.Files, f)
	}
	return l
}

// ---- reference model ------------------------------------------------------------------------

// live returns, per key index, the file's points that survive the file's own tombstones.
func (f fileSpec) live() map[int][]pt {
	out := map[int][]pt{}
	for _, kb := range f.Keys {
		for _, b := range kb.Blocks {
		P:
			for _, p := range b {
				for _, x := range f.Tombs {
					if x.hits(kb.Key, p.T) {
						continue P
					}
				}
				out[kb.Key] = append(out[kb.Key], p)
			}
		}
	}
	return out
}

// referenceMerge folds files in the given (path) order: a later file overrides an earlier one on
// equal timestamps; each file's tombstones remove that file's points only. Keys without a live
// point are absent. Also returns per (key, ts) all live versions, oldest first.
func referenceMerge(files []fileSpec) (map[int][]pt, map[int]map[int64][]int) {
	acc := map[int]map[int64][]int{}
	for _, f := range files {
		for k, ps := range f.live() {
			if acc[k] == nil {
				acc[k] = map[int64][]int{}
			}
			for _, p := range ps {
				acc[k][p.T] = append(acc[k][p.T], p.V)
			}
		}
	}
	out := map[int][]pt{}
	for k, m := range acc {
		ps := make([]pt, 0, len(m))
		for ts, vs := range m {
			ps = append(ps, pt{T: ts, V: vs[len(vs)-1]})
		}
		sort.Slice(ps, func(i, j int) bool { return ps[i].T < ps[j].T })
		out[k] = ps
	}
	return out, acc
}

// ---- materialisation ------------------------------------------------------------------------

func tombKeys(x tomb) [][]byte {
	var out [][]byte
	for _, k := range x.Keys {
		out = append(out, []byte(keyDefs[k].Name))
	}
	return out
}

type deleter interface {
	DeleteRange(keys [][]byte, min, max int64) error
	Delete(keys [][]byte) error
}

func applyTombs(r deleter, f fileSpec) error {
	for _, x := range f.Tombs {
		var err error
		if x.Via == "delete" {
			err = r.Delete(tombKeys(x))
		} else {
			err = r.DeleteRange(tombKeys(x), x.Min, x.Max)
		}
		if err != nil {
			return err
		}
	}
	return nil
}

func writeFile(dir string, f fileSpec) error {
	fd, err := os.Create(filepath.Join(dir, f.name()))
	if err != nil {
		return err
	}
	w, err := tsm1.NewTSMWriter(fd)
	if err != nil {
		fd.Close()
		return err
	}
	for _, kb := range f.Keys {
		kd := keyDefs[kb.Key]
		for _, b := range kb.Blocks {
			vals := make(tsm1.Values, 0, len(b))
			for _, p := range b {
				vals = append(vals, tsm1.NewValue(p.T, typed(kd.Typ, p.V)))
			}
			if err := w.Write([]byte(kd.Name), vals); err != nil {
				return err
			}
		}
	}
	if err := w.WriteIndex(); err != nil {
		return err
	}
	return w.Close()
}

// open writes the layout into dir and returns an opened FileStore over it.
func (l layout) open(dir string) (*tsm1.FileStore, error) {
	for _, f := range l.Files {
		if err := writeFile(dir, f); err != nil {
			return nil, fmt.Errorf("write %s: %w", f.name(), err)
		}
		if !l.LiveTombs && len(f.Tombs) > 0 {
			fd, err := os.Open(filepath.Join(dir, f.name()))
			if err != nil {
				return nil, err
			}
			r, err := tsm1.NewTSMReader(fd)
			if err != nil {
				fd.Close()
				return nil, err
			}
			if err := applyTombs(r, f); err != nil {
				r.Close()
				return nil, err
			}
			if err := r.Close(); err != nil {
				return nil, err
			}
		}
	}
	fs := tsm1.NewFileStore(dir, tsdb.EngineTags{})
	if err := fs.Open(context.Background()); err != nil {
		return nil, err
	}
	if l.LiveTombs {
		byName := map[string]tsm1.TSMFile{}
		for _, r := range fs.Files() {
			byName[filepath.Base(r.Path())] = r
		}
		for _, f := range l.Files {
			if len(f.Tombs) == 0 {
				continue
			}
			r := byName[f.name()]
			if r == nil {
				fs.Close()
				return nil, fmt.Errorf("file %s not in file store", f.name())
			}
			if err := applyTombs(r, f); err != nil {
				fs.Close()
				return nil, err
			}
		}
	}
	return fs, nil
}

func (l layout) canon() string {
	var sb strings.Builder
	fmt.Fprintf(&sb, "%s/%v|", l.Regime, l.LiveTombs)
	for _, f := range l.Files {
		fmt.Fprintf(&sb, "%d-%d:", f.Gen, f.Seq)
		for _, kb := range f.Keys {
			fmt.Fprintf(&sb, "k%d", kb.Key)
			for _, b := range kb.Blocks {
				sb.WriteByte('[')
				for _, p := range b {
					fmt.Fprintf(&sb, "%d=%d,", p.T, p.V)
				}
				sb.WriteByte(']')
			}
		}
		for _, x := range f.Tombs {
			fmt.Fprintf(&sb, "x%d..%d/%v/%s", x.Min, x.Max, x.Keys, x.Via)
		}
		sb.WriteByte(';')
	}
	return sb.String()
}
