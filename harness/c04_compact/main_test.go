package c04_compact

import (
	"runtime"
	"testing"

	"verifharness/internal/ev"
)

func TestMain(m *testing.M) {
	// The work is dominated by creating small TSM files (2 MB of writer buffers each); a few Ps
	// keep cacheKeyIterator's per-CPU encoders concurrent without paying for 16 idle ones.
	runtime.GOMAXPROCS(4)
	ev.Main(m)
}
