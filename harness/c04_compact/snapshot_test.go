package c04_compact

import (
	"context"
	"errors"
	"fmt"
	"os"
	"path/filepath"
	"sort"
	"strings"
	"testing"

	"github.com/influxdata/influxdb/v2/tsdb"
	"github.com/influxdata/influxdb/v2/tsdb/engine/tsm1"
	"go.uber.org/zap"
	"pgregory.net/rapid"

	"verifharness/internal/scratch"
)

// ---- Compactor.WriteSnapshot ------------------------------------------------------------------

type cacheWrite struct {
	Key int  `json:"key"`
	Pts []pt `json:"pts"` // in write order (unsorted, duplicates allowed)
}

type snapshotCase struct {
	Existing []fileSpec     `json:"existing_files,omitempty"`
	Batches  [][]cacheWrite `json:"batches"`
	Outputs  *output        `json:"outputs,omitempty"`
}

func genSnapshotCase(t *rapid.T) snapshotCase {
	var sc snapshotCase
	offset := rapid.SampledFrom([]int64{-1500, 0, 1_600_000_000_000_000_000}).Draw(t, "offset")
	step := rapid.SampledFrom([]int64{1, 1, 1_000_000_007}).Draw(t, "step")
	ts := func(i int) int64 { return offset + int64(i)*step }
	// optionally files already in the shard: the snapshot must get a later generation
	for i, n := 0, rapid.SampledFrom([]int{0, 0, 1, 2}).Draw(t, "existing"); i < n; i++ {
		g := 1 + i*rapid.IntRange(1, 3).Draw(t, "gengap")
		f := fileSpec{Gen: g + i, Seq: rapid.IntRange(1, 4).Draw(t, "seq")}
		f.Keys = []keyBlocks{{Key: rapid.IntRange(0, 4).Draw(t, "exkey"), Blocks: [][]pt{{{T: ts(0), V: 7}}}}}
		sc.Existing = append(sc.Existing, f)
	}
	big := -1
	if rapid.Bool().Draw(t, "big") {
		big = rapid.IntRange(0, 4).Draw(t, "bigkey")
	}
	nb := rapid.IntRange(1, 4).Draw(t, "nbatches")
	seq := 0
	for b := 0; b < nb; b++ {
		var batch []cacheWrite
		for k := range keyDefs {
			switch {
			case k == big:
				// 1001..2600 points over the batches: interleaved / reversed / overlapping runs
				n := rapid.IntRange(200, 1200).Draw(t, "bign")
				if b == 0 {
					n = rapid.IntRange(1001, 1600).Draw(t, "bign0")
				}
				start := rapid.IntRange(0, 1200).Draw(t, "bigstart")
				stride := rapid.IntRange(1, 2).Draw(t, "bigstride")
				rev := rapid.Bool().Draw(t, "bigrev")
				w := cacheWrite{Key: k}
				for i := 0; i < n; i++ {
					j := i
					if rev {
						j = n - 1 - i
					}
					seq++
					w.Pts = append(w.Pts, pt{T: ts(start + j*stride), V: seq})
				}
				batch = append(batch, w)
			case rapid.IntRange(0, 9).Draw(t, "haskey") < 6:
				w := cacheWrite{Key: k}
				for i, n := 0, rapid.IntRange(1, 8).Draw(t, "npts"); i < n; i++ {
					seq++
					w.Pts = append(w.Pts, pt{T: ts(rapid.IntRange(0, 12).Draw(t, "idx")), V: seq})
				}
				batch = append(batch, w)
			}
		}
		if len(batch) == 0 {
			seq++
			batch = []cacheWrite{{Key: rapid.IntRange(0, 4).Draw(t, "forcedkey"), Pts: []pt{{T: ts(rapid.IntRange(0, 12).Draw(t, "idx")), V: seq}}}}
		}
		sc.Batches = append(sc.Batches, batch)
	}
	return sc
}

// model: last write wins per (key, timestamp); returns ascending points per key.
func (sc snapshotCase) model() (map[int][]pt, bool) {
	m := map[int]map[int64]int{}
	interesting := false
	for _, b := range sc.Batches {
		for _, w := range b {
			if m[w.Key] == nil {
				m[w.Key] = map[int64]int{}
			}
			last := int64(0)
			for i, p := range w.Pts {
				if _, dup := m[w.Key][p.T]; dup || (i > 0 && p.T <= last) {
					interesting = true
				}
				last = p.T
				m[w.Key][p.T] = p.V
			}
		}
	}
	out := map[int][]pt{}
	for k, mm := range m {
		for ts, v := range mm {
			out[k] = append(out[k], pt{T: ts, V: v})
		}
		sort.Slice(out[k], func(i, j int) bool { return out[k][i].T < out[k][j].T })
		if len(out[k]) > 1000 {
			interesting = true
		}
	}
	return out, interesting
}

func runSnapshot(sc snapshotCase) (string, string, any, error) {
	dir, err := scratch.Dir("c04s-")
	if err != nil {
		return "", "", nil, err
	}
	defer os.RemoveAll(dir)
	maxGen := 0
	for _, f := range sc.Existing {
		if err := writeFile(dir, f); err != nil {
			return "", "", nil, err
		}
		if f.Gen > maxGen {
			maxGen = f.Gen
		}
	}
	fs := tsm1.NewFileStore(dir, tsdb.EngineTags{})
	if err := fs.Open(context.Background()); err != nil {
		return "", "", nil, err
	}
	defer fs.Close()
	c := tsm1.NewCompactor()
	c.Dir = dir
	c.FileStore = fs
	c.Open()
	defer c.Close()

	cache := tsm1.NewCache(0, tsdb.EngineTags{})
	for _, b := range sc.Batches {
		vals := map[string][]tsm1.Value{}
		for _, w := range b {
			kd := keyDefs[w.Key]
			for _, p := range w.Pts {
				vals[kd.Name] = append(vals[kd.Name], tsm1.NewValue(p.T, typed(kd.Typ, p.V)))
			}
		}
		if err := cache.WriteMulti(vals); err != nil {
			return "", "", nil, fmt.Errorf("cache write: %w", err)
		}
	}
	// the engine's protocol (Engine.doWriteSnapshot): Snapshot, Deduplicate, WriteSnapshot
	snap, err := cache.Snapshot()
	if err != nil {
		return "", "", nil, err
	}
	snap.Deduplicate()
	files, err := c.WriteSnapshot(snap, zap.NewNop())
	if err != nil {
		return "snapshot-error", err.Error(), sc, nil
	}
	want, _ := sc.model()
	if len(files) != 1 {
		return "output-count", fmt.Sprintf("%d snapshot files %v for a cache of a few thousand points", len(files), files), sc, nil
	}
	base := filepath.Base(files[0])
	if filepath.Dir(files[0]) != dir || !strings.HasSuffix(base, ".tsm.tmp") {
		return "output-name", fmt.Sprintf("snapshot written to %s", files[0]), sc, nil
	}
	g, s, err := tsm1.DefaultParseFileName(base)
	if err != nil {
		return "output-name", fmt.Sprintf("%s: %v", base, err), sc, nil
	}
	if g <= maxGen || s != 1 {
		return "output-name", fmt.Sprintf("snapshot file %s: generation %d sequence %d; existing files reach generation %d (a snapshot is newer than every file, sequence 1)", base, g, s, maxGen), sc, nil
	}
	out, key, detail, err := readOutputs(files)
	if err != nil {
		return "", "", nil, err
	}
	sc.Outputs = out
	if key != "" {
		return key, detail, sc, nil
	}
	if key, detail := validate(out, tsdb.DefaultMaxPointsPerBlock, nil); key != "" {
		return key, detail, sc, nil
	}
	if key, detail := compareContent(out, want); key != "" {
		sc.Outputs = nil // thousands of points: keep the report small
		return key, detail, sc, nil
	}
	return "", "", nil, nil
}

func TestPropWriteSnapshot(t *testing.T) {
	rec.Assume("WriteSnapshot is called as Engine.doWriteSnapshot does: Cache.Snapshot(), snapshot.Deduplicate(), Compactor.WriteSnapshot(snapshot); a later cache write overrides an earlier one on equal timestamps")
	rec.Check(t, 250, 4000, func(rt *rapid.T) {
		sc := genSnapshotCase(rt)
		want, interesting := sc.model()
		key, detail, cj, err := runSnapshot(sc)
		if err != nil {
			rt.Fatalf("harness error: %v", err)
		}
		rec.Eval()
		rec.Class("mode:snapshot")
		bigKey := false
		total := 0
		for _, ps := range want {
			total += len(ps)
			if len(ps) > 1000 {
				bigKey = true
			}
		}
		if bigKey {
			rec.Class("snapshot:key-with-more-than-1000-points")
		} else {
			rec.Class("snapshot:small-keys-only")
		}
		if len(sc.Existing) > 0 {
			rec.Class("snapshot:shard-already-holds-files")
		}
		if interesting {
			var sb strings.Builder
			for _, b := range sc.Batches {
				for _, w := range b {
					fmt.Fprintf(&sb, "k%d:%d@%d..;", w.Key, len(w.Pts), w.Pts[0].T)
					if len(w.Pts) <= 8 {
						fmt.Fprintf(&sb, "%v", w.Pts)
					} else {
						fmt.Fprintf(&sb, "%v", w.Pts[len(w.Pts)-1])
					}
				}
				sb.WriteByte('|')
			}
			rec.NonTrivial("snapshot|" + sb.String())
		}
		if key != "" {
			rec.Fail(rt, "TestPropWriteSnapshot", key, "WriteSnapshot: "+detail, cj)
		}
	})
}

// ---- roll-over at 65535 blocks per key ----------------------------------------------------------

// TestRollOverMaxBlocks: two files whose float key interleaves (even/odd timestamps, 35 blocks
// of 1000 points each) and a small unsigned key sorting after it; CompactFull with
// pointsPerBlock=1 must produce 70000 one-point blocks, i.e. roll over to a second output file
// after 65535 blocks of the key (ErrMaxBlocksExceeded), with the key continuing in the next file.
// The 2 GB size roll-over is not reachable within any budget and is not covered.
func TestRollOverMaxBlocks(t *testing.T) {
	l := layout{Regime: "raw", Shape: "rollover"}
	for fi := 0; fi < 2; fi++ {
		f := fileSpec{Gen: fi + 1, Seq: 1}
		kb := keyBlocks{Key: 1}
		for b := 0; b < 35; b++ {
			blk := make([]pt, 0, 1000)
			for i := 0; i < 1000; i++ {
				n := b*1000 + i
				blk = append(blk, pt{T: int64(2*n + fi), V: 2*n + fi})
			}
			kb.Blocks = append(kb.Blocks, blk)
		}
		f.Keys = []keyBlocks{kb, {Key: 4, Blocks: [][]pt{{{T: int64(fi), V: fi + 1}, {T: 10, V: fi + 10}}}}}
		l.Files = append(l.Files, f)
	}
	key, detail, cj, _, err := runCompactionClassified(l, "full", 1, 0, 1, false, 2)
	if errors.Is(err, errCompactionStuck) {
		rec.Inconclusive("TestRollOverMaxBlocks: compaction did not finish within the watchdog deadline and was aborted")
		return
	}
	if err != nil {
		t.Fatal(err)
	}
	rec.Eval()
	rec.Class("roll-over:65535-blocks-per-key")
	rec.NonTrivial("rollover-70000-blocks")
	if key != "" {
		if cc, ok := cj.(compactCase); ok {
			cc.Layout, cc.Outputs, cc.Want = layout{Shape: "rollover (2 files x 35 blocks x 1000 points, interleaved)"}, nil, nil
			cj = cc
		}
		rec.Fail(t, "TestRollOverMaxBlocks", key, "roll-over compaction (pointsPerBlock=1, 70000 points of one key): "+detail, cj)
	}
}
