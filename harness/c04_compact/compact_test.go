// C04 — Compaction preserves the logical content of TSM files.
//
// Generator: 1..8 TSM files written with tsm1.TSMWriter over five keys (one per value type), per
// key sorted non-overlapping blocks inside a file, arbitrary overlaps and duplicate timestamps
// across files, block sizes around the requested points-per-block, a "hot key" regime with
// 21..90 blocks of one key (beyond sort.Stable's insertion-sort run of 20), per-file tombstones
// (DeleteRange / Delete, applied before FileStore.Open or through the open readers), three
// timestamp regimes. Operation: Compactor.CompactFull / CompactFast over all files or a
// contiguous run of whole generations with pointsPerBlock in {2,3,5,1000}; Compactor.WriteSnapshot
// of a generated Cache.
// Oracle: the harness' reference merge (fold inputs in path order, later file wins, every file's
// own tombstones applied to that file's points) compared with the outputs read back through
// TSMReader, plus validity predicates on the output files. Every compaction runs in its own
// goroutine under a watchdog: a call that spins (CPU-time criterion, see runCompactionClassified)
// is abandoned and reported as compaction-does-not-terminate, so that neither the run nor rapid's
// shrinking of another failure can be wedged by it.
package c04_compact

import (
	"errors"
	"fmt"
	"os"
	"path/filepath"
	"sort"
	"strings"
	"sync"
	"sync/atomic"
	"syscall"
	"testing"
	"time"

	"github.com/influxdata/influxdb/v2/tsdb/engine/tsm1"
	"go.uber.org/zap"
	"pgregory.net/rapid"

	"verifharness/internal/ev"
	"verifharness/internal/scratch"
)

const prop = "C04"

var rec = ev.For(prop, "exploration",
	"case = (set of TSM input files over 5 typed keys with blocks and tombstones, compaction mode full|fast, pointsPerBlock, subset of generations) or (cache contents, WriteSnapshot); "+
		"non-trivial = at least two compacted files share a key with overlapping time ranges and a duplicate timestamp carrying different values, or a tombstone removes some but not all points of a block (snapshot: a key with out-of-order or duplicate writes, or more than 1000 points); "+
		"distinct by canonical rendering of inputs and parameters")

type obs struct {
	T int64 `json:"t"`
	V any   `json:"v"`
}

type outBlock struct {
	File string `json:"file"`
	Min  int64  `json:"min"`
	Max  int64  `json:"max"`
	Pts  []obs  `json:"pts"`
}

type output struct {
	Files  []string              `json:"files"`
	Keys   [][]string            `json:"keys_per_file"`
	Blocks map[string][]outBlock `json:"blocks"`
	Types  map[string]string     `json:"types"`
}

func blockTypeName(b byte) string {
	switch b {
	case tsm1.BlockFloat64:
		return "float"
	case tsm1.BlockInteger:
		return "integer"
	case tsm1.BlockUnsigned:
		return "unsigned"
	case tsm1.BlockString:
		return "string"
	case tsm1.BlockBoolean:
		return "boolean"
	}
	return fmt.Sprintf("type-%d", b)
}

// readOutputs opens every output file with a fresh TSMReader and decodes all blocks. It returns
// an oracle-level problem (key, detail) for structural defects visible while reading.
func readOutputs(files []string) (*output, string, string, error) {
	out := &output{Files: files, Blocks: map[string][]outBlock{}, Types: map[string]string{}}
	for _, path := range files {
		fd, err := os.Open(path)
		if err != nil {
			return nil, "output-missing", err.Error(), nil
		}
		r, err := tsm1.NewTSMReader(fd)
		if err != nil {
			fd.Close()
			return nil, "output-unreadable", fmt.Sprintf("%s: %v", filepath.Base(path), err), nil
		}
		var keys []string
		for i := 0; i < r.KeyCount(); i++ {
			kb, typ := r.KeyAt(i)
			key := string(kb)
			keys = append(keys, key)
			tn := blockTypeName(typ)
			if old, ok := out.Types[key]; ok && old != tn {
				r.Close()
				return out, "type-changed", fmt.Sprintf("key %q has type %s and %s in the outputs", key, old, tn), nil
			}
			out.Types[key] = tn
			var all []obs
			for _, e := range r.Entries(kb) {
				e := e
				vals, err := r.ReadAt(&e, nil)
				if err != nil {
					r.Close()
					return out, "block-unreadable", fmt.Sprintf("%s key %q block [%d,%d]: %v", filepath.Base(path), key, e.MinTime, e.MaxTime, err), nil
				}
				b := outBlock{File: filepath.Base(path), Min: e.MinTime, Max: e.MaxTime}
				for _, v := range vals {
					b.Pts = append(b.Pts, obs{v.UnixNano(), v.Value()})
				}
				all = append(all, b.Pts...)
				out.Blocks[key] = append(out.Blocks[key], b)
			}
			// ReadAll must agree with the block-wise read (new files carry no tombstones)
			ra, err := r.ReadAll(kb)
			if err != nil {
				r.Close()
				return out, "readall-error", fmt.Sprintf("%s key %q: %v", filepath.Base(path), key, err), nil
			}
			if len(ra) != len(all) {
				r.Close()
				return out, "readall-differs", fmt.Sprintf("%s key %q: ReadAll returns %d values, blocks hold %d", filepath.Base(path), key, len(ra), len(all)), nil
			}
			for j := range ra {
				if ra[j].UnixNano() != all[j].T || ra[j].Value() != all[j].V {
					r.Close()
					return out, "readall-differs", fmt.Sprintf("%s key %q position %d", filepath.Base(path), key, j), nil
				}
			}
		}
		out.Keys = append(out.Keys, keys)
		if r.HasTombstones() {
			r.Close()
			return out, "output-has-tombstones", filepath.Base(path), nil
		}
		if err := r.Close(); err != nil {
			return out, "", "", err
		}
	}
	return out, "", "", nil
}

func blockCanon(pts []obs) string {
	var sb strings.Builder
	for _, p := range pts {
		fmt.Fprintf(&sb, "%d=%v,", p.T, p.V)
	}
	return sb.String()
}

// validate checks the output validity predicates of the statement: keys sorted within a file and
// across rolled files, per key blocks ascending and non-overlapping, index entry bounds equal to
// the decoded first/last timestamps, no block above ppb points (a larger block is accepted only
// when it is an unmodified input block and passThrough lists it: tsmBatchKeyIterator documents
// that already-full blocks are copied as they are), strictly ascending timestamps inside blocks.
func validate(out *output, ppb int, passThrough map[string]map[string]bool) (string, string) {
	var prevLast string
	for i, keys := range out.Keys {
		if len(keys) == 0 {
			return "empty-output-file", out.Files[i]
		}
		for j := 1; j < len(keys); j++ {
			if keys[j] <= keys[j-1] {
				return "keys-not-sorted", fmt.Sprintf("%s: key %q follows %q", filepath.Base(out.Files[i]), keys[j], keys[j-1])
			}
		}
		if i > 0 && keys[0] < prevLast {
			return "keys-not-sorted-across-files", fmt.Sprintf("%s starts with %q after the previous file ended with %q", filepath.Base(out.Files[i]), keys[0], prevLast)
		}
		prevLast = keys[len(keys)-1]
	}
	for key, bs := range out.Blocks {
		for i, b := range bs {
			if len(b.Pts) == 0 {
				return "empty-block", fmt.Sprintf("key %q block %d [%d,%d] in %s", key, i, b.Min, b.Max, b.File)
			}
			for k := 1; k < len(b.Pts); k++ {
				if b.Pts[k].T <= b.Pts[k-1].T {
					return "block-not-ascending", fmt.Sprintf("key %q block %d in %s: t=%d after t=%d", key, i, b.File, b.Pts[k].T, b.Pts[k-1].T)
				}
			}
			if b.Min != b.Pts[0].T || b.Max != b.Pts[len(b.Pts)-1].T {
				return "index-entry-bounds", fmt.Sprintf("key %q block %d in %s: index entry [%d,%d], decoded block [%d,%d]", key, i, b.File, b.Min, b.Max, b.Pts[0].T, b.Pts[len(b.Pts)-1].T)
			}
			if i > 0 && b.Min <= bs[i-1].Max {
				return "blocks-overlap", fmt.Sprintf("key %q block %d [%d,%d] (%s) does not start after block %d [%d,%d] (%s)", key, i, b.Min, b.Max, b.File, i-1, bs[i-1].Min, bs[i-1].Max, bs[i-1].File)
			}
			if len(b.Pts) > ppb && !passThrough[key][blockCanon(b.Pts)] {
				return "block-exceeds-points-per-block", fmt.Sprintf("key %q block %d in %s holds %d points, requested at most %d (not an unmodified input block)", key, i, b.File, len(b.Pts), ppb)
			}
		}
	}
	return "", ""
}

// compareContent compares the concatenated output blocks per key with the reference merge.
func compareContent(out *output, want map[int][]pt) (string, string) {
	wantKeys := map[string]int{}
	for k := range want {
		wantKeys[keyDefs[k].Name] = k
	}
	var names []string
	for key := range out.Blocks {
		names = append(names, key)
	}
	sort.Strings(names)
	for _, key := range names {
		k, ok := wantKeys[key]
		if !ok {
			return "unexpected-key", fmt.Sprintf("output holds key %q which has no live point in the inputs", key)
		}
		if out.Types[key] != keyDefs[k].Typ {
			return "type-changed", fmt.Sprintf("key %q written as %s, inputs hold %s", key, out.Types[key], keyDefs[k].Typ)
		}
	}
	var ks []int
	for k := range want {
		ks = append(ks, k)
	}
	sort.Ints(ks)
	for _, k := range ks {
		key, typ := keyDefs[k].Name, keyDefs[k].Typ
		var got []obs
		for _, b := range out.Blocks[key] {
			got = append(got, b.Pts...)
		}
		w := want[k]
		wantAt := map[int64]int{}
		for _, p := range w {
			wantAt[p.T] = p.V
		}
		seen := map[int64]int{}
		for _, o := range got {
			seen[o.T]++
			if _, ok := wantAt[o.T]; !ok {
				return "unexpected-point", fmt.Sprintf("key %q: output holds t=%d v=%v which is not live in the inputs (tombstoned or never written)", key, o.T, o.V)
			}
			if seen[o.T] > 1 {
				return "duplicate-point", fmt.Sprintf("key %q: t=%d appears %d times in the output", key, o.T, seen[o.T])
			}
		}
		for _, p := range w {
			if seen[p.T] == 0 {
				return "lost-point", fmt.Sprintf("key %q: live point t=%d v=%v missing from the output", key, p.T, typed(typ, p.V))
			}
		}
		for i := range w {
			if got[i].T != w[i].T {
				return "wrong-order", fmt.Sprintf("key %q: position %d holds t=%d, want t=%d", key, i, got[i].T, w[i].T)
			}
		}
		for i := range w {
			if got[i].V != typed(typ, w[i].V) {
				return "wrong-value", fmt.Sprintf("key %q: t=%d holds %v, the newest input file's live value is %v", key, got[i].T, got[i].V, typed(typ, w[i].V))
			}
		}
	}
	return "", ""
}

const compactDeadline = 60 * time.Second

// hangCPU is the CPU time after which one compaction call over a handful of tiny files counts as
// non-terminating (a regular call needs well under a millisecond of CPU).
const hangCPU = 12 * time.Second

// KeyNoTermination: the compaction call never returns (and produces no files).
const KeyNoTermination = "compaction-does-not-terminate"

var (
	errCompactionStuck = errors.New("compaction did not finish within the watchdog deadline")
	stuck              atomic.Bool // set once a compaction was aborted/abandoned by the watchdog: later cases are skipped
	contentFailed      atomic.Bool // TestPropCompact reported a violation other than non-termination (rapid is shrinking it)
	hungCases          sync.Map    // case id -> detail of compactions abandoned as non-terminating
)

// processCPU is the CPU time (user+system) this process has consumed so far.
func processCPU() time.Duration {
	var ru syscall.Rusage
	if err := syscall.Getrusage(syscall.RUSAGE_SELF, &ru); err != nil {
		return 0
	}
	return time.Duration(ru.Utime.Nano() + ru.Stime.Nano())
}

type compactCase struct {
	Layout  layout  `json:"layout"`
	Mode    string  `json:"mode"`
	PPB     int     `json:"points_per_block"`
	From    int     `json:"first_file"`
	To      int     `json:"last_file"`
	Outputs *output `json:"outputs,omitempty"`
	Want    any     `json:"want,omitempty"`
}

func wantJSON(want map[int][]pt) map[string][]obs {
	out := map[string][]obs{}
	for k, ps := range want {
		for _, p := range ps {
			out[keyDefs[k].Name] = append(out[keyDefs[k].Name], obs{p.T, typed(keyDefs[k].Typ, p.V)})
		}
	}
	return out
}

// runCompaction materialises l, compacts files [from,to] and checks the result. Returns the
// violation key/detail ("" when the property holds).
func runCompaction(l layout, mode string, ppb, from, to int) (string, string, any, error) {
	key, detail, cj, _, err := runCompactionClassified(l, mode, ppb, from, to, true, 1)
	return key, detail, cj, err
}

// runCompactionStrict is runCompaction without the known-finding classification.
func runCompactionStrict(l layout, mode string, ppb, from, to int) (string, string, any, error) {
	key, detail, cj, _, err := runCompactionClassified(l, mode, ppb, from, to, false, 1)
	return key, detail, cj, err
}

// inputEntry is one index entry of a key in one compacted input file.
type inputEntry struct {
	file     int
	min, max int64
}

// staleByUnstableSort decides whether a content mismatch is exactly known finding
// compactor-unstable-block-order: per key the output timestamps are exactly the expected ones in
// order; every differing value is a LIVE older version of that timestamp from an older input
// file; that key has more than 20 blocks over the compacted files (sort.Stable leaves insertion
// sort); and blocks.Less is not a strict weak order on them (there are blocks a~b, b~c that
// overlap pairwise while a lies wholly before c).
func staleByUnstableSort(out *output, want map[int][]pt, vers map[int]map[int64][]int, entries map[int][]inputEntry) (bool, string) {
	for key := range out.Blocks {
		found := false
		for k := range want {
			if keyDefs[k].Name == key {
				found = true
			}
		}
		if !found {
			return false, ""
		}
	}
	stale := 0
	why := ""
	for k, w := range want {
		kd := keyDefs[k]
		var got []obs
		for _, b := range out.Blocks[kd.Name] {
			got = append(got, b.Pts...)
		}
		if len(got) != len(w) {
			return false, ""
		}
		diff := 0
		for i := range w {
			if got[i].T != w[i].T {
				return false, ""
			}
			if got[i].V == typed(kd.Typ, w[i].V) {
				continue
			}
			vs := vers[k][w[i].T]
			older := false
			for _, v := range vs[:len(vs)-1] {
				if typed(kd.Typ, v) == got[i].V {
					older = true
				}
			}
			if !older {
				return false, ""
			}
			diff++
		}
		if diff == 0 {
			continue
		}
		es := entries[k]
		if len(es) <= 20 {
			return false, ""
		}
		ov := func(a, b inputEntry) bool { return a.min <= b.max && a.max >= b.min }
		witness := false
	W:
		for _, a := range es {
			for _, c := range es {
				if !(a.max < c.min) {
					continue
				}
				for _, b := range es {
					if ov(a, b) && ov(b, c) {
						witness = true
						why = fmt.Sprintf("key %q: %d blocks; [%d,%d]~[%d,%d]~[%d,%d] but first lies wholly before last", kd.Name, len(es), a.min, a.max, b.min, b.max, c.min, c.max)
						break W
					}
				}
			}
		}
		if !witness {
			return false, ""
		}
		stale += diff
	}
	return stale > 0, why
}

// runCompactionClassified materialises l, compacts files [from,to] and checks the result; with
// classify=true a mismatch that is exactly the open known finding is reported as known=true
// instead of as a violation.
func runCompactionClassified(l layout, mode string, ppb, from, to int, classify bool, wantFiles int) (string, string, any, bool, error) {
	cc := compactCase{Layout: l, Mode: mode, PPB: ppb, From: from, To: to}
	caseID := fmt.Sprintf("%s|%s|%d|%d-%d", l.canon(), mode, ppb, from, to)
	if v, ok := hungCases.Load(caseID); ok {
		// replay of a case whose compaction was already found spinning (rapid re-runs a failing
		// case): same verdict, without starting another non-terminating goroutine
		return KeyNoTermination, v.(string), cc, false, nil
	}
	dir, err := scratch.Dir("c04-")
	if err != nil {
		return "", "", nil, false, err
	}
	defer os.RemoveAll(dir)
	fs, err := l.open(dir)
	if err != nil {
		return "", "", nil, false, err
	}
	abandoned := false
	defer func() {
		// a compaction goroutine that never returns keeps its reader references: FileStore.Close
		// would wait for them forever
		if !abandoned {
			fs.Close()
		}
	}()
	c := tsm1.NewCompactor()
	c.Dir = dir
	c.FileStore = fs
	c.Open()
	defer c.Close()

	sub := l.Files[from : to+1]
	var paths []string
	maxGen, maxSeq := 0, 0
	for _, f := range sub {
		paths = append(paths, filepath.Join(dir, f.name()))
		if f.Gen > maxGen || (f.Gen == maxGen && f.Seq > maxSeq) {
			maxGen, maxSeq = f.Gen, f.Seq
		}
	}
	// The compaction runs in its own goroutine under a watchdog. Compactor.Close only interrupts
	// the write loop between blocks; a loop that spins inside one KeyIterator.Next call (the merge
	// of one key's blocks) can not be interrupted at all, so the goroutine is abandoned then.
	//   - spinning: the process burned hangCPU seconds of CPU time during this one call although
	//     the inputs hold a few hundred points (microseconds of work) and nothing else runs in the
	//     process: independent of machine load, reported as a violation (no files are produced);
	//   - wall-clock deadline without that much CPU time: the machine is overloaded or the call
	//     blocks: inconclusive only.
	type compactResult struct {
		files []string
		err   error
	}
	done := make(chan compactResult, 1)
	deadline := compactDeadline
	if wantFiles > 1 {
		deadline *= 2
	}
	cpuRule := wantFiles == 1 && !stuck.Load() // the roll-over case is legitimately CPU heavy; a leaked spinner pollutes the CPU clock
	t0, cpu0 := time.Now(), processCPU()
	go func() {
		var r compactResult
		if mode == "fast" {
			r.files, r.err = c.CompactFast(paths, zap.NewNop(), ppb)
		} else {
			r.files, r.err = c.CompactFull(paths, zap.NewNop(), ppb)
		}
		done <- r
	}()
	var res compactResult
	hung := ""
	tick := time.NewTicker(100 * time.Millisecond)
W:
	for {
		select {
		case res = <-done:
			break W
		case <-tick.C:
			if cpu := processCPU() - cpu0; cpuRule && cpu >= hangCPU {
				hung = fmt.Sprintf("%s compaction (pointsPerBlock=%d) of %d small files did not return: the process spent %.1fs of CPU time in this one call (%.1fs wall) and Compactor.Close did not abort it", mode, ppb, len(paths), cpu.Seconds(), time.Since(t0).Seconds())
				break W
			}
			if time.Since(t0) >= deadline {
				hung = "wall"
				break W
			}
		}
	}
	tick.Stop()
	if hung != "" {
		c.Close()
		select {
		case res = <-done: // aborted between blocks: slow but progressing
			if hung != "wall" {
				hung = "wall"
			}
		case <-time.After(5 * time.Second):
			abandoned = true
		}
		if hung == "wall" {
			return "", "", nil, false, errCompactionStuck
		}
		stuck.Store(true)
		hungCases.Store(caseID, hung)
		return KeyNoTermination, hung, cc, false, nil
	}
	files, err := res.files, res.err
	if err != nil {
		return "compaction-error", err.Error(), cc, false, nil
	}
	want, vers := referenceMerge(sub)
	cc.Want = wantJSON(want)

	// output names: (max generation, max sequence+1, +2, ...) as temporary files in Dir
	for i, p := range files {
		exp := filepath.Join(dir, fmt.Sprintf("%09d-%09d.tsm.tmp", maxGen, maxSeq+1+i))
		if p != exp {
			return "output-name", fmt.Sprintf("output %d is %s, want %s", i, p, exp), cc, false, nil
		}
	}
	if len(want) == 0 {
		if len(files) != 0 {
			return "output-for-empty-content", fmt.Sprintf("no live point in the inputs but outputs %v", files), cc, false, nil
		}
	} else if len(files) != wantFiles {
		return "output-count", fmt.Sprintf("%d output files %v, want %d (roll-over only at 65535 blocks per key or 2 GB)", len(files), files, wantFiles), cc, false, nil
	}
	// nothing else may be left behind in the directory
	ents, _ := os.ReadDir(dir)
	known := map[string]bool{}
	for _, f := range l.Files {
		known[f.name()] = true
		known[strings.TrimSuffix(f.name(), ".tsm")+".tombstone"] = true
	}
	for _, p := range files {
		known[filepath.Base(p)] = true
	}
	for _, e := range ents {
		if !known[e.Name()] {
			return "stray-file", fmt.Sprintf("unexpected file %s in the shard directory after compaction", e.Name()), cc, false, nil
		}
	}
	for _, f := range l.Files {
		if _, err := os.Stat(filepath.Join(dir, f.name())); err != nil {
			return "input-removed", fmt.Sprintf("input %s: %v", f.name(), err), cc, false, nil
		}
	}

	out, key, detail, err := readOutputs(files)
	if err != nil {
		return "", "", nil, false, err
	}
	cc.Outputs = out
	if key != "" {
		return key, detail, cc, false, nil
	}
	// unmodified input blocks (of files without a tombstone touching them) may pass through
	pass := map[string]map[string]bool{}
	for _, f := range sub {
		for _, kb := range f.Keys {
			kd := keyDefs[kb.Key]
			for _, b := range kb.Blocks {
				if len(b) <= ppb {
					continue
				}
				var ps []obs
				for _, p := range b {
					ps = append(ps, obs{p.T, typed(kd.Typ, p.V)})
				}
				if pass[kd.Name] == nil {
					pass[kd.Name] = map[string]bool{}
				}
				pass[kd.Name][blockCanon(ps)] = true
			}
		}
	}
	if key, detail := validate(out, ppb, pass); key != "" {
		return key, detail, cc, false, nil
	}
	if key, detail := compareContent(out, want); key != "" {
		if key == "wrong-value" && classify && ev.KnownOpen(prop, KeyUnstableBlockOrder) {
			// the block lists the compactor sorted: the index entries of the compacted readers
			entries := map[int][]inputEntry{}
			byName := map[string]tsm1.TSMFile{}
			for _, r := range fs.Files() {
				byName[filepath.Base(r.Path())] = r
			}
			for i, f := range sub {
				if r := byName[f.name()]; r != nil {
					for k, kd := range keyDefs {
						for _, e := range r.Entries([]byte(kd.Name)) {
							entries[k] = append(entries[k], inputEntry{file: i, min: e.MinTime, max: e.MaxTime})
						}
					}
				}
			}
			if is, _ := staleByUnstableSort(out, want, vers, entries); is {
				return "", "", nil, true, nil
			}
		}
		return key, detail, cc, false, nil
	}
	return "", "", nil, false, nil
}

// compactFacts derives class labels and the non-trivial rule for a compaction case.
type compactFacts struct {
	dupDifferent bool // two files share a key with overlapping ranges and an equal timestamp
	partialTomb  bool
	wholeTomb    bool
	keyDeleted   bool
	maxBlocks    int // most blocks of one key over the compacted files
	sharedKey    bool
	fullBlocks   bool // some input block holds exactly ppb points
	oversized    bool // some input block holds more than ppb points
	// bridge: a newer file's block C overlaps two blocks A, B (A before B) of the same key in one
	// older file: after the compactor's block sort (A, B, C) the blocks of the key are not ordered
	// by start time, and C belongs to A's merge window although B (outside it) precedes C.
	bridge bool
	// bridgeFull: as bridge, and A alone holds at least ppb points, so A's merge window reaches the
	// points-per-block limit and is written out before the following window is merged.
	bridgeFull bool
}

func overlap(a, b []pt) bool {
	return a[0].T <= b[len(b)-1].T && b[0].T <= a[len(a)-1].T
}

func facts(sub []fileSpec, ppb int) compactFacts {
	var f compactFacts
	perKey := map[int]int{}
	seenTs := map[int]map[int64]bool{}
	filesOfKey := map[int]int{}
	for _, fl := range sub {
		live := fl.live()
		for _, kb := range fl.Keys {
			perKey[kb.Key] += len(kb.Blocks)
			filesOfKey[kb.Key]++
			liveSet := map[int64]bool{}
			for _, p := range live[kb.Key] {
				liveSet[p.T] = true
			}
			if len(live[kb.Key]) == 0 {
				f.keyDeleted = true
			}
			for _, b := range kb.Blocks {
				if len(b) == ppb {
					f.fullBlocks = true
				}
				if len(b) > ppb {
					f.oversized = true
				}
				dead := 0
				for _, p := range b {
					if !liveSet[p.T] {
						dead++
					}
				}
				if dead == len(b) {
					f.wholeTomb = true
				} else if dead > 0 {
					f.partialTomb = true
				}
			}
			if seenTs[kb.Key] == nil {
				seenTs[kb.Key] = map[int64]bool{}
			}
			for _, p := range live[kb.Key] {
				if seenTs[kb.Key][p.T] {
					f.dupDifferent = true // values differ by construction (value encodes the file index)
				}
			}
			for _, p := range live[kb.Key] {
				seenTs[kb.Key][p.T] = true
			}
		}
	}
	for i, older := range sub {
		for _, okb := range older.Keys {
			for _, newer := range sub[i+1:] {
				for _, nkb := range newer.Keys {
					if nkb.Key != okb.Key {
						continue
					}
					for _, c := range nkb.Blocks {
						for a := 0; a < len(okb.Blocks); a++ {
							if !overlap(okb.Blocks[a], c) {
								continue
							}
							for b := a + 1; b < len(okb.Blocks); b++ {
								if overlap(okb.Blocks[b], c) {
									f.bridge = true
									if len(okb.Blocks[a]) >= ppb {
										f.bridgeFull = true
									}
								}
							}
						}
					}
				}
			}
		}
	}
	for k, n := range perKey {
		if n > f.maxBlocks {
			f.maxBlocks = n
		}
		if filesOfKey[k] > 1 {
			f.sharedKey = true
		}
	}
	return f
}

func TestPropCompact(t *testing.T) {
	rec.Assume("the harness reference merge (fold inputs in path order, later file wins on equal timestamps, each file's tombstones remove that file's points only) is the meaning of 'logical content'")
	rec.Assume("inputs as the writer/compactor produce them: keys sorted in a file, a key's blocks sorted and non-overlapping within a file, one value type per key; files passed to the compactor in path order and as whole generations (what the planner guarantees, C05)")
	rec.Assume("'no block exceeds the requested points-per-block' is checked for blocks the compactor builds; input blocks that already exceed the requested size may be copied unchanged (documented in tsmBatchKeyIterator.combine: 'if this block is already full, just add it as is')")
	rec.Assume("termination: one CompactFull/CompactFast call over at most 8 files holding a few hundred points that has consumed 12 s of process CPU time (nothing else runs in the test process) and does not return after Compactor.Close is treated as non-terminating and reported as a violation (no output is produced); a call that only exceeds the 60 s wall-clock deadline is reported as inconclusive")
	rec.Check(t, 600, 8000, func(rt *rapid.T) {
		ppb := rapid.SampledFrom([]int{2, 3, 3, 5, 5, 1000}).Draw(rt, "ppb")
		mode := rapid.SampledFrom([]string{"full", "full", "fast"}).Draw(rt, "mode")
		oversized := ppb < 1000 && rapid.IntRange(0, 6).Draw(rt, "oversized") == 0
		l := genLayout(rt, ppb, oversized)
		// compact all files (mostly) or a contiguous run of whole generations
		from, to := 0, len(l.Files)-1
		if rapid.IntRange(0, 4).Draw(rt, "subset") == 0 {
			var starts []int // indexes where a generation starts
			for i, f := range l.Files {
				if i == 0 || f.Gen != l.Files[i-1].Gen {
					starts = append(starts, i)
				}
			}
			a := rapid.IntRange(0, len(starts)-1).Draw(rt, "fromgen")
			b := rapid.IntRange(a, len(starts)-1).Draw(rt, "togen")
			from = starts[a]
			if b+1 < len(starts) {
				to = starts[b+1] - 1
			}
		}
		fc := facts(l.Files[from:to+1], ppb)
		if _, replayOfHung := hungCases.Load(fmt.Sprintf("%s|%s|%d|%d-%d", l.canon(), mode, ppb, from, to)); stuck.Load() && !replayOfHung {
			return
		}
		key, detail, cj, known, err := runCompactionClassified(l, mode, ppb, from, to, true, 1)
		if errors.Is(err, errCompactionStuck) {
			stuck.Store(true)
			rec.Inconclusive(fmt.Sprintf("TestPropCompact: %s compaction (pointsPerBlock=%d) of %d small files did not finish within %s and was aborted; remaining cases skipped", mode, ppb, to-from+1, compactDeadline))
			return
		}
		if err != nil {
			rt.Fatalf("harness error: %v", err)
		}
		rec.Eval()
		if known {
			rec.ExcludedKnown(KeyUnstableBlockOrder)
		}
		rec.Class("mode:" + mode)
		rec.Class(fmt.Sprintf("ppb:%d", ppb))
		rec.Class("regime:" + l.Regime)
		rec.Class("shape:" + l.Shape)
		if from != 0 || to != len(l.Files)-1 {
			rec.Class("files:subset-of-generations")
		} else {
			rec.Class("files:all")
		}
		switch {
		case fc.maxBlocks > 20:
			rec.Class("blocks-per-key:21+")
		case fc.maxBlocks > 6:
			rec.Class("blocks-per-key:7-20")
		default:
			rec.Class("blocks-per-key:1-6")
		}
		if fc.dupDifferent {
			rec.Class("dup-timestamp-different-value")
		}
		if fc.partialTomb {
			rec.Class("tomb:partial-block")
		}
		if fc.wholeTomb {
			rec.Class("tomb:whole-block")
		}
		if fc.keyDeleted {
			rec.Class("tomb:key-fully-deleted-in-a-file")
		}
		if !fc.partialTomb && !fc.wholeTomb {
			rec.Class("tomb:none-effective")
		}
		if fc.fullBlocks {
			rec.Class("input-block:exactly-ppb")
		}
		if fc.oversized {
			rec.Class("input-block:above-ppb")
		}
		if fc.bridge {
			rec.Class("span:newer-block-bridges-two-blocks-of-an-older-file")
		}
		if fc.bridgeFull {
			rec.Class("span:bridge-and-first-window-reaches-ppb")
		}
		if l.LiveTombs {
			rec.Class("tomb-path:live-readers")
		} else {
			rec.Class("tomb-path:loaded-at-open")
		}
		if fc.dupDifferent || fc.partialTomb {
			rec.NonTrivial(fmt.Sprintf("%s|%s|%d|%d-%d", l.canon(), mode, ppb, from, to))
		}
		if rec.WantSample() && fc.dupDifferent && fc.partialTomb {
			rec.Sample(map[string]any{"layout": l, "mode": mode, "ppb": ppb, "from": from, "to": to})
		}
		if key == KeyNoTermination && contentFailed.Load() {
			// found while rapid minimises an earlier content/layout failure: keep that failure as
			// the reported one (the abandoned goroutine keeps spinning; further candidates are skipped)
			rec.Class("hang-while-shrinking-another-failure")
			return
		}
		if key != "" {
			if key != KeyNoTermination {
				contentFailed.Store(true)
			}
			rec.Fail(rt, "TestPropCompact", key, fmt.Sprintf("%s compaction, pointsPerBlock=%d, files %d..%d: %s", mode, ppb, from, to, detail), cj)
		}
	})
}
