package c31_ids

import (
	"testing"

	"github.com/influxdata/influxdb/v2/kit/platform"

	"verifharness/internal/ev"
)

// FuzzIDDecode (thorough tier): arbitrary bytes through every decode entry point; accepted IFF the
// input is exactly the canonical encoding of a non-zero id (oracle of TestPropDecodeStrings), and
// whatever is accepted re-encodes to a string that decodes to the same id.
func FuzzIDDecode(f *testing.F) {
	for _, s := range []string{"", "0", "0000000000000000", "0000000000000001", "00000000000000ab", "00000000000000AB", "ffffffffffffffff", "FFFFFFFFFFFFFFFF",
		"+000000000000001", "-000000000000001", "0x00000000000001", "0_00000000000001", "000000000000001", "00000000000000001", "000000000000000g",
		"02def021097c6000", " 2def021097c6000", "02def021097c600\n", "02def021097c600\x00", "１000000000000", "\xff\xff\xff\xff\xff\xff\xff\xff\xff\xff\xff\xff\xff\xff\xff\xff",
		"0000000000000000000000000000000a"} {
		f.Add([]byte(s))
	}
	f.Fuzz(func(t *testing.T, data []byte) {
		s := string(data)
		key, detail, knownUpper := checkDecode(s, false)
		if key == "" && knownUpper && !ev.KnownOpen("C31", keyUpper) {
			key, detail = keyUpper, "uppercase hex accepted: "+s
		}
		if key != "" {
			t.Fatalf("VIOLATION-CANDIDATE property=C31 key=%s: %s", key, detail)
		}
		var id platform.ID
		if err := id.Decode(data); err != nil {
			return
		}
		enc, err := id.Encode()
		var back platform.ID
		if err != nil || len(enc) != 16 || back.Decode(enc) != nil || back != id || string(enc) != canonical(uint64(id)) {
			t.Fatalf("VIOLATION-CANDIDATE property=C31 key=roundtrip: Decode(%q)=%#x -> Encode %q (%v) -> %#x", s, uint64(id), enc, err, uint64(back))
		}
	})
}
