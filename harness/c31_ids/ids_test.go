// C31 — Resource IDs round-trip and generated IDs are unique.
//
// (1) every uint64 (boundary pool + all magnitudes) through every encode entry point of
// platform.ID -> 16 lowercase hex characters (own nibble encoder as the reference) -> every decode
// entry point returns the same id; the zero id is rejected both ways;
// (2) arbitrary strings: a decode entry point succeeds IFF the string is exactly the canonical
// encoding of a non-zero id;
// (3) generators: see generators_test.go.
package c31_ids

import (
	"encoding/json"
	"fmt"
	"math"
	"strings"
	"testing"
	"unicode/utf8"

	"github.com/influxdata/influxdb/v2/kit/platform"
	"pgregory.net/rapid"

	"verifharness/internal/ev"
)

var rec = ev.For("C31", "exploration",
	"case = id (round trip), string (decode), or concurrent generator workload (kind, machine ids, goroutines, ids per goroutine, yield pattern, preloaded state); "+
		"non-trivial = decode: a 16-byte string differing from a valid encoding in exactly one character class (case, non-hex letter, punctuation, sign, multi-byte rune, NUL) or a wrong-length neighbour of one; "+
		"round trip: id with a leading-zero nibble or a boundary value; generators: >=4 goroutines on one generator that drive the sequence through its 4095 -> roll-over path at least once; "+
		"distinct by the literal string / id / workload parameters")

const keyUpper = "id-decode-accepts-uppercase"

func init() {
	rec.Assume("reference encoding: an 8-line nibble loop over \"0123456789abcdef\" (independent of encoding/hex and fmt)")
	rec.Assume("decode entry points checked: ID.Decode, DecodeFromString, IDFromString, UnmarshalText, encoding/json (value and map key), Scan(string); encode: Encode, String, MarshalText, GoString, Value, encoding/json")
}

const hexdigits = "0123456789abcdef"

// canonical is the harness's own rendering of the documented form: 16 lowercase hex characters.
func canonical(id uint64) string {
	var b [16]byte
	for i := 15; i >= 0; i-- {
		b[i] = hexdigits[id&0xf]
		id >>= 4
	}
	return string(b[:])
}

// parseCanonical: s is exactly the canonical encoding of a non-zero id.
func parseCanonical(s string) (uint64, bool) {
	if len(s) != 16 {
		return 0, false
	}
	var v uint64
	for i := 0; i < 16; i++ {
		c := s[i]
		var d byte
		switch {
		case c >= '0' && c <= '9':
			d = c - '0'
		case c >= 'a' && c <= 'f':
			d = c - 'a' + 10
		default:
			return 0, false
		}
		v = v<<4 | uint64(d)
	}
	return v, v != 0
}

// upperSignature: exactly the listed finding — 16 hex characters, at least one of them an
// uppercase A-F, whose lower-cased form is a canonical non-zero id.
func upperSignature(s string) (uint64, bool) {
	if len(s) != 16 {
		return 0, false
	}
	hasUpper := false
	for i := 0; i < 16; i++ {
		if s[i] >= 'A' && s[i] <= 'F' {
			hasUpper = true
		}
	}
	if !hasUpper {
		return 0, false
	}
	return parseCanonical(strings.ToLower(s))
}

type decodeResult struct {
	entry string
	id    uint64
	err   error
}

// decodeAll runs every decode entry point on s. fast=true restricts to Decode (byte sweep).
func decodeAll(s string, fast bool) []decodeResult {
	var out []decodeResult
	{
		var id platform.ID
		err := id.Decode([]byte(s))
		out = append(out, decodeResult{"Decode", uint64(id), err})
	}
	if fast {
		return out
	}
	{
		var id platform.ID
		err := id.DecodeFromString(s)
		out = append(out, decodeResult{"DecodeFromString", uint64(id), err})
	}
	{
		p, err := platform.IDFromString(s)
		var v uint64
		if p != nil {
			v = uint64(*p)
		}
		if err == nil && p == nil {
			err = fmt.Errorf("IDFromString returned nil, nil")
		}
		out = append(out, decodeResult{"IDFromString", v, err})
	}
	{
		var id platform.ID
		err := id.UnmarshalText([]byte(s))
		out = append(out, decodeResult{"UnmarshalText", uint64(id), err})
	}
	{
		var id platform.ID
		err := id.Scan(s)
		out = append(out, decodeResult{"Scan(string)", uint64(id), err})
	}
	if utf8.ValidString(s) {
		q, _ := json.Marshal(s)
		var id platform.ID
		err := json.Unmarshal(q, &id)
		out = append(out, decodeResult{"json value", uint64(id), err})
		var m map[platform.ID]int
		doc := append(append([]byte("{"), q...), []byte(":1}")...)
		err = json.Unmarshal(doc, &m)
		var v uint64
		if err == nil {
			if len(m) != 1 {
				err = fmt.Errorf("json map has %d keys", len(m))
			}
			for k := range m {
				v = uint64(k)
			}
		}
		out = append(out, decodeResult{"json map key", v, err})
	}
	return out
}

// checkDecode is the oracle for one string: accepted IFF canonical, and then to the right id.
// It returns the violation (key, detail) or "", and whether the listed uppercase finding matched.
func checkDecode(s string, fast bool) (key, detail string, knownUpper bool) {
	want, canon := parseCanonical(s)
	upperVal, isUpper := upperSignature(s)
	for _, r := range decodeAll(s, fast) {
		switch {
		case canon && r.err != nil:
			return "canonical-rejected", fmt.Sprintf("%s(%q) failed: %v", r.entry, s, r.err), false
		case canon && r.id != want:
			return "decode-wrong-id", fmt.Sprintf("%s(%q) = %#x, want %#x", r.entry, s, r.id, want), false
		case !canon && r.err == nil:
			if isUpper && r.id == upperVal {
				knownUpper = true
				continue
			}
			return "noncanonical-accepted", fmt.Sprintf("%s(%q) succeeded (= %#x) although the string is not the canonical encoding of a non-zero id", r.entry, s, r.id), false
		}
	}
	return "", "", knownUpper
}

// ---- generators of ids and strings ---------------------------------------------------------

var idPool = []uint64{1, 2, 9, 10, 15, 16, 17, 255, 256, 0xabcdef, 0xdeadbeef, 0x0fffffffffffffff, 0x1000000000000000,
	0x00000000000000ab, 0xa000000000000000, 0xffffffff, 0x100000000, 1<<63 - 1, 1 << 63, 1<<63 + 1, math.MaxUint64 - 1, math.MaxUint64,
	0x0123456789abcdef, 0xfedcba9876543210, 0xaaaaaaaaaaaaaaaa, 0x02def021097c6000}

func genID(t *rapid.T, label string) uint64 {
	switch rapid.IntRange(0, 7).Draw(t, label+"_mode") {
	case 0:
		return rapid.SampledFrom(idPool).Draw(t, label+"_pool")
	case 1, 2:
		w := rapid.IntRange(1, 64).Draw(t, label+"_w")
		return (rapid.Uint64().Draw(t, label+"_bits") | 1<<63) >> (64 - uint(w))
	case 3:
		// hex-letter rich
		v := rapid.Uint64().Draw(t, label+"_l")
		return v | 0xa0a0a0a0a0a0a0a0
	default:
		v := rapid.Uint64().Draw(t, label+"_any")
		if v == 0 {
			v = 1
		}
		return v
	}
}

// ---- (1) round trip ----------------------------------------------------------------------------

func TestPropIDRoundTrip(t *testing.T) {
	rec.Check(t, 120000, 2000000, func(t *rapid.T) {
		var v uint64
		if rapid.IntRange(0, 19).Draw(t, "zero") != 0 {
			v = genID(t, "id")
		}
		id := platform.ID(v)
		rec.Eval()
		fail := func(key, detail string) {
			rec.Fail(t, "TestPropIDRoundTrip", key, detail, map[string]any{"id": fmt.Sprintf("%#x", v)})
		}
		enc, err := id.Encode()
		mt, merr := id.MarshalText()
		js, jerr := json.Marshal(id)
		jm, jmerr := json.Marshal(map[platform.ID]int{id: 1})
		val, verr := id.Value()
		if v == 0 {
			rec.Class("rt:zero")
			if id.Valid() {
				fail("zero-valid", "ID(0).Valid() = true")
			}
			if err == nil || merr == nil {
				fail("zero-encoded", fmt.Sprintf("ID(0).Encode() = %q, %v; MarshalText = %q, %v — documented to error", enc, err, mt, merr))
			}
			if id.String() != "" {
				fail("zero-encoded", fmt.Sprintf("ID(0).String() = %q, documented to be empty", id.String()))
			}
			if jerr == nil {
				fail("zero-encoded", fmt.Sprintf("json.Marshal(ID(0)) = %s without error", js))
			}
			if key, detail, _ := checkDecode("0000000000000000", false); key != "" {
				fail(key, detail)
			}
			return
		}
		want := canonical(v)
		lead := v>>60 == 0
		switch {
		case lead:
			rec.Class("rt:leading-zero-nibble")
		case v>>63 == 1:
			rec.Class("rt:top-bit-set")
		default:
			rec.Class("rt:plain")
		}
		if lead || v>>63 == 1 {
			rec.NonTrivial("rt|" + want)
		}
		if !id.Valid() {
			fail("nonzero-invalid", fmt.Sprintf("ID(%#x).Valid() = false", v))
		}
		if err != nil || string(enc) != want {
			fail("encode-wrong", fmt.Sprintf("ID(%#x).Encode() = %q, %v; want %q", v, enc, err, want))
		}
		if merr != nil || string(mt) != want {
			fail("encode-wrong", fmt.Sprintf("ID(%#x).MarshalText() = %q, %v; want %q", v, mt, merr, want))
		}
		if s := id.String(); s != want {
			fail("encode-wrong", fmt.Sprintf("ID(%#x).String() = %q; want %q", v, s, want))
		}
		if s := id.GoString(); s != `"`+want+`"` {
			fail("encode-wrong", fmt.Sprintf("ID(%#x).GoString() = %q; want quoted %q", v, s, want))
		}
		if jerr != nil || string(js) != `"`+want+`"` {
			fail("encode-wrong", fmt.Sprintf("json.Marshal(ID(%#x)) = %s, %v; want %q", v, js, jerr, want))
		}
		if jmerr != nil || string(jm) != `{"`+want+`":1}` {
			fail("encode-wrong", fmt.Sprintf("json.Marshal(map[ID]int{%#x:1}) = %s, %v", v, jm, jmerr))
		}
		if sv, ok := val.(string); verr != nil || !ok || sv != want {
			fail("encode-wrong", fmt.Sprintf("ID(%#x).Value() = %v, %v; want %q", v, val, verr, want))
		}
		// every decode entry point brings the encoder's own output back to the same id
		for _, r := range decodeAll(string(enc), false) {
			if r.err != nil || r.id != v {
				fail("roundtrip", fmt.Sprintf("ID(%#x) -> %q -> %s = %#x, %v", v, enc, r.entry, r.id, r.err))
			}
		}
		if rec.WantSample() {
			rec.Sample(map[string]any{"id": fmt.Sprintf("%#x", v), "encoded": string(enc)})
		}
	})
}

// ---- (2) arbitrary strings -----------------------------------------------------------------------

// genDecodeString returns a string and the class it was built as.
func genDecodeString(t *rapid.T) (string, string) {
	base := canonical(genID(t, "base"))
	pos := rapid.IntRange(0, 15).Draw(t, "pos")
	b := []byte(base)
	switch rapid.IntRange(0, 13).Draw(t, "class") {
	case 0:
		return base, "canonical"
	case 1:
		// uppercase one or more hex letters (force a letter at pos first)
		b[pos] = "abcdef"[rapid.IntRange(0, 5).Draw(t, "letter")]
		n := 0
		all := rapid.Bool().Draw(t, "allUpper")
		for i := range b {
			if b[i] >= 'a' && b[i] <= 'f' && (i == pos || all) {
				b[i] -= 32
				n++
			}
		}
		return string(b), "one-class:uppercase-hex"
	case 2:
		b[pos] = "ghijklmnopqrstuvwxyzGHIJKLMNOPQRSTUVWXYZ"[rapid.IntRange(0, 39).Draw(t, "nonhex")]
		return string(b), "one-class:non-hex-letter"
	case 3:
		b[pos] = "_-+ .,:/xX#$%~\"\\'`()[]{}<>=&*!?@^|;\t\n\r"[rapid.IntRange(0, 37).Draw(t, "punct")]
		return string(b), "one-class:punctuation"
	case 4:
		b[pos] = byte(rapid.SampledFrom([]int{0, 1, 0x7f, 0x80, 0xff, 0x2f, 0x3a, 0x40, 0x47, 0x60, 0x67}).Draw(t, "ctl"))
		return string(b), "one-class:control-or-neighbour-byte"
	case 5:
		// a multi-byte rune that keeps the BYTE length at 16 (fullwidth digit = 3 bytes)
		p := rapid.IntRange(0, 13).Draw(t, "mbpos")
		r := rapid.SampledFrom([]string{"１", "ａ", "Ａ", "٣", "०"}).Draw(t, "rune")
		s := base[:p] + r + base[p+len(r):]
		return s, "one-class:multibyte-rune"
	case 6:
		pre := rapid.SampledFrom([]string{"+", "-", "0x", "0X", "0b", "0o", " ", "\t"}).Draw(t, "prefix")
		return pre + base[len(pre):], "one-class:sign-or-base-prefix"
	case 7:
		// underscore separators as accepted by base-0 integer literals
		p := rapid.IntRange(1, 14).Draw(t, "upos")
		return base[:p] + "_" + base[p+1:], "one-class:underscore"
	case 8:
		// wrong length neighbours
		switch rapid.IntRange(0, 6).Draw(t, "len") {
		case 0:
			return base[1:], "length:15"
		case 1:
			return base[:15], "length:15"
		case 2:
			return "0" + base, "length:17"
		case 3:
			return base + "0", "length:17"
		case 4:
			return strings.TrimLeft(base, "0"), "length:trimmed-zeros"
		case 5:
			return base + base, "length:32"
		default:
			return base[:rapid.IntRange(0, 14).Draw(t, "cut")], "length:short"
		}
	case 9:
		z := []byte("0000000000000000")
		if rapid.Bool().Draw(t, "zeroVariant") {
			return string(z), "zero"
		}
		return string(z[:rapid.IntRange(0, 20).Draw(t, "zl")%17]), "zero-short"
	case 10:
		// 16 characters over a hostile alphabet
		al := []rune("0123456789abcdefABCDEFgG_+- x")
		rs := make([]rune, 16)
		for i := range rs {
			rs[i] = al[rapid.IntRange(0, len(al)-1).Draw(t, "a")]
		}
		return string(rs), "random:16-hostile"
	case 11:
		// 16 hex characters with random case
		for i := range b {
			if b[i] >= 'a' && rapid.Bool().Draw(t, "up") {
				b[i] -= 32
			}
		}
		return string(b), "random:mixed-case-hex"
	case 12:
		return rapid.String().Draw(t, "any"), "random:any-string"
	default:
		return string(rapid.SliceOfN(rapid.Byte(), 16, 16).Draw(t, "bytes")), "random:16-bytes"
	}
}

func TestPropDecodeStrings(t *testing.T) {
	rec.Check(t, 120000, 2000000, func(t *rapid.T) {
		s, class := genDecodeString(t)
		rec.Eval()
		_, canon := parseCanonical(s)
		if canon {
			rec.Class("dec:canonical(" + class + ")")
		} else {
			rec.Class("dec:" + class)
		}
		if strings.HasPrefix(class, "one-class:") || strings.HasPrefix(class, "length:1") {
			rec.NonTrivial("dec|" + s)
		}
		key, detail, knownUpper := checkDecode(s, false)
		if key == "" && knownUpper {
			if ev.KnownOpen("C31", keyUpper) {
				rec.ExcludedKnown(keyUpper)
				return
			}
			key, detail = keyUpper, fmt.Sprintf("Decode(%q) succeeds although the canonical form is lowercase", s)
		}
		if key != "" {
			rec.Fail(t, "TestPropDecodeStrings", key, detail, map[string]any{"input": s, "input_hex": fmt.Sprintf("%x", s), "class": class})
		}
		if rec.WantSample() && strings.HasPrefix(class, "one-class:") {
			rec.Sample(map[string]any{"input": s, "class": class})
		}
	})
}

// TestPropDecodeByteSweep: for a generated valid encoding, every one of the 16 x 256 single-byte
// replacements goes through Decode: accepted IFF the result is itself canonical.
func TestPropDecodeByteSweep(t *testing.T) {
	rec.Check(t, 500, 10000, func(t *rapid.T) {
		base := canonical(genID(t, "base"))
		rec.Eval()
		rec.Class("sweep:16x256")
		rec.NonTrivial("sweep|" + base)
		b := []byte(base)
		excluded := 0
		for pos := 0; pos < 16; pos++ {
			orig := b[pos]
			for c := 0; c < 256; c++ {
				b[pos] = byte(c)
				s := string(b)
				key, detail, knownUpper := checkDecode(s, true)
				if key == "" && knownUpper {
					if ev.KnownOpen("C31", keyUpper) {
						excluded++
						continue
					}
					key, detail = keyUpper, fmt.Sprintf("Decode(%q) succeeds although the canonical form is lowercase", s)
				}
				if key != "" {
					rec.Fail(t, "TestPropDecodeByteSweep", key, detail, map[string]any{"input": s, "input_hex": fmt.Sprintf("%x", s), "base": base, "pos": pos, "byte": c})
				}
			}
			b[pos] = orig
		}
		for i := 0; i < excluded; i++ {
			rec.ExcludedKnown(keyUpper)
		}
	})
}

// ---- known finding ---------------------------------------------------------------------------------

// TestKnown_id_decode_accepts_uppercase: "00000000000000AB" is not the canonical (lowercase)
// encoding of any id, yet every decode entry point accepts it as 0xab.
func TestKnown_id_decode_accepts_uppercase(t *testing.T) {
	const in = "00000000000000AB"
	var accepted []string
	for _, r := range decodeAll(in, false) {
		if r.err == nil {
			accepted = append(accepted, fmt.Sprintf("%s=%#x", r.entry, r.id))
		}
	}
	rec.Known(t, "TestKnown_id_decode_accepts_uppercase", keyUpper, len(accepted) > 0,
		fmt.Sprintf("platform.ID decode of %q (uppercase hex, canonical form is \"00000000000000ab\") succeeds: %s", in, strings.Join(accepted, ", ")),
		map[string]any{"input": in})
}
