package c31_ids

import (
	"testing"

	"verifharness/internal/ev"
)

func TestMain(m *testing.M) { ev.Main(m) }
