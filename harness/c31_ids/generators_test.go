package c31_ids

import (
	"fmt"
	"reflect"
	"runtime"
	"sort"
	"sync"
	"sync/atomic"
	"testing"
	"unsafe"

	"github.com/influxdata/influxdb/v2/kit/platform"
	pkgsnow "github.com/influxdata/influxdb/v2/pkg/snowflake"
	idrand "github.com/influxdata/influxdb/v2/rand"
	"github.com/influxdata/influxdb/v2/snowflake"
	"pgregory.net/rapid"
)

// (3) ID generators under concurrent use.
//
// A workload is G goroutines each drawing N ids from one generator (or from two generators with
// DIFFERENT machine ids), with runtime.Gosched() injected by the workload between its own calls.
// Oracle (after all goroutines joined): every id is non-zero; all ids of the workload are pairwise
// distinct — within a goroutine, across goroutines and across the two generators; for the snowflake
// generators the ids seen by one goroutine are strictly increasing (the generator documents a
// monotonically increasing state). rand.OrgBucketID additionally must hand out, as a multiset,
// exactly the ids the same seed hands out sequentially (it is documented safe for concurrent use
// and seeded), none containing the bytes it documents as excluded.
//
// The race detector makes Next() too slow (~1.5 us) to produce 4096 ids inside one millisecond, so
// the sequence roll-over path would never run. Most workloads therefore start from a PRELOADED
// generator state: (time a few ms ahead of the clock, sequence close to 4095) — the state a
// generator is in after a burst faster than 4096 ids/ms. It is written through unsafe into the
// unexported `state` word after checking the struct layout by reflection (skipped otherwise).

const (
	seqMask   = 1<<12 - 1
	timeShift = 22
)

var layoutOK = func() bool {
	typ := reflect.TypeOf(pkgsnow.Generator{})
	return typ.NumField() == 2 &&
		typ.Field(0).Name == "state" && typ.Field(0).Type.Kind() == reflect.Uint64 && typ.Field(0).Offset == 0 &&
		typ.Field(1).Name == "machine" && typ.Field(1).Type.Kind() == reflect.Uint64
}()

// preload puts g into the state "aheadMs milliseconds ahead of its current time, sequence seq".
// It returns the id drawn to learn the generator's current time (part of the workload's ids).
func preload(g *pkgsnow.Generator, aheadMs, seq uint64) (first uint64, ok bool) {
	if !layoutOK {
		return 0, false
	}
	first = g.Next()
	t := first >> timeShift
	atomic.StoreUint64((*uint64)(unsafe.Pointer(g)), (t+aheadMs)<<timeShift|(seq&seqMask))
	return first, true
}

type workload struct {
	Kind       string `json:"kind"`
	Machines   []int  `json:"machines,omitempty"`
	G          int    `json:"goroutines"`
	N          int    `json:"ids_per_goroutine"`
	YieldEvery []int  `json:"yield_every"`
	AheadMs    int    `json:"preload_ahead_ms"` // 0 = natural start
	Seq        int    `json:"preload_seq"`
	Seed       int64  `json:"seed,omitempty"`
	next       []func() uint64
	gens       []*pkgsnow.Generator
	extra      []uint64 // ids consumed while preloading
	snowflakes bool
}

func genWorkload(t *rapid.T) *workload {
	w := &workload{}
	w.Kind = rapid.SampledFrom([]string{
		"raw", "raw", "raw", "raw", "wrapped-machine", "wrapped-machine", "wrapped-random", "wrapped-default",
		"two-machines", "two-machines", "orgbucket",
	}).Draw(t, "kind")
	if rapid.IntRange(0, 4).Draw(t, "fewG") == 0 {
		w.G = rapid.IntRange(1, 3).Draw(t, "G")
	} else {
		w.G = rapid.IntRange(4, 8).Draw(t, "G")
	}
	w.N = rapid.IntRange(300, 6000).Draw(t, "N")
	for i := 0; i < w.G; i++ {
		w.YieldEvery = append(w.YieldEvery, rapid.SampledFrom([]int{0, 0, 1, 2, 7, 64}).Draw(t, fmt.Sprintf("yield%d", i)))
	}
	machine := func(label string) int {
		if rapid.Bool().Draw(t, label+"_edge") {
			return rapid.SampledFrom([]int{0, 1, 3, 511, 512, 1022, 1023}).Draw(t, label+"_e")
		}
		return rapid.IntRange(0, 1023).Draw(t, label)
	}
	preloaded := rapid.IntRange(0, 4).Draw(t, "preload") != 0
	if preloaded {
		w.AheadMs = rapid.IntRange(2, 40).Draw(t, "ahead")
		switch rapid.IntRange(0, 2).Draw(t, "seqMode") {
		case 0:
			w.Seq = rapid.IntRange(4090, 4095).Draw(t, "seq")
		case 1:
			w.Seq = rapid.IntRange(3800, 4095).Draw(t, "seq")
		default:
			w.Seq = rapid.IntRange(0, 4095).Draw(t, "seq")
		}
	}
	wrap := func(g *snowflake.IDGenerator) func() uint64 {
		return func() uint64 { return uint64(g.ID()) }
	}
	switch w.Kind {
	case "raw":
		m := machine("m")
		w.Machines = []int{m}
		g := pkgsnow.New(m)
		w.gens = []*pkgsnow.Generator{g}
		w.next = []func() uint64{g.Next}
		w.snowflakes = true
	case "wrapped-machine":
		m := machine("m")
		w.Machines = []int{m}
		g := snowflake.NewIDGenerator(snowflake.WithMachineID(m))
		w.gens = []*pkgsnow.Generator{g.Generator}
		w.next = []func() uint64{wrap(g)}
		w.snowflakes = true
	case "wrapped-random":
		g := snowflake.NewIDGenerator()
		w.gens = []*pkgsnow.Generator{g.Generator}
		w.next = []func() uint64{wrap(g)}
		w.snowflakes = true
	case "wrapped-default":
		g := snowflake.NewDefaultIDGenerator()
		w.gens = []*pkgsnow.Generator{g.Generator}
		w.next = []func() uint64{wrap(g)}
		w.snowflakes = true
	case "two-machines":
		m1 := machine("m1")
		m2 := machine("m2")
		if m2 == m1 {
			m2 = (m1 + 1 + rapid.IntRange(0, 1021).Draw(t, "m2off")) % 1024
		}
		w.Machines = []int{m1, m2}
		if w.G < 2 {
			w.G = 2
			w.YieldEvery = append(w.YieldEvery, 0)
		}
		g1 := pkgsnow.New(m1)
		g2 := snowflake.NewIDGenerator(snowflake.WithMachineID(m2))
		w.gens = []*pkgsnow.Generator{g1, g2.Generator}
		w.next = []func() uint64{g1.Next, wrap(g2)}
		w.snowflakes = true
	case "orgbucket":
		w.Seed = rapid.Int64().Draw(t, "seed")
		w.AheadMs, w.Seq = 0, 0
		g := idrand.NewOrgBucketID(w.Seed)
		w.next = []func() uint64{func() uint64 { return uint64(g.ID()) }}
	}
	if w.AheadMs > 0 && w.snowflakes {
		for _, g := range w.gens {
			first, ok := preload(g, uint64(w.AheadMs), uint64(w.Seq))
			if !ok {
				w.AheadMs, w.Seq = 0, 0
				break
			}
			w.extra = append(w.extra, first)
		}
	}
	return w
}

// run executes the workload and returns the ids per goroutine.
func (w *workload) run() [][]uint64 {
	out := make([][]uint64, w.G)
	var start, wg sync.WaitGroup
	start.Add(1)
	for i := 0; i < w.G; i++ {
		wg.Add(1)
		go func(i int) {
			defer wg.Done()
			next := w.next[i%len(w.next)]
			ye := w.YieldEvery[i]
			ids := make([]uint64, w.N)
			start.Wait()
			for j := range ids {
				ids[j] = next()
				if ye > 0 && j%ye == 0 {
					runtime.Gosched()
				}
			}
			out[i] = ids
		}(i)
	}
	start.Done()
	wg.Wait()
	return out
}

func TestPropGeneratorsConcurrent(t *testing.T) {
	if !layoutOK {
		rec.Assume("pkg/snowflake.Generator layout changed: preloaded (roll-over) workloads were skipped")
	} else {
		rec.Assume("preloaded generator states (time 2-40 ms ahead of the clock, chosen sequence) are written through unsafe into pkg/snowflake.Generator.state; they are states a generator reaches after a burst faster than 4096 ids/ms")
	}
	rec.Check(t, 160, 2000, func(t *rapid.T) {
		w := genWorkload(t)
		out := w.run()
		rec.Eval()
		fail := func(key, detail string) {
			rec.Fail(t, "TestPropGeneratorsConcurrent", key, detail, w)
		}

		total := 0
		rollovers := 0
		type tagged struct {
			id uint64
			g  int
			j  int
		}
		all := make([]tagged, 0, w.G*w.N+len(w.extra))
		for i, id := range w.extra {
			all = append(all, tagged{id, -1 - i, 0})
		}
		for g, ids := range out {
			for j, id := range ids {
				total++
				if id == 0 || !platform.ID(id).Valid() {
					fail("zero-id", fmt.Sprintf("%s generator handed out the zero id (goroutine %d, call %d)", w.Kind, g, j))
				}
				if w.snowflakes {
					if id&seqMask == seqMask {
						rollovers++
					}
					if j > 0 && ids[j-1] >= id {
						fail("not-increasing", fmt.Sprintf("%s generator: goroutine %d got %#x then %#x (calls %d,%d)", w.Kind, g, ids[j-1], id, j-1, j))
					}
				}
				all = append(all, tagged{id, g, j})
			}
		}
		sort.Slice(all, func(a, b int) bool {
			if all[a].id != all[b].id {
				return all[a].id < all[b].id
			}
			if all[a].g != all[b].g {
				return all[a].g < all[b].g
			}
			return all[a].j < all[b].j
		})
		for i := 1; i < len(all); i++ {
			if all[i].id == all[i-1].id {
				fail("duplicate-id", fmt.Sprintf("%s generator(s) machines=%v handed out %#x twice: goroutine %d call %d and goroutine %d call %d (of %d ids; time=%d seq=%d machinebits=%d)",
					w.Kind, w.Machines, all[i].id, all[i-1].g, all[i-1].j, all[i].g, all[i].j, len(all),
					all[i].id>>timeShift, all[i].id&seqMask, all[i].id>>12&1023))
			}
		}

		if w.Kind == "orgbucket" {
			ref := idrand.NewOrgBucketID(w.Seed)
			want := make([]uint64, total)
			for i := range want {
				want[i] = uint64(ref.ID())
			}
			sort.Slice(want, func(a, b int) bool { return want[a] < want[b] })
			for i := range want {
				if want[i] != all[i].id {
					fail("orgbucket-concurrent-differs-from-sequential", fmt.Sprintf("OrgBucketID(seed %d): the %d ids handed out concurrently are not the ids the seed hands out sequentially (first difference at sorted position %d: %#x vs %#x)", w.Seed, total, i, all[i].id, want[i]))
				}
			}
			for _, x := range all {
				for s := 0; s < 64; s += 8 {
					switch byte(x.id >> uint(s)) {
					case 0x5c, 0x2c, 0x20:
						fail("orgbucket-forbidden-byte", fmt.Sprintf("OrgBucketID handed out %#x containing a backslash/comma/space byte", x.id))
					}
				}
			}
		}

		cls := "gen:" + w.Kind
		switch {
		case !w.snowflakes:
			cls += ":seeded-random"
		case rollovers > 0:
			cls += ":rollover-reached"
		default:
			cls += ":no-rollover"
		}
		rec.Class(cls)
		if w.G >= 4 {
			rec.Class("gen:>=4-goroutines")
		} else {
			rec.Class("gen:<4-goroutines")
		}
		rec.ClassN("gen:ids-checked", total)
		rec.ClassN("gen:ids-with-seq-4095", rollovers)
		if w.G >= 4 && (rollovers > 0 || !w.snowflakes) {
			rec.NonTrivial(fmt.Sprintf("gen|%s|%v|%d|%d|%v|%d|%d|%d", w.Kind, w.Machines, w.G, w.N, w.YieldEvery, w.AheadMs, w.Seq, w.Seed))
		}
		if rec.WantSample() && rollovers > 0 {
			rec.Sample(map[string]any{"workload": w, "ids": total, "ids_with_seq_4095": rollovers})
		}
	})
}
