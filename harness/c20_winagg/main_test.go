package c20_winagg

import (
	"testing"

	"verifharness/internal/ev"
)

func TestMain(m *testing.M) { ev.Main(m) }
