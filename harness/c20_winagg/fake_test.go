package c20_winagg

import (
	"context"
	"math"
	"sort"

	"github.com/influxdata/influxdb/v2/storage/reads"
	"github.com/influxdata/influxdb/v2/tsdb/cursors"
)

// The harness side of the storage interface: a reads.SeriesCursor whose rows carry one fake
// cursors.CursorIterator per "shard". Every shard serves its part of the series as arrays cut at
// the generated chunk positions, honours the CursorRequest (closed range [StartTime,EndTime],
// direction) and, like the tsm1 cursors, hands out ONE reused buffer: an array is valid only
// until the next call of Next (the previous contents are overwritten first).

type kind int

const (
	kFloat kind = iota
	kInt
	kUint
	kStr
	kBool
)

func (k kind) String() string { return [...]string{"float", "integer", "unsigned", "string", "boolean"}[k] }

// shard modes
const (
	shData  = 0 // serves its chunks
	shNil   = 1 // the series does not exist in this shard: CursorIterator.Next returns (nil, nil)
	shEmpty = 2 // a cursor that is exhausted immediately
)

type shardSpec struct {
	Mode   int      `json:"mode"`
	Chunks [][2]int `json:"chunks,omitempty"` // consecutive [lo,hi) index ranges of the series
}

// series is one generated series (exactly one of the value slices is used).
type series struct {
	Kind   kind
	Ts     []int64
	F      []float64
	I      []int64
	U      []uint64
	S      []string
	B      []bool
	Shards []shardSpec // in ascending time order
	// optional value predicate `$ > CondGT` (float / integer series only)
	HasCond bool
	CondGT  int64
}

const poisonT = math.MinInt64 + 7

// base is the type-independent part of a fake array cursor.
type base struct {
	ts     []int64
	chunks [][2]int // in serving order
	asc    bool
	lo, hi int64 // closed
	pos    int
	closed int
	after  int // calls of Next after the terminal empty array
	done   bool
}

// advance returns the index range [i,j) of the next non-empty array to serve.
func (b *base) advance() (int, int, bool) {
	for b.pos < len(b.chunks) {
		c := b.chunks[b.pos]
		b.pos++
		t := b.ts[c[0]:c[1]]
		i := c[0] + sort.Search(len(t), func(k int) bool { return t[k] >= b.lo })
		j := c[0] + sort.Search(len(t), func(k int) bool { return t[k] > b.hi })
		if i < j {
			return i, j, true
		}
	}
	if b.done {
		b.after++
	}
	b.done = true
	return 0, 0, false
}

func (b *base) Close()                     { b.closed++ }
func (b *base) Err() error                 { return nil }
func (b *base) Stats() cursors.CursorStats { return cursors.CursorStats{} }

// fill overwrites the reused buffer with poison and then with the points [i,j) in the requested
// direction.
func fill[V any](bt *[]int64, bv *[]V, ts []int64, vs []V, i, j int, asc bool, ok bool) {
	full := (*bt)[:cap(*bt)]
	fv := (*bv)[:cap(*bv)]
	var zero V
	for k := range full {
		full[k] = poisonT
	}
	for k := range fv {
		fv[k] = zero
	}
	if !ok {
		*bt, *bv = full[:0], fv[:0]
		return
	}
	n := j - i
	if cap(full) < n {
		full = make([]int64, n)
		fv = make([]V, n)
	}
	full, fv = full[:n], fv[:n]
	if asc {
		copy(full, ts[i:j])
		copy(fv, vs[i:j])
	} else {
		for k := 0; k < n; k++ {
			full[k] = ts[j-1-k]
			fv[k] = vs[j-1-k]
		}
	}
	*bt, *bv = full, fv
}

type floatCur struct {
	base
	vs  []float64
	buf cursors.FloatArray
}

func (c *floatCur) Next() *cursors.FloatArray {
	i, j, ok := c.advance()
	fill(&c.buf.Timestamps, &c.buf.Values, c.ts, c.vs, i, j, c.asc, ok)
	return &c.buf
}

type intCur struct {
	base
	vs  []int64
	buf cursors.IntegerArray
}

func (c *intCur) Next() *cursors.IntegerArray {
	i, j, ok := c.advance()
	fill(&c.buf.Timestamps, &c.buf.Values, c.ts, c.vs, i, j, c.asc, ok)
	return &c.buf
}

type uintCur struct {
	base
	vs  []uint64
	buf cursors.UnsignedArray
}

func (c *uintCur) Next() *cursors.UnsignedArray {
	i, j, ok := c.advance()
	fill(&c.buf.Timestamps, &c.buf.Values, c.ts, c.vs, i, j, c.asc, ok)
	return &c.buf
}

type strCur struct {
	base
	vs  []string
	buf cursors.StringArray
}

func (c *strCur) Next() *cursors.StringArray {
	i, j, ok := c.advance()
	fill(&c.buf.Timestamps, &c.buf.Values, c.ts, c.vs, i, j, c.asc, ok)
	return &c.buf
}

type boolCur struct {
	base
	vs  []bool
	buf cursors.BooleanArray
}

func (c *boolCur) Next() *cursors.BooleanArray {
	i, j, ok := c.advance()
	fill(&c.buf.Timestamps, &c.buf.Values, c.ts, c.vs, i, j, c.asc, ok)
	return &c.buf
}

// shardIter is the fake cursors.CursorIterator of one shard of one series.
type shardIter struct {
	s    *series
	spec shardSpec
	reqs []cursors.CursorRequest // requests seen (copied)
}

func (it *shardIter) Stats() cursors.CursorStats { return cursors.CursorStats{} }

func (it *shardIter) Next(_ context.Context, r *cursors.CursorRequest) (cursors.Cursor, error) {
	it.reqs = append(it.reqs, *r)
	if it.spec.Mode == shNil {
		return nil, nil
	}
	b := base{ts: it.s.Ts, asc: r.Ascending, lo: r.StartTime, hi: r.EndTime}
	if it.spec.Mode == shData {
		b.chunks = append([][2]int(nil), it.spec.Chunks...)
		if !r.Ascending {
			for i, j := 0, len(b.chunks)-1; i < j; i, j = i+1, j-1 {
				b.chunks[i], b.chunks[j] = b.chunks[j], b.chunks[i]
			}
		}
	}
	switch it.s.Kind {
	case kFloat:
		return &floatCur{base: b, vs: it.s.F}, nil
	case kInt:
		return &intCur{base: b, vs: it.s.I}, nil
	case kUint:
		return &uintCur{base: b, vs: it.s.U}, nil
	case kStr:
		return &strCur{base: b, vs: it.s.S}, nil
	default:
		return &boolCur{base: b, vs: it.s.B}, nil
	}
}

// seriesCursor is the fake reads.SeriesCursor.
type seriesCursor struct {
	rows   []reads.SeriesRow
	i      int
	closed int
}

func (c *seriesCursor) Close()     { c.closed++ }
func (c *seriesCursor) Err() error { return nil }
func (c *seriesCursor) Next() *reads.SeriesRow {
	if c.i >= len(c.rows) {
		return nil
	}
	r := c.rows[c.i] // a copy, like the production cursors hand out a reused row
	c.i++
	return &r
}
