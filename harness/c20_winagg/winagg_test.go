// C20 — Windowed aggregate pushdown equals aggregating the raw data.
//
// System under test: reads.NewWindowAggregateResultSet(ctx, req, seriesCursor) and the window
// aggregate array cursors behind it (storage/reads/array_cursor.gen.go), driven through the
// public ResultSet interface exactly like v1/services/storage.Store.WindowAggregate does.
//
// Generator: 1-3 series (float / integer / unsigned / string / boolean), each a strictly
// ascending point list laid out relative to the window (dense, one point per window, sparse,
// mixed with points exactly on window starts, exact number of non-empty windows around
// MaxPointsPerBlock = 1000 / 2000), cut into arrays at generated positions (single array, random
// cuts, fixed sizes 1..2500, cuts exactly at window starts) and distributed over 1-3 shards plus
// shards without the series (nil cursor) and shards with an exhausted cursor; a request with
// aggregate in {count,sum,min,max,first,last,mean}, the window as nanosecond fields or as
// Duration message (calendar months in a sub-class), positive / negative / larger-than-every
// offsets, a time range that may clip the data, optionally a value predicate ($ > c).
//
// Oracle: verifharness/internal/refwin (written from the documented window definition, no code
// shared with flux/interval): raw points = points with Start <= t < End (and matching the
// predicate); group by window; per non-empty window one output in ascending order with
// timestamp = window stop (count, sum, mean) or the selected point's own time (first, last, min,
// max; for min/max any tied point of the window is accepted). Integers and counts exact, selector
// values bit-exact, float sum/mean within 1e-12 * sum|v| of the exact value. Output = the
// concatenation of all arrays until the first empty one; every array has <= 1000 points and equal
// timestamp/value lengths.
package c20_winagg

import (
	"context"
	"encoding/json"
	"fmt"
	"math"
	"sort"
	"testing"
	"time"

	"github.com/influxdata/influxdb/v2/models"
	"github.com/influxdata/influxdb/v2/storage/reads"
	"github.com/influxdata/influxdb/v2/storage/reads/datatypes"
	"github.com/influxdata/influxdb/v2/tsdb/cursors"
	"github.com/influxdata/influxql"
	"pgregory.net/rapid"

	"verifharness/internal/ev"
	"verifharness/internal/refwin"
)

var rec = ev.For("C20", "exploration",
	"case = (window every/offset/form, aggregate, time range, 1-3 typed series with chunking into arrays and shards); non-trivial = some series is served in >=2 arrays with a window spanning an array boundary, and (more than 1000 output windows or offset != 0); distinct by canonical rendering of the request and every series' timestamps, chunk cuts and values")

func init() {
	rec.Assume("the fake CursorIterator/array cursors obey the cursor contract as the tsm1 cursors do: ascending (descending on request) unique timestamps inside [StartTime,EndTime], a non-empty array per Next until exhaustion, then empty arrays; one reused buffer that is overwritten by the next call")
	rec.Assume("timestamps and window parameters are constructed so that every window bound is representable as int64 nanoseconds; calendar windows only with an anchor day of month <= 28 (otherwise the definition needs a day-clamping rule)")
	rec.Assume("float data contains no NaN; float sum/mean inputs are finite; integer/unsigned sums do not overflow")
	rec.Assume("for every = MaxInt64 (aggregate over the whole range) the output timestamp of count/sum/mean is not asserted (the statement does not define it); it is tallied")
}

const (
	aggCount = "count"
	aggSum   = "sum"
	aggMin   = "min"
	aggMax   = "max"
	aggFirst = "first"
	aggLast  = "last"
	aggMean  = "mean"
)

var aggType = map[string]datatypes.Aggregate_AggregateType{
	aggCount: datatypes.Aggregate_AggregateTypeCount,
	aggSum:   datatypes.Aggregate_AggregateTypeSum,
	aggMin:   datatypes.Aggregate_AggregateTypeMin,
	aggMax:   datatypes.Aggregate_AggregateTypeMax,
	aggFirst: datatypes.Aggregate_AggregateTypeFirst,
	aggLast:  datatypes.Aggregate_AggregateTypeLast,
	aggMean:  datatypes.Aggregate_AggregateTypeMean,
}

type caseT struct {
	Agg      string        `json:"agg"`
	Form     string        `json:"form"` // "ns" | "dur"
	NoWindow bool          `json:"no_window"`
	Win      refwin.Window `json:"window"`
	Start    int64         `json:"start"`
	End      int64         `json:"end"`
	Series   []*series     `json:"-"`
}

// ---------------------------------------------------------------------------------------------
// generation

const day = int64(24 * time.Hour)

func genWindow(t *rapid.T, c *caseT) {
	c.Form = rapid.SampledFrom([]string{"ns", "ns", "dur"}).Draw(t, "form")
	cls := rapid.SampledFrom([]int{0, 10, 10, 10, 30, 30, 30, 30, 30, 30, 30, 30, 30, 30}).Draw(t, "wincls")
	switch {
	case cls < 7:
		c.NoWindow = true
		c.Win = refwin.Window{Every: refwin.Ns(math.MaxInt64)}
		return
	case cls < 25:
		// calendar months (Duration form only)
		c.Form = "dur"
		c.Win.Every = refwin.Mo(rapid.SampledFrom([]int64{1, 1, 1, 2, 3, 12}).Draw(t, "everyMonths"))
		off := refwin.Duration{
			Months: rapid.SampledFrom([]int64{0, 0, 1, 2, 13}).Draw(t, "offMonths"),
			Nsecs:  rapid.SampledFrom([]int64{0, 0, 1, int64(time.Hour), 5 * day, 26*day + 3*int64(time.Hour), 27*day + 23*int64(time.Hour)}).Draw(t, "offNs"),
		}
		off.Negative = !off.IsZero() && rapid.Bool().Draw(t, "offNeg")
		c.Win.Offset = off
		if _, ok := c.Win.Bounds(0); !ok {
			// anchor on a day of month > 28: the definition is silent; construct a defined one instead
			rec.Class("window:months-anchor-ambiguous->ns-offset-dropped")
			c.Win.Offset.Nsecs = 0
			c.Win.Offset.Negative = c.Win.Offset.Negative && c.Win.Offset.Months != 0
		}
		return
	}
	unit := rapid.SampledFrom([]int64{1, 1, 1000, 1000000, 1000000000}).Draw(t, "unit")
	k := rapid.SampledFrom([]int64{1, 7, 10, 60, 1000}).Draw(t, "everyUnits")
	every := k * unit
	c.Win.Every = refwin.Ns(every)
	var off int64
	switch rapid.IntRange(0, 6).Draw(t, "offcls") {
	case 0, 1:
		off = 0
	case 2:
		off = rapid.Int64Range(0, every-1).Draw(t, "off")
	case 3:
		off = -rapid.Int64Range(0, every-1).Draw(t, "off")
	case 4:
		off = every*rapid.Int64Range(1, 3).Draw(t, "offm") + rapid.Int64Range(0, every-1).Draw(t, "off")
	case 5:
		off = -(every*rapid.Int64Range(1, 3).Draw(t, "offm") + rapid.Int64Range(0, every-1).Draw(t, "off"))
	case 6:
		off = every * rapid.Int64Range(-2, 2).Draw(t, "offm")
	}
	c.Win.Offset = refwin.Ns(off)
	if c.Form == "dur" && rapid.IntRange(0, 9).Draw(t, "offMonthsOnNs") == 0 {
		c.Win.Offset.Months = rapid.Int64Range(1, 3).Draw(t, "offMonths")
	}
}

func genAgg(t *rapid.T, k kind) string {
	if k == kStr || k == kBool {
		return rapid.SampledFrom([]string{aggCount, aggFirst, aggLast}).Draw(t, "agg")
	}
	return rapid.SampledFrom([]string{aggCount, aggSum, aggMin, aggMax, aggFirst, aggLast, aggMean}).Draw(t, "agg")
}

// genTimes lays out n strictly ascending timestamps relative to the window.
func genTimes(t *rapid.T, c *caseT, big bool) []int64 {
	var n int
	profile := rapid.SampledFrom([]string{"dense", "one", "sparse", "mixed", "exact"}).Draw(t, "profile")
	if !big {
		n = rapid.IntRange(0, 40).Draw(t, "n")
		if rapid.IntRange(0, 7).Draw(t, "medium") == 0 {
			n = rapid.IntRange(41, 400).Draw(t, "n2")
		}
	} else {
		n = rapid.SampledFrom([]int{999, 1000, 1001, 1999, 2000, 2001, 2500, 0}).Draw(t, "nblock")
		if n == 0 {
			n = rapid.IntRange(900, 2600).Draw(t, "nrand")
		}
		if profile == "dense" {
			n = rapid.IntRange(2000, 5000).Draw(t, "ndense")
		}
	}
	if n == 0 {
		return nil
	}
	sel := rapid.SliceOfN(rapid.IntRange(0, 11), n, n).Draw(t, "sel")
	mag := rapid.SliceOfN(rapid.Int64Range(0, 1<<40), n, n).Draw(t, "mag")

	if c.Win.Calendar() {
		return genTimesCalendar(t, c, n, profile, sel, mag)
	}
	every := c.Win.Every.Nsecs
	if c.NoWindow {
		every = rapid.SampledFrom([]int64{1, 10, 1000000000}).Draw(t, "pseudoEvery")
	}
	absOff := c.Win.Offset.Nsecs
	if c.Win.Offset.Months != 0 {
		absOff += 100 * day
	}
	maxSpan := int64(n+2)*6*every + every
	margin := 4*every + absOff + 16
	var base int64
	switch rapid.SampledFrom([]string{"zero-cross", "now", "now", "near-max", "near-min"}).Draw(t, "base") {
	case "zero-cross":
		base = -maxSpan/2 + rapid.Int64Range(-every, every).Draw(t, "jit")
	case "now":
		base = 1600000000000000000 + rapid.Int64Range(0, 1000000007).Draw(t, "jit")
	case "near-max":
		base = math.MaxInt64 - maxSpan - margin - rapid.Int64Range(0, 2*every).Draw(t, "jit")
	case "near-min":
		base = math.MinInt64 + margin + rapid.Int64Range(0, 2*every).Draw(t, "jit")
	}
	third := every / 3
	if third < 1 {
		third = 1
	}
	ts := make([]int64, 0, n)
	cur := base
	if profile == "exact" && !c.NoWindow {
		// by windows: 1-3 points in each of a run of windows (some windows skipped)
		b, ok := c.Win.Bounds(base)
		if !ok {
			return nil
		}
		w := b.Start
		for len(ts) < n {
			p := 1 + sel[len(ts)]%3
			m := mag[len(ts)]
			ds := []int64{m % every, (m >> 10) % every, (m >> 20) % every}[:p]
			sort.Slice(ds, func(i, j int) bool { return ds[i] < ds[j] })
			last := int64(-1)
			for _, d := range ds {
				if d != last && len(ts) < n {
					ts = append(ts, w+d)
					last = d
				}
			}
			skip := int64(1)
			if sel[len(ts)-1] >= 10 {
				skip = 2 + m%4
			}
			w += skip * every
		}
		return ts
	}
	for i := 0; i < n; i++ {
		var gap int64
		mode := profile
		if profile == "mixed" || profile == "exact" {
			mode = []string{"dense", "dense", "dense", "one", "one", "sparse", "sparse", "boundary", "boundary", "boundary", "dense", "one"}[sel[i]]
		}
		switch mode {
		case "dense":
			gap = 1 + mag[i]%third
		case "one":
			gap = every
		case "sparse":
			gap = every + mag[i]%(2*every+1)
		case "boundary":
			if b, ok := c.Win.Bounds(cur); ok && !c.NoWindow && b.Stop > cur {
				gap = b.Stop - cur
			} else {
				gap = every
			}
		}
		if i == 0 {
			gap = mag[i] % every
		}
		cur += gap
		ts = append(ts, cur)
	}
	return ts
}

func genTimesCalendar(t *rapid.T, c *caseT, n int, profile string, sel []int, mag []int64) []int64 {
	months := c.Win.Every.Months
	if months > 1 && n > 300 {
		n = 300
	}
	if n > 1100 {
		n = 1100
	}
	approx := months * 30 * day
	baseYear := rapid.SampledFrom([]int{1905, 1950, 1969, 1970, 2020}).Draw(t, "baseYear")
	cur := time.Date(baseYear, time.Month(rapid.IntRange(1, 12).Draw(t, "baseMonth")), rapid.IntRange(1, 28).Draw(t, "baseDay"), 0, 0, 0, 0, time.UTC).UnixNano()
	limit := time.Date(2200, 1, 1, 0, 0, 0, 0, time.UTC).UnixNano()
	var ts []int64
	for i := 0; i < n; i++ {
		var gap int64
		mode := profile
		if profile == "mixed" || profile == "exact" {
			mode = []string{"dense", "dense", "dense", "one", "one", "sparse", "sparse", "boundary", "boundary", "boundary", "dense", "one"}[sel[i]]
		}
		switch mode {
		case "dense":
			gap = 1 + mag[i]%(approx/3)
		case "one":
			gap = approx + mag[i]%(day/2)
		case "sparse":
			gap = approx + mag[i]%(2*approx)
		case "boundary":
			if b, ok := c.Win.Bounds(cur); ok && b.Stop > cur {
				gap = b.Stop - cur
				if sel[i] == 9 && gap > 1 {
					gap-- // last nanosecond of the window
				}
			} else {
				gap = approx
			}
		}
		cur += gap
		if cur >= limit {
			break
		}
		ts = append(ts, cur)
	}
	return ts
}

func genSeries(t *rapid.T, c *caseT, idx int, big bool) *series {
	s := &series{}
	if idx == 0 {
		s.Kind = kind(rapid.SampledFrom([]int{0, 0, 1, 1, 2, 3, 4}).Draw(t, "kind"))
		c.Agg = genAgg(t, s.Kind)
	} else {
		if c.Agg == aggCount || c.Agg == aggFirst || c.Agg == aggLast {
			s.Kind = kind(rapid.IntRange(0, 4).Draw(t, "kind"))
		} else {
			s.Kind = kind(rapid.IntRange(0, 2).Draw(t, "kind"))
		}
	}
	s.Ts = genTimes(t, c, big)
	n := len(s.Ts)
	// values from a small domain (ties, duplicates, sign changes); extremes only where no
	// arithmetic is involved
	var vsel []int
	if n > 0 {
		vsel = rapid.SliceOfN(rapid.IntRange(-8, 8), n, n).Draw(t, "vals")
	}
	extreme := c.Agg != aggSum && c.Agg != aggMean && rapid.Bool().Draw(t, "extremes")
	scale := rapid.SampledFrom([]float64{0.5, 0.5, 0.1, 1e12 + 0.1}).Draw(t, "fscale")
	switch s.Kind {
	case kFloat:
		s.F = make([]float64, n)
		for i, v := range vsel {
			x := float64(v) * scale
			if extreme {
				switch v {
				case -8:
					x = math.Inf(-1)
				case 8:
					x = math.Inf(1)
				case -7:
					x = -math.MaxFloat64
				case 7:
					x = math.MaxFloat64
				case -1:
					x = math.Copysign(0, -1)
				}
			}
			s.F[i] = x
		}
	case kInt:
		s.I = make([]int64, n)
		for i, v := range vsel {
			x := int64(v)
			if extreme && v == -8 {
				x = math.MinInt64
			} else if extreme && v == 8 {
				x = math.MaxInt64
			}
			s.I[i] = x
		}
	case kUint:
		s.U = make([]uint64, n)
		for i, v := range vsel {
			x := uint64(v + 8)
			if extreme && v == 8 {
				x = math.MaxUint64
			}
			s.U[i] = x
		}
	case kStr:
		s.S = make([]string, n)
		for i, v := range vsel {
			if v != 0 {
				s.S[i] = fmt.Sprintf("s%d", v)
			}
		}
	case kBool:
		s.B = make([]bool, n)
		for i, v := range vsel {
			s.B[i] = v&1 == 1
		}
	}
	if (s.Kind == kFloat && scale == 0.5 || s.Kind == kInt) && !extreme && rapid.IntRange(0, 6).Draw(t, "cond") == 0 {
		s.HasCond = true
		s.CondGT = int64(rapid.IntRange(-4, 4).Draw(t, "condGT"))
	}
	genChunks(t, c, s)
	return s
}

// genChunks cuts the series into arrays and distributes them over shards.
func genChunks(t *rapid.T, c *caseT, s *series) {
	n := len(s.Ts)
	var cuts []int // sorted positions in (0,n)
	if n > 1 {
		switch rapid.SampledFrom([]string{"single", "random", "random", "fixed", "fixed", "winstart", "winstart"}).Draw(t, "chunking") {
		case "single":
		case "random":
			k := rapid.IntRange(1, 12).Draw(t, "ncuts")
			set := map[int]bool{}
			for i := 0; i < k; i++ {
				set[rapid.IntRange(1, n-1).Draw(t, "cut")] = true
			}
			for p := range set {
				cuts = append(cuts, p)
			}
			sort.Ints(cuts)
		case "fixed":
			sz := rapid.SampledFrom([]int{1, 2, 3, 7, 999, 1000, 1000, 1001, 2500, 0}).Draw(t, "chunksize")
			if sz == 0 || sz >= n {
				sz = rapid.IntRange(1, n-1).Draw(t, "chunksize2")
			}
			if n/sz > 600 { // keep the number of arrays bounded for big series
				sz = n/600 + 1
			}
			for p := sz; p < n; p += sz {
				cuts = append(cuts, p)
			}
		case "winstart":
			// a cut exactly before every point that opens a new window (every 2nd one in a sub-class)
			stride := rapid.SampledFrom([]int{1, 1, 2, 5}).Draw(t, "stride")
			cnt := 0
			var prev refwin.Bound
			for i, ts := range s.Ts {
				b, ok := c.Win.Bounds(ts)
				if c.NoWindow || !ok {
					break
				}
				if i > 0 && b != prev {
					cnt++
					if cnt%stride == 0 && len(cuts) < 700 {
						cuts = append(cuts, i)
					}
				}
				prev = b
			}
		}
	}
	var chunks [][2]int
	lo := 0
	for _, p := range cuts {
		chunks = append(chunks, [2]int{lo, p})
		lo = p
	}
	if n > lo {
		chunks = append(chunks, [2]int{lo, n})
	}
	// data shards: consecutive groups of chunks
	var shards []shardSpec
	if len(chunks) > 0 {
		d := rapid.IntRange(1, 3).Draw(t, "dataShards")
		if d > len(chunks) {
			d = len(chunks)
		}
		bounds := []int{0}
		for i := 1; i < d; i++ {
			bounds = append(bounds, rapid.IntRange(1, len(chunks)-1).Draw(t, "shardCut"))
		}
		bounds = append(bounds, len(chunks))
		sort.Ints(bounds)
		for i := 0; i+1 < len(bounds); i++ {
			if bounds[i] < bounds[i+1] {
				shards = append(shards, shardSpec{Mode: shData, Chunks: chunks[bounds[i]:bounds[i+1]]})
			}
		}
	}
	// shards that do not hold the series / hold no point of it
	extra := rapid.SampledFrom([]int{0, 0, 1, 1, 2, 3}).Draw(t, "extraShards")
	for i := 0; i < extra; i++ {
		pos := rapid.IntRange(0, len(shards)).Draw(t, "extraPos")
		sp := shardSpec{Mode: rapid.SampledFrom([]int{shNil, shEmpty}).Draw(t, "extraMode")}
		shards = append(shards[:pos], append([]shardSpec{sp}, shards[pos:]...)...)
	}
	s.Shards = shards
}

func genRange(t *rapid.T, c *caseT) {
	var lo, hi int64 = math.MaxInt64, math.MinInt64
	var all []int64
	for _, s := range c.Series {
		for _, ts := range s.Ts {
			if ts < lo {
				lo = ts
			}
			if ts > hi {
				hi = ts
			}
		}
		if len(s.Ts) > 0 && len(all) == 0 {
			all = s.Ts
		}
	}
	if len(all) == 0 {
		c.Start, c.End = -5, 500
		return
	}
	switch rapid.SampledFrom([]string{"wide", "tight", "tight", "end-at-last", "clip", "clip"}).Draw(t, "range") {
	case "wide":
		c.Start, c.End = math.MinInt64, math.MaxInt64
	case "tight":
		c.Start, c.End = lo, hi+1
	case "end-at-last":
		c.Start, c.End = lo-5, hi
	case "clip":
		a := rapid.IntRange(0, len(all)-1).Draw(t, "clipA")
		b := rapid.IntRange(a, len(all)-1).Draw(t, "clipB")
		c.Start = all[a] + int64(rapid.IntRange(0, 1).Draw(t, "clipA1"))
		c.End = all[b] + int64(rapid.IntRange(0, 1).Draw(t, "clipB1"))
	}
}

func genCase(t *rapid.T) *caseT {
	c := &caseT{}
	genWindow(t, c)
	big := rapid.Bool().Draw(t, "big")
	ns := rapid.SampledFrom([]int{1, 1, 1, 2, 3}).Draw(t, "nseries")
	for i := 0; i < ns; i++ {
		c.Series = append(c.Series, genSeries(t, c, i, big && i == 0))
	}
	genRange(t, c)
	return c
}

// ---------------------------------------------------------------------------------------------
// running the system under test

func pbDur(d refwin.Duration) *datatypes.Duration {
	return &datatypes.Duration{Nsecs: d.Nsecs, Months: d.Months, Negative: d.Negative}
}

func (c *caseT) request() *datatypes.ReadWindowAggregateRequest {
	req := &datatypes.ReadWindowAggregateRequest{
		Range:     &datatypes.TimestampRange{Start: c.Start, End: c.End},
		Aggregate: []*datatypes.Aggregate{{Type: aggType[c.Agg]}},
	}
	if c.Form == "ns" {
		req.WindowEvery = c.Win.Every.Nsecs
		req.Offset = c.Win.Offset.Nsecs
		if c.Win.Offset.Negative {
			req.Offset = -req.Offset
		}
	} else {
		req.Window = &datatypes.Window{Every: pbDur(c.Win.Every)}
		if !c.Win.Offset.IsZero() || len(c.Series)%2 == 0 {
			req.Window.Offset = pbDur(c.Win.Offset)
		}
	}
	return req
}

func (c *caseT) seriesCursor(descending bool) (*seriesCursor, [][]*shardIter) {
	sc := &seriesCursor{}
	var iters [][]*shardIter
	for i, s := range c.Series {
		name := []byte("m")
		tags := models.NewTags(map[string]string{"idx": fmt.Sprint(i), "_field": "v", "_measurement": "m"})
		row := reads.SeriesRow{Name: name, SeriesTags: models.NewTags(map[string]string{"idx": fmt.Sprint(i)}), Tags: tags, Field: "v"}
		var its []*shardIter
		for _, sp := range s.Shards {
			its = append(its, &shardIter{s: s, spec: sp})
		}
		if descending {
			// Store.WindowAggregate sorts the shard groups in reverse for the descending optimisation
			for a, b := 0, len(its)-1; a < b; a, b = a+1, b-1 {
				its[a], its[b] = its[b], its[a]
			}
		}
		for _, it := range its {
			row.Query = append(row.Query, it)
		}
		if s.HasCond {
			var rhs influxql.Expr = &influxql.IntegerLiteral{Val: s.CondGT}
			if s.Kind == kFloat {
				rhs = &influxql.NumberLiteral{Val: float64(s.CondGT)}
			}
			row.ValueCond = &influxql.BinaryExpr{Op: influxql.GT, LHS: &influxql.VarRef{Val: "$"}, RHS: rhs}
		}
		sc.rows = append(sc.rows, row)
		iters = append(iters, its)
	}
	return sc, iters
}

// output is everything one aggregate cursor returned before its first empty array.
type output struct {
	Kind   kind
	Ts     []int64
	F      []float64
	I      []int64
	U      []uint64
	S      []string
	B      []bool
	Arrays []int // lengths of the non-empty arrays
	After  int   // points returned by two more Next calls after the terminal empty array
	Bad    string
}

func drain(cur cursors.Cursor) *output {
	o := &output{}
	step := func() (int, int) { return 0, 0 }
	switch cc := cur.(type) {
	case cursors.FloatArrayCursor:
		o.Kind = kFloat
		step = func() (int, int) {
			a := cc.Next()
			o.Ts, o.F = append(o.Ts, a.Timestamps...), append(o.F, a.Values...)
			return len(a.Timestamps), len(a.Values)
		}
	case cursors.IntegerArrayCursor:
		o.Kind = kInt
		step = func() (int, int) {
			a := cc.Next()
			o.Ts, o.I = append(o.Ts, a.Timestamps...), append(o.I, a.Values...)
			return len(a.Timestamps), len(a.Values)
		}
	case cursors.UnsignedArrayCursor:
		o.Kind = kUint
		step = func() (int, int) {
			a := cc.Next()
			o.Ts, o.U = append(o.Ts, a.Timestamps...), append(o.U, a.Values...)
			return len(a.Timestamps), len(a.Values)
		}
	case cursors.StringArrayCursor:
		o.Kind = kStr
		step = func() (int, int) {
			a := cc.Next()
			o.Ts, o.S = append(o.Ts, a.Timestamps...), append(o.S, a.Values...)
			return len(a.Timestamps), len(a.Values)
		}
	case cursors.BooleanArrayCursor:
		o.Kind = kBool
		step = func() (int, int) {
			a := cc.Next()
			o.Ts, o.B = append(o.Ts, a.Timestamps...), append(o.B, a.Values...)
			return len(a.Timestamps), len(a.Values)
		}
	default:
		o.Bad = fmt.Sprintf("unknown cursor type %T", cur)
		return o
	}
	for {
		nt, nv := step()
		if nt != nv {
			o.Bad = fmt.Sprintf("array %d has %d timestamps but %d values", len(o.Arrays), nt, nv)
			return o
		}
		if nt == 0 {
			break
		}
		if nt > reads.MaxPointsPerBlock {
			o.Bad = fmt.Sprintf("array %d has %d > MaxPointsPerBlock points", len(o.Arrays), nt)
			return o
		}
		o.Arrays = append(o.Arrays, nt)
		if len(o.Arrays) > 100000 {
			o.Bad = "cursor does not terminate"
			return o
		}
	}
	// the statement does not say what happens after the end; tally only
	n := len(o.Ts)
	for i := 0; i < 2; i++ {
		nt, _ := step()
		o.After += nt
	}
	o.Ts = o.Ts[:n]
	return o
}

// ---------------------------------------------------------------------------------------------
// oracle

func same[V comparable](a, b V) bool {
	if x, ok := any(a).(float64); ok {
		return math.Float64bits(x) == math.Float64bits(any(b).(float64))
	}
	return a == b
}

func rawPoints[V any](s *series, vs []V, start, end int64, keep func(V) bool) []refwin.Point[V] {
	var out []refwin.Point[V]
	for i, t := range s.Ts {
		if t >= start && t < end && (keep == nil || keep(vs[i])) {
			out = append(out, refwin.Point[V]{T: t, V: vs[i]})
		}
	}
	return out
}

type failure struct{ key, detail string }

func fail(key, f string, a ...any) *failure { return &failure{key, fmt.Sprintf(f, a...)} }

func inSet(x int64, set []int64) bool {
	for _, y := range set {
		if x == y {
			return true
		}
	}
	return false
}

// buckets returns the expected non-empty windows (one pseudo window for every = MaxInt64).
func buckets[V any](c *caseT, raw []refwin.Point[V]) ([]refwin.Bucket[V], *failure) {
	if c.NoWindow {
		if len(raw) == 0 {
			return nil, nil
		}
		return []refwin.Bucket[V]{{Bound: refwin.Bound{Start: math.MinInt64, Stop: math.MaxInt64}, Points: raw}}, nil
	}
	bs, ok := refwin.Group(c.Win, raw)
	if !ok {
		return nil, fail("harness-window-undefined", "generator produced a point whose window is undefined")
	}
	return bs, nil
}

// checkCommon verifies count / first / last (all value types). outV is the output in V's type.
func checkCommon[V comparable](c *caseT, bs []refwin.Bucket[V], o *output, inKind kind, outV []V) *failure {
	wantKind := inKind
	if c.Agg == aggCount {
		wantKind = kInt
	}
	if c.Agg == aggMean {
		wantKind = kFloat
	}
	if o.Kind != wantKind {
		return fail("cursor-type", "%s over %s data returned a %s cursor, want %s", c.Agg, inKind, o.Kind, wantKind)
	}
	if len(o.Ts) != len(bs) {
		return fail("window-count", "%s: got %d output points, want %d non-empty windows (arrays %v)", c.Agg, len(o.Ts), len(bs), o.Arrays)
	}
	for i, b := range bs {
		switch c.Agg {
		case aggCount:
			if !c.NoWindow && o.Ts[i] != b.Stop {
				return fail("window-time", "count: output %d has time %d, want window stop %d of [%d,%d)", i, o.Ts[i], b.Stop, b.Start, b.Stop)
			}
			if o.I[i] != refwin.Count(b.Points) {
				return fail("count-value", "count: window %d [%d,%d) got %d want %d", i, b.Start, b.Stop, o.I[i], refwin.Count(b.Points))
			}
		case aggFirst, aggLast:
			p, _ := refwin.First(b.Points)
			if c.Agg == aggLast {
				p, _ = refwin.Last(b.Points)
			}
			if o.Ts[i] != p.T || !same(outV[i], p.V) {
				return fail(c.Agg+"-point", "%s: window %d [%d,%d) got (%d,%v) want (%d,%v)", c.Agg, i, b.Start, b.Stop, o.Ts[i], outV[i], p.T, p.V)
			}
		}
	}
	return nil
}

func checkNumeric[V refwin.Number](c *caseT, bs []refwin.Bucket[V], o *output, outV []V) *failure {
	for i, b := range bs {
		switch c.Agg {
		case aggSum:
			if !c.NoWindow && o.Ts[i] != b.Stop {
				return fail("window-time", "sum: output %d has time %d, want window stop %d of [%d,%d)", i, o.Ts[i], b.Stop, b.Start, b.Stop)
			}
			want := refwin.Sum(b.Points)
			if _, isF := any(want).(float64); isF {
				ex, _ := refwin.SumExact(b.Points)
				exf, _ := ex.Float64()
				if d := math.Abs(float64(outV[i]) - exf); !(d <= 1e-12*refwin.SumAbs(b.Points)) {
					return fail("sum-value", "sum: window %d [%d,%d) got %v want %v (n=%d)", i, b.Start, b.Stop, outV[i], exf, len(b.Points))
				}
			} else if outV[i] != want {
				return fail("sum-value", "sum: window %d [%d,%d) got %v want %v (n=%d)", i, b.Start, b.Stop, outV[i], want, len(b.Points))
			}
		case aggMean:
			if !c.NoWindow && o.Ts[i] != b.Stop {
				return fail("window-time", "mean: output %d has time %d, want window stop %d of [%d,%d)", i, o.Ts[i], b.Stop, b.Start, b.Stop)
			}
			want, ok := refwin.Mean(b.Points)
			if !ok {
				return fail("harness-mean-undefined", "non-finite input reached mean")
			}
			if d := math.Abs(o.F[i] - want); !(d <= 1e-12*refwin.SumAbs(b.Points)/float64(len(b.Points))) {
				return fail("mean-value", "mean: window %d [%d,%d) got %v want %v (n=%d)", i, b.Start, b.Stop, o.F[i], want, len(b.Points))
			}
		case aggMin, aggMax:
			v, at, ok := refwin.Min(b.Points)
			if c.Agg == aggMax {
				v, at, ok = refwin.Max(b.Points)
			}
			if !ok {
				return fail("harness-minmax-undefined", "NaN reached min/max")
			}
			if outV[i] != v {
				return fail(c.Agg+"-value", "%s: window %d [%d,%d) got value %v want %v", c.Agg, i, b.Start, b.Stop, outV[i], v)
			}
			if !inSet(o.Ts[i], at) {
				return fail(c.Agg+"-time", "%s: window %d [%d,%d) value %v reported at time %d, but the points carrying it are at %v", c.Agg, i, b.Start, b.Stop, v, o.Ts[i], at)
			}
			// the reported pair must be a raw point bit for bit (-0 vs +0)
			exact := false
			for _, p := range b.Points {
				if p.T == o.Ts[i] && same(p.V, outV[i]) {
					exact = true
				}
			}
			if !exact {
				return fail(c.Agg+"-point", "%s: window %d: (%d,%v) is not a raw point", c.Agg, i, o.Ts[i], outV[i])
			}
		}
	}
	return nil
}

func checkSeries(c *caseT, s *series, o *output) *failure {
	if o.Bad != "" {
		return fail("array-shape", "%s", o.Bad)
	}
	switch s.Kind {
	case kFloat:
		var keep func(float64) bool
		if s.HasCond {
			keep = func(v float64) bool { return v > float64(s.CondGT) }
		}
		bs, f := buckets(c, rawPoints(s, s.F, c.Start, c.End, keep))
		if f != nil {
			return f
		}
		if f := checkCommon(c, bs, o, s.Kind, o.F); f != nil {
			return f
		}
		return checkNumeric(c, bs, o, o.F)
	case kInt:
		var keep func(int64) bool
		if s.HasCond {
			keep = func(v int64) bool { return v > s.CondGT }
		}
		bs, f := buckets(c, rawPoints(s, s.I, c.Start, c.End, keep))
		if f != nil {
			return f
		}
		if f := checkCommon(c, bs, o, s.Kind, o.I); f != nil {
			return f
		}
		return checkNumeric(c, bs, o, o.I)
	case kUint:
		bs, f := buckets(c, rawPoints(s, s.U, c.Start, c.End, nil))
		if f != nil {
			return f
		}
		if f := checkCommon(c, bs, o, s.Kind, o.U); f != nil {
			return f
		}
		return checkNumeric(c, bs, o, o.U)
	case kStr:
		bs, f := buckets(c, rawPoints(s, s.S, c.Start, c.End, nil))
		if f != nil {
			return f
		}
		return checkCommon(c, bs, o, s.Kind, o.S)
	default:
		bs, f := buckets(c, rawPoints(s, s.B, c.Start, c.End, nil))
		if f != nil {
			return f
		}
		return checkCommon(c, bs, o, s.Kind, o.B)
	}
}

// ---------------------------------------------------------------------------------------------
// classification / rendering

func (c *caseT) render(full bool) map[string]any {
	m := map[string]any{"agg": c.Agg, "form": c.Form, "no_window": c.NoWindow, "window": c.Win, "start": c.Start, "end": c.End}
	var ss []any
	for _, s := range c.Series {
		e := map[string]any{"kind": s.Kind.String(), "n": len(s.Ts), "shards": s.Shards}
		if s.HasCond {
			e["cond_gt"] = s.CondGT
		}
		if full || len(s.Ts) <= 64 {
			e["ts"] = s.Ts
			switch s.Kind {
			case kFloat:
				vs := make([]string, len(s.F))
				for i, v := range s.F {
					vs[i] = fmt.Sprint(v)
				}
				e["vals"] = vs
			case kInt:
				e["vals"] = s.I
			case kUint:
				e["vals"] = s.U
			case kStr:
				e["vals"] = s.S
			case kBool:
				e["vals"] = s.B
			}
		}
		ss = append(ss, e)
	}
	m["series"] = ss
	return m
}

func (c *caseT) canon() string {
	b, _ := json.Marshal(c.render(true))
	return string(b)
}

// spansArrayBoundary reports whether two consecutive in-range points of the series lie in the
// same window but in different arrays.
func spansArrayBoundary(c *caseT, s *series) bool {
	if c.NoWindow {
		return false
	}
	for _, sh := range s.Shards {
		for _, ch := range sh.Chunks {
			i := ch[0]
			if i == 0 || s.Ts[i] < c.Start || s.Ts[i] >= c.End || s.Ts[i-1] < c.Start {
				continue
			}
			a, ok1 := c.Win.Bounds(s.Ts[i-1])
			b, ok2 := c.Win.Bounds(s.Ts[i])
			if ok1 && ok2 && a == b {
				return true
			}
		}
	}
	return false
}

func windowsClass(w int) string {
	switch {
	case w == 0:
		return "0"
	case w == 1:
		return "1"
	case w < 999:
		return "2..998"
	case w == 999, w == 1000, w == 1001, w == 1999, w == 2000, w == 2001:
		return fmt.Sprint(w)
	case w < 2000:
		return "1002..1998"
	default:
		return ">2001"
	}
}

// ---------------------------------------------------------------------------------------------
// the property

func runCase(c *caseT) (outs []*output, f *failure) {
	defer func() {
		if r := recover(); r != nil {
			f = fail("panic", "panic: %v", r)
		}
	}()
	req := c.request()
	desc := reads.IsLastDescendingAggregateOptimization(req)
	sc, _ := c.seriesCursor(desc)
	rs, err := reads.NewWindowAggregateResultSet(context.Background(), req, sc)
	if err != nil {
		return nil, fail("resultset-error", "NewWindowAggregateResultSet: %v", err)
	}
	i := 0
	for rs.Next() {
		if i >= len(c.Series) {
			return nil, fail("series-count", "result set returned more than %d series", len(c.Series))
		}
		if got := string(rs.Tags().Get([]byte("idx"))); got != fmt.Sprint(i) {
			return nil, fail("series-order", "result %d carries tags of series %q", i, got)
		}
		cur := rs.Cursor()
		var o *output
		if cur == nil {
			o = &output{Kind: -1}
		} else {
			o = drain(cur)
			if err := cur.Err(); err != nil {
				return nil, fail("cursor-error", "series %d: cursor error %v", i, err)
			}
			cur.Close()
		}
		outs = append(outs, o)
		i++
	}
	if err := rs.Err(); err != nil {
		return nil, fail("resultset-error", "result set error: %v", err)
	}
	rs.Close()
	if i != len(c.Series) {
		return nil, fail("series-count", "result set returned %d of %d series", i, len(c.Series))
	}
	for i, s := range c.Series {
		o := outs[i]
		if o.Kind == -1 {
			// nil cursor = no data for the series: legal only when no raw point is expected
			o2 := &output{Kind: s.Kind}
			switch c.Agg {
			case aggCount:
				o2.Kind = kInt
			case aggMean:
				o2.Kind = kFloat
			}
			o = o2
		}
		if f := checkSeries(c, s, o); f != nil {
			f.detail = fmt.Sprintf("series %d (%s, %d points): %s", i, s.Kind, len(s.Ts), f.detail)
			return outs, f
		}
	}
	return outs, nil
}

func TestPropWindowAggregate(t *testing.T) {
	rec.Check(t, 25000, 400000, func(t *rapid.T) {
		c := genCase(t)
		if staleFilterSignature(c) && ev.KnownOpen("C20", knownStaleFilter) {
			rec.ExcludedKnown(knownStaleFilter)
			return
		}
		if nilCursorPanicSignature(c) && ev.KnownOpen("C20", knownNilLimit) {
			rec.ExcludedKnown(knownNilLimit)
			return
		}
		outs, f := runCase(c)
		rec.Eval()

		// classes
		rec.Class("agg:" + c.Agg)
		switch {
		case c.NoWindow:
			rec.Class("window:none(every=MaxInt64)," + c.Form)
		case c.Win.Calendar():
			rec.Class("window:months")
		default:
			rec.Class("window:ns," + c.Form + "-form")
		}
		if !c.NoWindow {
			switch {
			case c.Win.Offset.IsZero():
				rec.Class("offset:0")
			case c.Win.Offset.Negative:
				rec.Class("offset:negative")
			default:
				rec.Class("offset:positive")
			}
			if !c.Win.Calendar() && c.Win.Offset.Nsecs >= c.Win.Every.Nsecs {
				rec.Class("offset:|offset|>=every")
			}
		}
		nt := false
		for i, s := range c.Series {
			rec.Class("series-kind:" + s.Kind.String())
			if s.HasCond {
				rec.Class("series:value-predicate")
			}
			arrays, data, nilc, empty, bigChunk := 0, 0, 0, 0, false
			for _, sh := range s.Shards {
				switch sh.Mode {
				case shData:
					data++
				case shNil:
					nilc++
				case shEmpty:
					empty++
				}
				arrays += len(sh.Chunks)
				for _, ch := range sh.Chunks {
					if ch[1]-ch[0] > 1000 {
						bigChunk = true
					}
				}
			}
			switch {
			case arrays <= 1:
				rec.Class("input-arrays:<=1")
			case arrays <= 10:
				rec.Class("input-arrays:2..10")
			default:
				rec.Class("input-arrays:>10")
			}
			if data > 1 {
				rec.Class("shards:>=2-with-data")
			}
			if nilc+empty > 0 {
				rec.Class("shards:with-nil-or-empty-cursor")
			}
			if bigChunk {
				rec.Class("input-array:>1000-points")
			}
			span := spansArrayBoundary(c, s)
			if span {
				rec.Class("window-spans-array-boundary")
			}
			if outs != nil && i < len(outs) {
				o := outs[i]
				rec.Class("output-windows:" + windowsClass(len(o.Ts)))
				if len(o.Arrays) > 1 {
					rec.Class("output-arrays:>=2")
				}
				if o.After > 0 {
					rec.Class("tally:data-after-terminal-empty-array")
				}
				if c.NoWindow && len(o.Ts) == 1 && (c.Agg == aggCount || c.Agg == aggSum || c.Agg == aggMean) {
					if o.Ts[0] == math.MaxInt64 {
						rec.Class("tally:no-window-output-time=MaxInt64")
					} else {
						rec.Class("tally:no-window-output-time=other")
					}
				}
				if arrays >= 2 && span && (len(o.Ts) > 1000 || !c.Win.Offset.IsZero()) {
					nt = true
				}
			}
		}
		switch {
		case c.Start == math.MinInt64:
			rec.Class("range:wide")
		default:
			rec.Class("range:bounded")
		}
		if nt {
			rec.NonTrivial(c.canon())
		}
		if rec.WantSample() && len(c.Series[0].Ts) > 0 && len(c.Series[0].Ts) <= 12 {
			rec.Sample(c.render(false))
		}
		if f != nil {
			rec.Fail(t, "TestPropWindowAggregate", f.key, f.detail, c.render(len(c.Series[0].Ts) <= 400))
		}
	})
}

// ---------------------------------------------------------------------------------------------
// known finding: multishard-stale-value-filter
//
// multiShardArrayCursors keeps ONE *MultiShardArrayCursor per value type and reuses it for every
// series of a result set. reset(cur, itrs, cond) installs the value filter when cond != nil but
// does not remove it when cond == nil; nextArrayCursor() wraps the cursor of every FOLLOWING shard
// in c.filter whenever c.filter != nil. A series without value predicate that follows (in the same
// result set) a series of the same value type with a value predicate therefore gets that stale
// predicate applied to all its shards but the first. (indexSeriesCursor reduces the request
// predicate per series, so e.g. `(host = 'a' AND _value > 0) OR host = 'b'` gives exactly this
// sequence.)

const knownStaleFilter = "multishard-stale-value-filter"

// staleFilterSignature reports whether the case has exactly that signature: some in-range point
// of a predicate-free series lies in a shard after the first one that yields a cursor and fails
// the predicate left behind by an earlier series of the same value type.
func staleFilterSignature(c *caseT) bool {
	desc := reads.IsLastDescendingAggregateOptimization(c.request())
	stale := map[kind]*int64{}
	for _, s := range c.Series {
		order := append([]shardSpec(nil), s.Shards...)
		if desc {
			for a, b := 0, len(order)-1; a < b; a, b = a+1, b-1 {
				order[a], order[b] = order[b], order[a]
			}
		}
		first := -1
		for i, sh := range order {
			if sh.Mode != shNil {
				first = i
				break
			}
		}
		if first < 0 {
			continue // no cursor at all: reset is never called
		}
		if s.HasCond {
			v := s.CondGT
			stale[s.Kind] = &v
			continue
		}
		gt := stale[s.Kind]
		if gt == nil {
			continue
		}
		for _, sh := range order[first+1:] {
			for _, ch := range sh.Chunks {
				for i := ch[0]; i < ch[1]; i++ {
					if s.Ts[i] < c.Start || s.Ts[i] >= c.End {
						continue
					}
					if s.Kind == kFloat && !(s.F[i] > float64(*gt)) || s.Kind == kInt && !(s.I[i] > *gt) {
						return true
					}
				}
			}
		}
	}
	return false
}

func knownStaleFilterCase() *caseT {
	return &caseT{
		Agg: aggCount, Form: "ns", Win: refwin.Window{Every: refwin.Ns(10)}, Start: 0, End: 100,
		Series: []*series{
			{Kind: kInt, Ts: []int64{1}, I: []int64{5}, HasCond: true, CondGT: 0,
				Shards: []shardSpec{{Mode: shData, Chunks: [][2]int{{0, 1}}}}},
			{Kind: kInt, Ts: []int64{1, 2}, I: []int64{0, 0},
				Shards: []shardSpec{{Mode: shData, Chunks: [][2]int{{0, 1}}}, {Mode: shData, Chunks: [][2]int{{1, 2}}}}},
		},
	}
}

func TestKnown_multishard_stale_value_filter(t *testing.T) {
	c := knownStaleFilterCase()
	if !staleFilterSignature(c) {
		t.Fatal("reproducer does not carry its own signature")
	}
	_, f := runCase(c)
	what := "a series without value predicate read after a series of the same type with a value predicate has that stale predicate applied to every shard but its first (multiShardArrayCursor.reset does not clear c.filter when cond == nil): count over 2 shards x 1 point (value 0) returns 1 instead of 2"
	if f != nil {
		what += " — " + f.detail
	}
	rec.Known(t, "TestKnown_multishard_stale_value_filter", knownStaleFilter, f != nil, what, c.render(true))
}

// ---------------------------------------------------------------------------------------------
// known finding: nowindow-first-last-nil-cursor-panic
//
// newAggregateArrayCursor (every = MaxInt64, i.e. aggregate over the whole range) hands the cursor
// of first/last straight to newLimitArrayCursor without the `cursor == nil` check that
// newWindowAggregateArrayCursor has; multiShardArrayCursors.createCursor returns nil when no shard
// yields a cursor for the series (field unknown in every selected shard, or CursorIterator.Next
// returned an error such as a cancelled context). Result: panic "unreachable: <nil>" in
// windowAggregateResultSet.Next instead of a series without points.

const knownNilLimit = "nowindow-first-last-nil-cursor-panic"

func nilCursorPanicSignature(c *caseT) bool {
	if !c.NoWindow || (c.Agg != aggFirst && c.Agg != aggLast) {
		return false
	}
	for _, s := range c.Series {
		any := false
		for _, sh := range s.Shards {
			if sh.Mode != shNil {
				any = true
			}
		}
		if !any {
			return true
		}
	}
	return false
}

func TestKnown_nowindow_first_last_nil_cursor_panic(t *testing.T) {
	c := &caseT{
		Agg: aggFirst, Form: "ns", NoWindow: true, Win: refwin.Window{Every: refwin.Ns(math.MaxInt64)}, Start: 0, End: 100,
		Series: []*series{{Kind: kInt, Shards: []shardSpec{{Mode: shNil}}}},
	}
	if !nilCursorPanicSignature(c) {
		t.Fatal("reproducer does not carry its own signature")
	}
	_, f := runCase(c)
	what := "first/last with every=MaxInt64 over a series for which no shard yields a cursor panics (newAggregateArrayCursor -> newLimitArrayCursor(nil): \"unreachable: <nil>\") instead of returning a series without points"
	repro := f != nil && f.key == "panic"
	if f != nil {
		what += " — " + f.detail
	}
	rec.Known(t, "TestKnown_nowindow_first_last_nil_cursor_panic", knownNilLimit, repro, what, c.render(true))
}
