package c23_functions

import (
	"fmt"
	"math"
	"math/big"
	"sort"
	"testing"
	"time"

	"github.com/influxdata/influxdb/v2/influxql/query"
	"github.com/influxdata/influxql"
	"pgregory.net/rapid"
)

func mkIntegral(k kind, unit time.Duration, opt query.IteratorOptions) stream {
	iv := query.Interval{Duration: unit}
	switch k {
	case kF:
		r := query.NewFloatIntegralReducer(iv, opt)
		return stream{agg: aggF(r), emit: emitF(r), close: func() { _ = r.Close() }}
	case kI:
		r := query.NewIntegerIntegralReducer(iv, opt)
		return stream{agg: aggI(r), emit: emitF(r), close: func() { _ = r.Close() }}
	default:
		r := query.NewUnsignedIntegralReducer(iv, opt)
		return stream{agg: aggU(r), emit: emitF(r), close: func() { _ = r.Close() }}
	}
}

func floorDiv(a, b int64) int64 {
	q := a / b
	if a%b != 0 && a < 0 {
		q--
	}
	return q
}

// windowStart of GROUP BY time(d, off): floor((t-off)/d)*d + off.
func windowStart(t, d, off int64) int64 { return floorDiv(t-off, d)*d + off }

// refIntegral integrates the piecewise linear curve through pts (ascending, distinct times) and
// returns the area per unit: one value when d == 0, else one per interval (keyed by interval
// start) for every interval that overlaps [t_first, t_last] in more than a point. skipped reports
// whether two consecutive points are more than one interval apart (an interval without a point
// lies strictly between them).
func refIntegral(pts []mpt, unit, d, off int64) (w []want, skipped bool) {
	w, skipped, _ = refIntegralScale(pts, unit, d, off)
	return w, skipped
}

// refIntegralScale additionally returns the sum of the absolute areas of all pieces (the scale
// against which float rounding of a cancelling sum is judged).
func refIntegralScale(pts []mpt, unit, d, off int64) (w []want, skipped bool, scale float64) {
	if len(pts) < 2 {
		return nil, false, 0
	}
	areas := map[int64]*big.Rat{}
	add := func(key int64, a *big.Rat) {
		if areas[key] == nil {
			areas[key] = new(big.Rat)
		}
		areas[key].Add(areas[key], a)
	}
	valAt := func(a, b mpt, t int64) *big.Rat { // linear interpolation, exact
		r := rat(b.N4-a.N4, 4)
		r.Mul(r, rat(t-a.T, b.T-a.T))
		return r.Add(r, rat(a.N4, 4))
	}
	for i := 1; i < len(pts); i++ {
		a, b := pts[i-1], pts[i]
		lo := a.T
		for lo < b.T {
			hi := b.T
			key := int64(0)
			if d > 0 {
				key = windowStart(lo, d, off)
				if key+d < hi {
					hi = key + d
				}
			}
			// trapezium over [lo,hi]
			h := new(big.Rat).Add(valAt(a, b, lo), valAt(a, b, hi))
			h.Mul(h, rat(1, 2))
			h.Mul(h, rat(hi-lo, unit))
			add(key, h)
			// scale: the trapezium of the absolute heights (a piece may cross zero)
			ha := new(big.Rat).Add(new(big.Rat).Abs(valAt(a, b, lo)), new(big.Rat).Abs(valAt(a, b, hi)))
			ha.Mul(ha, rat(hi-lo, 2*unit))
			hf, _ := ha.Float64()
			scale += hf
			lo = hi
		}
		if d > 0 && windowStart(b.T, d, off)-windowStart(a.T, d, off) > d {
			skipped = true
		}
	}
	keys := make([]int64, 0, len(areas))
	for k := range areas {
		keys = append(keys, k)
	}
	sort.Slice(keys, func(i, j int) bool { return keys[i] < keys[j] })
	for _, k := range keys {
		w = append(w, want{k, areas[k]})
	}
	return w, skipped, scale
}

func TestPropIntegral(t *testing.T) {
	rec.Check(t, 30000, 600000, func(t *rapid.T) {
		s := genSeries(t, 40, true)
		unit := genUnit(t)
		var d, off int64
		if rapid.IntRange(0, 2).Draw(t, "grouped") > 0 {
			// GROUP BY time(d, off) on the scale of the series' gaps
			scale := s.Scale
			if scale == 0 {
				scale = 1
			}
			d = rapid.SampledFrom([]int64{2, 5, 10, 20, 60}).Draw(t, "every") * scale
			off = rapid.SampledFrom([]int64{0, 0, 1, -1, 3}).Draw(t, "offset") * scale % d
		}
		opt := query.IteratorOptions{
			Interval:  query.Interval{Duration: time.Duration(d), Offset: time.Duration(off)},
			Ascending: s.Asc, StartTime: influxql.MinTime, EndTime: influxql.MaxTime,
		}
		got := runStream(mkIntegral(s.Kind, unit, opt), s.Pts)
		asc := append([]mpt(nil), s.Pts...)
		sort.SliceStable(asc, func(i, j int) bool { return asc[i].T < asc[j].T })
		w, skipped, scale := refIntegralScale(asc, int64(unit), d, off)
		if asserted := !s.Dup && len(s.Pts) != 1 && s.Asc && !skipped; asserted {
			// known findings: excluded by signature, counted, and not counted as evaluations
			if integerInterpolationSignature(s, asc, d, off) && knownOpen(knownIntegerIntegral) {
				rec.ExcludedKnown(knownIntegerIntegral)
				return
			}
			if lastPointAtEpochSignature(asc, d) && knownOpen(knownIntegralEpoch) {
				rec.ExcludedKnown(knownIntegralEpoch)
				return
			}
		}
		rec.Eval()
		grouped := "no-group-by-time"
		if d > 0 {
			grouped = "group-by-time"
		}
		rec.Class("integral:" + s.Kind.String() + ":" + grouped)

		switch {
		case s.Dup:
			rec.Class("tally:equal-timestamps(not asserted):integral")
			return
		case len(s.Pts) == 1:
			rec.Class(fmt.Sprintf("tally:integral-of-single-point(not asserted):outputs=%d", len(got)))
			return
		case !s.Asc:
			// ORDER BY time DESC: neither the documentation nor a test of /repo covers it
			agree := compareIntegral(got, w, d, scale) == ""
			rec.Class(fmt.Sprintf("tally:integral-descending(not asserted):%s:equals-ascending-definition=%v", grouped, agree))
			return
		case skipped:
			agree := compareIntegral(got, w, d, scale) == ""
			rec.Class(fmt.Sprintf("tally:integral-gap-skips-interval(not asserted):equals-area-per-interval=%v", agree))
			return
		}
		if len(w) > 1 {
			rec.Class("integral:>=2-intervals")
		}
		if s.nonTrivial() {
			rec.NonTrivial(s.canon("integral", unit, d, off))
		}
		if diff := compareIntegral(got, w, d, scale); diff != "" {
			rec.Fail(t, "TestPropIntegral", "integral-"+s.Kind.String()+"-"+grouped,
				fmt.Sprintf("integral(%s, unit=%d) GROUP BY time(%d, %d): %s", s.Kind, int64(unit), d, off, diff),
				map[string]any{"unit": int64(unit), "every": d, "offset": off, "series": s.render()})
		}
	})
}

// compareIntegral: same number of outputs, same times (time zero for the ungrouped form), values
// within 1e-9 relative to the total absolute area.
func compareIntegral(got []out, w []want, d int64, scale float64) string {
	if len(got) != len(w) {
		return fmt.Sprintf("%d outputs %v, want %d", len(got), got, len(w))
	}
	g := sortedCopy(got, func(a, b out) bool { return a.T < b.T })
	for i := range w {
		wantT := w[i].T
		if d == 0 {
			wantT = 0
			if g[i].T == query.ZeroTime {
				wantT = query.ZeroTime
			}
		}
		wf, _ := w[i].R.Float64()
		if g[i].T != wantT {
			return fmt.Sprintf("output %d at time %d, want %d", i, g[i].T, wantT)
		}
		if !(math.Abs(g[i].F-wf) <= 1e-9*math.Max(scale, 1e-300)) {
			return fmt.Sprintf("interval starting %d: area %v, want %v", wantT, g[i].F, wf)
		}
	}
	return ""
}
