package c23_functions

import (
	"math"
	"testing"
)

// The reference implementations are validated against expectations written down in /repo's own
// tests (influxql/query/select_test.go), which reflect the documented behaviour.
func TestReferenceAgainstRepoExamples(t *testing.T) {
	f := func(t int64, v float64) mpt { return mpt{T: t * sec, N4: int64(v * 4)} }
	val := func(w want) float64 { x, _ := w.R.Float64(); return x }
	eq := func(name string, w []want, times []int64, vals []float64) {
		t.Helper()
		if len(w) != len(vals) {
			t.Fatalf("%s: %d outputs, want %d", name, len(w), len(vals))
		}
		for i := range w {
			if w[i].T != times[i]*sec || math.Abs(val(w[i])-vals[i]) > 1e-12 {
				t.Fatalf("%s: output %d = (%d,%v), want (%d,%v)", name, i, w[i].T, val(w[i]), times[i]*sec, vals[i])
			}
		}
	}
	// Derivative_Float: derivative(value, 1s)
	asc := []mpt{f(0, 20), f(4, 10), f(8, 19), f(12, 3)}
	eq("derivative", refDerivative(asc, sec, false), []int64{4, 8, 12}, []float64{-2.5, 2.25, -4})
	// Derivative_Desc_Float
	desc := []mpt{f(12, 3), f(8, 19), f(4, 10), f(0, 20)}
	eq("derivative desc", refDerivative(desc, sec, false), []int64{8, 4, 0}, []float64{4, -2.25, 2.5})
	// Difference_Float / Non_Negative_Difference_Float
	eq("difference", refDifference(asc, false), []int64{4, 8, 12}, []float64{-10, 9, -16})
	eq("non_negative_difference", refDifference([]mpt{f(0, 20), f(4, 10), f(8, 29), f(12, 3), f(16, 39)}, true), []int64{8, 16}, []float64{19, 36})
	// Elapsed_Float: elapsed(value, 1s) over 0s,4s,8s,11s
	eq("elapsed", refElapsed([]mpt{f(0, 20), f(4, 10), f(8, 19), f(11, 3)}, sec), []int64{4, 8, 11}, []float64{4, 4, 3})
	// MovingAverage_Float: moving_average(value, 2)
	eq("moving_average", refMovingAverage(asc, 2), []int64{4, 8, 12}, []float64{15, 14.5, 11})
	// CumulativeSum_Float
	eq("cumulative_sum", refCumulativeSum(asc), []int64{0, 4, 8, 12}, []float64{20, 30, 49, 52})
	// Integral_Float (no GROUP BY time): 50 at time 0
	pts := []mpt{f(10, 20), f(15, 10), f(20, 0), f(30, -10)}
	w, _ := refIntegral(pts, sec, 0, 0)
	eq("integral", w, []int64{0}, []float64{50})
	// Integral_Float_GroupByTime: time(20s) -> 100 @0s, -50 @20s
	w, _ = refIntegral(pts, sec, 20*sec, 0)
	eq("integral group by", w, []int64{0, 20}, []float64{100, -50})
	// Integral_Float_InterpolateGroupByTime -> 112.5 @0s, -12.5 @20s
	w, _ = refIntegral([]mpt{f(10, 20), f(15, 10), f(25, 0), f(30, -10)}, sec, 20*sec, 0)
	eq("integral interpolate", w, []int64{0, 20}, []float64{112.5, -12.5})
}
