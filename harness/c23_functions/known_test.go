package c23_functions

import (
	"fmt"
	"math"
	"testing"
	"time"

	"github.com/influxdata/influxdb/v2/influxql/query"
	"github.com/influxdata/influxql"

	"verifharness/internal/ev"
)

func knownOpen(key string) bool { return ev.KnownOpen("C23", key) }

const (
	knownIntegerIntegral = "integral-integer-interval-interpolation"
	knownIntegralEpoch   = "integral-last-point-at-epoch-dropped"
)

// integerInterpolationSignature: integer / unsigned integral with GROUP BY time where two
// consecutive points lie in different intervals, the later one not exactly on its interval start,
// and their values differ (the reducer then adds 0.5*(interpolated + previous value) instead of
// 0.5*(interpolated + current value) for the part of the segment inside the new interval).
func integerInterpolationSignature(s *series, asc []mpt, d, off int64) bool {
	if s.Kind == kF || d == 0 {
		return false
	}
	for i := 1; i < len(asc); i++ {
		a, b := asc[i-1], asc[i]
		if windowStart(a.T, d, off) != windowStart(b.T, d, off) && b.T != windowStart(b.T, d, off) && a.N4 != b.N4 {
			return true
		}
	}
	return false
}

// lastPointAtEpochSignature: integral without GROUP BY time whose last point has timestamp 0.
func lastPointAtEpochSignature(asc []mpt, d int64) bool {
	return d == 0 && len(asc) >= 2 && asc[len(asc)-1].T == 0
}

const sec = int64(time.Second)

// The data of select_test.go "Integral_Float_InterpolateGroupByTime" (expected 112.5 and -12.5 there)
// fed to the integer and unsigned reducers.
func TestKnown_integral_integer_interval_interpolation(t *testing.T) {
	opt := query.IteratorOptions{Interval: query.Interval{Duration: 20 * time.Second}, Ascending: true, StartTime: influxql.MinTime, EndTime: influxql.MaxTime}
	pts := []mpt{{10 * sec, 80}, {15 * sec, 40}, {25 * sec, 0}, {30 * sec, -40}}
	s := &series{Kind: kI, Pts: pts, Asc: true}
	if !integerInterpolationSignature(s, pts, 20*sec, 0) {
		t.Fatal("reproducer does not carry its own signature")
	}
	gotF := runStream(mkIntegral(kF, time.Second, opt), pts)
	gotI := runStream(mkIntegral(kI, time.Second, opt), pts)
	w, _, scale := refIntegralScale(pts, sec, 20*sec, 0)
	if d := compareIntegral(gotF, w, 20*sec, scale); d != "" {
		t.Fatalf("the float reducer must agree with the reference on this input: %s", d)
	}
	d := compareIntegral(gotI, w, 20*sec, scale)
	repro := d != "" && len(gotI) == 2 && math.Abs(gotI[1].F-12.5) < 1e-9
	rec.Known(t, "TestKnown_integral_integer_interval_interpolation", knownIntegerIntegral, repro,
		fmt.Sprintf("integral(integer) GROUP BY time(20s) over (10s,20),(15s,10),(25s,0),(30s,-10): got %v, float reducer and definition give [112.5 -12.5] (%s)", gotI, d),
		map[string]any{"series": s.render(), "every": 20 * sec})
}

func TestKnown_integral_last_point_at_epoch_dropped(t *testing.T) {
	opt := query.IteratorOptions{Ascending: true, StartTime: influxql.MinTime, EndTime: influxql.MaxTime}
	pts := []mpt{{-1, 0}, {0, 3}}
	if !lastPointAtEpochSignature(pts, 0) {
		t.Fatal("reproducer does not carry its own signature")
	}
	got := runStream(mkIntegral(kF, time.Nanosecond, opt), pts)
	w, _, scale := refIntegralScale(pts, 1, 0, 0)
	d := compareIntegral(got, w, 0, scale)
	// the same curve shifted by one nanosecond is integrated correctly
	shifted := runStream(mkIntegral(kF, time.Nanosecond, opt), []mpt{{0, 0}, {1, 3}})
	if d2 := compareIntegral(shifted, w, 0, scale); d2 != "" {
		t.Fatalf("shifted control case must agree with the reference: %s", d2)
	}
	rec.Known(t, "TestKnown_integral_last_point_at_epoch_dropped", knownIntegralEpoch, d != "" && len(got) == 0,
		fmt.Sprintf("integral(float) without GROUP BY time over (-1ns,0),(0ns,0.75): %s; shifted by +1ns it returns %v", d, shifted),
		map[string]any{"points": pts})
}
