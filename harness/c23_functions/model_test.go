// C23 — InfluxQL transformation functions follow their definitions (unit level).
//
// The model: a series is a list of points (T, N4) where the value is the exact rational N4/4
// (floats are multiples of 0.25, so every sum / difference the functions form is exact in float64;
// integers use N4 = 4*v). The reference implementations in ref_test.go work on these integers (and
// math/big where a division is involved) and share no code with influxql/query.
//
// Definitions used (InfluxQL function reference, as reflected by the comments of
// influxql/query/functions.go / call_iterator.go and the expectations of select_test.go /
// call_iterator_test.go in /repo):
//
//	DERIVATIVE(f, unit)      rate of change between subsequent values: (v[i]-v[i-1]) / ((t[i]-t[i-1])/unit), at t[i];
//	                         ORDER BY time DESC: same with |t[i]-t[i-1]| (select_test Derivative_Desc_*)
//	NON_NEGATIVE_DERIVATIVE  the same, results with v[i] < v[i-1] dropped
//	DIFFERENCE(f)            v[i]-v[i-1] at t[i]; NON_NEGATIVE_DIFFERENCE drops negative results
//	MOVING_AVERAGE(f, N)     mean of the window of N subsequent values, at the time of the window's last point
//	CUMULATIVE_SUM(f)        running total, one output per point at the point's time
//	ELAPSED(f, unit)         (t[i]-t[i-1]) / unit as integer (0 when unit is larger), at t[i]
//	INTEGRAL(f, unit)        area under the piecewise linear curve (trapezium rule) per unit; without GROUP BY
//	                         time one value at time zero, with GROUP BY time per interval at the interval start with
//	                         linear interpolation at the interval ends (comments of FloatIntegralReducer,
//	                         select_test Integral_Float_InterpolateGroupByTime)
//	PERCENTILE(f, N)         the value of rank round(N/100*count) of the sorted values, with its own timestamp
//	MEDIAN(f)                middle value of the sorted values, mean of the two middle ones for an even count
//	MODE(f)                  most frequent value
//	SPREAD(f)                max - min
//	STDDEV(f)                sample standard deviation (n-1)
//	DISTINCT(f)              the unique values
//	TOP/BOTTOM(f, N)         the N greatest / smallest values with their own timestamps; ties: earliest timestamp
//
// Not asserted, only tallied (documentation silent): equal timestamps, mode ties, percentile of
// empty input / rank 0 / 0<frac<0.5 rank rounding, median/mode output time for a single point,
// stddev of one point, elapsed in descending order, integral over a gap that skips whole
// intervals, integral of a single point, order of the points emitted by distinct/top/bottom.
package c23_functions

import (
	"fmt"
	"sort"
	"time"

	"github.com/influxdata/influxdb/v2/influxql/query"
	"pgregory.net/rapid"

	"verifharness/internal/ev"
)

var rec = ev.For("C23", "exploration",
	"case = (function, parameters, value type, feed order, series of <=60 points with exact values); non-trivial = series of >=3 points containing a duplicate value and a sign change (of the values or of successive differences); distinct by canonical rendering of function, parameters, type and points")

func init() {
	rec.Assume("values are small exact numbers (floats multiples of 0.25, integers within +-64) so that no rounding or overflow hides in the reference; float results are compared with relative tolerance 1e-12 (stddev, integral: 1e-9)")
	rec.Assume("reducers are driven with the protocol of their callers in iterator.gen.go: stream reducers Aggregate then Emit per point (Close then Emit at the end when they implement io.Closer); window reducers Aggregate all points then Emit once; never Emit on a reducer that saw no point")
	rec.Assume("points are fed in time order (ascending or descending) with distinct timestamps; cases with equal timestamps are only tallied")
}

type kind int

const (
	kF kind = iota
	kI
	kU
)

func (k kind) String() string { return [...]string{"float", "integer", "unsigned"}[k] }

// mpt is a model point: value = N4/4.
type mpt struct {
	T  int64
	N4 int64
}

// out is one emitted point; exactly one of F / I / U is meaningful (known from function and type).
type out struct {
	T int64
	F float64
	I int64
	U uint64
}

type series struct {
	Kind kind
	Pts  []mpt // in feed order
	Asc  bool
	Dup  bool // contains equal timestamps (tally-only)
	Scale int64
}

func (s *series) canon(fn string, params ...any) string {
	return fmt.Sprint(fn, params, s.Kind, s.Asc, s.Pts)
}

// nonTrivial: >=3 points, a duplicate value, and a sign change of the values or of the differences.
func (s *series) nonTrivial() bool {
	if len(s.Pts) < 3 {
		return false
	}
	seen := map[int64]bool{}
	dup, pos, neg, up, down := false, false, false, false, false
	for i, p := range s.Pts {
		if seen[p.N4] {
			dup = true
		}
		seen[p.N4] = true
		if p.N4 > 0 {
			pos = true
		}
		if p.N4 < 0 {
			neg = true
		}
		if i > 0 {
			if p.N4 > s.Pts[i-1].N4 {
				up = true
			}
			if p.N4 < s.Pts[i-1].N4 {
				down = true
			}
		}
	}
	return dup && ((pos && neg) || (up && down))
}

func (s *series) render() map[string]any {
	ts := make([]int64, len(s.Pts))
	vs := make([]float64, len(s.Pts))
	for i, p := range s.Pts {
		ts[i], vs[i] = p.T, float64(p.N4)/4
	}
	return map[string]any{"type": s.Kind.String(), "ascending": s.Asc, "times": ts, "values": vs}
}

// genSeries draws a series. allowDup adds a class with equal timestamps.
func genSeries(t *rapid.T, maxN int, allowDup bool) *series {
	s := &series{Kind: kind(rapid.SampledFrom([]int{0, 0, 1, 1, 2}).Draw(t, "kind")), Asc: rapid.SampledFrom([]bool{true, true, false}).Draw(t, "asc")}
	n := rapid.SampledFrom([]int{0, 1, 2, 2, 3, 3, 4, 5, 6, 8, 10, 15, 25, 40, 60}).Draw(t, "n")
	if n > maxN {
		n = maxN
	}
	if n == 0 {
		return s
	}
	scale := rapid.SampledFrom([]int64{1, 1, 1000, 1000000000}).Draw(t, "tscale")
	s.Scale = scale
	start := rapid.SampledFrom([]int64{0, 0, -7, 3, 1600000000000000000}).Draw(t, "tstart") * 1
	if start != 1600000000000000000 {
		start *= scale
	}
	gapSet := []int64{1, 1, 2, 3, 4, 5, 7, 10, 20, 60}
	if rapid.Bool().Draw(t, "smallGaps") {
		gapSet = []int64{1, 1, 2, 3, 4}
	}
	gaps := rapid.SliceOfN(rapid.SampledFrom(gapSet), n, n).Draw(t, "gaps")
	vals := rapid.SliceOfN(rapid.IntRange(-6, 6), n, n).Draw(t, "vals")
	if allowDup && rapid.IntRange(0, 9).Draw(t, "dupclass") == 0 {
		for i := range gaps {
			if i > 0 && vals[i]%3 == 0 {
				gaps[i] = 0
				s.Dup = true
			}
		}
	}
	// a walk through zero: start below zero so that the series crosses the epoch in a sub-class
	cur := start
	if rapid.IntRange(0, 5).Draw(t, "crossEpoch") == 0 {
		var sum int64
		for _, g := range gaps {
			sum += g
		}
		cur = -(sum / 2) * scale
	}
	for i := 0; i < n; i++ {
		if i > 0 {
			cur += gaps[i] * scale
		}
		var n4 int64
		switch s.Kind {
		case kF:
			n4 = int64(vals[i]) * 3 // multiples of 0.75
		case kI:
			n4 = int64(vals[i]) * 4
		case kU:
			n4 = int64(vals[i]+6) * 4
		}
		s.Pts = append(s.Pts, mpt{T: cur, N4: n4})
	}
	if !s.Asc {
		for i, j := 0, len(s.Pts)-1; i < j; i, j = i+1, j-1 {
			s.Pts[i], s.Pts[j] = s.Pts[j], s.Pts[i]
		}
	}
	return s
}

func genUnit(t *rapid.T) time.Duration {
	return time.Duration(rapid.SampledFrom([]int64{1, 1, 2, 7, 1000, 1000000000, 60000000000}).Draw(t, "unit"))
}

// ---------------------------------------------------------------------------------------------
// driving the real reducers

type stream struct {
	agg   func(p mpt)
	emit  func() []out
	close func() // nil when the reducer is not an io.Closer
}

func fpt(p mpt) *query.FloatPoint       { return &query.FloatPoint{Name: "m", Time: p.T, Value: float64(p.N4) / 4} }
func ipt(p mpt) *query.IntegerPoint     { return &query.IntegerPoint{Name: "m", Time: p.T, Value: p.N4 / 4} }
func upt(p mpt) *query.UnsignedPoint    { return &query.UnsignedPoint{Name: "m", Time: p.T, Value: uint64(p.N4 / 4)} }
func aggF(r query.FloatPointAggregator) func(mpt)    { return func(p mpt) { r.AggregateFloat(fpt(p)) } }
func aggI(r query.IntegerPointAggregator) func(mpt)  { return func(p mpt) { r.AggregateInteger(ipt(p)) } }
func aggU(r query.UnsignedPointAggregator) func(mpt) { return func(p mpt) { r.AggregateUnsigned(upt(p)) } }
func emitF(r query.FloatPointEmitter) func() []out {
	return func() []out {
		var o []out
		for _, p := range r.Emit() {
			o = append(o, out{T: p.Time, F: p.Value})
		}
		return o
	}
}
func emitI(r query.IntegerPointEmitter) func() []out {
	return func() []out {
		var o []out
		for _, p := range r.Emit() {
			o = append(o, out{T: p.Time, I: p.Value})
		}
		return o
	}
}
func emitU(r query.UnsignedPointEmitter) func() []out {
	return func() []out {
		var o []out
		for _, p := range r.Emit() {
			o = append(o, out{T: p.Time, U: p.Value})
		}
		return o
	}
}

// runStream feeds the series with the stream protocol (Aggregate, Emit, ... [Close, Emit]).
func runStream(st stream, pts []mpt) []out {
	var o []out
	for _, p := range pts {
		st.agg(p)
		o = append(o, st.emit()...)
	}
	if st.close != nil {
		st.close()
		o = append(o, st.emit()...)
	}
	return o
}

// runWindow feeds the series with the window protocol (Aggregate all, Emit once).
func runWindow(st stream, pts []mpt) []out {
	for _, p := range pts {
		st.agg(p)
	}
	return st.emit()
}

func sortedCopy(o []out, less func(a, b out) bool) []out {
	c := append([]out(nil), o...)
	sort.SliceStable(c, func(i, j int) bool { return less(c[i], c[j]) })
	return c
}
