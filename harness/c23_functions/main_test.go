package c23_functions

import (
	"testing"

	"verifharness/internal/ev"
)

func TestMain(m *testing.M) { ev.Main(m) }
