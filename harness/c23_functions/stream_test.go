package c23_functions

import (
	"fmt"
	"math"
	"math/big"
	"testing"
	"time"

	"github.com/influxdata/influxdb/v2/influxql/query"
	"pgregory.net/rapid"
)

// want is one expected output with an exact value.
type want struct {
	T int64
	R *big.Rat
}

func rat(num, den int64) *big.Rat { return new(big.Rat).SetFrac64(num, den) }

func abs64(x int64) int64 {
	if x < 0 {
		return -x
	}
	return x
}

// closeF compares a float64 with an exact rational, relative tolerance tol.
func closeF(got float64, w *big.Rat, tol float64) bool {
	wf, _ := w.Float64()
	if math.IsNaN(got) || math.IsInf(got, 0) {
		return false
	}
	return math.Abs(got-wf) <= tol*math.Max(math.Abs(wf), 1e-300)
}

// ---------------------------------------------------------------------------------------------
// reference implementations of the stream functions (pts in feed order, distinct times)

func refDerivative(pts []mpt, unit int64, nonNeg bool) []want {
	var w []want
	for i := 1; i < len(pts); i++ {
		d := pts[i].N4 - pts[i-1].N4
		el := abs64(pts[i].T - pts[i-1].T)
		if nonNeg && d < 0 {
			continue
		}
		r := new(big.Rat).Mul(rat(d, 4), rat(unit, el))
		w = append(w, want{pts[i].T, r})
	}
	return w
}

func refDifference(pts []mpt, nonNeg bool) []want {
	var w []want
	for i := 1; i < len(pts); i++ {
		d := pts[i].N4 - pts[i-1].N4
		if nonNeg && d < 0 {
			continue
		}
		w = append(w, want{pts[i].T, rat(d, 4)})
	}
	return w
}

func refMovingAverage(pts []mpt, n int) []want {
	var w []want
	for i := n - 1; i < len(pts); i++ {
		var s int64
		for j := i - n + 1; j <= i; j++ {
			s += pts[j].N4
		}
		w = append(w, want{pts[i].T, rat(s, 4*int64(n))})
	}
	return w
}

func refCumulativeSum(pts []mpt) []want {
	var w []want
	var s int64
	for _, p := range pts {
		s += p.N4
		w = append(w, want{p.T, rat(s, 4)})
	}
	return w
}

func refElapsed(pts []mpt, unit int64) []want {
	var w []want
	for i := 1; i < len(pts); i++ {
		w = append(w, want{pts[i].T, rat((pts[i].T-pts[i-1].T)/unit, 1)})
	}
	return w
}

// ---------------------------------------------------------------------------------------------

const (
	outF = iota
	outI
	outU
)

func mkStream(fn string, k kind, unit time.Duration, n int, asc bool) (stream, int) {
	iv := query.Interval{Duration: unit}
	switch fn {
	case "derivative", "non_negative_derivative":
		nn := fn != "derivative"
		switch k {
		case kF:
			r := query.NewFloatDerivativeReducer(iv, nn, asc)
			return stream{agg: aggF(r), emit: emitF(r)}, outF
		case kI:
			r := query.NewIntegerDerivativeReducer(iv, nn, asc)
			return stream{agg: aggI(r), emit: emitF(r)}, outF
		default:
			r := query.NewUnsignedDerivativeReducer(iv, nn, asc)
			return stream{agg: aggU(r), emit: emitF(r)}, outF
		}
	case "difference", "non_negative_difference":
		nn := fn != "difference"
		switch k {
		case kF:
			r := query.NewFloatDifferenceReducer(nn)
			return stream{agg: aggF(r), emit: emitF(r)}, outF
		case kI:
			r := query.NewIntegerDifferenceReducer(nn)
			return stream{agg: aggI(r), emit: emitI(r)}, outI
		default:
			r := query.NewUnsignedDifferenceReducer(nn)
			return stream{agg: aggU(r), emit: emitU(r)}, outU
		}
	case "moving_average":
		switch k {
		case kF:
			r := query.NewFloatMovingAverageReducer(n)
			return stream{agg: aggF(r), emit: emitF(r)}, outF
		case kI:
			r := query.NewIntegerMovingAverageReducer(n)
			return stream{agg: aggI(r), emit: emitF(r)}, outF
		default:
			r := query.NewUnsignedMovingAverageReducer(n)
			return stream{agg: aggU(r), emit: emitF(r)}, outF
		}
	case "cumulative_sum":
		switch k {
		case kF:
			r := query.NewFloatCumulativeSumReducer()
			return stream{agg: aggF(r), emit: emitF(r)}, outF
		case kI:
			r := query.NewIntegerCumulativeSumReducer()
			return stream{agg: aggI(r), emit: emitI(r)}, outI
		default:
			r := query.NewUnsignedCumulativeSumReducer()
			return stream{agg: aggU(r), emit: emitU(r)}, outU
		}
	case "elapsed":
		switch k {
		case kF:
			r := query.NewFloatElapsedReducer(iv)
			return stream{agg: aggF(r), emit: emitI(r)}, outI
		case kI:
			r := query.NewIntegerElapsedReducer(iv)
			return stream{agg: aggI(r), emit: emitI(r)}, outI
		default:
			r := query.NewUnsignedElapsedReducer(iv)
			return stream{agg: aggU(r), emit: emitI(r)}, outI
		}
	}
	panic("unknown stream function " + fn)
}

// compare checks got against want; returns "" or a description of the first difference.
func compare(got []out, w []want, typ int, tol float64) string {
	if len(got) != len(w) {
		return fmt.Sprintf("%d outputs, want %d (got %v)", len(got), len(w), got)
	}
	for i := range w {
		if got[i].T != w[i].T {
			return fmt.Sprintf("output %d at time %d, want time %d", i, got[i].T, w[i].T)
		}
		wf, _ := w[i].R.Float64()
		switch typ {
		case outF:
			if !closeF(got[i].F, w[i].R, tol) {
				return fmt.Sprintf("output %d (time %d) value %v, want %v", i, got[i].T, got[i].F, wf)
			}
		case outI:
			if !w[i].R.IsInt() || got[i].I != w[i].R.Num().Int64() {
				return fmt.Sprintf("output %d (time %d) value %d, want %v", i, got[i].T, got[i].I, wf)
			}
		case outU:
			if !w[i].R.IsInt() || w[i].R.Sign() < 0 || got[i].U != w[i].R.Num().Uint64() {
				return fmt.Sprintf("output %d (time %d) value %d, want %v", i, got[i].T, got[i].U, wf)
			}
		}
	}
	return ""
}

var streamFns = []string{"derivative", "non_negative_derivative", "difference", "non_negative_difference", "moving_average", "cumulative_sum", "elapsed"}

func TestPropStream(t *testing.T) {
	rec.Check(t, 60000, 1200000, func(t *rapid.T) {
		fn := rapid.SampledFrom(streamFns).Draw(t, "fn")
		s := genSeries(t, 60, true)
		unit := genUnit(t)
		n := rapid.IntRange(2, 6).Draw(t, "window")
		st, typ := mkStream(fn, s.Kind, unit, n, s.Asc)
		got := runStream(st, s.Pts)
		rec.Eval()
		order := "asc"
		if !s.Asc {
			order = "desc"
		}
		rec.Class("stream:" + fn + ":" + s.Kind.String())
		rec.Class("order:" + order)

		if s.Dup {
			rec.Class("tally:equal-timestamps(not asserted):" + fn)
			return
		}
		var w []want
		switch fn {
		case "derivative", "non_negative_derivative":
			w = refDerivative(s.Pts, int64(unit), fn != "derivative")
		case "difference", "non_negative_difference":
			w = refDifference(s.Pts, fn != "difference")
			if s.Kind == kU && fn == "difference" {
				for _, x := range w {
					if x.R.Sign() < 0 {
						rec.Class("tally:unsigned-difference-below-zero(not asserted)")
						return
					}
				}
			}
		case "moving_average":
			w = refMovingAverage(s.Pts, n)
		case "cumulative_sum":
			w = refCumulativeSum(s.Pts)
		case "elapsed":
			if !s.Asc {
				// the documentation says nothing about elapsed() under ORDER BY time DESC
				neg := 0
				for _, g := range got {
					if g.I < 0 {
						neg++
					}
				}
				rec.Class(fmt.Sprintf("tally:elapsed-descending(not asserted):negative-outputs=%v", neg > 0))
				return
			}
			w = refElapsed(s.Pts, int64(unit))
		}
		if len(w) > 0 {
			rec.Class("stream:with-output")
		}
		if s.nonTrivial() {
			rec.NonTrivial(s.canon(fn, unit, n))
		}
		if rec.WantSample() && len(s.Pts) >= 3 && len(s.Pts) <= 6 {
			rec.Sample(map[string]any{"fn": fn, "unit": int64(unit), "window": n, "series": s.render(), "outputs": fmt.Sprint(got)})
		}
		if d := compare(got, w, typ, 1e-12); d != "" {
			rec.Fail(t, "TestPropStream", fn+"-"+s.Kind.String(), fmt.Sprintf("%s(%s, unit=%d, N=%d) %s: %s", fn, s.Kind, int64(unit), n, order, d),
				map[string]any{"fn": fn, "unit": int64(unit), "window": n, "series": s.render()})
		}
	})
}
