package c23_functions

import (
	"fmt"
	"math"
	"math/big"
	"sort"
	"testing"

	"github.com/influxdata/influxdb/v2/influxql/query"
	"pgregory.net/rapid"
)

// window functions: percentile, median, mode, spread, stddev, distinct, top, bottom.

var sliceFns = []string{"percentile", "median", "mode", "spread", "stddev", "distinct", "top", "bottom"}

// percentiles in thousandths of a percent (exact arithmetic in the reference)
var pctChoices = []int64{0, 1000, 5000, 10000, 12500, 25000, 30000, 37500, 50000, 62500, 70000, 75000, 90000, 95000, 99000, 100000}

func mkWindow(fn string, k kind, pct float64, n int) (stream, int) {
	switch fn {
	case "percentile":
		switch k {
		case kF:
			r := query.NewFloatSliceFuncReducer(query.NewFloatPercentileReduceSliceFunc(pct))
			return stream{agg: aggF(r), emit: emitF(r)}, outF
		case kI:
			r := query.NewIntegerSliceFuncReducer(query.NewIntegerPercentileReduceSliceFunc(pct))
			return stream{agg: aggI(r), emit: emitI(r)}, outI
		default:
			r := query.NewUnsignedSliceFuncReducer(query.NewUnsignedPercentileReduceSliceFunc(pct))
			return stream{agg: aggU(r), emit: emitU(r)}, outU
		}
	case "median":
		switch k {
		case kF:
			r := query.NewFloatSliceFuncReducer(query.FloatMedianReduceSlice)
			return stream{agg: aggF(r), emit: emitF(r)}, outF
		case kI:
			r := query.NewIntegerSliceFuncFloatReducer(query.IntegerMedianReduceSlice)
			return stream{agg: aggI(r), emit: emitF(r)}, outF
		default:
			r := query.NewUnsignedSliceFuncFloatReducer(query.UnsignedMedianReduceSlice)
			return stream{agg: aggU(r), emit: emitF(r)}, outF
		}
	case "mode":
		switch k {
		case kF:
			r := query.NewFloatSliceFuncReducer(query.FloatModeReduceSlice)
			return stream{agg: aggF(r), emit: emitF(r)}, outF
		case kI:
			r := query.NewIntegerSliceFuncReducer(query.IntegerModeReduceSlice)
			return stream{agg: aggI(r), emit: emitI(r)}, outI
		default:
			r := query.NewUnsignedSliceFuncReducer(query.UnsignedModeReduceSlice)
			return stream{agg: aggU(r), emit: emitU(r)}, outU
		}
	case "stddev":
		switch k {
		case kF:
			r := query.NewFloatSliceFuncReducer(query.FloatStddevReduceSlice)
			return stream{agg: aggF(r), emit: emitF(r)}, outF
		case kI:
			r := query.NewIntegerSliceFuncFloatReducer(query.IntegerStddevReduceSlice)
			return stream{agg: aggI(r), emit: emitF(r)}, outF
		default:
			r := query.NewUnsignedSliceFuncFloatReducer(query.UnsignedStddevReduceSlice)
			return stream{agg: aggU(r), emit: emitF(r)}, outF
		}
	case "spread":
		switch k {
		case kF:
			r := query.NewFloatSpreadReducer()
			return stream{agg: aggF(r), emit: emitF(r)}, outF
		case kI:
			r := query.NewIntegerSpreadReducer()
			return stream{agg: aggI(r), emit: emitI(r)}, outI
		default:
			r := query.NewUnsignedSpreadReducer()
			return stream{agg: aggU(r), emit: emitU(r)}, outU
		}
	case "distinct":
		switch k {
		case kF:
			r := query.NewFloatDistinctReducer()
			return stream{agg: aggF(r), emit: emitF(r)}, outF
		case kI:
			r := query.NewIntegerDistinctReducer()
			return stream{agg: aggI(r), emit: emitI(r)}, outI
		default:
			r := query.NewUnsignedDistinctReducer()
			return stream{agg: aggU(r), emit: emitU(r)}, outU
		}
	case "top":
		switch k {
		case kF:
			r := query.NewFloatTopReducer(n)
			return stream{agg: aggF(r), emit: emitF(r)}, outF
		case kI:
			r := query.NewIntegerTopReducer(n)
			return stream{agg: aggI(r), emit: emitI(r)}, outI
		default:
			r := query.NewUnsignedTopReducer(n)
			return stream{agg: aggU(r), emit: emitU(r)}, outU
		}
	case "bottom":
		switch k {
		case kF:
			r := query.NewFloatBottomReducer(n)
			return stream{agg: aggF(r), emit: emitF(r)}, outF
		case kI:
			r := query.NewIntegerBottomReducer(n)
			return stream{agg: aggI(r), emit: emitI(r)}, outI
		default:
			r := query.NewUnsignedBottomReducer(n)
			return stream{agg: aggU(r), emit: emitU(r)}, outU
		}
	}
	panic("unknown window function " + fn)
}

// n4Of converts an emitted value back to the model (exactly; ok=false if it is not a model value).
func n4Of(o out, typ int) (int64, bool) {
	switch typ {
	case outF:
		x := o.F * 4
		if x != math.Trunc(x) || math.Abs(x) > 1e15 {
			return 0, false
		}
		return int64(x), true
	case outI:
		return o.I * 4, true
	default:
		if o.U > 1<<40 {
			return 0, false
		}
		return int64(o.U) * 4, true
	}
}

func isInput(pts []mpt, t, n4 int64) bool {
	for _, p := range pts {
		if p.T == t && p.N4 == n4 {
			return true
		}
	}
	return false
}

func sortedN4(pts []mpt) []int64 {
	v := make([]int64, len(pts))
	for i, p := range pts {
		v[i] = p.N4
	}
	sort.Slice(v, func(i, j int) bool { return v[i] < v[j] })
	return v
}

// checkWindow returns "" or the description of a violation; it records tallies itself.
func checkWindow(fn string, s *series, pm int64, n int, got []out, typ int) string {
	pts := s.Pts
	N := int64(len(pts))
	sv := sortedN4(pts)
	one := func() (out, string) {
		if len(got) != 1 {
			return out{}, fmt.Sprintf("%d outputs %v, want exactly 1", len(got), got)
		}
		return got[0], ""
	}
	aggTime := func(o out) string {
		// an aggregate has no timestamp of its own: ZeroTime, replaced by the interval start upstream
		if N == 1 && o.T != query.ZeroTime {
			rec.Class("tally:" + fn + "-of-single-point-keeps-point-time(not asserted)")
			return ""
		}
		if o.T != query.ZeroTime {
			return fmt.Sprintf("output time %d, want ZeroTime (no own timestamp)", o.T)
		}
		return ""
	}
	switch fn {
	case "percentile":
		// rank = N*p/100 rounded; x = N*pm/100000
		num := N * pm
		fl := num / 100000
		rem := num % 100000
		var ranks []int64
		switch {
		case rem == 0:
			ranks = []int64{fl}
		case rem*2 >= 100000:
			ranks = []int64{fl + 1}
		default:
			ranks = []int64{fl, fl + 1}
			rec.Class("tally:percentile-rank-fraction<0.5(floor or ceil accepted)")
		}
		if len(got) == 0 {
			for _, r := range ranks {
				if r == 0 {
					rec.Class("tally:percentile-rank-0-no-output(not asserted)")
					return ""
				}
			}
			return fmt.Sprintf("no output, want the value of rank %v of %d", ranks, N)
		}
		o, e := one()
		if e != "" {
			return e
		}
		v, ok := n4Of(o, typ)
		if !ok || !isInput(pts, o.T, v) {
			return fmt.Sprintf("output (%d,%v) is not a point of the input", o.T, o)
		}
		for _, r := range ranks {
			if r >= 1 && r <= N && sv[r-1] == v {
				return ""
			}
			if r == 0 {
				rec.Class("tally:percentile-rank-0-with-output(not asserted)")
				return ""
			}
		}
		return fmt.Sprintf("percentile %v of %d values: got value %v, want rank %v of sorted %v", float64(pm)/1000, N, float64(v)/4, ranks, f4(sv))
	case "median":
		o, e := one()
		if e != "" {
			return e
		}
		var w *big.Rat
		if N%2 == 1 {
			w = rat(sv[N/2], 4)
		} else {
			w = rat(sv[N/2-1]+sv[N/2], 8)
		}
		if !closeF(o.F, w, 1e-12) {
			wf, _ := w.Float64()
			return fmt.Sprintf("median %v, want %v of sorted %v", o.F, wf, f4(sv))
		}
		return aggTime(o)
	case "mode":
		o, e := one()
		if e != "" {
			return e
		}
		cnt := map[int64]int{}
		best := 0
		for _, x := range sv {
			cnt[x]++
			if cnt[x] > best {
				best = cnt[x]
			}
		}
		var modes []int64
		for x, c := range cnt {
			if c == best {
				modes = append(modes, x)
			}
		}
		v, ok := n4Of(o, typ)
		if !ok || cnt[v] != best {
			sort.Slice(modes, func(i, j int) bool { return modes[i] < modes[j] })
			return fmt.Sprintf("mode %v occurs %d times, the most frequent values %v occur %d times", o, cnt[v], f4(modes), best)
		}
		if len(modes) > 1 {
			// tie: which of the most frequent values is returned is tallied, not asserted
			sort.Slice(modes, func(i, j int) bool { return modes[i] < modes[j] })
			earliest, et := int64(0), int64(math.MaxInt64)
			for _, p := range pts {
				if cnt[p.N4] == best && p.T < et {
					earliest, et = p.N4, p.T
				}
			}
			rec.Class(fmt.Sprintf("tally:mode-tie(not asserted):smallest=%v,earliest=%v", v == modes[0], v == earliest))
		}
		return aggTime(o)
	case "spread":
		o, e := one()
		if e != "" {
			return e
		}
		w := rat(sv[N-1]-sv[0], 4)
		if d := compare([]out{{T: w0, F: o.F, I: o.I, U: o.U}}, []want{{w0, w}}, typ, 1e-12); d != "" {
			return "spread: " + d
		}
		return aggTime(o)
	case "stddev":
		o, e := one()
		if e != "" {
			return e
		}
		if N < 2 {
			rec.Class(fmt.Sprintf("tally:stddev-of-single-point(not asserted):NaN=%v", math.IsNaN(o.F)))
			return ""
		}
		// sample variance = (sum x^2 - (sum x)^2/N) / (N-1), exact
		var sx, sxx int64
		for _, x := range sv {
			sx += x
			sxx += x * x
		}
		varNum := new(big.Rat).Sub(rat(sxx, 16), new(big.Rat).Mul(rat(sx*sx, 16), rat(1, N)))
		varNum.Mul(varNum, rat(1, N-1))
		vf, _ := varNum.Float64()
		wantSD := math.Sqrt(vf)
		if !(math.Abs(o.F-wantSD) <= 1e-9*math.Max(wantSD, 1e-9)) {
			return fmt.Sprintf("stddev %v, want %v (sample standard deviation of %v)", o.F, wantSD, f4(sv))
		}
		return aggTime(o)
	case "distinct":
		seen := map[int64]bool{}
		first := map[int64]int64{}
		for _, p := range pts {
			if _, ok := first[p.N4]; !ok {
				first[p.N4] = p.T
			}
		}
		firstOcc, sortedByTime := true, true
		for i, o := range got {
			v, ok := n4Of(o, typ)
			if !ok || !isInput(pts, o.T, v) {
				return fmt.Sprintf("distinct output %v is not a point of the input", o)
			}
			if seen[v] {
				return fmt.Sprintf("distinct value %v emitted twice: %v", float64(v)/4, got)
			}
			seen[v] = true
			if first[v] != o.T {
				firstOcc = false
			}
			if i > 0 && got[i-1].T > o.T {
				sortedByTime = false
			}
		}
		if len(seen) != len(first) {
			return fmt.Sprintf("distinct returned %d values %v, the input has %d distinct values", len(seen), got, len(first))
		}
		rec.Class(fmt.Sprintf("tally:distinct(not asserted):time-of-first-fed-occurrence=%v,sorted-by-time=%v", firstOcc, sortedByTime))
		return ""
	case "top", "bottom":
		sel := append([]mpt(nil), pts...)
		sort.SliceStable(sel, func(i, j int) bool {
			if sel[i].N4 != sel[j].N4 {
				if fn == "top" {
					return sel[i].N4 > sel[j].N4
				}
				return sel[i].N4 < sel[j].N4
			}
			return sel[i].T < sel[j].T // tie: earliest timestamp
		})
		if len(sel) > n {
			sel = sel[:n]
		}
		if len(got) != len(sel) {
			return fmt.Sprintf("%s(%d) of %d points returned %d points %v", fn, n, N, len(got), got)
		}
		wantSet := map[mpt]bool{}
		for _, p := range sel {
			wantSet[p] = true
		}
		inOrder := true
		for i, o := range got {
			v, ok := n4Of(o, typ)
			if !ok || !wantSet[mpt{o.T, v}] {
				return fmt.Sprintf("%s(%d): output %v not among the expected points %v (ties: earliest timestamp)", fn, n, o, sel)
			}
			delete(wantSet, mpt{o.T, v})
			if sel[i] != (mpt{o.T, v}) {
				inOrder = false
			}
		}
		rec.Class(fmt.Sprintf("tally:%s(not asserted):emitted-best-first=%v", fn, inOrder))
		return ""
	}
	return "unknown function"
}

const w0 = int64(0)

func f4(v []int64) []float64 {
	o := make([]float64, len(v))
	for i, x := range v {
		o[i] = float64(x) / 4
	}
	return o
}

func TestPropWindowFunctions(t *testing.T) {
	rec.Check(t, 80000, 1600000, func(t *rapid.T) {
		fn := rapid.SampledFrom(sliceFns).Draw(t, "fn")
		s := genSeries(t, 60, false)
		pm := rapid.SampledFrom(pctChoices).Draw(t, "percentile")
		n := rapid.IntRange(1, 6).Draw(t, "n")
		rec.Class("window:" + fn + ":" + s.Kind.String())
		if len(s.Pts) == 0 {
			// the callers create a reducer only when a point arrives; Emit on an empty reducer
			// is outside the protocol (median/mode would index an empty slice)
			if fn == "percentile" {
				st, _ := mkWindow(fn, s.Kind, float64(pm)/1000, n)
				rec.Class(fmt.Sprintf("tally:percentile-of-empty-input(not asserted):outputs=%d", len(runWindow(st, nil))))
			}
			rec.Eval()
			return
		}
		st, typ := mkWindow(fn, s.Kind, float64(pm)/1000, n)
		got := runWindow(st, s.Pts)
		rec.Eval()
		if s.nonTrivial() {
			rec.NonTrivial(s.canon(fn, pm, n))
		}
		if rec.WantSample() && len(s.Pts) >= 3 && len(s.Pts) <= 6 {
			rec.Sample(map[string]any{"fn": fn, "percentile": float64(pm) / 1000, "n": n, "series": s.render(), "outputs": fmt.Sprint(got)})
		}
		if d := checkWindow(fn, s, pm, n, got, typ); d != "" {
			rec.Fail(t, "TestPropWindowFunctions", fn+"-"+s.Kind.String(), fmt.Sprintf("%s over %s: %s", fn, s.Kind, d),
				map[string]any{"fn": fn, "percentile": float64(pm) / 1000, "n": n, "series": s.render()})
		}
	})
}

// mode() of strings and booleans.
func TestPropModeStringBoolean(t *testing.T) {
	rec.Check(t, 8000, 160000, func(t *rapid.T) {
		n := rapid.IntRange(1, 12).Draw(t, "n")
		vals := rapid.SliceOfN(rapid.IntRange(0, 2), n, n).Draw(t, "vals")
		isBool := rapid.Bool().Draw(t, "bool")
		cnt := map[int]int{}
		var gotV int
		var gotT int64
		var nOut int
		if isBool {
			r := query.NewBooleanSliceFuncReducer(query.BooleanModeReduceSlice)
			for i, v := range vals {
				v &= 1
				vals[i] = v
				cnt[v]++
				r.AggregateBoolean(&query.BooleanPoint{Time: int64(i + 1), Value: v == 1})
			}
			o := r.Emit()
			nOut = len(o)
			if nOut == 1 {
				gotT = o[0].Time
				if o[0].Value {
					gotV = 1
				}
			}
		} else {
			r := query.NewStringSliceFuncReducer(query.StringModeReduceSlice)
			for i, v := range vals {
				cnt[v]++
				r.AggregateString(&query.StringPoint{Time: int64(i + 1), Value: string(rune('a' + v))})
			}
			o := r.Emit()
			nOut = len(o)
			if nOut == 1 {
				gotT = o[0].Time
				gotV = int(o[0].Value[0] - 'a')
			}
		}
		rec.Eval()
		rec.Class(fmt.Sprintf("window:mode:string-or-boolean(bool=%v)", isBool))
		best, ties := 0, 0
		for _, c := range cnt {
			if c > best {
				best = c
			}
		}
		for _, c := range cnt {
			if c == best {
				ties++
			}
		}
		if n >= 3 && ties == 1 && len(cnt) > 1 {
			rec.NonTrivial(fmt.Sprint("mode-sb", isBool, vals))
		}
		c := map[string]any{"bool": isBool, "values": vals}
		if nOut != 1 {
			rec.Fail(t, "TestPropModeStringBoolean", "mode-outputs", fmt.Sprintf("%d outputs, want 1", nOut), c)
		}
		if cnt[gotV] != best {
			rec.Fail(t, "TestPropModeStringBoolean", "mode-value", fmt.Sprintf("mode returned value #%d occurring %d times, the maximum is %d", gotV, cnt[gotV], best), c)
		}
		if ties > 1 {
			rec.Class("tally:mode-tie(not asserted):string-or-boolean")
		}
		if n >= 2 && gotT != query.ZeroTime {
			rec.Fail(t, "TestPropModeStringBoolean", "mode-time", fmt.Sprintf("output time %d, want ZeroTime", gotT), c)
		}
	})
}
