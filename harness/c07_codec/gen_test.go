// C07 — generators shared by the block, codec and simple8b properties.
//
// Every sequence is built from SEGMENTS (constant delta / random deltas of one bit width /
// multiples of 10^k / extreme-pool picks / fully random), so that RLE-friendly runs, simple8b
// selector boundaries (runs of >=120 / >=240 ones), scaling divisors and raw fall-backs are all
// produced by construction and sit next to each other inside one block.
package c07_codec

import (
	"encoding/binary"
	"math"

	"pgregory.net/rapid"
)

// ---- sizes ------------------------------------------------------------------------------------

// pct draws a uniform number in 0..127. rapid's integer generators favour small values heavily
// (IntRange(0,99) is below 10 in 40 % of the draws), so class weights are taken from seven fair
// coin flips instead.
func pct(t *rapid.T, label string) int {
	v := 0
	for _, b := range rapid.SliceOfN(rapid.Bool(), 7, 7).Draw(t, label) {
		v <<= 1
		if b {
			v |= 1
		}
	}
	return v
}

// genN draws a block length 0..2100 (>= min) from weighted size classes.
func genN(t *rapid.T, min int) int {
	c := pct(t, "sizeClass")
	var n int
	switch {
	case c < 5:
		n = 0
	case c < 12:
		n = 1
	case c < 19:
		n = 2
	case c < 26:
		n = 3
	case c < 60:
		n = rapid.IntRange(4, 20).Draw(t, "n")
	case c < 92:
		n = rapid.IntRange(21, 130).Draw(t, "n")
	case c < 108:
		n = rapid.IntRange(131, 300).Draw(t, "n")
	case c < 121:
		n = rapid.IntRange(301, 1000).Draw(t, "n")
	default:
		n = rapid.IntRange(1001, 2100).Draw(t, "n")
	}
	if n < min {
		n = min
	}
	return n
}

func sizeClass(n int) string {
	switch {
	case n == 0:
		return "n=0"
	case n == 1:
		return "n=1"
	case n <= 3:
		return "n=2..3"
	case n <= 20:
		return "n=4..20"
	case n <= 130:
		return "n=21..130"
	case n <= 300:
		return "n=131..300"
	case n <= 1000:
		return "n=301..1000"
	default:
		return "n=1001..2100"
	}
}

var segLenPool = []int{1, 1, 2, 3, 5, 8, 16, 59, 60, 61, 119, 120, 121, 239, 240, 241, 500}

// segLens splits n into segment lengths. One case in four is a single segment (whole block in
// one regime: the RLE / pure-selector cases).
func segLens(t *rapid.T, n int, label string) []int {
	if n == 0 {
		return nil
	}
	if rapid.IntRange(0, 3).Draw(t, label+"_single") == 0 {
		return []int{n}
	}
	var out []int
	for rem := n; rem > 0; {
		l := rapid.SampledFrom(segLenPool).Draw(t, label+"_len")
		if l > rem {
			l = rem
		}
		out = append(out, l)
		rem -= l
	}
	return out
}

func maskBits(w int) uint64 {
	if w >= 64 {
		return ^uint64(0)
	}
	return uint64(1)<<uint(w) - 1
}

func u64s(t *rapid.T, l int, max uint64, label string) []uint64 {
	return rapid.SliceOfN(rapid.Uint64Range(0, max), l, l).Draw(t, label)
}

// ---- timestamps -------------------------------------------------------------------------------

const (
	minI64 = math.MinInt64
	maxI64 = math.MaxInt64
)

var neg10 = uint64(1<<64 - 10)

// deltas are unsigned and wrap (the encoders compute them the same way): 2^64-10 is "-10".
var tsDeltaPool = []uint64{
	0, 1, 1, 2, 7, 10, 100, 1000, 1e6, 1e9, 1e9, 1e10, 6e10, 1e12, 3e12, 1e13, 123456789,
	1 << 59, 1<<60 - 1, 1 << 60, 1<<60 + 1, 1 << 63, ^uint64(0), neg10, 1<<64 - 1000,
}

var tsAbsPool = []int64{minI64, minI64 + 1, -1, 0, 1, maxI64 - 1, maxI64, 1600000000000000000}

type genInfo struct {
	extreme  bool // an extreme-pool value (or delta >= 2^60) was used
	unsorted bool
}

func pow10u(k int) uint64 {
	v := uint64(1)
	for i := 0; i < k; i++ {
		v *= 10
	}
	return v
}

// genTimes draws n timestamps.
func genTimes(t *rapid.T, n int) ([]int64, genInfo) {
	var info genInfo
	if n == 0 {
		return []int64{}, info
	}
	out := make([]int64, 0, n)
	var cur uint64
	switch rapid.IntRange(0, 3).Draw(t, "ts_first") {
	case 0:
		cur = uint64(rapid.SampledFrom(tsAbsPool).Draw(t, "ts_first_abs"))
		info.extreme = true
	case 1:
		cur = rapid.Uint64().Draw(t, "ts_first_rnd")
	default:
		cur = uint64(1600000000000000000 + rapid.Int64Range(0, 1000).Draw(t, "ts_first_typ")*1e9)
	}
	first := true
	emit := func(v uint64) {
		out = append(out, int64(v))
		cur = v
		first = false
	}
	for _, l := range segLens(t, n, "ts") {
		if first {
			emit(cur)
			l--
		}
		if l == 0 {
			continue
		}
		switch rapid.IntRange(0, 7).Draw(t, "ts_kind") {
		case 0, 1, 2: // constant delta (RLE-friendly)
			d := rapid.SampledFrom(tsDeltaPool).Draw(t, "ts_delta")
			if d >= 1<<60 {
				info.extreme = true
			}
			for i := 0; i < l; i++ {
				emit(cur + d)
			}
		case 3: // random deltas of one bit width
			w := rapid.IntRange(1, 64).Draw(t, "ts_width")
			if w > 60 {
				info.extreme = true
			}
			for _, d := range u64s(t, l, maskBits(w), "ts_deltas") {
				emit(cur + d)
			}
		case 4: // multiples of 10^k
			k := rapid.IntRange(1, 13).Draw(t, "ts_pow")
			p := pow10u(k)
			for _, m := range u64s(t, l, 1000, "ts_mults") {
				emit(cur + m*p)
			}
		case 5: // extreme absolute values
			if l > 3 {
				// keep the segment short, fill the rest with +1 steps
				for i := 0; i < l-3; i++ {
					emit(cur + 1)
				}
				l = 3
			}
			for i := 0; i < l; i++ {
				emit(uint64(rapid.SampledFrom(tsAbsPool).Draw(t, "ts_abs")))
			}
			info.extreme = true
		case 6: // fully random
			for _, v := range u64s(t, l, ^uint64(0), "ts_rnd") {
				emit(v)
			}
		case 7: // typical: 1s or 10s cadence with occasional jitter in ns
			step := rapid.SampledFrom([]uint64{1e9, 1e10, 1e6}).Draw(t, "ts_step")
			jit := rapid.IntRange(0, 5).Draw(t, "ts_jit")
			for i := 0; i < l; i++ {
				d := step
				if jit > 0 && i%7 == jit {
					d += uint64(jit)
				}
				emit(cur + d)
			}
		}
	}
	for i := 1; i < len(out); i++ {
		if out[i] < out[i-1] {
			info.unsorted = true
			break
		}
	}
	return out, info
}

// ---- integers ---------------------------------------------------------------------------------

var intDeltaPool = []int64{
	0, 1, -1, -1, -1, 2, -2, 7, -7, 1000, -1000, 1 << 31,
	1<<59 - 1, 1 << 59, -(1 << 59), -(1 << 59) - 1, 1 << 60, 1 << 62, maxI64, minI64,
}

var intAbsPool = []int64{
	minI64, minI64 + 1, maxI64, maxI64 - 1, 0, -1, 1,
	1<<59 - 1, 1 << 59, 1<<59 + 1, -(1 << 59), -(1 << 59) - 1, -(1 << 59) + 1, 1 << 60, -(1 << 60), 1 << 62,
}

func zigzag(x int64) uint64 { return uint64(x<<1) ^ uint64(x>>63) }

// genInts draws n int64 values.
func genInts(t *rapid.T, n int) ([]int64, genInfo) {
	var info genInfo
	out := make([]int64, 0, n)
	if n == 0 {
		return out, info
	}
	var cur int64
	switch rapid.IntRange(0, 2).Draw(t, "i_first") {
	case 0:
		cur = rapid.SampledFrom(intAbsPool).Draw(t, "i_first_abs")
		info.extreme = true
	case 1:
		cur = rapid.Int64().Draw(t, "i_first_rnd")
	default:
		cur = rapid.Int64Range(-100, 100).Draw(t, "i_first_small")
	}
	first := true
	emit := func(v int64) {
		out = append(out, v)
		cur = v
		first = false
	}
	for _, l := range segLens(t, n, "i") {
		if first {
			emit(cur)
			l--
		}
		if l == 0 {
			continue
		}
		switch rapid.IntRange(0, 5).Draw(t, "i_kind") {
		case 0, 1: // constant delta; delta -1 zig-zags to 1 (simple8b selectors 0/1)
			d := rapid.SampledFrom(intDeltaPool).Draw(t, "i_delta")
			if zigzag(d) >= 1<<60 {
				info.extreme = true
			}
			for i := 0; i < l; i++ {
				emit(cur + d)
			}
		case 2: // random zig-zagged deltas of one bit width
			w := rapid.IntRange(1, 64).Draw(t, "i_width")
			if w > 60 {
				info.extreme = true
			}
			for _, z := range u64s(t, l, maskBits(w), "i_deltas") {
				d := int64(z>>1) ^ -int64(z&1) // zig-zag decode
				emit(cur + d)
			}
		case 3: // extreme absolute values
			if l > 4 {
				for i := 0; i < l-4; i++ {
					emit(cur - 1)
				}
				l = 4
			}
			for i := 0; i < l; i++ {
				emit(rapid.SampledFrom(intAbsPool).Draw(t, "i_abs"))
			}
			info.extreme = true
		case 4: // fully random
			for _, v := range u64s(t, l, ^uint64(0), "i_rnd") {
				emit(int64(v))
			}
		case 5: // small values around zero (gauge-like)
			for _, v := range u64s(t, l, 200, "i_small") {
				emit(int64(v) - 100)
			}
		}
	}
	return out, info
}

var uintAbsPool = []uint64{0, 1, 1<<63 - 1, 1 << 63, 1<<63 + 1, ^uint64(0), ^uint64(0) - 1, 1 << 60, 1<<60 - 1}

// genUints draws n uint64 values: the integer generator reinterpreted, with the unsigned
// extremes mixed in.
func genUints(t *rapid.T, n int) ([]uint64, genInfo) {
	is, info := genInts(t, n)
	out := make([]uint64, len(is))
	for i, v := range is {
		out[i] = uint64(v)
	}
	if n > 0 && rapid.IntRange(0, 2).Draw(t, "u_inject") == 0 {
		k := rapid.IntRange(1, 3).Draw(t, "u_inject_n")
		for j := 0; j < k; j++ {
			out[rapid.IntRange(0, n-1).Draw(t, "u_pos")] = rapid.SampledFrom(uintAbsPool).Draw(t, "u_abs")
		}
		info.extreme = true
	}
	return out, info
}

// ---- floats -----------------------------------------------------------------------------------

var floatBitsPool = []uint64{
	0x0000000000000000, // +0
	0x8000000000000000, // -0
	0x0000000000000001, // smallest subnormal
	0x000FFFFFFFFFFFFF, // largest subnormal
	0x8000000000000001, // -smallest subnormal
	0x0010000000000000, // smallest normal
	0x7FF0000000000000, // +Inf
	0xFFF0000000000000, // -Inf
	0x7FEFFFFFFFFFFFFF, // MaxFloat64
	0xFFEFFFFFFFFFFFFF, // -MaxFloat64
	0x3FF0000000000000, // 1
	0xBFF0000000000000, // -1
	0x3FB999999999999A, // 0.1
	0x400921FB54442D18, // pi
}

var nanBitsPool = []uint64{
	0x7FF8000000000001, // math.NaN(), the sentinel itself
	0x7FF8000000000000, // quiet NaN, zero payload
	0x7FF0000000000001, // signalling NaN
	0xFFF8000000000000, // negative quiet NaN
	0x7FFFFFFFFFFFFFFF,
	0xFFFFFFFFFFFFFFFF,
	0x7FF8000000000002, // one bit away from the sentinel
}

func isNaNBits(b uint64) bool { return b&0x7FF0000000000000 == 0x7FF0000000000000 && b&0x000FFFFFFFFFFFFF != 0 }

type floatInfo struct {
	genInfo
	nan     bool
	posInf  bool
	negInf  bool
	infRest bool // the running float sum of the elements after the first is NaN although no element is (needs an infinity: +Inf and -Inf, or an overflowed sum meeting the opposite infinity)
}

// genFloats draws n float64 values by raw bit pattern. NaNs are injected only when withNaN.
func genFloats(t *rapid.T, n int) ([]float64, floatInfo) {
	var info floatInfo
	bitsOut := make([]uint64, 0, n)
	if n == 0 {
		return []float64{}, info
	}
	cur := uint64(0x3FF0000000000000)
	for _, l := range segLens(t, n, "f") {
		switch rapid.IntRange(0, 7).Draw(t, "f_kind") {
		case 0: // repeat one value (xor delta 0)
			v := cur
			if rapid.Bool().Draw(t, "f_rep_pool") {
				v = rapid.SampledFrom(floatBitsPool).Draw(t, "f_rep_v")
				info.extreme = true
			}
			for i := 0; i < l; i++ {
				bitsOut = append(bitsOut, v)
			}
			cur = v
		case 1: // special pool
			if l > 6 {
				for i := 0; i < l-6; i++ {
					bitsOut = append(bitsOut, cur)
				}
				l = 6
			}
			for i := 0; i < l; i++ {
				cur = rapid.SampledFrom(floatBitsPool).Draw(t, "f_pool")
				bitsOut = append(bitsOut, cur)
			}
			info.extreme = true
		case 2: // random bit patterns (NaNs folded to non-NaN)
			for _, v := range u64s(t, l, ^uint64(0), "f_rnd") {
				if isNaNBits(v) {
					v &^= 1 << 62
				}
				bitsOut = append(bitsOut, v)
				cur = v
			}
		case 3: // counter
			step := rapid.SampledFrom([]float64{1, 0.5, 0.1, -1, 1e-3, 1e10}).Draw(t, "f_step")
			base := math.Float64frombits(cur)
			if math.IsInf(base, 0) || math.Abs(base) > 1e300 {
				base = 0
			}
			for i := 0; i < l; i++ {
				base += step
				cur = math.Float64bits(base)
				bitsOut = append(bitsOut, cur)
			}
		case 4: // only low mantissa bits change (many leading zeros in the xor; window reuse)
			w := rapid.IntRange(1, 52).Draw(t, "f_low_w")
			base := cur &^ maskBits(w)
			for _, v := range u64s(t, l, maskBits(w), "f_low") {
				cur = base | v
				if isNaNBits(cur) {
					cur &^= 1 << 62
				}
				bitsOut = append(bitsOut, cur)
			}
		case 5: // only high bits change (many trailing zeros in the xor)
			w := rapid.IntRange(1, 12).Draw(t, "f_high_w")
			base := cur & maskBits(64-w)
			for _, v := range u64s(t, l, maskBits(w), "f_high") {
				cur = base | v<<uint(64-w)
				if isNaNBits(cur) {
					cur &^= 1 << 62
				}
				bitsOut = append(bitsOut, cur)
			}
		case 6: // decimals
			for _, v := range u64s(t, l, 100000, "f_dec") {
				cur = math.Float64bits(float64(int64(v)-50000) / 100)
				bitsOut = append(bitsOut, cur)
			}
		case 7: // alternate between two values (window shrinks and grows)
			a := cur
			b := rapid.Uint64().Draw(t, "f_alt")
			if isNaNBits(b) {
				b &^= 1 << 62
			}
			for i := 0; i < l; i++ {
				if i%2 == 0 {
					cur = a
				} else {
					cur = b
				}
				bitsOut = append(bitsOut, cur)
			}
		}
	}
	// NaN injection: one case in ten
	if pct(t, "f_nan") < 13 {
		k := rapid.IntRange(1, 2).Draw(t, "f_nan_n")
		for j := 0; j < k; j++ {
			pos := rapid.IntRange(0, n-1).Draw(t, "f_nan_pos")
			if rapid.Bool().Draw(t, "f_nan_first") {
				pos = 0
			} else if rapid.Bool().Draw(t, "f_nan_last") {
				pos = n - 1
			}
			var v uint64
			if rapid.Bool().Draw(t, "f_nan_pool") {
				v = rapid.SampledFrom(nanBitsPool).Draw(t, "f_nan_v")
			} else {
				v = 0x7FF0000000000000 | rapid.Uint64Range(1, 0x000FFFFFFFFFFFFF).Draw(t, "f_nan_payload")
				if rapid.Bool().Draw(t, "f_nan_sign") {
					v |= 1 << 63
				}
			}
			bitsOut[pos] = v
		}
		info.nan = true
		info.extreme = true
	}
	out := make([]float64, n)
	for i, b := range bitsOut {
		out[i] = math.Float64frombits(b)
		switch b {
		case 0x7FF0000000000000:
			info.posInf = true
		case 0xFFF0000000000000:
			info.negInf = true
		}
	}
	if !info.nan {
		// FloatArrayEncodeAll detects NaN by summing src[1:]; the sum is also NaN for NaN-free
		// input that mixes infinities (documented in DESIGN as an explicit rejection, not corruption)
		var sum float64
		for _, v := range out[1:] {
			sum += v
		}
		info.infRest = math.IsNaN(sum)
	}
	return out, info
}

// ---- booleans ---------------------------------------------------------------------------------

func genBools(t *rapid.T, n int) []bool {
	out := make([]bool, 0, n)
	for _, l := range segLens(t, n, "b") {
		switch rapid.IntRange(0, 2).Draw(t, "b_kind") {
		case 0:
			for i := 0; i < l; i++ {
				out = append(out, true)
			}
		case 1:
			for i := 0; i < l; i++ {
				out = append(out, false)
			}
		default:
			out = append(out, rapid.SliceOfN(rapid.Bool(), l, l).Draw(t, "b_rnd")...)
		}
	}
	return out
}

// ---- strings ----------------------------------------------------------------------------------

var bigLens = []int{127, 128, 129, 300, 4096, 16383, 16384, 16385, 70000}

func genStrings(t *rapid.T, n int) ([]string, genInfo) {
	var info genInfo
	out := make([]string, 0, n)
	budget := 300000 // bytes of "big" strings per case
	cur := "a"
	for _, l := range segLens(t, n, "s") {
		switch rapid.IntRange(0, 5).Draw(t, "s_kind") {
		case 0: // empty strings
			for i := 0; i < l; i++ {
				out = append(out, "")
			}
			info.extreme = true
		case 1: // repeat
			for i := 0; i < l; i++ {
				out = append(out, cur)
			}
		case 2: // short ascii
			for i := 0; i < l; i++ {
				cur = rapid.StringOfN(rapid.RuneFrom([]rune("abcxyz019 ,=\\\"")), 0, 12, -1).Draw(t, "s_ascii")
				out = append(out, cur)
			}
		case 3: // arbitrary bytes incl. invalid UTF-8 and NUL
			for i := 0; i < l; i++ {
				cur = string(rapid.SliceOfN(rapid.Byte(), 0, 24).Draw(t, "s_bytes"))
				out = append(out, cur)
			}
			info.extreme = true
		case 4: // multi-KB strings / varint length boundaries
			for i := 0; i < l; i++ {
				ln := rapid.SampledFrom(bigLens).Draw(t, "s_biglen")
				if ln > budget {
					out = append(out, cur)
					continue
				}
				budget -= ln
				seed := rapid.SliceOfN(rapid.Byte(), 1, 16).Draw(t, "s_bigseed")
				b := make([]byte, ln)
				for j := range b {
					b[j] = seed[j%len(seed)] + byte(j/len(seed))
				}
				cur = string(b)
				out = append(out, cur)
			}
			info.extreme = true
		case 5: // multi-byte UTF-8
			for i := 0; i < l; i++ {
				cur = rapid.StringOfN(rapid.RuneFrom([]rune("é世界🙂\u0000�")), 0, 6, -1).Draw(t, "s_utf8")
				out = append(out, cur)
			}
		}
	}
	return out, info
}

// ---- buffers ----------------------------------------------------------------------------------

// genBuf returns the destination buffer handed to an encoder: nil (what every production caller
// passes) or a zero-length slice over a dirty backing array (the documented re-use pattern).
func genBuf(t *rapid.T, label string) ([]byte, string) {
	if pct(t, label) < 85 {
		return nil, "buf:nil"
	}
	c := rapid.SampledFrom([]int{1, 2, 8, 9, 31, 64, 4096, 70000}).Draw(t, label+"_cap")
	fill := rapid.SampledFrom([]byte{0xFF, 0xA5, 0x01}).Draw(t, label+"_fill")
	b := make([]byte, c)
	for i := range b {
		b[i] = fill
	}
	return b[:0], "buf:dirty-reused"
}

// genDstLen: length/capacity of a destination slice handed to a batch decoder (-1 = nil).
func genDstLen(t *rapid.T, label string, n int) int {
	switch rapid.IntRange(0, 4).Draw(t, label) {
	case 0:
		return 0
	case 1:
		if n > 1 {
			return n - 1
		}
		return 1
	case 2:
		return n + 7
	default:
		return -1
	}
}

// ---- canonical rendering ----------------------------------------------------------------------

type canon struct{ b []byte }

func (c *canon) str(s string) { c.u64(uint64(len(s))); c.b = append(c.b, s...) }
func (c *canon) u64(v uint64) { c.b = binary.BigEndian.AppendUint64(c.b, v) }
func (c *canon) i64s(v []int64) {
	c.u64(uint64(len(v)))
	for _, x := range v {
		c.u64(uint64(x))
	}
}
func (c *canon) String() string { return string(c.b) }
