// C07 — scalar and batch codecs accept each other's output with the same result.
//
// Generator: one of the six column codecs (time, integer, unsigned, float, boolean, string), a
// sequence of 0..2100 values (gen_test.go), whether the scalar encoder is fresh or re-used after
// Reset (the production encoders come from pools), destination buffers.
// Oracle: scalar encoder output and batch *ArrayEncodeAll output are each decoded by BOTH the
// scalar decoder and the batch *ArrayDecodeAll; all four results must equal the input exactly.
// An encoder may only refuse what the documentation lets it refuse (NaN; batch float: Inf mix).
package c07_codec

import (
	"fmt"
	"testing"

	"github.com/influxdata/influxdb/v2/tsdb/engine/tsm1"
	"pgregory.net/rapid"
)

var codecNames = []string{"time", "integer", "unsigned", "float", "boolean", "string"}

// a time sequence is stored as col{typ:"integer"}
func colTypeOf(codec string) string {
	if codec == "time" {
		return "integer"
	}
	return codec
}

// ---- scalar encoders (optionally re-used after Reset with a junk prefix) --------------------------

func scalarEncode(codec string, c col, junk col, reuse bool) ([]byte, error) {
	var b []byte
	var err error
	switch codec {
	case "time":
		e := tsm1.NewTimeEncoder(c.len())
		if reuse {
			for _, v := range junk.i {
				e.Write(v)
			}
			_, _ = e.Bytes()
			e.Reset()
		}
		for _, v := range c.i {
			e.Write(v)
		}
		b, err = e.Bytes()
	case "integer":
		e := tsm1.NewIntegerEncoder(c.len())
		if reuse {
			for _, v := range junk.i {
				e.Write(v)
			}
			_, _ = e.Bytes()
			e.Reset()
		}
		for _, v := range c.i {
			e.Write(v)
		}
		e.Flush()
		b, err = e.Bytes()
	case "unsigned": // the block encoder feeds int64(v) to an IntegerEncoder
		e := tsm1.NewIntegerEncoder(c.len())
		if reuse {
			for _, v := range junk.u {
				e.Write(int64(v))
			}
			_, _ = e.Bytes()
			e.Reset()
		}
		for _, v := range c.u {
			e.Write(int64(v))
		}
		e.Flush()
		b, err = e.Bytes()
	case "float":
		e := tsm1.NewFloatEncoder()
		if reuse {
			for _, v := range junk.f {
				e.Write(v)
			}
			e.Flush()
			_, _ = e.Bytes()
			e.Reset()
		}
		for _, v := range c.f {
			e.Write(v)
		}
		e.Flush()
		b, err = e.Bytes()
	case "boolean":
		e := tsm1.NewBooleanEncoder(c.len())
		if reuse {
			for _, v := range junk.b {
				e.Write(v)
			}
			_, _ = e.Bytes()
			e.Reset()
		}
		for _, v := range c.b {
			e.Write(v)
		}
		e.Flush()
		b, err = e.Bytes()
	default:
		e := tsm1.NewStringEncoder(c.len())
		if reuse {
			for _, v := range junk.s {
				e.Write(v)
			}
			_, _ = e.Bytes()
			e.Reset()
		}
		for _, v := range c.s {
			e.Write(v)
		}
		e.Flush()
		b, err = e.Bytes()
	}
	// Bytes may alias encoder-internal storage: keep a private copy
	return append([]byte(nil), b...), err
}

func batchEncode(codec string, c col, buf []byte) ([]byte, error) {
	switch codec {
	case "time":
		return tsm1.TimeArrayEncodeAll(append([]int64(nil), c.i...), buf)
	case "integer":
		return tsm1.IntegerArrayEncodeAll(append([]int64(nil), c.i...), buf)
	case "unsigned":
		return tsm1.UnsignedArrayEncodeAll(append([]uint64(nil), c.u...), buf)
	case "float":
		return tsm1.FloatArrayEncodeAll(append([]float64(nil), c.f...), buf)
	case "boolean":
		return tsm1.BooleanArrayEncodeAll(append([]bool(nil), c.b...), buf)
	default:
		return tsm1.StringArrayEncodeAll(append([]string(nil), c.s...), buf)
	}
}

// ---- decoders -----------------------------------------------------------------------------------

// scalarDecoders bundles one decoder of every kind so that a decoder is re-used for the second
// stream of a case, as the pooled decoders are in production.
type scalarDecoders struct {
	t tsm1.TimeDecoder
	i tsm1.IntegerDecoder
	f tsm1.FloatDecoder
	b tsm1.BooleanDecoder
	s tsm1.StringDecoder
}

const decodeCap = 1 << 20 // guards the harness against a runaway decoder

func (d *scalarDecoders) decode(codec string, b []byte) (col, error) {
	out := col{typ: colTypeOf(codec)}
	switch codec {
	case "time":
		d.t.Init(b)
		for d.t.Next() {
			out.i = append(out.i, d.t.Read())
			if len(out.i) > decodeCap {
				return out, fmt.Errorf("decoder does not terminate")
			}
		}
		return out, d.t.Error()
	case "integer":
		d.i.SetBytes(b)
		for d.i.Next() {
			out.i = append(out.i, d.i.Read())
			if len(out.i) > decodeCap {
				return out, fmt.Errorf("decoder does not terminate")
			}
		}
		return out, d.i.Error()
	case "unsigned":
		d.i.SetBytes(b)
		for d.i.Next() {
			out.u = append(out.u, uint64(d.i.Read()))
			if len(out.u) > decodeCap {
				return out, fmt.Errorf("decoder does not terminate")
			}
		}
		return out, d.i.Error()
	case "float":
		if err := d.f.SetBytes(b); err != nil {
			return out, err
		}
		for d.f.Next() {
			out.f = append(out.f, d.f.Values())
			if len(out.f) > decodeCap {
				return out, fmt.Errorf("decoder does not terminate")
			}
		}
		return out, d.f.Error()
	case "boolean":
		d.b.SetBytes(b)
		for d.b.Next() {
			out.b = append(out.b, d.b.Read())
			if len(out.b) > decodeCap {
				return out, fmt.Errorf("decoder does not terminate")
			}
		}
		return out, d.b.Error()
	default:
		if err := d.s.SetBytes(b); err != nil {
			return out, err
		}
		for d.s.Next() {
			out.s = append(out.s, d.s.Read())
			if len(out.s) > decodeCap {
				return out, fmt.Errorf("decoder does not terminate")
			}
		}
		return out, d.s.Error()
	}
}

func batchDecode(codec string, b []byte, dstLen int) (col, error) {
	out := col{typ: colTypeOf(codec)}
	var err error
	switch codec {
	case "time":
		out.i, err = tsm1.TimeArrayDecodeAll(b, junkTimes(dstLen))
	case "integer":
		out.i, err = tsm1.IntegerArrayDecodeAll(b, junkTimes(dstLen))
	case "unsigned":
		var dst []uint64
		if dstLen >= 0 {
			dst = make([]uint64, dstLen)
			for k := range dst {
				dst[k] = 99
			}
		}
		out.u, err = tsm1.UnsignedArrayDecodeAll(b, dst)
	case "float":
		var dst []float64
		if dstLen >= 0 {
			dst = make([]float64, dstLen)
			for k := range dst {
				dst[k] = -12.5
			}
		}
		out.f, err = tsm1.FloatArrayDecodeAll(b, dst)
	case "boolean":
		var dst []bool
		if dstLen >= 0 {
			dst = make([]bool, dstLen)
			for k := range dst {
				dst[k] = true
			}
		}
		out.b, err = tsm1.BooleanArrayDecodeAll(b, dst)
	default:
		var dst []string
		if dstLen >= 0 {
			dst = make([]string, dstLen)
			for k := range dst {
				dst[k] = "junk"
			}
		}
		out.s, err = tsm1.StringArrayDecodeAll(b, dst)
	}
	return out, err
}

func genSeq(t *rapid.T, codec string, n int) (col, colInfo) {
	if codec == "time" {
		ts, gi := genTimes(t, n)
		return col{typ: "integer", i: ts}, colInfo{genInfo: gi}
	}
	return genCol(t, codec, n)
}

type stream struct {
	side string
	b    []byte
}

// checkInterop is the codec-level oracle (shared by the rapid property and the native fuzz
// targets): both encoders, both decoders, four results, all equal to the input.
func checkInterop(codec string, c col, junk col, reuse bool, buf []byte, dstLen int) (streams []stream, rejections []string, v *verdict) {
	n := c.len()
	nan, nanSum := false, false
	if codec == "float" {
		nan, nanSum = floatFlags(c.f)
	}
	for _, side := range []string{"scalar", "batch"} {
		var b []byte
		var err error
		perr := safely(func() {
			if side == "scalar" {
				b, err = scalarEncode(codec, c, junk, reuse)
			} else {
				b, err = batchEncode(codec, c, buf)
			}
		})
		if perr != nil {
			return streams, rejections, vf("encode-panic", "%s %s encoder n=%d: %v", codec, side, n, perr)
		}
		if err != nil {
			if !(nan || (side == "batch" && nanSum)) {
				return streams, rejections, vf("unexpected-rejection", "%s %s encoder n=%d rejected an encodable input: %v", codec, side, n, err)
			}
			if nan {
				rejections = append(rejections, "nan")
			} else {
				rejections = append(rejections, "batch-float-nan-sum-of-infinities(observation)")
			}
			continue
		}
		streams = append(streams, stream{side, b})
	}
	// fresh decoders for every case; within a case the same scalar decoder reads both streams,
	// as the pooled decoders do in production. For n == 0 a fresh decoder is used per stream:
	// decoders keep state from the previous stream when handed an empty one, which the block
	// decoders never do (they size the output by CountTimestamps first) — not asserted.
	var sd scalarDecoders
	for _, s := range streams {
		if codec == "time" {
			var cnt int
			if perr := safely(func() { cnt = tsm1.CountTimestamps(s.b) }); perr != nil || cnt != n {
				return streams, rejections, vf("count-timestamps", "time %s encoder n=%d: CountTimestamps=%d panic=%v", s.side, n, cnt, perr)
			}
		}
		for _, dside := range []string{"scalar", "batch"} {
			var got col
			var derr error
			perr := safely(func() {
				if dside == "scalar" {
					if n == 0 {
						sd = scalarDecoders{}
					}
					got, derr = sd.decode(codec, s.b)
				} else {
					got, derr = batchDecode(codec, s.b, dstLen)
				}
			})
			if perr != nil {
				return streams, rejections, vf("decode-panic", "%s: %s encoder -> %s decoder n=%d: %v", codec, s.side, dside, n, perr)
			}
			if derr != nil {
				return streams, rejections, vf("decode-error", "%s: %s encoder -> %s decoder n=%d: output produced without error is not accepted: %v", codec, s.side, dside, n, derr)
			}
			if d := c.diff(got); d != "" {
				return streams, rejections, vf("interop-mismatch", "%s: %s encoder -> %s decoder n=%d: %s", codec, s.side, dside, n, d)
			}
		}
	}
	return streams, rejections, nil
}

func TestPropScalarBatchInterop(t *testing.T) {
	rec.Check(t, 60000, 1000000, func(t *rapid.T) {
		codec := rapid.SampledFrom(codecNames).Draw(t, "codec")
		n := genN(t, 0)
		c, ci := genSeq(t, codec, n)
		reuse := rapid.Bool().Draw(t, "scalarEncoderReused")
		var junk col
		if reuse {
			junk, _ = genSeq(t, codec, rapid.IntRange(0, 12).Draw(t, "junk_n"))
		}
		buf, bufClass := genBuf(t, "batchbuf")
		dstLen := genDstLen(t, "dst", n)
		caseJSON := func() map[string]any {
			m := c.jsonable(nil)
			m["codec"] = codec
			m["scalar_encoder_reused"] = reuse
			m["buf"] = bufClass
			m["dst_len"] = dstLen
			return m
		}
		if n == 0 {
			// No caller encodes an empty array (Encode<T>ArrayBlock returns early) and every caller
			// passes a nil buffer: an empty input is paired with a nil buffer by construction.
			// (Observation, not asserted: StringArrayEncodeAll([]string{}, dirty[:0]) leaves byte 1 of
			// its 2-byte result uninitialised.)
			buf, bufClass = nil, "buf:nil"
		}

		streams, rejections, v := checkInterop(codec, c, junk, reuse, buf, dstLen)
		rec.Eval()
		rec.Class("codec:" + codec)
		rec.Class("codec:" + sizeClass(n))
		rec.Class("codec:" + bufClass)
		if reuse {
			rec.Class("codec:scalar-encoder:reused-after-Reset")
		} else {
			rec.Class("codec:scalar-encoder:fresh")
		}
		if v != nil {
			rec.Fail(t, "TestPropScalarBatchInterop", v.key, v.detail, caseJSON())
		}
		for _, r := range rejections {
			rec.Class("codec:rejected:" + r)
		}
		nonRaw := false
		for _, s := range streams {
			if len(s.b) > 0 {
				enc := s.b[0] >> 4
				switch codec {
				case "time", "integer", "unsigned":
					rec.Class(fmt.Sprintf("codec:%s:%s-encoding:%s", codec, s.side, timeEncNames[enc&3]))
					nonRaw = nonRaw || enc != 0
				default:
					nonRaw = true
				}
			}
		}
		if n >= 2 && (nonRaw || ci.extreme) {
			cn := &canon{}
			cn.str("codec:" + codec)
			c.canon(cn)
			rec.NonTrivial(cn.String())
			if rec.WantSample() && n <= 5 && len(streams) == 2 {
				m := caseJSON()
				m["scalar_bytes"] = fmt.Sprintf("%x", streams[0].b)
				m["batch_bytes"] = fmt.Sprintf("%x", streams[1].b)
				rec.Sample(m)
			}
		}
	})
}
