// C07 — simple8b packing round-trips or rejects explicitly.
//
// Generator: 0..700 uint64 values built from segments (runs of ones >= 120 / >= 240, one bit
// width per segment 0..60 bits, selector-boundary values 2^k-1 / 2^k), optionally with one or more
// values >= 2^60 injected.
// Oracle: without out-of-range values every encoder (EncodeAll, streaming Encoder, single-word
// Encode) succeeds and every decoder (DecodeAll, DecodeBytesBigEndian, streaming Decoder,
// single-word Decode) returns exactly the input, with CountBytes/Count equal to the number of
// values; with an out-of-range value EncodeAll and the streaming Encoder return an error.
//
// Not asserted: simple8b.ForEach and CountBytesBetween. Neither is used by the tsm1 codecs (or by
// anything else in the tree); ForEach yields 0 instead of 1 for selector-0/1 words (observation).
package c07_codec

import (
	"encoding/binary"
	"fmt"
	"testing"

	"github.com/influxdata/influxdb/v2/pkg/encoding/simple8b"
	"pgregory.net/rapid"
)

var s8bWidths = []int{0, 1, 2, 3, 4, 5, 6, 7, 8, 10, 12, 15, 20, 30, 60}

func genS8b(t *rapid.T) (vals []uint64, oob bool, shape string) {
	c := pct(t, "s8_size")
	var n int
	switch {
	case c < 4:
		n = 0
	case c < 13:
		n = rapid.IntRange(1, 3).Draw(t, "s8_n")
	case c < 55:
		n = rapid.IntRange(4, 70).Draw(t, "s8_n")
	case c < 100:
		n = rapid.IntRange(71, 300).Draw(t, "s8_n")
	default:
		n = rapid.IntRange(301, 700).Draw(t, "s8_n")
	}
	vals = make([]uint64, 0, n)
	ones := 0
	for _, l := range segLens(t, n, "s8") {
		switch rapid.IntRange(0, 4).Draw(t, "s8_kind") {
		case 0: // run of ones (selectors 0 and 1)
			for i := 0; i < l; i++ {
				vals = append(vals, 1)
			}
			if l >= 120 {
				ones++
			}
		case 1, 2: // uniform values of one selector width
			w := rapid.SampledFrom(s8bWidths).Draw(t, "s8_width")
			vals = append(vals, u64s(t, l, maskBits(w), "s8_vals")...)
		case 3: // selector boundaries: 2^w-1 (fits) and 2^w (needs the next selector)
			for i := 0; i < l; i++ {
				w := rapid.SampledFrom(s8bWidths).Draw(t, "s8_bw")
				v := maskBits(w)
				if w < 60 && rapid.Bool().Draw(t, "s8_over") {
					v++
				}
				vals = append(vals, v)
			}
		case 4: // arbitrary widths 1..60 per value
			for i := 0; i < l; i++ {
				w := rapid.IntRange(1, 60).Draw(t, "s8_w")
				vals = append(vals, rapid.Uint64Range(0, maskBits(w)).Draw(t, "s8_v"))
			}
		}
	}
	shape = "s8b:plain"
	if ones > 0 {
		shape = "s8b:with-run-of>=120-ones"
	}
	if n > 0 && pct(t, "s8_oob") < 20 {
		k := rapid.IntRange(1, 2).Draw(t, "s8_oob_n")
		for j := 0; j < k; j++ {
			pos := rapid.IntRange(0, n-1).Draw(t, "s8_oob_pos")
			vals[pos] = rapid.SampledFrom([]uint64{1 << 60, 1<<60 + 1, 1 << 61, 1 << 63, ^uint64(0)}).Draw(t, "s8_oob_v")
		}
		oob = true
	}
	return vals, oob, shape
}

func wordsToBytes(w []uint64) []byte {
	b := make([]byte, 0, len(w)*8)
	for _, v := range w {
		b = binary.BigEndian.AppendUint64(b, v)
	}
	return b
}

func diffU64(want, got []uint64) string {
	if len(want) != len(got) {
		return fmt.Sprintf("count: want %d got %d", len(want), len(got))
	}
	for k := range want {
		if want[k] != got[k] {
			return fmt.Sprintf("value[%d]: want %d got %d", k, want[k], got[k])
		}
	}
	return ""
}

// s8bStreamEncode feeds vals to the streaming Encoder; the error may surface from Write or Bytes.
func s8bStreamEncode(vals []uint64, reuse bool) ([]byte, error) {
	e := simple8b.NewEncoder()
	if reuse {
		for i := 0; i < 5; i++ {
			_ = e.Write(uint64(i))
		}
		_, _ = e.Bytes()
		e.Reset()
	}
	for _, v := range vals {
		if err := e.Write(v); err != nil {
			return nil, err
		}
	}
	b, err := e.Bytes()
	return append([]byte(nil), b...), err
}

func s8bStreamDecode(b []byte) []uint64 {
	var d simple8b.Decoder
	d.SetBytes(b)
	var out []uint64
	for d.Next() {
		out = append(out, d.Read())
		if len(out) > decodeCap {
			break
		}
	}
	return out
}

// checkS8b is the simple8b oracle (shared by the rapid property and the native fuzz target).
func checkS8b(vals []uint64, reuse bool) *verdict {
	n := len(vals)
	oob := false
	for _, v := range vals {
		if v > simple8b.MaxValue {
			oob = true
		}
	}
	var words []uint64
	var eerr error
	if perr := safely(func() { words, eerr = simple8b.EncodeAll(append([]uint64(nil), vals...)) }); perr != nil {
		return vf("encodeall-panic", "%v", perr)
	}
	var sbytes []byte
	var serr error
	if perr := safely(func() { sbytes, serr = s8bStreamEncode(vals, reuse) }); perr != nil {
		return vf("stream-encode-panic", "%v", perr)
	}
	if oob {
		if eerr == nil {
			return vf("out-of-range-accepted", "EncodeAll accepted a value >= 2^60 (n=%d) instead of returning an error", n)
		}
		if serr == nil {
			return vf("out-of-range-accepted", "streaming Encoder accepted a value >= 2^60 (n=%d) instead of returning an error", n)
		}
		return nil
	}
	if eerr != nil {
		return vf("unexpected-rejection", "EncodeAll rejected in-range values: %v", eerr)
	}
	if serr != nil {
		return vf("unexpected-rejection", "streaming Encoder rejected in-range values: %v", serr)
	}
	for _, st := range []struct {
		name string
		b    []byte
	}{{"EncodeAll", wordsToBytes(words)}, {"Encoder", sbytes}} {
		cnt, cerr := simple8b.CountBytes(st.b)
		if cerr != nil || cnt != n {
			return vf("countbytes", "%s output: CountBytes=%d err=%v want %d", st.name, cnt, cerr, n)
		}
		// DecodeBytesBigEndian (destination sized by CountBytes, as tsm1 does)
		dst := make([]uint64, cnt)
		var got int
		var derr error
		if perr := safely(func() { got, derr = simple8b.DecodeBytesBigEndian(dst, st.b) }); perr != nil {
			return vf("decode-panic", "%s output -> DecodeBytesBigEndian: %v", st.name, perr)
		}
		if derr != nil || got != n {
			return vf("decode-count", "%s output -> DecodeBytesBigEndian: n=%d err=%v want %d", st.name, got, derr, n)
		}
		if d := diffU64(vals, dst); d != "" {
			return vf("roundtrip-mismatch", "%s output -> DecodeBytesBigEndian: %s", st.name, d)
		}
		var sgot []uint64
		if perr := safely(func() { sgot = s8bStreamDecode(st.b) }); perr != nil {
			return vf("decode-panic", "%s output -> Decoder: %v", st.name, perr)
		}
		if d := diffU64(vals, sgot); d != "" {
			return vf("roundtrip-mismatch", "%s output -> Decoder: %s", st.name, d)
		}
	}
	{
		dst := make([]uint64, n)
		var got int
		var derr error
		if perr := safely(func() { got, derr = simple8b.DecodeAll(dst, words) }); perr != nil {
			return vf("decode-panic", "EncodeAll output -> DecodeAll: %v", perr)
		}
		if derr != nil || got != n {
			return vf("decode-count", "EncodeAll output -> DecodeAll: n=%d err=%v want %d", got, derr, n)
		}
		if d := diffU64(vals, dst); d != "" {
			return vf("roundtrip-mismatch", "EncodeAll output -> DecodeAll: %s", d)
		}
	}
	// single-word Encode / Decode / Count, walking the whole input
	var got []uint64
	rest := vals
	for len(rest) > 0 {
		var w uint64
		var k int
		var err error
		if perr := safely(func() { w, k, err = simple8b.Encode(rest) }); perr != nil {
			return vf("encode-panic", "Encode(word) at offset %d: %v", n-len(rest), perr)
		}
		if err != nil || k <= 0 || k > len(rest) {
			return vf("unexpected-rejection", "Encode(word) at offset %d: packed=%d err=%v", n-len(rest), k, err)
		}
		var buf [240]uint64
		dk, derr := simple8b.Decode(&buf, w)
		ck, cerr := simple8b.Count(w)
		if derr != nil || cerr != nil || dk != k || ck != k {
			return vf("decode-count", "Encode(word) packed %d values; Decode says %d (err %v), Count says %d (err %v)", k, dk, derr, ck, cerr)
		}
		got = append(got, buf[:k]...)
		rest = rest[k:]
	}
	if d := diffU64(vals, got); d != "" {
		return vf("roundtrip-mismatch", "Encode(word) -> Decode(word): %s", d)
	}
	return nil
}

func TestPropSimple8b(t *testing.T) {
	rec.Check(t, 60000, 1000000, func(t *rapid.T) {
		vals, oob, shape := genS8b(t)
		n := len(vals)
		reuse := rapid.Bool().Draw(t, "s8_reuse")
		v := checkS8b(vals, reuse)
		rec.Eval()
		rec.Class(shape)
		if oob {
			rec.Class("s8b:out-of-range-value")
		}
		rec.Class("s8b:" + sizeClass(n))
		if v != nil {
			rec.Fail(t, "TestPropSimple8b", v.key, v.detail, map[string]any{"n": n, "values": vals[:min(n, 300)], "out_of_range": oob})
		}
		if n >= 2 {
			cn := &canon{}
			cn.str("s8b")
			for _, x := range vals {
				cn.u64(x)
			}
			rec.NonTrivial(cn.String())
			if rec.WantSample() && n <= 8 {
				rec.Sample(map[string]any{"simple8b_values": vals, "out_of_range": oob})
			}
		}
	})
}
