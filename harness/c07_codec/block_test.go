// C07 — Value encodings round-trip bit-exactly (block level).
//
// Generator: a field type, 1..2100 timestamps (sorted, unsorted, RLE-friendly, scaled, raw) and
// values of that type with explicit extreme pools (see gen_test.go).
// Oracle: for each of the three block encoders (generic Values.Encode, typed <T>Values.Encode,
// batch Encode<T>ArrayBlock) the result is either an explicit rejection that the documentation
// allows (NaN; for the batch float encoder also a NaN sum of infinities) or a block that ALL three block
// decoders (DecodeBlock, Decode<T>Block, Decode<T>ArrayBlock) turn back into exactly the input
// (floats compared by bit pattern), with BlockType / BlockCount agreeing.
package c07_codec

import (
	"fmt"
	"math"
	"testing"

	"github.com/influxdata/influxdb/v2/tsdb"
	"github.com/influxdata/influxdb/v2/tsdb/engine/tsm1"
	"pgregory.net/rapid"

	"verifharness/internal/ev"
)

var rec = ev.For("C07", "exploration",
	"case = (field type or codec, timestamps, values, encoder, destination buffers); non-trivial = length >= 2 and (the timestamp or value encoder chose a non-raw encoding (RLE / simple8b / gorilla / bit-packed / snappy) or the input contains an extreme-pool value); distinct by the byte rendering of (type, timestamps, values)")

func init() {
	rec.Assume("Encoder destination buffers are nil (what every production caller passes) or zero-length slices over a dirty backing array; non-zero-length destination buffers are not exercised, and a zero-length input is always paired with a nil buffer.")
	rec.Assume("A NaN input must be rejected with an error or round-trip unchanged (float.go: 'NaN cannot be stored'); the batch float encoder may additionally reject NaN-free blocks whose running sum is NaN (+Inf and -Inf in one block, or an overflowed sum meeting the opposite infinity): an explicit rejection, recorded as an observation, not a violation.")
	rec.Assume("Values.Encode is not called with zero values (documented to panic); zero-length sequences are exercised at the codec level only.")
}

// col is one column of values of a single field type.
type col struct {
	typ string // float integer unsigned boolean string
	f   []float64
	i   []int64
	u   []uint64
	b   []bool
	s   []string
}

var fieldTypes = []string{"float", "integer", "unsigned", "boolean", "string"}

func (c col) len() int {
	switch c.typ {
	case "float":
		return len(c.f)
	case "integer":
		return len(c.i)
	case "unsigned":
		return len(c.u)
	case "boolean":
		return len(c.b)
	default:
		return len(c.s)
	}
}

func (c col) blockType() byte {
	switch c.typ {
	case "float":
		return tsm1.BlockFloat64
	case "integer":
		return tsm1.BlockInteger
	case "unsigned":
		return tsm1.BlockUnsigned
	case "boolean":
		return tsm1.BlockBoolean
	default:
		return tsm1.BlockString
	}
}

// diff returns "" when both columns are identical (floats by bit pattern), else a description.
func (c col) diff(o col) string {
	if c.typ != o.typ {
		return fmt.Sprintf("type %s vs %s", c.typ, o.typ)
	}
	if c.len() != o.len() {
		return fmt.Sprintf("value count: want %d got %d", c.len(), o.len())
	}
	for k := 0; k < c.len(); k++ {
		switch c.typ {
		case "float":
			if math.Float64bits(c.f[k]) != math.Float64bits(o.f[k]) {
				return fmt.Sprintf("value[%d]: want bits %#016x got %#016x", k, math.Float64bits(c.f[k]), math.Float64bits(o.f[k]))
			}
		case "integer":
			if c.i[k] != o.i[k] {
				return fmt.Sprintf("value[%d]: want %d got %d", k, c.i[k], o.i[k])
			}
		case "unsigned":
			if c.u[k] != o.u[k] {
				return fmt.Sprintf("value[%d]: want %d got %d", k, c.u[k], o.u[k])
			}
		case "boolean":
			if c.b[k] != o.b[k] {
				return fmt.Sprintf("value[%d]: want %v got %v", k, c.b[k], o.b[k])
			}
		default:
			if c.s[k] != o.s[k] {
				return fmt.Sprintf("value[%d]: want %q (len %d) got %q (len %d)", k, trunc(c.s[k]), len(c.s[k]), trunc(o.s[k]), len(o.s[k]))
			}
		}
	}
	return ""
}

func trunc(s string) string {
	if len(s) > 40 {
		return s[:40] + "…"
	}
	return s
}

func diffTimes(want, got []int64) string {
	if len(want) != len(got) {
		return fmt.Sprintf("timestamp count: want %d got %d", len(want), len(got))
	}
	for k := range want {
		if want[k] != got[k] {
			return fmt.Sprintf("timestamp[%d]: want %d got %d", k, want[k], got[k])
		}
	}
	return ""
}

func (c col) canon(cn *canon) {
	cn.str(c.typ)
	cn.u64(uint64(c.len()))
	for k := 0; k < c.len(); k++ {
		switch c.typ {
		case "float":
			cn.u64(math.Float64bits(c.f[k]))
		case "integer":
			cn.u64(uint64(c.i[k]))
		case "unsigned":
			cn.u64(c.u[k])
		case "boolean":
			if c.b[k] {
				cn.u64(1)
			} else {
				cn.u64(0)
			}
		default:
			cn.str(c.s[k])
		}
	}
}

// jsonable renders the case for the violation record (floats as bit patterns, strings quoted).
func (c col) jsonable(ts []int64) map[string]any {
	m := map[string]any{"type": c.typ, "n": c.len()}
	lim := c.len()
	if lim > 64 {
		lim = 64
		m["truncated_to"] = 64
	}
	if ts != nil {
		m["timestamps"] = ts[:min(lim, len(ts))]
	}
	switch c.typ {
	case "float":
		bs := make([]string, 0, lim)
		for _, v := range c.f[:lim] {
			bs = append(bs, fmt.Sprintf("%#016x", math.Float64bits(v)))
		}
		m["float_bits"] = bs
	case "integer":
		m["values"] = c.i[:lim]
	case "unsigned":
		m["values"] = c.u[:lim]
	case "boolean":
		m["values"] = c.b[:lim]
	default:
		qs := make([]string, 0, lim)
		for _, v := range c.s[:lim] {
			qs = append(qs, fmt.Sprintf("%q", trunc(v)))
		}
		m["values"] = qs
	}
	return m
}

type colInfo struct {
	genInfo
	nan     bool
	infMix  bool // +Inf and -Inf both present
	infRest bool
}

func genCol(t *rapid.T, typ string, n int) (col, colInfo) {
	c := col{typ: typ}
	var ci colInfo
	switch typ {
	case "float":
		var fi floatInfo
		c.f, fi = genFloats(t, n)
		ci.genInfo, ci.nan, ci.infMix, ci.infRest = fi.genInfo, fi.nan, fi.posInf && fi.negInf, fi.infRest
	case "integer":
		c.i, ci.genInfo = genInts(t, n)
	case "unsigned":
		c.u, ci.genInfo = genUints(t, n)
	case "boolean":
		c.b = genBools(t, n)
	default:
		c.s, ci.genInfo = genStrings(t, n)
	}
	return c, ci
}

// safely runs f and converts a panic of the code under test into an error.
func safely(f func()) (err error) {
	defer func() {
		if r := recover(); r != nil {
			err = fmt.Errorf("panic: %v", r)
		}
	}()
	f()
	return nil
}

// ---- block encoders ---------------------------------------------------------------------------

func (c col) values(ts []int64) tsm1.Values {
	out := make(tsm1.Values, len(ts))
	for k, tm := range ts {
		switch c.typ {
		case "float":
			out[k] = tsm1.NewFloatValue(tm, c.f[k])
		case "integer":
			out[k] = tsm1.NewIntegerValue(tm, c.i[k])
		case "unsigned":
			out[k] = tsm1.NewUnsignedValue(tm, c.u[k])
		case "boolean":
			out[k] = tsm1.NewBooleanValue(tm, c.b[k])
		default:
			out[k] = tsm1.NewStringValue(tm, c.s[k])
		}
	}
	return out
}

func encGeneric(c col, ts []int64, buf []byte) ([]byte, error) {
	return c.values(ts).Encode(buf)
}

func encTyped(c col, ts []int64, buf []byte) ([]byte, error) {
	vs := c.values(ts)
	switch c.typ {
	case "float":
		a := make(tsm1.FloatValues, len(vs))
		for k := range vs {
			a[k] = vs[k].(tsm1.FloatValue)
		}
		return a.Encode(buf)
	case "integer":
		a := make(tsm1.IntegerValues, len(vs))
		for k := range vs {
			a[k] = vs[k].(tsm1.IntegerValue)
		}
		return a.Encode(buf)
	case "unsigned":
		a := make(tsm1.UnsignedValues, len(vs))
		for k := range vs {
			a[k] = vs[k].(tsm1.UnsignedValue)
		}
		return a.Encode(buf)
	case "boolean":
		a := make(tsm1.BooleanValues, len(vs))
		for k := range vs {
			a[k] = vs[k].(tsm1.BooleanValue)
		}
		return a.Encode(buf)
	default:
		a := make(tsm1.StringValues, len(vs))
		for k := range vs {
			a[k] = vs[k].(tsm1.StringValue)
		}
		return a.Encode(buf)
	}
}

// encArray uses the batch block encoders; they use their inputs as scratch space, so copies
// are handed in.
func encArray(c col, ts []int64, buf []byte) ([]byte, error) {
	tc := append([]int64(nil), ts...)
	switch c.typ {
	case "float":
		return tsm1.EncodeFloatArrayBlock(&tsdb.FloatArray{Timestamps: tc, Values: append([]float64(nil), c.f...)}, buf)
	case "integer":
		return tsm1.EncodeIntegerArrayBlock(&tsdb.IntegerArray{Timestamps: tc, Values: append([]int64(nil), c.i...)}, buf)
	case "unsigned":
		return tsm1.EncodeUnsignedArrayBlock(&tsdb.UnsignedArray{Timestamps: tc, Values: append([]uint64(nil), c.u...)}, buf)
	case "boolean":
		return tsm1.EncodeBooleanArrayBlock(&tsdb.BooleanArray{Timestamps: tc, Values: append([]bool(nil), c.b...)}, buf)
	default:
		return tsm1.EncodeStringArrayBlock(&tsdb.StringArray{Timestamps: tc, Values: append([]string(nil), c.s...)}, buf)
	}
}

// ---- block decoders ---------------------------------------------------------------------------

func decGeneric(typ string, block []byte, _ int) ([]int64, col, error) {
	vs, err := tsm1.DecodeBlock(block, nil)
	if err != nil {
		return nil, col{}, err
	}
	out := col{typ: typ}
	ts := make([]int64, 0, len(vs))
	for k, v := range vs {
		ts = append(ts, v.UnixNano())
		ok := false
		switch typ {
		case "float":
			var x float64
			x, ok = v.Value().(float64)
			out.f = append(out.f, x)
		case "integer":
			var x int64
			x, ok = v.Value().(int64)
			out.i = append(out.i, x)
		case "unsigned":
			var x uint64
			x, ok = v.Value().(uint64)
			out.u = append(out.u, x)
		case "boolean":
			var x bool
			x, ok = v.Value().(bool)
			out.b = append(out.b, x)
		default:
			var x string
			x, ok = v.Value().(string)
			out.s = append(out.s, x)
		}
		if !ok {
			return nil, col{}, fmt.Errorf("DecodeBlock element %d has dynamic type %T, want %s", k, v.Value(), typ)
		}
	}
	return ts, out, nil
}

func decTyped(typ string, block []byte, dstLen int) ([]int64, col, error) {
	out := col{typ: typ}
	var ts []int64
	switch typ {
	case "float":
		var buf []tsm1.FloatValue
		if dstLen >= 0 {
			buf = make([]tsm1.FloatValue, dstLen)
		}
		vs, err := tsm1.DecodeFloatBlock(block, &buf)
		if err != nil {
			return nil, out, err
		}
		for _, v := range vs {
			ts = append(ts, v.UnixNano())
			out.f = append(out.f, v.RawValue())
		}
	case "integer":
		var buf []tsm1.IntegerValue
		if dstLen >= 0 {
			buf = make([]tsm1.IntegerValue, dstLen)
		}
		vs, err := tsm1.DecodeIntegerBlock(block, &buf)
		if err != nil {
			return nil, out, err
		}
		for _, v := range vs {
			ts = append(ts, v.UnixNano())
			out.i = append(out.i, v.RawValue())
		}
	case "unsigned":
		var buf []tsm1.UnsignedValue
		if dstLen >= 0 {
			buf = make([]tsm1.UnsignedValue, dstLen)
		}
		vs, err := tsm1.DecodeUnsignedBlock(block, &buf)
		if err != nil {
			return nil, out, err
		}
		for _, v := range vs {
			ts = append(ts, v.UnixNano())
			out.u = append(out.u, v.RawValue())
		}
	case "boolean":
		var buf []tsm1.BooleanValue
		if dstLen >= 0 {
			buf = make([]tsm1.BooleanValue, dstLen)
		}
		vs, err := tsm1.DecodeBooleanBlock(block, &buf)
		if err != nil {
			return nil, out, err
		}
		for _, v := range vs {
			ts = append(ts, v.UnixNano())
			out.b = append(out.b, v.RawValue())
		}
	default:
		var buf []tsm1.StringValue
		if dstLen >= 0 {
			buf = make([]tsm1.StringValue, dstLen)
		}
		vs, err := tsm1.DecodeStringBlock(block, &buf)
		if err != nil {
			return nil, out, err
		}
		for _, v := range vs {
			ts = append(ts, v.UnixNano())
			out.s = append(out.s, v.RawValue())
		}
	}
	return ts, out, nil
}

func junkTimes(dstLen int) []int64 {
	if dstLen < 0 {
		return nil
	}
	a := make([]int64, dstLen)
	for k := range a {
		a[k] = -7777
	}
	return a
}

func decArray(typ string, block []byte, dstLen int) ([]int64, col, error) {
	out := col{typ: typ}
	switch typ {
	case "float":
		a := &tsdb.FloatArray{Timestamps: junkTimes(dstLen)}
		if dstLen >= 0 {
			a.Values = make([]float64, dstLen)
		}
		err := tsm1.DecodeFloatArrayBlock(block, a)
		out.f = a.Values
		return a.Timestamps, out, err
	case "integer":
		a := &tsdb.IntegerArray{Timestamps: junkTimes(dstLen)}
		if dstLen >= 0 {
			a.Values = junkTimes(dstLen)
		}
		err := tsm1.DecodeIntegerArrayBlock(block, a)
		out.i = a.Values
		return a.Timestamps, out, err
	case "unsigned":
		a := &tsdb.UnsignedArray{Timestamps: junkTimes(dstLen)}
		if dstLen >= 0 {
			a.Values = make([]uint64, dstLen)
		}
		err := tsm1.DecodeUnsignedArrayBlock(block, a)
		out.u = a.Values
		return a.Timestamps, out, err
	case "boolean":
		a := &tsdb.BooleanArray{Timestamps: junkTimes(dstLen)}
		if dstLen >= 0 {
			a.Values = make([]bool, dstLen)
			for k := range a.Values {
				a.Values[k] = true
			}
		}
		err := tsm1.DecodeBooleanArrayBlock(block, a)
		out.b = a.Values
		return a.Timestamps, out, err
	default:
		a := &tsdb.StringArray{Timestamps: junkTimes(dstLen)}
		if dstLen >= 0 {
			a.Values = make([]string, dstLen)
			for k := range a.Values {
				a.Values[k] = "junk"
			}
		}
		err := tsm1.DecodeStringArrayBlock(block, a)
		out.s = a.Values
		return a.Timestamps, out, err
	}
}

type blockEncoder struct {
	name  string
	batch bool
	f     func(col, []int64, []byte) ([]byte, error)
}

type blockDecoder struct {
	name string
	f    func(string, []byte, int) ([]int64, col, error)
}

var blockEncoders = []blockEncoder{
	{"Values.Encode", false, encGeneric},
	{"TypedValues.Encode", false, encTyped},
	{"EncodeArrayBlock", true, encArray},
}

var blockDecoders = []blockDecoder{
	{"DecodeBlock", decGeneric},
	{"DecodeTypedBlock", decTyped},
	{"DecodeArrayBlock", decArray},
}

var timeEncNames = map[byte]string{0: "raw", 1: "simple8b", 2: "rle"}

// blockSections parses the block envelope (type byte, uvarint length of the timestamp section)
// and returns the timestamp encoding nibble and the first byte of the value section.
func blockSections(block []byte) (tsEnc byte, valHdr byte, ok bool) {
	if len(block) < 3 {
		return 0, 0, false
	}
	var l uint64
	var shift uint
	i := 1
	for ; i < len(block); i++ {
		b := block[i]
		l |= uint64(b&0x7f) << shift
		shift += 7
		if b < 0x80 {
			i++
			break
		}
	}
	if l == 0 || shift > 63 || l > uint64(len(block)) || i >= len(block) || i+int(l) > len(block) {
		return 0, 0, false
	}
	tsEnc = block[i] >> 4
	if i+int(l) < len(block) {
		valHdr = block[i+int(l)]
	}
	return tsEnc, valHdr, true
}

// verdict is a failed oracle: root-cause key + human readable detail.
type verdict struct{ key, detail string }

func vf(key, format string, a ...any) *verdict { return &verdict{key, fmt.Sprintf(format, a...)} }

// floatFlags: does the sequence hold a NaN; is it NaN-free but with a NaN running sum over the
// elements after the first (the batch float encoder's rejection criterion).
func floatFlags(f []float64) (nan, nanSum bool) {
	for _, v := range f {
		if math.IsNaN(v) {
			return true, false
		}
	}
	var sum float64
	if len(f) > 1 {
		for _, v := range f[1:] {
			sum += v
		}
	}
	return false, math.IsNaN(sum)
}

// checkBlock is the block-level oracle (shared by the rapid property and the native fuzz
// targets). It returns the encoded block (nil when rejected), whether the encoder rejected the
// input, and a verdict when the property is violated.
func checkBlock(c col, ts []int64, enc blockEncoder, buf []byte, dstLen int) (block []byte, rejected bool, v *verdict) {
	typ, n := c.typ, c.len()
	nan, nanSum := false, false
	if typ == "float" {
		nan, nanSum = floatFlags(c.f)
	}
	var err error
	if perr := safely(func() { block, err = enc.f(c, ts, buf) }); perr != nil {
		return nil, false, vf("encode-panic", "%s/%s n=%d: %v", typ, enc.name, n, perr)
	}
	if err != nil {
		if !(nan || (enc.batch && nanSum)) {
			return nil, true, vf("unexpected-rejection", "%s/%s n=%d rejected an encodable input: %v", typ, enc.name, n, err)
		}
		return nil, true, nil
	}
	// envelope
	var bt byte
	var bc int
	var bterr, bcerr error
	if perr := safely(func() { bt, bterr = tsm1.BlockType(block); bc, bcerr = tsm1.BlockCount(block) }); perr != nil {
		return block, false, vf("blockcount-panic", "%s/%s n=%d: %v", typ, enc.name, n, perr)
	}
	if bterr != nil || bt != c.blockType() {
		return block, false, vf("block-type", "%s/%s: BlockType=%d err=%v want %d", typ, enc.name, bt, bterr, c.blockType())
	}
	if bcerr != nil || bc != n {
		return block, false, vf("block-count", "%s/%s: BlockCount=%d err=%v want %d", typ, enc.name, bc, bcerr, n)
	}
	for _, dec := range blockDecoders {
		var gts []int64
		var gc col
		var derr error
		if perr := safely(func() { gts, gc, derr = dec.f(typ, block, dstLen) }); perr != nil {
			return block, false, vf("decode-panic", "%s: %s -> %s n=%d: %v", typ, enc.name, dec.name, n, perr)
		}
		if derr != nil {
			return block, false, vf("decode-error", "%s: %s -> %s n=%d: block produced without error does not decode: %v", typ, enc.name, dec.name, n, derr)
		}
		if d := diffTimes(ts, gts); d != "" {
			return block, false, vf("timestamp-mismatch", "%s: %s -> %s n=%d: %s", typ, enc.name, dec.name, n, d)
		}
		if d := c.diff(gc); d != "" {
			return block, false, vf("value-mismatch", "%s: %s -> %s n=%d: %s", typ, enc.name, dec.name, n, d)
		}
	}
	return block, false, nil
}

func TestPropBlockRoundTrip(t *testing.T) {
	rec.Check(t, 60000, 1000000, func(t *rapid.T) {
		typ := rapid.SampledFrom(fieldTypes).Draw(t, "type")
		n := genN(t, 1)
		ts, ti := genTimes(t, n)
		c, ci := genCol(t, typ, n)
		enc := blockEncoders[rapid.IntRange(0, len(blockEncoders)-1).Draw(t, "encoder")]
		buf, bufClass := genBuf(t, "blockbuf")
		dstLen := genDstLen(t, "dst", n)
		caseJSON := func() map[string]any {
			m := c.jsonable(ts)
			m["encoder"] = enc.name
			m["buf"] = bufClass
			m["dst_len"] = dstLen
			return m
		}

		block, rejected, v := checkBlock(c, ts, enc, buf, dstLen)
		rec.Eval()
		rec.Class("block:type:" + typ)
		rec.Class("block:encoder:" + enc.name)
		rec.Class("block:" + sizeClass(n))
		rec.Class("block:" + bufClass)
		if ti.unsorted {
			rec.Class("block:ts:unsorted")
		} else {
			rec.Class("block:ts:sorted")
		}
		if ci.nan {
			rec.Class("block:float:nan-input")
		}
		if v != nil {
			rec.Fail(t, "TestPropBlockRoundTrip", v.key, v.detail, caseJSON())
		}
		cn := &canon{}
		cn.str("block")
		cn.i64s(ts)
		c.canon(cn)
		if rejected {
			if ci.nan {
				rec.Class("block:rejected:nan")
			} else {
				rec.Class("block:rejected:batch-float-nan-sum-of-infinities(observation)")
			}
			if n >= 2 {
				rec.NonTrivial(cn.String())
			}
			return
		}
		tsEnc, valHdr, okSec := blockSections(block)
		isInt := typ == "integer" || typ == "unsigned"
		if okSec {
			rec.Class("block:ts-encoding:" + timeEncNames[tsEnc&3])
			if isInt {
				rec.Class("block:int-encoding:" + timeEncNames[(valHdr>>4)&3])
			}
		}
		nonRaw := okSec && (tsEnc != 0 || !isInt || valHdr>>4 != 0)
		if n >= 2 && (nonRaw || ti.extreme || ci.extreme) {
			rec.NonTrivial(cn.String())
			if ti.extreme || ci.extreme {
				rec.Class("block:extreme-pool")
			}
			if rec.WantSample() && n <= 6 {
				m := caseJSON()
				m["block"] = fmt.Sprintf("%x", block)
				rec.Sample(m)
			}
		}
		if ci.nan {
			rec.Class("block:nan-accepted-and-preserved")
		}
	})
}
